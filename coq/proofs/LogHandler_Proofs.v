(* LogHandler_Proofs.v — theorems about model/LogHandler.v (logging.FileHandler and
   ScrapliFileHandler as enable_basic_logging installs them). *)
From Verif Require Import Bytes LogFormat LogFormat_Proofs LogHandler.
From Coq Require Import Lia.

Definition count {A} (f : A -> bool) (l : list A) : nat := length (filter f l).

Lemma count_cons : forall A (f : A -> bool) x l,
  count f (x :: l) = ((if f x then 1 else 0) + count f l)%nat.
Proof. intros. unfold count. cbn [filter]. destruct (f x); reflexivity. Qed.

(* ---- the four kinds of record ---- *)
Inductive rclass (r : record) : Type :=
| CMal : get_message r = None -> rclass r
| CUnenc m : get_message r = Some m -> prefixb read_prefix m = true ->
             utf8 (skipn read_prefix_len m) = None -> rclass r
| CRead m p : get_message r = Some m -> prefixb read_prefix m = true ->
              utf8 (skipn read_prefix_len m) = Some p -> rclass r
| COther m : get_message r = Some m -> prefixb read_prefix m = false -> rclass r.

Lemma classify : forall r, rclass r.
Proof.
  intro r. destruct (get_message r) as [m|] eqn:E; [|apply CMal; exact E].
  destruct (prefixb read_prefix m) eqn:P; [|eapply COther; eauto].
  destruct (utf8 (skipn read_prefix_len m)) as [p|] eqn:U; [eapply CRead | eapply CUnenc]; eauto.
Qed.

Definition pay (r : record) : bytes := opt_bytes (read_payload r).

Lemma facts_mal : forall r, get_message r = None ->
  loggable r = false /\ is_read r = false /\ malformed r = true /\ unencodable r = false.
Proof. intros r E. unfold loggable, is_read, malformed, unencodable, is_read, loggable. rewrite E. repeat split. Qed.

Lemma facts_unenc : forall r m, get_message r = Some m -> prefixb read_prefix m = true ->
  utf8 (skipn read_prefix_len m) = None ->
  loggable r = false /\ is_read r = true /\ malformed r = false /\ unencodable r = true.
Proof. intros r m E P U. unfold malformed, unencodable, is_read, loggable. rewrite E, P, U. repeat split. Qed.

Lemma facts_read : forall r m p, get_message r = Some m -> prefixb read_prefix m = true ->
  utf8 (skipn read_prefix_len m) = Some p ->
  loggable r = true /\ is_read r = true /\ malformed r = false /\ unencodable r = false /\ pay r = p.
Proof.
  intros r m p E P U. unfold malformed, unencodable, is_read, loggable, pay, read_payload.
  rewrite E, P, U. repeat split.
Qed.

Lemma facts_other : forall r m, get_message r = Some m -> prefixb read_prefix m = false ->
  loggable r = true /\ is_read r = false /\ malformed r = false /\ unencodable r = false.
Proof. intros r m E P. unfold malformed, unencodable, is_read, loggable. rewrite E, P. repeat split. Qed.

(* ---- the grouping is the right one ---- *)
Lemma groups_cons : forall r rest,
  groups (r :: rest) =
  if is_read r then
    match groups rest with
    | (r2 :: g) :: tl => if is_read r2 then (r :: r2 :: g) :: tl else [r] :: (r2 :: g) :: tl
    | other => [r] :: other
    end
  else [r] :: groups rest.
Proof. reflexivity. Qed.

(* every record is in exactly one group, in order *)
Theorem groups_concat : forall recs, concat (groups recs) = recs.
Proof.
  induction recs as [|r rest IH]; [reflexivity|]. rewrite groups_cons.
  destruct (is_read r).
  - destruct (groups rest) as [|[|r2 g] tl] eqn:G.
    + cbn in *. rewrite <- IH. reflexivity.
    + cbn in *. rewrite <- IH. reflexivity.
    + destruct (is_read r2); cbn in *; rewrite <- IH; reflexivity.
  - cbn. rewrite IH. reflexivity.
Qed.

Definition read_group (g : list record) : bool :=
  match g with [] => false | _ => forallb is_read g end.
Definition lone_other (g : list record) : bool :=
  match g with [r] => negb (is_read r) | _ => false end.

(* a group is a non-empty run of read records or one other record *)
Theorem groups_shape : forall recs, forallb (fun g => read_group g || lone_other g) (groups recs) = true.
Proof.
  induction recs as [|r rest IH]; [reflexivity|]. rewrite groups_cons.
  destruct (is_read r) eqn:R.
  - destruct (groups rest) as [|[|r2 g] tl] eqn:G.
    + cbn. rewrite R. reflexivity.
    + cbn in *. rewrite R. exact IH.
    + destruct (is_read r2) eqn:R2.
      * cbn [forallb] in *. apply andb_true_iff in IH. destruct IH as [H1 H2].
        apply andb_true_iff. split; [|exact H2].
        cbn [read_group lone_other forallb] in *. rewrite R, R2 in *. cbn [andb] in *.
        destruct g; cbn [negb orb andb] in *; [reflexivity|].
        rewrite orb_false_r in *. exact H1.
      * cbn [forallb] in *. apply andb_true_iff. split; [|exact IH]. cbn. rewrite R. reflexivity.
  - cbn [forallb]. apply andb_true_iff. split; [|exact IH]. cbn. rewrite R. reflexivity.
Qed.

(* ... and the runs are maximal: no two neighbouring groups are both read groups *)
Fixpoint adjacent_reads (gs : list (list record)) : bool :=
  match gs with
  | g1 :: ((g2 :: _) as tl) => (read_group g1 && read_group g2) || adjacent_reads tl
  | _ => false
  end.

Lemma groups_head_nonempty : forall recs g tl, groups recs = g :: tl -> g <> [].
Proof.
  intros recs g tl H. destruct recs as [|r rest]; [discriminate|]. rewrite groups_cons in H.
  destruct (is_read r).
  - destruct (groups rest) as [|[|r2 g2] tl2]; try (injection H as <- _; discriminate).
    destruct (is_read r2); injection H as <- _; discriminate.
  - injection H as <- _. discriminate.
Qed.

Theorem groups_maximal : forall recs, adjacent_reads (groups recs) = false.
Proof.
  induction recs as [|r rest IH]; [reflexivity|]. rewrite groups_cons.
  destruct (is_read r) eqn:R.
  - destruct (groups rest) as [|[|r2 g] tl] eqn:G.
    + reflexivity.
    + exfalso. exact (groups_head_nonempty _ _ _ G eq_refl).
    + destruct (is_read r2) eqn:R2.
      * (* merged: the new head group has the same read-ness as the old one *)
        destruct tl as [|g2 tl']; [reflexivity|].
        cbn [adjacent_reads] in *. apply orb_false_iff in IH. destruct IH as [H1 H2].
        apply orb_false_iff. split; [|exact H2].
        cbn [read_group forallb] in *. rewrite R, R2 in *. cbn [andb] in *. exact H1.
      * cbn [adjacent_reads]. apply orb_false_iff. split; [|exact IH].
        cbn [read_group forallb]. rewrite R2. cbn. rewrite andb_false_r. reflexivity.
  - destruct (groups rest) as [|g2 tl] eqn:G; [reflexivity|].
    cbn [adjacent_reads]. apply orb_false_iff. split; [|exact IH].
    cbn [read_group forallb]. rewrite R. reflexivity.
Qed.

(* the bytes of a read group's message are the payloads of its records, in order *)
Theorem group_message_read : forall r g, is_read r = true ->
  group_message (r :: g) = read_out ++ repr_bytes (flat_map pay (r :: g)).
Proof. intros. unfold group_message. rewrite H. reflexivity. Qed.

Theorem group_message_other : forall r, is_read r = false ->
  group_message [r] = opt_str (get_message r).
Proof. intros. unfold group_message. rewrite H. reflexivity. Qed.

(* no payload byte is lost, duplicated or reordered by the grouping *)
Theorem groups_payload : forall recs,
  flat_map (flat_map pay) (groups recs) = flat_map pay recs.
Proof.
  intro recs. rewrite <- (groups_concat recs) at 2.
  induction (groups recs) as [|g gs IH]; [reflexivity|].
  cbn [flat_map concat]. rewrite flat_map_app, IH. reflexivity.
Qed.

(* a run of reads in front of the end of the session or of a non-read record is one group *)
Lemma groups_reads_prefix : forall g0 l,
  g0 <> [] -> forallb is_read g0 = true ->
  match l with [] => True | r :: _ => is_read r = false end ->
  groups (g0 ++ l) = g0 :: groups l.
Proof.
  induction g0 as [|a g IH]; intros l Hne Hall Hl; [contradiction|].
  cbn [forallb] in Hall. apply andb_true_iff in Hall. destruct Hall as [Ha Hg].
  cbn [app]. rewrite groups_cons, Ha.
  destruct g as [|b g'].
  - cbn [app]. destruct l as [|r rest]; [reflexivity|].
    rewrite groups_cons, Hl. cbv iota. rewrite Hl. reflexivity.
  - rewrite (IH l); [|discriminate|exact Hg|exact Hl].
    cbn [forallb] in Hg. apply andb_true_iff in Hg. destruct Hg as [Hb _]. rewrite Hb. reflexivity.
Qed.

Lemma render_groups_app : forall c a id b,
  render_groups c id (a ++ b) = render_groups c id a ++ render_groups c (id + N.of_nat (length a)) b.
Proof.
  induction a as [|g a IH]; intros id b.
  - cbn [app length render_groups N.of_nat]. rewrite N.add_0_r. reflexivity.
  - cbn [app length render_groups]. rewrite IH. rewrite <- app_assoc. cbn [app].
    replace (id + 1 + N.of_nat (length a)) with (id + N.of_nat (S (length a))) by lia.
    reflexivity.
Qed.

(* ---- the handlers as they are now ---- *)
Section Fixed.
Variable c : fconf.
Let C := fixed c.

Lemma write_record_ok : forall r st m, get_message r = Some m ->
  exists st2, write_record C r st = st2 /\
    pending st2 = pending st /\ payload st2 = payload st /\ next_id st2 = next_id st + 1 /\
    file st2 = file st ++ opt_str (format_record true c (next_id st) (r_meta r) m) ++ [10] /\
    errors st2 = errors st /\ escaped st2 = escaped st.
Proof.
  intros r st m E. eexists; split; [reflexivity|]. unfold write_record. rewrite E.
  unfold C, fixed. cbn [portfix fc].
  destruct (format_record_total c (next_id st) (r_meta r) m) as [line L]. rewrite L.
  cbn. repeat split.
Qed.

Definition rep (st : hstate) (g0 : list record) : Prop :=
  match g0 with
  | [] => pending st = None /\ payload st = []
  | r0 :: _ => pending st = Some r0 /\ payload st = flat_map pay g0 /\ forallb is_read g0 = true
  end.

Definition as_groups (g0 : list record) : list (list record) :=
  match g0 with [] => [] | _ => [g0] end.

Lemma flush_rep : forall st g0, rep st g0 ->
  exists st1, flush_pending C st = st1 /\
    pending st1 = None /\ payload st1 = [] /\
    next_id st1 = next_id st + N.of_nat (length (as_groups g0)) /\
    file st1 = file st ++ render_groups c (next_id st) (as_groups g0) /\
    errors st1 = errors st /\ escaped st1 = escaped st.
Proof.
  intros st g0 R. eexists; split; [reflexivity|]. unfold flush_pending. destruct g0 as [|r0 g].
  - destruct R as [P Q]. rewrite P. cbn [as_groups length N.of_nat render_groups].
    rewrite N.add_0_r, app_nil_r. repeat split; assumption.
  - destruct R as [P [Q A]]. rewrite P. unfold emit_buffered. rewrite P.
    change (lazyfix C) with true. cbv iota.
    set (r' := mkR (read_out ++ repr_bytes (payload st)) [] (r_meta r0)).
    assert (Em : get_message r' = Some (read_out ++ repr_bytes (payload st))) by reflexivity.
    destruct (write_record_ok r' st _ Em) as [st2 [E2 [_ [_ [I [F [Er Es]]]]]]].
    rewrite E2. cbn [pending payload next_id file errors escaped].
    cbn [as_groups length N.of_nat render_groups group_meta].
    cbn [forallb] in A. apply andb_true_iff in A. destruct A as [A0 _].
    rewrite (group_message_read r0 g A0), <- Q.
    repeat split; assumption.
Qed.

(* the buffering handler, for every sequence of records, from every reachable state *)
Lemma run_spec : forall recs st g0, rep st g0 ->
  let st' := buffered_close C (fold_left (buffered_emit C) recs st) in
  file st' = file st ++ render_groups c (next_id st) (groups (g0 ++ filter loggable recs))
  /\ errors st' = (errors st + count malformed recs)%nat
  /\ escaped st' = (escaped st + count unencodable recs)%nat
  /\ pending st' = None.
Proof.
  induction recs as [|r recs IH]; intros st g0 R.
  - cbn [fold_left filter]. rewrite app_nil_r. unfold buffered_close, C, fixed. cbn [closefix]. fold (fixed c). fold C.
    destruct (flush_rep st g0 R) as [st1 [E1 [P1 [_ [_ [F1 [Er Es]]]]]]]. rewrite E1.
    unfold count. cbn [filter length]. rewrite !Nat.add_0_r. repeat split; try assumption.
    rewrite F1. f_equal. f_equal. destruct g0 as [|r0 g]; [reflexivity|].
    destruct R as [_ [_ A]]. cbn [as_groups].
    rewrite <- (app_nil_r (r0 :: g)) at 2.
    rewrite (groups_reads_prefix (r0 :: g) []); [reflexivity | discriminate | exact A | exact I].
  - cbn [fold_left]. rewrite !count_cons. cbn [filter].
    destruct (classify r) as [E | m E P U | m p E P U | m E P].
    + (* malformed: handleError, nothing else moves *)
      destruct (facts_mal r E) as [L [_ [M Un]]]. rewrite L, M, Un.
      assert (S2 : buffered_emit C st r = with_error st).
      { unfold buffered_emit, C, fixed. cbn [lazyfix]. rewrite E. reflexivity. }
      rewrite S2. specialize (IH (with_error st) g0).
      assert (R2 : rep (with_error st) g0) by (destruct g0; exact R).
      destruct (IH R2) as [F [Er [Es Pn]]]. cbn [with_error file next_id errors escaped] in *.
      repeat split; try assumption; lia.
    + (* a read payload that does not encode: the exception leaves emit, nothing else moves *)
      destruct (facts_unenc r m E P U) as [L [_ [M Un]]]. rewrite L, M, Un.
      assert (S2 : buffered_emit C st r = with_escape st).
      { unfold buffered_emit, C, fixed. cbn [lazyfix]. rewrite E, P, U. reflexivity. }
      rewrite S2. specialize (IH (with_escape st) g0).
      assert (R2 : rep (with_escape st) g0) by (destruct g0; exact R).
      destruct (IH R2) as [F [Er [Es Pn]]]. cbn [with_escape file next_id errors escaped] in *.
      repeat split; try assumption; lia.
    + (* a read record joins the pending group *)
      destruct (facts_read r m p E P U) as [L [Rd [M [Un Py]]]]. rewrite L, M, Un.
      set (st2 := buffered_emit C st r).
      assert (S2 : rep st2 (g0 ++ [r]) /\ file st2 = file st /\ next_id st2 = next_id st /\
                   errors st2 = errors st /\ escaped st2 = escaped st).
      { unfold st2, buffered_emit, C, fixed. cbn [lazyfix]. rewrite E, P, U.
        destruct g0 as [|r0 g].
        - destruct R as [Pn Pl]. rewrite Pn. cbn [app rep pending payload file next_id errors escaped].
          repeat split. cbn [flat_map]. rewrite Py, app_nil_r. reflexivity.
          cbn [forallb]. rewrite Rd. reflexivity.
        - destruct R as [Pn [Pl A]]. rewrite Pn. cbn [app rep pending payload file next_id errors escaped].
          repeat split.
          + rewrite Pl. change (r0 :: g ++ [r]) with ((r0 :: g) ++ [r]). rewrite flat_map_app.
            cbn [flat_map]. rewrite Py, app_nil_r. reflexivity.
          + change (r0 :: g ++ [r]) with ((r0 :: g) ++ [r]). rewrite forallb_app, A. cbn [forallb].
            rewrite Rd. reflexivity. }
      destruct S2 as [R2 [F2 [I2 [Er2 Es2]]]].
      destruct (IH st2 (g0 ++ [r]) R2) as [F [Er [Es Pn]]].
      rewrite F2, I2, Er2, Es2 in *. rewrite <- app_assoc in F. cbn [app] in F.
      repeat split; try assumption; lia.
    + (* any other record: the pending group is written first, then the record *)
      destruct (facts_other r m E P) as [L [Rd [M Un]]]. rewrite L, M, Un.
      assert (S2 : buffered_emit C st r = write_record C r (flush_pending C st)).
      { unfold buffered_emit, C, fixed. cbn [lazyfix]. rewrite E, P. reflexivity. }
      rewrite S2.
      destruct (flush_rep st g0 R) as [st1 [E1 [P1 [Q1 [I1 [F1 [Er1 Es1]]]]]]]. rewrite E1.
      destruct (write_record_ok r st1 m E) as [st2 [E2 [P2 [Q2 [I2 [F2 [Er2 Es2]]]]]]]. rewrite E2.
      assert (R2 : rep st2 []) by (split; congruence).
      destruct (IH st2 [] R2) as [F [Er [Es Pn]]]. cbn [app] in F.
      repeat split; try (rewrite ?Er, ?Es, ?Er2, ?Es2, ?Er1, ?Es1; first [assumption | lia]).
      rewrite F, F2, F1, I2, I1.
      assert (G : groups (g0 ++ r :: filter loggable recs) = as_groups g0 ++ [r] :: groups (filter loggable recs)).
      { destruct g0 as [|r0 g].
        - cbn [app as_groups]. rewrite groups_cons, Rd. reflexivity.
        - destruct R as [_ [_ A]]. cbn [as_groups].
          rewrite groups_reads_prefix; [|discriminate|exact A|exact Rd].
          rewrite groups_cons, Rd. reflexivity. }
      rewrite G, render_groups_app. cbn [render_groups group_meta].
      rewrite (group_message_other r Rd), E. cbn [opt_str].
      rewrite <- !app_assoc. cbn [app]. reflexivity.
Qed.

(* file_log_complete: for EVERY sequence of records followed by close, in write and in append mode:
   the file is what was there (append) followed by one line per group of the loggable records —
   every non-read message on its own line, every maximal run of read messages coalesced into one
   line whose payload is the concatenation of theirs — numbered from 1, in order; every malformed
   record is reported once through handleError, and nothing stays pending *)
Theorem file_log_complete : forall existing append recs,
  let st := run_buffered C existing append recs in
  file st = (if append then existing else []) ++ render_groups c 1 (groups (filter loggable recs))
  /\ errors st = count malformed recs
  /\ escaped st = count unencodable recs
  /\ pending st = None.
Proof.
  intros. unfold run_buffered in st.
  assert (R : rep (h_init existing append) []) by (split; reflexivity).
  destruct (run_spec recs (h_init existing append) [] R) as [F [Er [Es Pn]]].
  cbn [h_init file next_id errors escaped app] in *. repeat split; assumption.
Qed.

(* the plain handler: one line per record *)
Lemma plain_spec : forall recs st,
  let st' := fold_left (plain_emit C) recs st in
  file st' = file st ++ render_plain c (next_id st) (filter (fun r => negb (malformed r)) recs)
  /\ errors st' = (errors st + count malformed recs)%nat /\ escaped st' = escaped st.
Proof.
  induction recs as [|r recs IH]; intro st.
  - cbn. rewrite app_nil_r, Nat.add_0_r. repeat split.
  - cbn [fold_left filter]. rewrite count_cons. change (plain_emit C st r) with (write_record C r st).
    destruct (get_message r) as [m|] eqn:E.
    + destruct (write_record_ok r st m E) as [st2 [E2 [_ [_ [I2 [F2 [Er2 Es2]]]]]]]. rewrite E2.
      destruct (IH st2) as [F [Er Es]].
      assert (M : malformed r = false) by (unfold malformed; rewrite E; reflexivity).
      rewrite M. cbn [negb render_plain]. rewrite E. cbn [opt_str].
      rewrite F, F2, I2, Er, Er2, Es, Es2. split; [|split; [lia|reflexivity]].
      rewrite <- !app_assoc. reflexivity.
    + assert (S2 : write_record C r st = with_error st) by (unfold write_record; rewrite E; reflexivity).
      rewrite S2. destruct (IH (with_error st)) as [F [Er Es]].
      assert (M : malformed r = true) by (unfold malformed; rewrite E; reflexivity).
      rewrite M. cbn [negb with_error file next_id errors escaped] in *. repeat split; try assumption. lia.
Qed.

Theorem plain_log_complete : forall existing append recs,
  let st := run_plain C existing append recs in
  file st = (if append then existing else []) ++ render_plain c 1 (filter (fun r => negb (malformed r)) recs)
  /\ errors st = count malformed recs /\ escaped st = 0%nat.
Proof.
  intros. unfold run_plain in st. destruct (plain_spec recs (h_init existing append)) as [F [Er Es]].
  cbn [h_init file next_id errors escaped] in *. repeat split; assumption.
Qed.

End Fixed.

Lemma filter_all : forall A (g : A -> bool) l, forallb g l = true -> filter g l = l.
Proof.
  induction l as [|x l IH]; intro H; [reflexivity|]. cbn [forallb] in H. apply andb_true_iff in H.
  destruct H as [H1 H2]. cbn [filter]. rewrite H1, IH; [reflexivity | exact H2].
Qed.

Lemma count_zero : forall A (f g : A -> bool) l,
  forallb g l = true -> (forall x, g x = true -> f x = false) -> count f l = 0%nat.
Proof.
  intros A f g l H Hf. unfold count. induction l as [|x l IH]; [reflexivity|].
  cbn [forallb] in H. apply andb_true_iff in H. destruct H as [H1 H2].
  cbn [filter]. rewrite (Hf x H1). apply IH. exact H2.
Qed.

(* for a session of well-formed records nothing is reported and nothing is dropped *)
Corollary file_log_complete_wellformed : forall c existing append recs,
  forallb loggable recs = true ->
  let st := run_buffered (fixed c) existing append recs in
  file st = (if append then existing else []) ++ render_groups c 1 (groups recs)
  /\ errors st = 0%nat /\ escaped st = 0%nat /\ pending st = None.
Proof.
  intros c existing append recs H.
  destruct (file_log_complete c existing append recs) as [F [Er [Es Pn]]].
  rewrite (filter_all _ _ _ H) in F. cbv zeta. repeat split; try assumption.
  - rewrite Er. apply (count_zero _ _ _ _ H). intros r L. unfold malformed. unfold loggable in L.
    destruct (get_message r); [reflexivity|discriminate].
  - rewrite Es. apply (count_zero _ _ _ _ H). intros r L. unfold unencodable. rewrite L. apply andb_false_r.
Qed.

(* ---- the handlers as they were at the pinned commit ---- *)
Definition rd (template : str) (args : list arg) : record :=
  mkR template args (mkM [84] [68] (mkX None None None) [109] [102] 1).
Definition lazy_read (b : bytes) : record := rd (read_prefix ++ [37; 114]) [ABytes b].   (* "read: %r" *)
Definition eager (m : str) : record := rd m [].

(* the full statement, for a configuration of the handler *)
Definition file_log_complete_for (h : hconf) : Prop :=
  forall existing append recs, forallb loggable recs = true ->
    let st := run_buffered h existing append recs in
    file st = (if append then existing else []) ++ render_groups (fc h) 1 (groups recs)
    /\ errors st = 0%nat.

Theorem file_log_complete_fixed : forall c, file_log_complete_for (fixed c).
Proof.
  intros c existing append recs H. destruct (file_log_complete_wellformed c existing append recs H) as [F [E _]].
  split; assumption.
Qed.

(* (a) slicing the template of lazily formatted read records: two reads then a write lose both
   payloads and the coalesced record fails to format *)
Theorem file_log_complete_refuted_for_template_slicing :
  ~ file_log_complete_for (mkHC true false true (mkFC false true)).
Proof.
  intro H.
  specialize (H [] false [lazy_read [97; 98; 99]; lazy_read [100; 101; 102]; eager [119]] eq_refl).
  destruct H as [_ E]. vm_compute in E. discriminate.
Qed.

(* (b) nothing written at close: a session that ends on a read loses it *)
Theorem file_log_complete_refuted_without_flush_at_close :
  ~ file_log_complete_for (mkHC true true false (mkFC false true)).
Proof.
  intro H. specialize (H [] false [eager [119]; eager (read_prefix ++ [120])] eq_refl).
  destruct H as [F _]. vm_compute in F. discriminate.
Qed.

Theorem file_log_complete_refuted_for_pinned : ~ file_log_complete_for (pinned (mkFC false true)).
Proof.
  intro H. specialize (H [] false [eager (read_prefix ++ [120])] eq_refl).
  destruct H as [F _]. vm_compute in F. discriminate.
Qed.

Example wellformed_nontrivial :
  forallb loggable [lazy_read [39; 37; 255]; lazy_read []; eager [119]; eager (read_prefix ++ [233])] = true
  /\ groups [lazy_read [39; 37; 255]; lazy_read []; eager [119]; eager (read_prefix ++ [233])]
     = [[lazy_read [39; 37; 255]; lazy_read []]; [eager [119]]; [eager (read_prefix ++ [233])]]
  /\ group_message [lazy_read [39; 37; 255]; lazy_read []]
     = read_out ++ repr_bytes (repr_bytes [39; 37; 255] ++ repr_bytes []).
Proof. vm_compute. repeat split. Qed.

(* the hot-path record  logger.debug("read: %r", buf)  is a read record for every payload *)
Lemma prefixb_app : forall p s, prefixb p (p ++ s) = true.
Proof. induction p as [|x p IH]; intro s; [reflexivity|]. cbn. rewrite N.eqb_refl, IH. reflexivity. Qed.

Lemma skipn_app_exact : forall A (p s : list A), skipn (length p) (p ++ s) = s.
Proof. induction p as [|x p IH]; intro s; [reflexivity|]. cbn. apply IH. Qed.

Theorem lazy_read_is_read : forall b m,
  is_read (mkR (read_prefix ++ [37; 114]) [ABytes b] m) = true
  /\ pay (mkR (read_prefix ++ [37; 114]) [ABytes b] m) = opt_bytes (utf8 (repr_bytes b)).
Proof.
  intros b m.
  assert (G : get_message (mkR (read_prefix ++ [37; 114]) [ABytes b] m) = Some (read_prefix ++ repr_bytes b)).
  { unfold get_message. cbn [r_args r_msg]. cbn. rewrite app_nil_r. reflexivity. }
  unfold is_read, pay, read_payload. rewrite G, prefixb_app.
  change read_prefix_len with (length read_prefix). rewrite skipn_app_exact.
  split; reflexivity.
Qed.

(* ---- what was true of the pinned commit: outside the three findings' regions it behaved like the
   code does now (eagerly formatted records only, no host without a port, the session does not end on a
   read message) ---- *)
Definition host_ok (x : extras) : bool :=
  match x_host x, x_port x with Some _, None => false | _, _ => true end.
Definition eager_rec (r : record) : bool := match r_args r with [] => true | _ => false end.
Definition good (r : record) : bool := loggable r && eager_rec r && host_ok (m_x (r_meta r)).
(* is the last record a non-read one ([p0] when there is none) *)
Definition settledb (p0 : bool) (recs : list record) : bool :=
  fold_left (fun _ r => negb (is_read r)) recs p0.

Lemma target_eq : forall x, host_ok x = true -> target false x = target true x.
Proof.
  intros [h p u]. unfold host_ok, target, host_port. cbn [x_host x_port].
  destruct h; destruct p; intro H; try reflexivity. discriminate.
Qed.

Section Pinned.
Variable c : fconf.

Lemma write_record_eq : forall r st, host_ok (m_x (r_meta r)) = true ->
  write_record (pinned c) r st = write_record (fixed c) r st.
Proof.
  intros r st H. unfold write_record, pinned, fixed. cbn [portfix fc].
  destruct (get_message r); [|reflexivity]. unfold format_record. rewrite (target_eq _ H). reflexivity.
Qed.

Definition inv (st : hstate) : Prop :=
  match pending st with
  | None => True
  | Some r0 => r_args r0 = [] /\ host_ok (m_x (r_meta r0)) = true
  end.

Lemma emit_buffered_eq : forall st, inv st -> emit_buffered (pinned c) st = emit_buffered (fixed c) st.
Proof.
  intros st I. unfold emit_buffered, inv in *. destruct (pending st) as [r0|]; [|reflexivity].
  destruct I as [A H]. change (lazyfix (pinned c)) with false. change (lazyfix (fixed c)) with true.
  cbv iota. rewrite A. rewrite write_record_eq; [reflexivity | exact H].
Qed.

Lemma flush_pending_eq : forall st, inv st -> flush_pending (pinned c) st = flush_pending (fixed c) st.
Proof.
  intros st I. unfold flush_pending. destruct (pending st) eqn:E; [|reflexivity]. apply emit_buffered_eq. exact I.
Qed.

Lemma pending_write_record : forall h r st, pending (write_record h r st) = pending st.
Proof.
  intros. unfold write_record. destruct (get_message r); [|reflexivity].
  destruct (format_record _ _ _ _ _); reflexivity.
Qed.

Lemma pending_flush : forall h st, pending (flush_pending h st) = None.
Proof.
  intros. unfold flush_pending. destruct (pending st) eqn:E; [|exact E].
  unfold emit_buffered. rewrite E. reflexivity.
Qed.

Lemma emit_eq : forall r st, good r = true -> inv st ->
  buffered_emit (pinned c) st r = buffered_emit (fixed c) st r
  /\ inv (buffered_emit (fixed c) st r)
  /\ (is_read r = false -> pending (buffered_emit (fixed c) st r) = None).
Proof.
  intros r st G I. unfold good in G. apply andb_true_iff in G. destruct G as [G H].
  apply andb_true_iff in G. destruct G as [L A].
  unfold eager_rec in A. destruct (r_args r) eqn:Ea; [|discriminate].
  assert (Gm : get_message r = Some (r_msg r)) by (unfold get_message; rewrite Ea; reflexivity).
  unfold buffered_emit. change (lazyfix (pinned c)) with false. change (lazyfix (fixed c)) with true.
  cbv iota. rewrite Gm. unfold is_read. rewrite Gm.
  destruct (prefixb read_prefix (r_msg r)) eqn:P.
  - unfold loggable in L. rewrite Gm, P in L.
    destruct (utf8 (skipn read_prefix_len (r_msg r))) as [p|]; [|discriminate].
    unfold inv in *. destruct (pending st) as [r0|] eqn:Ep.
    + split; [reflexivity|]. split; [exact I | discriminate].
    + split; [reflexivity|]. split; [split; [exact Ea | exact H] | discriminate].
  - rewrite (flush_pending_eq st I), write_record_eq by exact H.
    split; [reflexivity|]. unfold inv. rewrite pending_write_record, pending_flush. split; [exact Logic.I | reflexivity].
Qed.

Lemma fold_eq : forall recs st p0, inv st -> forallb good recs = true ->
  (p0 = true -> pending st = None) ->
  fold_left (buffered_emit (pinned c)) recs st = fold_left (buffered_emit (fixed c)) recs st
  /\ (settledb p0 recs = true -> pending (fold_left (buffered_emit (fixed c)) recs st) = None).
Proof.
  induction recs as [|r recs IH]; intros st p0 I G P0.
  - cbn. split; [reflexivity | exact P0].
  - cbn [forallb] in G. apply andb_true_iff in G. destruct G as [G1 G2].
    destruct (emit_eq r st G1 I) as [E [I2 S]]. cbn [fold_left]. rewrite E.
    unfold settledb. cbn [fold_left]. fold (settledb (negb (is_read r)) recs).
    apply IH; [exact I2 | exact G2 |].
    intro N. apply S. destruct (is_read r); [discriminate | reflexivity].
Qed.

Theorem file_log_complete_pinned_partial : forall existing append recs,
  forallb good recs = true -> settledb true recs = true ->
  run_buffered (pinned c) existing append recs = run_buffered (fixed c) existing append recs.
Proof.
  intros existing append recs G S. unfold run_buffered.
  destruct (fold_eq recs (h_init existing append) true I G (fun _ => eq_refl)) as [E P].
  rewrite E. unfold buffered_close. change (closefix (pinned c)) with false. change (closefix (fixed c)) with true.
  cbv iota. unfold flush_pending. rewrite (P S). reflexivity.
Qed.

End Pinned.

Example pinned_partial_nontrivial :
  let recs := [eager (read_prefix ++ [97]); eager (read_prefix ++ [98]); eager [119]; eager (read_prefix ++ [99]); eager [120]] in
  forallb good recs = true /\ settledb true recs = true
  /\ groups recs = [[eager (read_prefix ++ [97]); eager (read_prefix ++ [98])]; [eager [119]]; [eager (read_prefix ++ [99])]; [eager [120]]].
Proof. vm_compute. repeat split. Qed.
