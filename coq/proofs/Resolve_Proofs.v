(* Resolve_Proofs.v — theorems about model/Resolve.v (the constructor's parameter resolution).
   Everything is for ALL arguments and ALL environments (file system, ssh-config lookup result). *)
From Coq Require Import String Ascii Lia.
From Verif Require Import Bytes Resolve.

(* ---- _update_ssh_args_from_ssh_config keeps driver and transport in step (code as it is now) ---- *)
Definition in_step (d : dstate) : Prop :=
  b_host (d_base d) = d_host d /\ b_port (d_base d) = d_port d.

Lemma update_in_step explicit c d : in_step d -> in_step (update_from_cfg true explicit c d).
Proof.
  unfold in_step, update_from_cfg. intros [Hh Hp].
  destruct (port_truthy (c_port c)); destruct explicit;
    destruct (nonempty_s (c_user c) && negb (nonempty_s _));
    destruct (nonempty_s (c_identity c) && negb (nonempty_s _)); cbn; auto.
Qed.

Lemma update_host fx explicit c d : d_host (update_from_cfg fx explicit c d) = d_host d.
Proof.
  unfold update_from_cfg.
  destruct (port_truthy (c_port c)); destruct fx; destruct explicit;
    destruct (nonempty_s (c_user c) && negb (nonempty_s _));
    destruct (nonempty_s (c_identity c) && negb (nonempty_s _)); reflexivity.
Qed.

Lemma update_port explicit c d :
  d_port (update_from_cfg true explicit c d) =
  if explicit then d_port d
  else match port_truthy (c_port c) with Some n => n | None => d_port d end.
Proof.
  unfold update_from_cfg.
  destruct (port_truthy (c_port c)); destruct explicit;
    destruct (nonempty_s (c_user c) && negb (nonempty_s _));
    destruct (nonempty_s (c_identity c) && negb (nonempty_s _)); reflexivity.
Qed.

Lemma update_user fx explicit c d :
  d_user (update_from_cfg fx explicit c d) = if nonempty_s (d_user d) then d_user d else c_user c.
Proof.
  unfold update_from_cfg.
  destruct (port_truthy (c_port c)); destruct fx; destruct explicit; cbn;
    destruct (d_user d) eqn:Hu; destruct (c_user c) eqn:Hc; cbn;
    destruct (nonempty_s (c_identity c) && negb (nonempty_s _)); cbn; congruence.
Qed.

Lemma update_key fx explicit c d :
  d_key (update_from_cfg fx explicit c d) = if nonempty_s (d_key d) then d_key d else c_identity c.
Proof.
  unfold update_from_cfg.
  destruct (port_truthy (c_port c)); destruct fx; destruct explicit; cbn;
    destruct (nonempty_s (c_user c) && negb (nonempty_s (d_user d))); cbn;
    destruct (d_key d) eqn:Hk; destruct (c_identity c) eqn:Hc; cbn; congruence.
Qed.

(* ---- inversion of a successful construction ---- *)
Lemma resolve_built fx e a r b p :
  resolve fx e a = Built r b p ->
  exists pn key cfg kh,
    a_host a <> [] /\
    (match a_port a with PNone => PInt (default_port (a_transport a)) | q => q end) = PInt pn /\
    (fx && starts_dash (strip_s (a_host a))) = false /\
    setup_key e (a_key a) = Some key /\
    setup_files e (a_transport a) (a_cfg a) (a_kh a) = Some (cfg, kh) /\
    let h := strip_s (a_host a) in
    let explicit := match a_port a with PNone => false | _ => true end in
    let d0 := mkD h pn (a_user a) key (if fx then mkB h pn else mkB (a_host a) pn) in
    let d := if uses_ssh_config (a_transport a)
             then update_from_cfg fx explicit (e_lookup e cfg h) d0 else d0 in
    r = mkR (d_host d) (d_port d) (d_user d) (d_key d) (a_strict a) cfg kh /\
    b = d_base d /\
    p = (if has_ssh_fields (a_transport a)
         then Some (mkP (d_user d) (d_key d) (a_strict a) cfg kh) else None).
Proof.
  unfold resolve. intros H.
  destruct (a_host a) eqn:Hh; [discriminate|].
  destruct (match a_port a with PNone => PInt (default_port (a_transport a)) | q => q end) as [|pn|] eqn:Hp;
    try discriminate.
  destruct (fx && starts_dash (strip_s (n :: s))) eqn:Hd; [discriminate|].
  destruct (setup_key e (a_key a)) as [key|] eqn:Hk; [|discriminate].
  destruct (setup_files e (a_transport a) (a_cfg a) (a_kh a)) as [[cfg kh]|] eqn:Hf; [|discriminate].
  exists pn, key, cfg, kh. inversion H; subst; clear H.
  repeat split; try reflexivity; try assumption. discriminate.
Qed.

(* ---- Theorem 1: what the transport dials with is what the driver reports ---- *)
Theorem reported_eq_dialled e a r b p :
  resolve true e a = Built r b p ->
  b_host b = r_host r /\ b_port b = r_port r /\
  p = (if has_ssh_fields (a_transport a)
       then Some (mkP (r_user r) (r_key r) (r_strict r) (r_cfg r) (r_kh r)) else None).
Proof.
  intros H. apply resolve_built in H.
  destruct H as (pn & key & cfg & kh & _ & _ & _ & _ & _ & Hr & Hb & Hpl).
  cbv zeta in Hr, Hb, Hpl. subst r b p. cbn [r_host r_port r_user r_key r_strict r_cfg r_kh].
  set (d0 := mkD _ _ _ _ _).
  assert (I0 : in_step d0) by (split; reflexivity).
  destruct (uses_ssh_config (a_transport a)).
  - destruct (update_in_step (match a_port a with PNone => false | _ => true end)
                (e_lookup e cfg (strip_s (a_host a))) d0 I0) as [Hh Hp].
    repeat split; assumption.
  - destruct I0 as [Hh Hp]. repeat split; assumption.
Qed.

(* ---- Theorem 2: the fixed precedence, field by field ---- *)
Lemma setup_files_spec e t cf kh c k :
  setup_files e t cf kh = Some (c, k) ->
  c = spec_file e t cf MAGIC_CFG USER_CFG SYS_CFG /\ k = spec_file e t kh MAGIC_KH USER_KH SYS_KH.
Proof.
  unfold setup_files, spec_file, resolve_ssh_config, resolve_known_hosts.
  destruct (is_telnet t) eqn:Ht.
  - intros H; inversion H; auto.
  - destruct (farg_bad cf || farg_bad kh) eqn:Hb; [discriminate|].
    intros H; inversion H; subst; clear H.
    split.
    + destruct cf as [| |[|x xs]|]; try reflexivity; destruct t; try discriminate Ht; reflexivity.
    + destruct kh as [| |[|x xs]|]; try reflexivity; destruct t; try discriminate Ht; reflexivity.
Qed.

Theorem precedence e a r b p :
  resolve true e a = Built r b p ->
  r_host r = strip_s (a_host a) /\
  r_port r = spec_port e a (r_cfg r) (r_host r) /\
  r_user r = spec_user e a (r_cfg r) (r_host r) /\
  r_key r = spec_key e a (r_cfg r) (r_host r) /\
  r_strict r = a_strict a /\
  r_cfg r = spec_file e (a_transport a) (a_cfg a) MAGIC_CFG USER_CFG SYS_CFG /\
  r_kh r = spec_file e (a_transport a) (a_kh a) MAGIC_KH USER_KH SYS_KH.
Proof.
  intros H. apply resolve_built in H.
  destruct H as (pn & key & cfg & kh & _ & Hp & _ & Hk & Hf & Hr & _ & _).
  cbv zeta in Hr. subst r. cbn [r_host r_port r_user r_key r_strict r_cfg r_kh].
  apply setup_files_spec in Hf. destruct Hf as [Hc Hkh].
  set (h := strip_s (a_host a)).
  set (ex := match a_port a with PNone => false | _ => true end).
  set (d0 := mkD _ _ _ _ _).
  assert (Hhost : d_host (if uses_ssh_config (a_transport a)
                          then update_from_cfg true ex (e_lookup e cfg h) d0 else d0) = h).
  { destruct (uses_ssh_config (a_transport a)); [rewrite update_host|]; reflexivity. }
  rewrite Hhost.
  unfold spec_port, spec_user, spec_key, setup_key in *.
  repeat split; try assumption; try reflexivity.
  - (* port *)
    destruct (uses_ssh_config (a_transport a)) eqn:Hu.
    + rewrite update_port. subst ex d0. cbn [d_port].
      destruct (a_port a) as [|n|]; try discriminate Hp.
      * injection Hp as Hpn. rewrite <- Hpn. unfold default_port.
        destruct (port_truthy (c_port (e_lookup e cfg h))); reflexivity.
      * injection Hp as Hpn. symmetry; exact Hpn.
    + subst d0. cbn [d_port].
      destruct (a_port a) as [|n|]; try discriminate Hp; injection Hp as Hpn; rewrite <- Hpn; reflexivity.
  - (* user *)
    destruct (uses_ssh_config (a_transport a)) eqn:Hu.
    + rewrite update_user. reflexivity.
    + subst d0. cbn [d_user]. destruct (a_user a); reflexivity.
  - (* key *)
    destruct (uses_ssh_config (a_transport a)) eqn:Hu.
    + rewrite update_key. subst d0. cbn [d_key].
      destruct (nonempty_s (a_key a)) eqn:Hn.
      * rewrite Hk. reflexivity.
      * injection Hk as Hk'. rewrite <- Hk'. reflexivity.
    + subst d0. cbn [d_key].
      destruct (nonempty_s (a_key a)) eqn:Hn.
      * rewrite Hk. destruct key; reflexivity.
      * injection Hk as Hk'. rewrite <- Hk'. reflexivity.
Qed.

(* ---- Theorem 3: a host that ssh could read as an option never gets through ---- *)
Theorem host_never_option e a r b p :
  resolve true e a = Built r b p ->
  starts_dash (r_host r) = false /\ starts_dash (b_host b) = false.
Proof.
  intros H. pose proof (reported_eq_dialled _ _ _ _ _ H) as (Hh & _ & _).
  pose proof (precedence _ _ _ _ _ H) as (Hs & _).
  apply resolve_built in H. destruct H as (pn & key & cfg & kh & _ & _ & Hd & _).
  cbn [andb] in Hd. rewrite Hh, Hs. split; exact Hd.
Qed.

(* ---- Theorem 4: exactly which argument combinations are refused, and with what ---- *)
Definition valid_args (e : env) (a : args) : Prop :=
  a_host a <> [] /\ a_port a <> PNotInt /\ starts_dash (strip_s (a_host a)) = false /\
  setup_key e (a_key a) <> None /\
  (is_telnet (a_transport a) = true \/ (farg_bad (a_cfg a) = false /\ farg_bad (a_kh a) = false)).

Theorem resolve_total_on_valid e a :
  valid_args e a -> exists r b p, resolve true e a = Built r b p.
Proof.
  intros (Hh & Hp & Hd & Hk & Hf). unfold resolve.
  destruct (a_host a) eqn:Eh; [congruence|].
  destruct (a_port a) eqn:Ep; try congruence;
    cbn [andb]; rewrite Hd;
    (destruct (setup_key e (a_key a)) eqn:Ek; [|congruence]);
    (assert (Hs : exists c k, setup_files e (a_transport a) (a_cfg a) (a_kh a) = Some (c, k));
     [unfold setup_files; destruct Hf as [Ht|[H1 H2]];
      [rewrite Ht; eauto|rewrite H1, H2; destruct (is_telnet (a_transport a)); cbn; eauto]|]);
    destruct Hs as (c & k & Hs); rewrite Hs; eauto.
Qed.

Theorem resolve_refuses_only_invalid e a x :
  resolve true e a = Raised x -> ~ valid_args e a.
Proof.
  intros H V. destruct (resolve_total_on_valid e a V) as (r & b & p & HB). congruence.
Qed.

(* which exception: the first failing check, in the constructor's order *)
Theorem resolve_raises e a :
  resolve true e a =
  match a_host a with
  | [] => Raised EValue
  | _ =>
    match a_port a with
    | PNotInt => Raised EType
    | _ =>
      if starts_dash (strip_s (a_host a)) then Raised EValue
      else match setup_key e (a_key a) with
           | None => Raised EValue
           | Some _ =>
             match setup_files e (a_transport a) (a_cfg a) (a_kh a) with
             | None => Raised EType
             | Some _ => resolve true e a
             end
           end
    end
  end.
Proof.
  unfold resolve. destruct (a_host a); [reflexivity|].
  destruct (a_port a); cbn [andb]; try reflexivity;
    destruct (starts_dash _); try reflexivity;
    destruct (setup_key e (a_key a)); try reflexivity;
    destruct (setup_files e (a_transport a) (a_cfg a) (a_kh a)) as [[? ?]|]; reflexivity.
Qed.

(* ---- the defaults by transport name (also tied to the source by Gen_Resolve) ---- *)
Lemma default_port_table :
  map default_port all_transports = [23; 22; 22; 22; 23; 22].
Proof. vm_compute. reflexivity. Qed.

(* ---- the pinned commit (fx = false) violates each part: concrete witnesses ---- *)
Definition env_port2222 : env :=
  mkE (fun _ => None) (fun _ => None) (fun _ _ => mkC (Some 2222) (lit "carl") []).
Definition args_plain (t : transport) (h : str) (p : pyport) : args :=
  mkA t h p [] [] true FFalse FFalse.

Theorem reported_eq_dialled_port_refuted_at_pinned_commit :
  exists e a r b p, resolve false e a = Built r b p /\ b_port b <> r_port r.
Proof.
  exists env_port2222, (args_plain Paramiko (lit "r1") PNone).
  eexists; eexists; eexists; split; [vm_compute; reflexivity|vm_compute; discriminate].
Qed.

Theorem reported_eq_dialled_host_refuted_at_pinned_commit :
  exists e a r b p, resolve false e a = Built r b p /\ b_host b <> r_host r.
Proof.
  exists env_port2222, (args_plain Telnet (lit " r1 ") PNone).
  eexists; eexists; eexists; split; [vm_compute; reflexivity|vm_compute; discriminate].
Qed.

Theorem precedence_explicit_port_refuted_at_pinned_commit :
  exists e a r b p n, resolve false e a = Built r b p /\ a_port a = PInt n /\ r_port r <> n.
Proof.
  exists env_port2222, (args_plain Asyncssh (lit "r1") (PInt 2022)).
  eexists; eexists; eexists; exists 2022; split; [vm_compute; reflexivity|split; [reflexivity|vm_compute; discriminate]].
Qed.

Theorem host_never_option_refuted_at_pinned_commit :
  exists e a r b p, resolve false e a = Built r b p /\ starts_dash (b_host b) = true.
Proof.
  exists env_port2222, (args_plain System (lit "-oProxyCommand=x") PNone).
  eexists; eexists; eexists; split; vm_compute; reflexivity.
Qed.

(* ---- the premises are satisfiable by non-trivial states ---- *)
Definition env_example : env :=
  mkE (fun p => if beq p (lit "~/.ssh/config") then Some (lit "/home/u/.ssh/config")
                else if beq p (lit "/keys/k") then Some (lit "/keys/k") else None)
      (fun _ => None)
      (fun f h => if beq f (lit "/home/u/.ssh/config") && beq h (lit "r1")
                  then mkC (Some 2222) (lit "carl") (lit "/home/u/.ssh/id") else mkC None [] []).

Example resolve_example_config_port :
  resolve true env_example (mkA Paramiko (lit " r1 ") PNone [] [] true FTrue FFalse) =
  Built (mkR (lit "r1") 2222 (lit "carl") (lit "/home/u/.ssh/id") true (lit "/home/u/.ssh/config") [])
        (mkB (lit "r1") 2222)
        (Some (mkP (lit "carl") (lit "/home/u/.ssh/id") true (lit "/home/u/.ssh/config") [])).
Proof. vm_compute. reflexivity. Qed.

Example resolve_example_explicit_wins :
  resolve true env_example (mkA Asyncssh (lit "r1") (PInt 22) (lit "admin") (lit "/keys/k") false FTrue FTrue) =
  Built (mkR (lit "r1") 22 (lit "admin") (lit "/keys/k") false (lit "/home/u/.ssh/config") [])
        (mkB (lit "r1") 22)
        (Some (mkP (lit "admin") (lit "/keys/k") false (lit "/home/u/.ssh/config") [])).
Proof. vm_compute. reflexivity. Qed.

Example resolve_example_system_magic :
  resolve true env_example (mkA System (lit "r1") PNone [] [] true FTrue FTrue) =
  Built (mkR (lit "r1") 22 [] [] true MAGIC_CFG MAGIC_KH) (mkB (lit "r1") 22)
        (Some (mkP [] [] true MAGIC_CFG MAGIC_KH)).
Proof. vm_compute. reflexivity. Qed.

Example resolve_example_telnet :
  resolve true env_example (mkA Asynctelnet (lit "r1") PNone [] [] true FTrue FBad) =
  Built (mkR (lit "r1") 23 [] [] true [] []) (mkB (lit "r1") 23) None.
Proof. vm_compute. reflexivity. Qed.

Example resolve_example_dash_refused :
  resolve true env_example (mkA System (lit "  -oProxyCommand=x") PNone [] [] true FFalse FFalse) = Raised EValue.
Proof. vm_compute. reflexivity. Qed.

Example valid_args_example :
  valid_args env_example (mkA Paramiko (lit " r1 ") PNone [] (lit "/keys/k") true FTrue (FPath (lit "/x"))).
Proof. unfold valid_args. cbn. repeat split; try discriminate. right. split; reflexivity. Qed.

(* ---- what "stripped" means: str.strip() ---- *)
Lemma lstrip_s_head s : match lstrip_s s with c :: _ => is_sws c = false | [] => True end.
Proof.
  induction s as [|c r IH]; cbn [lstrip_s]; [exact I|].
  destruct (is_sws c) eqn:E; [exact IH|exact E].
Qed.

Lemma lstrip_s_suffix s : exists pre, s = pre ++ lstrip_s s /\ forallb is_sws pre = true.
Proof.
  induction s as [|c r (pre & Hp & Hw)]; cbn [lstrip_s].
  - exists []. split; reflexivity.
  - destruct (is_sws c) eqn:E.
    + exists (c :: pre). split; [cbn [app]; f_equal; exact Hp|cbn [forallb]; rewrite E; exact Hw].
    + exists []. split; reflexivity.
Qed.

(* str.strip(): the result is the argument minus a whitespace prefix and a whitespace suffix, and
   neither starts nor ends with whitespace *)
Theorem strip_s_spec s :
  exists pre post, s = pre ++ strip_s s ++ post /\ forallb is_sws pre = true /\ forallb is_sws post = true /\
    match strip_s s with c :: _ => is_sws c = false | [] => True end /\
    match rev (strip_s s) with c :: _ => is_sws c = false | [] => True end.
Proof.
  unfold strip_s, rstrip_s.
  destruct (lstrip_s_suffix (rev s)) as (post' & Hpost & Wpost).
  set (m := rev (lstrip_s (rev s))) in *.
  destruct (lstrip_s_suffix m) as (pre & Hpre & Wpre).
  exists pre, (rev post'). repeat split.
  - rewrite <- (rev_involutive s), Hpost, rev_app_distr. fold m. rewrite app_assoc. f_equal. exact Hpre.
  - exact Wpre.
  - rewrite forallb_forall in *. intros x Hx. apply Wpost. apply in_rev. exact Hx.
  - apply lstrip_s_head.
  - (* the last character of lstrip_s m is the last character of m = head of lstrip_s (rev s) *)
    pose proof (lstrip_s_head (rev s)) as Hh.
    destruct (lstrip_s m) as [|c r] eqn:El; [exact I|].
    assert (Hm : rev m = lstrip_s (rev s)) by (subst m; apply rev_involutive).
    rewrite Hpre, rev_app_distr in Hm.
    destruct (rev (c :: r)) as [|x xs] eqn:Er.
    + apply (f_equal (@List.length N)) in Er. rewrite rev_length in Er. discriminate.
    + rewrite <- Hm in Hh. cbn [app] in Hh. exact Hh.
Qed.

Corollary reported_host_is_stripped_argument e a r b p :
  resolve true e a = Built r b p ->
  exists pre post, a_host a = pre ++ r_host r ++ post /\
    forallb is_sws pre = true /\ forallb is_sws post = true /\
    match r_host r with c :: _ => is_sws c = false | [] => True end /\
    match rev (r_host r) with c :: _ => is_sws c = false | [] => True end.
Proof.
  intros H. destruct (precedence _ _ _ _ _ H) as (Hh & _). rewrite Hh. apply strip_s_spec.
Qed.
