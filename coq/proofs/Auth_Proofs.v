(* Auth_Proofs.v — theorems about model/Auth.v (C09).
   Part A: every run of the login loops (any list of read events, any match predicates).
   Part B: the closed loop with a causal login server, every chunking schedule.
   Part C: reflection of the executable side conditions, instances, examples, refutations. *)
From Verif Require Import Bytes Regex RegexDeriv Auth.
From Coq Require Import Lia.

Ltac conj := repeat match goal with |- _ /\ _ => split end.
(* H : (a, b) = (x, y) with x, y variables: replace them without reducing a, b *)
Ltac pair_inv H :=
  match type of H with
  | (?a, ?b) = (?x, ?y) =>
      let H1 := fresh in let H2 := fresh in
      assert (H1 : x = a) by (inversion H; reflexivity);
      assert (H2 : y = b) by (inversion H; reflexivity);
      clear H; subst x y
  end.

(* ------------------------------------------------------------------------------------------ *)
(* basics                                                                                     *)
(* ------------------------------------------------------------------------------------------ *)
Lemma lower_app : forall a b, lower (a ++ b) = lower a ++ lower b.
Proof. intros. unfold lower. apply map_app. Qed.

Lemma lower_nil : lower [] = [].
Proof. reflexivity. Qed.

Lemma sc_app : forall l1 l2 acc, sc acc (l1 ++ l2) = sc (sc acc l1) l2.
Proof.
  induction l1 as [|i l1 IH]; intros; cbn [app sc]; [reflexivity|].
  destruct i; apply IH.
Qed.

Lemma answers_app : forall a b, answers (a ++ b) = answers a ++ answers b.
Proof. intros. unfold answers. apply flat_map_app. Qed.

Lemma count_ans_app : forall c a b, count_ans c (a ++ b) = (count_ans c a + count_ans c b)%nat.
Proof. intros. unfold count_ans. rewrite answers_app, filter_app, app_length. reflexivity. Qed.

Lemma count_ret_app : forall a b, count_ret (a ++ b) = (count_ret a + count_ret b)%nat.
Proof. intros. unfold count_ret. rewrite filter_app, app_length. reflexivity. Qed.

Lemma writes_of_app : forall cf a b, writes_of cf (a ++ b) = writes_of cf a ++ writes_of cf b.
Proof. intros. unfold writes_of. apply flat_map_app. Qed.

Lemma cred_eqb_refl : forall c, cred_eqb c c = true.
Proof. destruct c; reflexivity. Qed.

Lemma cred_eqb_eq : forall a b, cred_eqb a b = true -> a = b.
Proof. destruct a, b; cbn; congruence. Qed.

Lemma cred_eqb_neq : forall a b, a <> b -> cred_eqb a b = false.
Proof. destruct a, b; cbn; congruence. Qed.

Lemma getc_incc_same : forall n c, getc (incc n c) c = S (getc n c).
Proof. destruct c; reflexivity. Qed.

Lemma getc_incc_other : forall n c d, c <> d -> getc (incc n c) d = getc n d.
Proof. destruct c, d; cbn; congruence. Qed.

Lemma getc_incc : forall n c d, getc (incc n c) d = (getc n d + (if cred_eqb d c then 1 else 0))%nat.
Proof. destruct c, d; cbn; lia. Qed.

Lemma count_ans_cons_ans : forall c d its,
  count_ans c (IAns d :: its) = ((if cred_eqb c d then 1 else 0) + count_ans c its)%nat.
Proof. intros. unfold count_ans. cbn. destruct (cred_eqb c d); reflexivity. Qed.

Lemma count_ans_cons_read : forall c b its, count_ans c (IRead b :: its) = count_ans c its.
Proof. reflexivity. Qed.

Lemma count_ans_cons_ret : forall c its, count_ans c (IRet :: its) = count_ans c its.
Proof. reflexivity. Qed.

Lemma count_ans_nil : forall c, count_ans c [] = 0%nat.
Proof. reflexivity. Qed.

(* ------------------------------------------------------------------------------------------ *)
(* Part A — every run of the loops                                                            *)
(* ------------------------------------------------------------------------------------------ *)

(* every credential write in a history is triggered by ITS OWN pattern matching what was read
   since the previous credential write (acc: what had been read before the history starts) *)
Fixpoint trig (cf : cfg) (acc : bytes) (its : list item) : Prop :=
  match its with
  | [] => True
  | IRead b :: r => trig cf (acc ++ lower b) r
  | IAns c :: r => c_pat cf c acc = true /\ trig cf [] r
  | IRet :: r => trig cf acc r
  end.

Lemma trig_app : forall cf l1 l2 acc,
  trig cf acc l1 -> trig cf (sc acc l1) l2 -> trig cf acc (l1 ++ l2).
Proof.
  induction l1 as [|i l1 IH]; intros l2 acc H1 H2; cbn [app]; [exact H2|].
  destruct i; cbn [trig sc] in *.
  - apply IH; assumption.
  - destruct H1 as [Hp H1]. split; [exact Hp|]. apply IH; assumption.
  - apply IH; assumption.
Qed.

Lemma trig_split : forall cf pre acc c post,
  trig cf acc (pre ++ IAns c :: post) -> c_pat cf c (sc acc pre) = true.
Proof.
  induction pre as [|i pre IH]; intros acc c post H; cbn [app trig sc] in *.
  - apply H.
  - destruct i; cbn [trig sc] in H |- *.
    + eapply IH; exact H.
    + destruct H as [_ H]. eapply IH; exact H.
    + eapply IH; exact H.
Qed.

(* only answers, no reads, no bare returns *)
Definition only_ans (its : list item) : Prop :=
  Forall (fun i => match i with IAns _ => True | _ => False end) its.

(* ---- the chain of pattern blocks ---- *)
Lemma checks_spec : forall cf cs buf n its r,
  checks cf cs buf n = (its, r) ->
  (forall c, getc n c <= 2)%nat ->
  trig cf buf its /\ only_ans its /\ (forall c, In c (answers its) -> In c cs) /\
  (forall c, getc n c + count_ans c its <= 2)%nat /\
  match r with
  | CkGo buf' n' =>
      buf' = sc buf its /\ (forall c, getc n' c = getc n c + count_ans c its)%nat
  | CkThird c =>
      In c cs /\ c_pat cf c (sc buf its) = true /\ (getc n c + count_ans c its = 2)%nat
  end.
Proof.
  induction cs as [|c cs IH]; intros buf n its r H Hn; cbn [checks] in H.
  - inversion H; subst. cbn [trig sc answers flat_map In].
    conj; intros; try contradiction; try exact I; try reflexivity; try apply Forall_nil.
    + rewrite count_ans_nil. specialize (Hn c). lia.
    + rewrite count_ans_nil. lia.
  - destruct (c_pat cf c buf) eqn:Hp.
    + destruct (Nat.ltb 2 (S (getc n c))) eqn:Hlt.
      * inversion H; subst. apply Nat.ltb_lt in Hlt. cbn [trig sc answers flat_map In].
        conj; intros; try contradiction; try exact I; try apply Forall_nil.
        -- rewrite count_ans_nil. specialize (Hn c0). lia.
        -- left; reflexivity.
        -- exact Hp.
        -- rewrite count_ans_nil. specialize (Hn c). lia.
      * apply Nat.ltb_ge in Hlt.
        destruct (checks cf cs [] (incc n c)) as [its' r'] eqn:Hc.
        inversion H; subst; clear H.
        assert (Hn' : forall d, (getc (incc n c) d <= 2)%nat).
        { intro d. rewrite getc_incc. destruct (cred_eqb d c) eqn:E.
          - apply cred_eqb_eq in E; subst. lia.
          - specialize (Hn d). lia. }
        destruct (IH _ _ _ _ Hc Hn') as (Ht & Ho & Hin & Hle & Hr).
        assert (Hcount : forall d, (getc (incc n c) d + count_ans d its' =
                                    getc n d + count_ans d (IAns c :: its'))%nat).
        { intro d. rewrite getc_incc, count_ans_cons_ans. destruct (cred_eqb d c); lia. }
        cbn [trig sc]. conj.
        -- exact Hp.
        -- exact Ht.
        -- constructor; [exact I|exact Ho].
        -- intros d Hd. cbn in Hd. destruct Hd as [Hd|Hd]; [left; exact Hd|right; apply Hin; exact Hd].
        -- intro d. rewrite <- Hcount. apply Hle.
        -- destruct r.
           ++ destruct Hr as [Hb Hg]. split; [exact Hb|]. intro d. rewrite <- Hcount. apply Hg.
           ++ destruct Hr as (Hi & Hpc & Hg). split; [right; exact Hi|]. split; [exact Hpc|].
              rewrite <- Hcount. exact Hg.
    + destruct (IH _ _ _ _ H Hn) as (Ht & Ho & Hin & Hle & Hr).
      conj; try assumption.
      * intros d Hd. right. apply Hin. exact Hd.
      * destruct r; [exact Hr|]. destruct Hr as (Hi & Hr). split; [right; exact Hi|exact Hr].
Qed.

(* ---- one iteration ---- *)
Definition cnt_ok (n : counts) : Prop := forall c, (getc n c <= 2)%nat.

(* what the way a run ends says about its history (acc, n: buffer and counters at its start) *)
Definition ends (cf : cfg) (acc : bytes) (n : counts) (its : list item) (r : res) : Prop :=
  match r with
  | Go s' =>
      s_buf s' = sc acc its /\ (forall c, getc (s_cnt s') c = getc n c + count_ans c its)%nat
  | Stop ODone => c_prompt cf (sc acc its) = true
  | Stop (OAuthFailed (WThird c)) =>
      In c (creds (c_kind cf)) /\ c_pat cf c (sc acc its) = true /\
      (getc n c + count_ans c its = 2)%nat
  | Stop (OAuthFailed WFatal) => c_kind cf = Ssh /\ c_fatal cf (sc acc its) = true
  | Stop OConnErr => c_kind cf = Ssh
  | Stop OBlocks => False
  end.

Definition inv (cf : cfg) (acc : bytes) (n : counts) (its : list item) (r : res) : Prop :=
  trig cf acc its /\
  (forall c, In c (answers its) -> In c (creds (c_kind cf))) /\
  (forall c, getc n c + count_ans c its <= 2)%nat /\
  ends cf acc n its r.

Definition its0 (b : bytes) (k : bool) : list item := IRead b :: (if k then [IRet] else []).

Lemma its0_sc : forall b k acc, sc acc (its0 b k) = acc ++ lower b.
Proof. intros. destruct k; reflexivity. Qed.
Lemma its0_trig : forall cf b k acc, trig cf acc (its0 b k).
Proof. intros. destruct k; exact I. Qed.
Lemma its0_answers : forall b k, answers (its0 b k) = [].
Proof. intros. destruct k; reflexivity. Qed.
Lemma its0_count : forall c b k, count_ans c (its0 b k) = 0%nat.
Proof. intros. destruct k; reflexivity. Qed.

Lemma is_ssh_true : forall k, is_ssh k = true -> k = Ssh.
Proof. destruct k; cbn; congruence. Qed.

Lemma body_eq : forall cf s b t,
  body cf s b t =
  let k := kicks cf s b t in
  let cur := s_buf s ++ lower b in
  if is_ssh (c_kind cf) && c_fatal cf cur then (its0 b k, Stop (OAuthFailed WFatal))
  else match checks cf (creds (c_kind cf)) cur (s_cnt s) with
       | (its, CkThird c) => (its0 b k ++ its, Stop (OAuthFailed (WThird c)))
       | (its, CkGo buf n) =>
           if c_prompt cf buf then (its0 b k ++ its, Stop ODone)
           else (its0 b k ++ its, Go (mkSt buf n (if k then S (s_att s) else s_att s)))
       end.
Proof. reflexivity. Qed.

Lemma body_spec : forall cf s b t its r,
  body cf s b t = (its, r) -> cnt_ok (s_cnt s) -> inv cf (s_buf s) (s_cnt s) its r.
Proof.
  intros cf s b t its r H Hn. rewrite body_eq in H. cbv zeta in H.
  set (k := kicks cf s b t) in *. set (cur := s_buf s ++ lower b) in *.
  destruct (is_ssh (c_kind cf) && c_fatal cf cur) eqn:Hf.
  - inversion H; subst; clear H. apply andb_prop in Hf. destruct Hf as [Hk Hf].
    unfold inv. conj.
    + apply its0_trig.
    + rewrite its0_answers. intros c [].
    + intro c. rewrite its0_count. specialize (Hn c). lia.
    + cbn [ends]. rewrite its0_sc. split; [apply is_ssh_true; exact Hk|exact Hf].
  - destruct (checks cf (creds (c_kind cf)) cur (s_cnt s)) as [its' r'] eqn:Hc.
    destruct (checks_spec _ _ _ _ _ _ Hc Hn) as (Ht & _ & Hin & Hle & Hr).
    assert (Htr : trig cf (s_buf s) (its0 b k ++ its')).
    { apply trig_app; [apply its0_trig|]. rewrite its0_sc. exact Ht. }
    assert (Hans : forall c, In c (answers (its0 b k ++ its')) -> In c (creds (c_kind cf))).
    { intros c Hc'. rewrite answers_app, its0_answers in Hc'. apply Hin. exact Hc'. }
    assert (Hcnt : forall c, count_ans c (its0 b k ++ its') = count_ans c its').
    { intro c. rewrite count_ans_app, its0_count. reflexivity. }
    assert (Hsc : sc (s_buf s) (its0 b k ++ its') = sc cur its').
    { rewrite sc_app, its0_sc. reflexivity. }
    destruct r' as [buf' n'|c].
    + destruct Hr as [Hb Hg].
      destruct (c_prompt cf buf') eqn:Hpr; pair_inv H; unfold inv; conj;
        try assumption; try (intro c; rewrite Hcnt; apply Hle).
      * cbn [ends]. rewrite Hsc, <- Hb. exact Hpr.
      * cbn [ends s_buf s_cnt]. rewrite Hsc. split; [exact Hb|]. intro c. rewrite Hcnt. apply Hg.
    + destruct Hr as (Hi & Hp & Hg).
      pair_inv H; unfold inv; conj;
        try assumption; try (intro d; rewrite Hcnt; apply Hle).
      cbn [ends]. rewrite Hsc, Hcnt. conj; assumption.
Qed.

Lemma step_spec : forall cf s e its r,
  step cf s e = (its, r) -> cnt_ok (s_cnt s) -> inv cf (s_buf s) (s_cnt s) its r.
Proof.
  intros cf s e its r H Hn. destruct e as [b t|t|]; cbn [step] in H.
  - eapply body_spec; eassumption.
  - pose proof (body_spec _ _ _ _ _ _ H Hn) as Hb. exact Hb.
  - destruct (c_kind cf) eqn:Hk; inversion H; subst; clear H; unfold inv; cbn [trig answers flat_map In];
      conj; intros; try contradiction; try exact I.
    + rewrite count_ans_cons_ret, count_ans_nil. specialize (Hn c). lia.
    + cbn [ends s_buf s_cnt sc]. split; [reflexivity|]. intro c.
      rewrite count_ans_cons_ret, count_ans_nil. lia.
    + rewrite count_ans_nil. specialize (Hn c). lia.
    + cbn [ends]. exact Hk.
Qed.

Lemma go_cnt_ok : forall cf acc n its s', (forall c, getc n c + count_ans c its <= 2)%nat ->
  ends cf acc n its (Go s') -> cnt_ok (s_cnt s').
Proof. intros cf acc n its s' Hle [_ Hg] c. rewrite Hg. apply Hle. Qed.

(* composing the history of a prefix that went on with the history of the rest *)
Lemma inv_app : forall cf acc n its1 s1 its2 r,
  inv cf acc n its1 (Go s1) -> inv cf (s_buf s1) (s_cnt s1) its2 r -> inv cf acc n (its1 ++ its2) r.
Proof.
  intros cf acc n its1 s1 its2 r (Ht1 & Ha1 & Hl1 & Hb1 & Hg1) (Ht2 & Ha2 & Hl2 & He2).
  assert (Hsc : sc acc (its1 ++ its2) = sc (s_buf s1) its2) by (rewrite sc_app, Hb1; reflexivity).
  assert (Hcnt : forall c, (getc n c + count_ans c (its1 ++ its2) =
                            getc (s_cnt s1) c + count_ans c its2)%nat).
  { intro c. rewrite count_ans_app, Hg1. lia. }
  unfold inv. conj.
  - apply trig_app; [exact Ht1|]. rewrite <- Hb1. exact Ht2.
  - intros c Hc. rewrite answers_app in Hc. apply in_app_or in Hc. destruct Hc; auto.
  - intro c. rewrite Hcnt. apply Hl2.
  - destruct r as [s2|o].
    + destruct He2 as [Hb2 Hg2]. cbn [ends]. rewrite Hsc. split; [exact Hb2|].
      intro c. rewrite Hcnt. apply Hg2.
    + destruct o as [|w| |]; cbn [ends] in *; try rewrite Hsc; try exact He2.
      destruct w as [c|]; [|exact He2].
      rewrite Hcnt. exact He2.
Qed.

Lemma exec_spec : forall cf evs s its r,
  exec cf s evs = (its, r) -> cnt_ok (s_cnt s) -> inv cf (s_buf s) (s_cnt s) its r.
Proof.
  induction evs as [|e evs IH]; intros s its r H Hn; cbn [exec] in H.
  - inversion H; subst. unfold inv. cbn [trig answers flat_map In ends sc]. conj; intros; try contradiction; try exact I.
    + rewrite count_ans_nil. specialize (Hn c). lia.
    + reflexivity.
    + rewrite count_ans_nil. lia.
  - destruct (step cf s e) as [its1 r1] eqn:Hs.
    pose proof (step_spec _ _ _ _ _ Hs Hn) as H1.
    destruct r1 as [s1|o].
    + destruct (exec cf s1 evs) as [its2 r2] eqn:He. inversion H; subst; clear H.
      assert (Hn1 : cnt_ok (s_cnt s1)).
      { destruct H1 as (_ & _ & Hl & Hg). eapply go_cnt_ok; eassumption. }
      eapply inv_app; [exact H1|]. apply IH; assumption.
    + inversion H; subst. exact H1.
Qed.

Lemma cnt_ok_zero : cnt_ok zero.
Proof. intro c. destruct c; cbn; lia. Qed.

Lemma run_inv : forall cf evs its r,
  exec cf init evs = (its, r) -> inv cf [] zero its r.
Proof. intros. apply (exec_spec cf evs init its r H cnt_ok_zero). Qed.

Lemma getc_zero : forall c, getc zero c = 0%nat.
Proof. destruct c; reflexivity. Qed.

(* ---- Theorem: each credential is written only in answer to its own prompt, never before it,
   and the prompt text is forgotten right after (every read sequence, every chunking) ---- *)
Theorem answer_after_prompt : forall cf evs o its,
  run cf evs = (o, its) ->
  forall pre c post, its = pre ++ IAns c :: post ->
    In c (creds (c_kind cf)) /\
    c_pat cf c (since_clear pre) = true /\
    since_clear (pre ++ [IAns c]) = [].
Proof.
  intros cf evs o its H pre c post Hs. unfold run in H.
  destruct (exec cf init evs) as [its' r] eqn:He. inversion H; subst o its'; clear H.
  destruct (run_inv _ _ _ _ He) as (Ht & Ha & _ & _). conj.
  - apply Ha. rewrite Hs, answers_app. apply in_or_app. right. left. reflexivity.
  - unfold since_clear. eapply trig_split. rewrite <- Hs. exact Ht.
  - unfold since_clear. rewrite sc_app. reflexivity.
Qed.

(* no credential is written unless a buffer matched its pattern *)
Corollary never_unprompted : forall cf evs o its c,
  run cf evs = (o, its) -> (forall b, c_pat cf c b = false) -> count_ans c its = 0%nat.
Proof.
  intros cf evs o its c H Hno.
  destruct (count_ans c its) eqn:E; [reflexivity|exfalso].
  assert (Hin : In c (answers its)).
  { unfold count_ans in E. destruct (filter (cred_eqb c) (answers its)) as [|d l] eqn:F; [discriminate|].
    assert (Hd : In d (filter (cred_eqb c) (answers its))) by (rewrite F; left; reflexivity).
    apply filter_In in Hd. destruct Hd as [Hd Hq]. apply cred_eqb_eq in Hq. subst. exact Hd. }
  unfold answers in Hin. apply in_flat_map in Hin. destruct Hin as (i & Hi & Hc).
  destruct i; cbn in Hc; try contradiction. destruct Hc as [<-|[]].
  apply in_split in Hi. destruct Hi as (pre & post & Hs).
  destruct (answer_after_prompt _ _ _ _ H _ _ _ Hs) as (_ & Hp & _).
  rewrite Hno in Hp. discriminate.
Qed.

(* ---- Theorem: at most two submissions of each credential, whatever is read ---- *)
Theorem at_most_twice : forall cf evs o its c,
  run cf evs = (o, its) -> (count_ans c its <= 2)%nat.
Proof.
  intros cf evs o its c H. unfold run in H.
  destruct (exec cf init evs) as [its' r] eqn:He. inversion H; subst o its'; clear H.
  destruct (run_inv _ _ _ _ He) as (_ & _ & Hl & _). specialize (Hl c). rewrite getc_zero in Hl. exact Hl.
Qed.

(* ---- how a run ends, in terms of what was read since the last answer ---- *)
Theorem outcome_sound : forall cf evs o its,
  run cf evs = (o, its) ->
  match o with
  | ODone => c_prompt cf (since_clear its) = true
  | OAuthFailed (WThird c) =>
      In c (creds (c_kind cf)) /\ c_pat cf c (since_clear its) = true /\ count_ans c its = 2%nat
  | OAuthFailed WFatal => c_kind cf = Ssh /\ c_fatal cf (since_clear its) = true
  | OConnErr => c_kind cf = Ssh
  | OBlocks => True
  end.
Proof.
  intros cf evs o its H. unfold run in H.
  destruct (exec cf init evs) as [its' r] eqn:He. inversion H; subst o its'; clear H.
  destruct (run_inv _ _ _ _ He) as (_ & _ & _ & Hr).
  destruct r as [s|o]; cbn [outcome_of]; [exact I|].
  destruct o as [|w| |]; cbn [ends] in Hr; try exact Hr; try contradiction.
  destruct w; [|exact Hr]. rewrite getc_zero in Hr. exact Hr.
Qed.

(* ---- composition of runs ---- *)
Lemma exec_app : forall cf evs1 evs2 s,
  exec cf s (evs1 ++ evs2) =
  match exec cf s evs1 with
  | (its, Go s') => let (its', r) := exec cf s' evs2 in (its ++ its', r)
  | (its, Stop o) => (its, Stop o)
  end.
Proof.
  induction evs1 as [|e evs1 IH]; intros evs2 s; cbn [app exec].
  - destruct (exec cf s evs2); reflexivity.
  - destruct (step cf s e) as [its1 [s1|o]]; [|reflexivity].
    rewrite IH. destruct (exec cf s1 evs1) as [its2 [s2|o2]]; [|reflexivity].
    destruct (exec cf s2 evs2) as [its3 r3]. rewrite app_assoc. reflexivity.
Qed.

Lemma checks_third : forall cf cs buf n c,
  find (fun c => c_pat cf c buf) cs = Some c -> getc n c = 2%nat ->
  checks cf cs buf n = ([], CkThird c).
Proof.
  induction cs as [|d cs IH]; intros buf n c Hf Hg; cbn [find checks] in *; [discriminate|].
  destruct (c_pat cf d buf) eqn:Hp.
  - inversion Hf; subst d. rewrite Hg. reflexivity.
  - apply IH; assumption.
Qed.

(* ---- Theorem: the third sighting of a prompt raises at once: nothing is written, nothing more
   is read ---- *)
Theorem third_sighting_raises : forall cf evs1 s its1 b t evs2 c,
  exec cf init evs1 = (its1, Go s) ->
  (c_kind cf = Ssh -> c_fatal cf (since_clear its1 ++ lower b) = false) ->
  find (fun c => c_pat cf c (since_clear its1 ++ lower b)) (creds (c_kind cf)) = Some c ->
  count_ans c its1 = 2%nat ->
  run cf (evs1 ++ EData b t :: evs2) = (OAuthFailed (WThird c), its1 ++ its0 b (kicks cf s b t)).
Proof.
  intros cf evs1 s its1 b t evs2 c He Hf Hm Hc.
  destruct (run_inv _ _ _ _ He) as (_ & _ & _ & Hb & Hg).
  unfold run. rewrite exec_app, He. cbn [exec step]. rewrite body_eq. cbv zeta.
  unfold since_clear in *. rewrite Hb.
  assert (Hfat : is_ssh (c_kind cf) && c_fatal cf (sc [] its1 ++ lower b) = false).
  { destruct (c_kind cf) eqn:Hk; cbn [is_ssh andb]; [reflexivity|]. apply Hf. reflexivity. }
  rewrite Hfat.
  rewrite (checks_third cf _ _ (s_cnt s) c Hm).
  - rewrite app_nil_r. reflexivity.
  - rewrite Hg, getc_zero, Hc. reflexivity.
Qed.

(* ---- Theorem: a fatal ssh client message ends the login in the iteration that reads it ---- *)
Lemma kicks_ssh : forall cf s b t, c_kind cf = Ssh -> kicks cf s b t = false.
Proof. intros cf s b t H. unfold kicks. rewrite H. reflexivity. Qed.

Theorem fatal_immediate : forall cf evs1 s its1 b t evs2,
  c_kind cf = Ssh ->
  exec cf init evs1 = (its1, Go s) ->
  c_fatal cf (since_clear its1 ++ lower b) = true ->
  run cf (evs1 ++ EData b t :: evs2) = (OAuthFailed WFatal, its1 ++ [IRead b]).
Proof.
  intros cf evs1 s its1 b t evs2 Hk He Hf.
  destruct (run_inv _ _ _ _ He) as (_ & _ & _ & Hb & _).
  unfold run. rewrite exec_app, He. cbn [exec step]. rewrite body_eq. cbv zeta.
  unfold since_clear in *. rewrite Hb, Hk, Hf, kicks_ssh by exact Hk. reflexivity.
Qed.

(* the same for a poll expiry of the asyncio loop is vacuous (nothing new is read); a fatal text
   is acted on no later than the iteration in which its last byte arrives *)

(* ---- bare returns: only Telnet, only on an empty read after the interval, or on a connection
   error; their number is bounded by the elapsed time ---- *)
Lemma only_ans_count_ret : forall its, only_ans its -> count_ret its = 0%nat.
Proof.
  induction its as [|i its IH]; intro H; [reflexivity|].
  inversion H; subst. destruct i; try contradiction. cbn. apply IH. assumption.
Qed.

Lemma its0_count_ret : forall b k, count_ret (its0 b k) = if k then 1%nat else 0%nat.
Proof. destruct k; reflexivity. Qed.

Lemma checks_count_ret : forall cf cs buf n its r,
  checks cf cs buf n = (its, r) -> count_ret its = 0%nat.
Proof.
  induction cs as [|c cs IH]; intros buf n its r H; cbn [checks] in H.
  - inversion H; reflexivity.
  - destruct (c_pat cf c buf); [|eapply IH; exact H].
    destruct (Nat.ltb 2 (S (getc n c))); [inversion H; reflexivity|].
    destruct (checks cf cs [] (incc n c)) as [i2 r2] eqn:E. inversion H; subst.
    cbn. eapply IH; exact E.
Qed.

Lemma body_ret : forall cf s b t its r,
  body cf s b t = (its, r) ->
  count_ret its = (if kicks cf s b t then 1 else 0)%nat /\
  match r with Go s' => s_att s' = (s_att s + count_ret its)%nat | Stop _ => True end.
Proof.
  intros cf s b t its r H. rewrite body_eq in H. cbv zeta in H.
  destruct (is_ssh (c_kind cf) && c_fatal cf (s_buf s ++ lower b)).
  - pair_inv H. split; [apply its0_count_ret|exact I].
  - destruct (checks cf (creds (c_kind cf)) (s_buf s ++ lower b) (s_cnt s)) as [its' r'] eqn:Hc.
    pose proof (checks_count_ret _ _ _ _ _ _ Hc) as Ho.
    destruct r' as [buf' n'|c].
    + destruct (c_prompt cf buf'); pair_inv H; rewrite count_ret_app, its0_count_ret, Ho;
        destruct (kicks cf s b t); cbn [s_att]; split; try exact I; lia.
    + pair_inv H. rewrite count_ret_app, its0_count_ret, Ho. destruct (kicks cf s b t); split; try exact I; lia.
Qed.

Lemma kicks_true : forall cf s b t, kicks cf s b t = true ->
  c_kind cf = Telnet /\ b = [] /\ c_interval cf * N.of_nat (s_att s) < t.
Proof.
  intros cf s b t H. unfold kicks in H. apply andb_prop in H. destruct H as [H Ht].
  apply andb_prop in H. destruct H as [Hk Hb]. conj.
  - destruct (c_kind cf); [reflexivity|discriminate].
  - destruct b; [reflexivity|discriminate].
  - apply N.ltb_lt. exact Ht.
Qed.

(* a step without connection error: at most one bare return, and only as a kick *)
Lemma step_ret : forall cf s e its r,
  step cf s e = (its, r) -> is_err e = false ->
  match r with Go s' => s_att s' = (s_att s + count_ret its)%nat | Stop _ => True end /\
  (count_ret its = 0%nat \/
   (count_ret its = 1%nat /\ c_kind cf = Telnet /\ ev_empty e = true /\
    c_interval cf * N.of_nat (s_att s) < ev_time e)).
Proof.
  intros cf s e its r H He. destruct e as [b t|t|]; cbn [step is_err] in *; try discriminate.
  - destruct (body_ret _ _ _ _ _ _ H) as [Hc Ha]. split; [exact Ha|].
    destruct (kicks cf s b t) eqn:Hk; [right|left; exact Hc].
    destruct (kicks_true _ _ _ _ Hk) as (H1 & H2 & H3). subst b. cbn [ev_empty ev_time is_nil]. auto.
  - destruct (body_ret _ _ _ _ _ _ H) as [Hc Ha]. split; [exact Ha|].
    destruct (kicks cf s [] t) eqn:Hk; [right|left; exact Hc].
    destruct (kicks_true _ _ _ _ Hk) as (H1 & H2 & H3). cbn [ev_empty ev_time]. auto.
Qed.

Lemma exec_ret : forall cf evs s its r T,
  exec cf s evs = (its, r) ->
  (forall e, In e evs -> is_err e = false /\ ev_time e <= T) ->
  match r with Go s' => s_att s' = (s_att s + count_ret its)%nat | Stop _ => True end /\
  (count_ret its = 0%nat \/
   (c_interval cf * N.of_nat (s_att s + count_ret its - 1) < T /\ c_kind cf = Telnet /\
    exists e, In e evs /\ ev_empty e = true)).
Proof.
  induction evs as [|e evs IH]; intros s its r T H Hall; cbn [exec] in H.
  - inversion H; subst. cbn. split; [lia|left; reflexivity].
  - destruct (step cf s e) as [its1 r1] eqn:Hs.
    assert (He : is_err e = false /\ ev_time e <= T) by (apply Hall; left; reflexivity).
    destruct He as [He HT].
    destruct (step_ret _ _ _ _ _ Hs He) as [Ha1 Hk1].
    destruct r1 as [s1|o].
    + destruct (exec cf s1 evs) as [its2 r2] eqn:Hx. pair_inv H.
      assert (Hall' : forall e0, In e0 evs -> is_err e0 = false /\ ev_time e0 <= T)
        by (intros; apply Hall; right; assumption).
      destruct (IH _ _ _ _ Hx Hall') as [Ha2 Hk2].
      rewrite count_ret_app. split.
      * destruct r2; [|exact I]. rewrite Ha2, Ha1. lia.
      * destruct Hk2 as [Hz|(Hlt & Hkind & e' & Hin & Hem)].
        -- rewrite Hz. destruct Hk1 as [Hz1|(H1 & Hkind & Hem & Hlt)]; [left; lia|right].
           rewrite H1. conj; [|exact Hkind|exists e; split; [left; reflexivity|exact Hem]].
           replace (s_att s + (1 + 0) - 1)%nat with (s_att s) by lia.
           eapply N.lt_le_trans; eassumption.
        -- right. conj; [|exact Hkind|exists e'; split; [right; exact Hin|exact Hem]].
           rewrite Ha1 in Hlt.
           replace (s_att s + (count_ret its1 + count_ret its2) - 1)%nat
             with (s_att s + count_ret its1 + count_ret its2 - 1)%nat by lia.
           exact Hlt.
    + pair_inv H. split; [exact I|].
      destruct Hk1 as [Hz1|(H1 & Hkind & Hem & Hlt)]; [left; exact Hz1|right].
      rewrite H1. conj; [|exact Hkind|exists e; split; [left; reflexivity|exact Hem]].
      replace (s_att s + 1 - 1)%nat with (s_att s) by lia.
      eapply N.lt_le_trans; eassumption.
Qed.

Definition max_time (evs : list ev) : N := fold_right (fun e m => N.max (ev_time e) m) 0 evs.

Lemma max_time_ge : forall evs e, In e evs -> ev_time e <= max_time evs.
Proof.
  induction evs as [|x evs IH]; intros e H; [contradiction|]. cbn [max_time fold_right].
  destruct H as [<-|H]; [apply N.le_max_l|].
  eapply N.le_trans; [apply IH; exact H|apply N.le_max_r].
Qed.

(* ---- Theorem: bare returns.  Without connection errors: none on the ssh loop; none unless an
   empty read / poll expiry happens later than return_interval after the start; and by time T at
   most T / return_interval of them (the k-th needs k intervals of elapsed time) ---- *)
Theorem kick_discipline : forall cf evs o its,
  run cf evs = (o, its) ->
  (forall e, In e evs -> is_err e = false) ->
  (c_kind cf = Ssh -> count_ret its = 0%nat) /\
  ((forall e, In e evs -> ev_empty e = false) -> count_ret its = 0%nat) /\
  ((forall e, In e evs -> ev_time e <= c_interval cf) -> count_ret its = 0%nat) /\
  (forall T, (forall e, In e evs -> ev_time e <= T) ->
             count_ret its = 0%nat \/ c_interval cf * N.of_nat (count_ret its) < T).
Proof.
  intros cf evs o its H Herr. unfold run in H.
  destruct (exec cf init evs) as [its' r] eqn:He. inversion H; subst o its'; clear H.
  assert (Hgen : forall T, (forall e, In e evs -> ev_time e <= T) ->
            count_ret its = 0%nat \/
            (c_interval cf * N.of_nat (count_ret its) < T /\ c_kind cf = Telnet /\
             exists e, In e evs /\ ev_empty e = true)).
  { intros T HT.
    destruct (exec_ret cf evs init its r T He) as [_ Hk].
    - intros e Hin. split; [apply Herr; exact Hin|apply HT; exact Hin].
    - destruct Hk as [Hz|(Hlt & Hr)]; [left; exact Hz|right].
      cbn [init s_att] in Hlt. replace (1 + count_ret its - 1)%nat with (count_ret its) in Hlt by lia.
      split; assumption. }
  conj.
  - intro Hk. destruct (Hgen (max_time evs) (max_time_ge evs)) as [Hz|(_ & Hk' & _)]; [exact Hz|congruence].
  - intro Hne. destruct (Hgen (max_time evs) (max_time_ge evs)) as [Hz|(_ & _ & e & Hin & Hem)]; [exact Hz|].
    rewrite (Hne e Hin) in Hem. discriminate.
  - intro Hti. destruct (Hgen (c_interval cf) Hti) as [Hz|(Hlt & _)]; [exact Hz|].
    destruct (count_ret its) as [|k]; [reflexivity|exfalso].
    assert (c_interval cf * 1 <= c_interval cf * N.of_nat (S k)) by (apply N.mul_le_mono_l; lia).
    lia.
  - intros T HT. destruct (Hgen T HT) as [Hz|(Hlt & _)]; [left; exact Hz|right; exact Hlt].
Qed.

(* ---- sync and asyncio: a poll expiry is an empty read; a history of the asyncio loop with its
   expiries replaced by empty reads is a history of the sync loop with the same result ---- *)
Theorem expiry_is_empty_read : forall cf evs, run cf (map as_sync evs) = run cf evs.
Proof.
  intros cf evs. unfold run.
  assert (H : forall s, exec cf s (map as_sync evs) = exec cf s evs).
  { induction evs as [|e evs IH]; intro s; cbn [map exec]; [reflexivity|].
    assert (Hs : step cf s (as_sync e) = step cf s e) by (destruct e; reflexivity).
    rewrite Hs. destruct (step cf s e) as [its [s'|o]]; [|reflexivity]. rewrite IH. reflexivity. }
  rewrite H. reflexivity.
Qed.

(* ---- the connection-error branch ---- *)
Theorem conn_error_branch : forall cf evs1 s its1,
  exec cf init evs1 = (its1, Go s) ->
  match c_kind cf with
  | Telnet => exec cf init (evs1 ++ [EErr]) =
              (its1 ++ [IRet], Go (mkSt (s_buf s) (s_cnt s) (S (s_att s))))
  | Ssh => forall evs2, run cf (evs1 ++ EErr :: evs2) = (OConnErr, its1)
  end.
Proof.
  intros cf evs1 s its1 He. destruct (c_kind cf) eqn:Hk.
  - rewrite exec_app, He. cbn [exec step]. rewrite Hk. reflexivity.
  - intro evs2. unfold run. rewrite exec_app, He. cbn [exec step]. rewrite Hk.
    rewrite app_nil_r. reflexivity.
Qed.

(* ------------------------------------------------------------------------------------------ *)
(* Part B — the closed loop                                                                   *)
(* ------------------------------------------------------------------------------------------ *)

Lemma react_nil : forall cf, empties cf -> react cf [] = None.
Proof.
  intros cf (Hp & Hpr & Hf). unfold react. rewrite Hf, andb_false_r.
  assert (Hfind : forall cs, find (fun c => c_pat cf c []) cs = None).
  { induction cs as [|c cs IH]; cbn; [reflexivity|]. rewrite Hp. exact IH. }
  rewrite Hfind, Hpr. reflexivity.
Qed.

Lemma checks_nil_buf : forall cf, empties cf -> forall cs n, checks cf cs [] n = ([], CkGo [] n).
Proof.
  intros cf (Hp & _) cs. induction cs as [|c cs IH]; intro n; cbn [checks]; [reflexivity|].
  rewrite Hp. apply IH.
Qed.

Lemma checks_none : forall cf cs buf n,
  find (fun c => c_pat cf c buf) cs = None -> checks cf cs buf n = ([], CkGo buf n).
Proof.
  induction cs as [|c cs IH]; intros buf n H; cbn [find checks] in *; [reflexivity|].
  destruct (c_pat cf c buf); [discriminate|]. apply IH. exact H.
Qed.

Lemma checks_first : forall cf, empties cf -> forall cs buf n c,
  find (fun c => c_pat cf c buf) cs = Some c -> (getc n c < 2)%nat ->
  checks cf cs buf n = ([IAns c], CkGo [] (incc n c)).
Proof.
  intros cf He. induction cs as [|d cs IH]; intros buf n c Hf Hg; cbn [find checks] in *; [discriminate|].
  destruct (c_pat cf d buf) eqn:Hp.
  - inversion Hf; subst d.
    assert (Hlt : Nat.ltb 2 (S (getc n c)) = false) by (apply Nat.ltb_ge; lia).
    rewrite Hlt, (checks_nil_buf cf He). reflexivity.
  - apply IH; assumption.
Qed.

(* the loop body in terms of [react], when nothing matches the empty buffer *)
Lemma body_react : forall cf, empties cf -> forall s b t,
  let k := kicks cf s b t in
  let cur := s_buf s ++ lower b in
  let att := if k then S (s_att s) else s_att s in
  body cf s b t =
  match react cf cur with
  | None => (its0 b k, Go (mkSt cur (s_cnt s) att))
  | Some XFatal => (its0 b k, Stop (OAuthFailed WFatal))
  | Some XShell => (its0 b k, Stop ODone)
  | Some (XCred c) =>
      if Nat.leb 2 (getc (s_cnt s) c) then (its0 b k, Stop (OAuthFailed (WThird c)))
      else (its0 b k ++ [IAns c], Go (mkSt [] (incc (s_cnt s) c) att))
  end.
Proof.
  intros cf He s b t k cur att. rewrite body_eq. cbv zeta. fold k cur. unfold react.
  destruct (is_ssh (c_kind cf) && c_fatal cf cur); [reflexivity|].
  destruct (find (fun c => c_pat cf c cur) (creds (c_kind cf))) as [c|] eqn:Hf.
  - destruct (Nat.leb 2 (getc (s_cnt s) c)) eqn:Hle.
    + apply Nat.leb_le in Hle.
      assert (Hg : getc (s_cnt s) c = 2%nat \/ (2 < getc (s_cnt s) c)%nat) by lia.
      (* counters above 2 cannot occur, but the body does not depend on that *)
      clear Hg.
      assert (Hc : checks cf (creds (c_kind cf)) cur (s_cnt s) = ([], CkThird c)).
      { clear - Hf Hle. revert Hf. generalize (creds (c_kind cf)) as cs.
        induction cs as [|d cs IH]; intro Hf; cbn [find checks] in *; [discriminate|].
        destruct (c_pat cf d cur) eqn:Hp.
        - inversion Hf; subst d.
          assert (Hlt : Nat.ltb 2 (S (getc (s_cnt s) c)) = true) by (apply Nat.ltb_lt; lia).
          rewrite Hlt. reflexivity.
        - apply IH. exact Hf. }
      rewrite Hc, app_nil_r. reflexivity.
    + apply Nat.leb_gt in Hle. rewrite (checks_first cf He _ _ _ _ Hf Hle).
      destruct He as (_ & Hpr & _). rewrite Hpr. reflexivity.
  - rewrite (checks_none _ _ _ _ Hf), app_nil_r.
    destruct (c_prompt cf cur); reflexivity.
Qed.

(* ---- the side condition is stable under reading on without a reaction ---- *)
Lemma ok_read : forall cf later e buf x y,
  ok cf later e buf (x ++ y) -> ok cf later e (buf ++ lower x) y.
Proof.
  intros cf later e buf x y H. destruct later as [|ph later'].
  - cbn [ok] in *. destruct H as [Hfull Hsp]. split.
    + rewrite <- app_assoc, <- lower_app. exact Hfull.
    + intros x' y' Hy. rewrite <- app_assoc, <- lower_app. apply Hsp. rewrite Hy, app_assoc. reflexivity.
  - cbn [ok] in *. destruct H as [Hfull Hsp]. split.
    + rewrite <- app_assoc, <- lower_app. exact Hfull.
    + intros x' y' Hy. rewrite <- app_assoc, <- lower_app. apply Hsp. rewrite Hy, app_assoc. reflexivity.
Qed.

Lemma quiet_read : forall cf buf x y, quiet cf buf (x ++ y) -> quiet cf (buf ++ lower x) y.
Proof.
  intros cf buf x y H x' y' Hy. rewrite <- app_assoc, <- lower_app. apply (H (x ++ x') y').
  rewrite Hy, app_assoc. reflexivity.
Qed.

Lemma ok_full : forall cf later e buf rem, ok cf later e buf rem -> react cf (buf ++ lower rem) = Some e.
Proof. intros cf later e buf rem H. destruct later; cbn [ok] in H; apply H. Qed.

Lemma ok_at : forall cf later e buf x y,
  ok cf later e buf (x ++ y) ->
  react cf (buf ++ lower x) = None \/
  (react cf (buf ++ lower x) = Some e /\
   match e with
   | XCred _ =>
       match later with
       | [] => quiet cf [] y
       | ph :: later' => ok cf later' (p_exp ph) [] (y ++ p_all ph)
       end
   | _ => True
   end).
Proof. intros cf later e buf x y H. destruct later; cbn [ok] in H; apply H; reflexivity. Qed.

(* invariant of the closed loop *)
Definition cl_inv (cf : cfg) (s : st) (pend : bytes) (phs : list phase) : Prop :=
  react cf (s_buf s) = None /\ (1 <= s_att s)%nat /\
  match phs with
  | [] => quiet cf (s_buf s) pend
  | ph :: later => ok cf later (p_exp ph) (s_buf s) pend
  end.

Lemma no_kick : forall cf s b t, (1 <= s_att s)%nat -> t <= c_interval cf -> kicks cf s b t = false.
Proof.
  intros cf s b t Ha Ht. unfold kicks.
  assert (H : (c_interval cf * N.of_nat (s_att s) <? t) = false).
  { apply N.ltb_ge. eapply N.le_trans; [exact Ht|].
    assert (c_interval cf * 1 <= c_interval cf * N.of_nat (s_att s)) by (apply N.mul_le_mono_l; lia).
    lia. }
  rewrite H, andb_false_r. reflexivity.
Qed.

Lemma its0_false : forall b, its0 b false = [IRead b].
Proof. reflexivity. Qed.

(* safety and progress: whatever the schedule, the run follows the dialogue, and every read of at
   least one byte brings it closer to its end *)
Definition todo (s : st) (pend : bytes) (phs : list phase) : nat :=
  (length pend + later_len (s_cnt s) phs)%nat.

Lemma cl_exec_spec : forall cf, empties cf -> forall sched s pend phs its x,
  no_kick_sched cf sched ->
  cl_inv cf s pend phs ->
  cl_exec cf s pend phs sched = (its, x) ->
  count_ret its = 0%nat /\
  match x with
  | ClStop o => expected (s_cnt s) phs = (o, answers its)
  | ClMore s' pend' phs' =>
      cl_inv cf s' pend' phs' /\
      expected (s_cnt s) phs =
        (fst (expected (s_cnt s') phs'), answers its ++ snd (expected (s_cnt s') phs')) /\
      (count_pos sched + todo s' pend' phs' <= todo s pend phs)%nat
  end.
Proof.
  intros cf He. induction sched as [|[n t] sched IH]; intros s pend phs its x Hnk Hinv H; cbn [cl_exec] in H.
  - pair_inv H. split; [reflexivity|]. split; [exact Hinv|]. cbn [answers flat_map app].
    split; [destruct (expected (s_cnt s) phs); reflexivity|]. cbn. lia.
  - inversion Hnk as [|? ? Ht Hnk']; subst. cbn [snd] in Ht.
    destruct Hinv as (Hrn & Hatt & Hphs).
    destruct (negb (Nat.eqb n 0) && is_nil pend) eqn:Hblk.
    + (* a read with nothing pending *)
      pair_inv H. split; [reflexivity|]. cbn [answers flat_map].
      apply andb_prop in Hblk. destruct Hblk as [_ Hnil]. destruct pend; [|discriminate].
      destruct phs as [|ph later]; [reflexivity|exfalso].
      apply ok_full in Hphs. rewrite lower_nil, app_nil_r in Hphs. congruence.
    + pose proof (firstn_skipn n pend) as Hsplit. symmetry in Hsplit.
      assert (Hskip : (length (skipn n pend) + (if negb (Nat.eqb n 0) then 1 else 0) <= length pend)%nat).
      { rewrite skipn_length. destruct (Nat.eqb n 0) eqn:En; cbn [negb].
        - lia.
        - apply Nat.eqb_neq in En. cbn [negb andb] in Hblk. destruct pend; [discriminate|]. cbn [length]. lia. }
      assert (Hcp : count_pos ((n, t) :: sched) = ((if negb (Nat.eqb n 0) then 1 else 0) + count_pos sched)%nat).
      { unfold count_pos. cbn [filter fst]. destruct (negb (Nat.eqb n 0)); reflexivity. }
      clear Hblk.
      set (x0 := firstn n pend) in *. set (y0 := skipn n pend) in *.
      pose proof (body_react cf He s x0 t) as Hb. cbv zeta in Hb.
      rewrite (no_kick cf s x0 t Hatt Ht) in Hb. rewrite its0_false in Hb.
      set (cur := s_buf s ++ lower x0) in *.
      assert (Hcase :
        (react cf cur = None /\
         match phs with [] => quiet cf cur y0 | ph :: later => ok cf later (p_exp ph) cur y0 end) \/
        (exists ph later, phs = ph :: later /\ react cf cur = Some (p_exp ph) /\
           match p_exp ph with
           | XCred _ => match later with
                        | [] => quiet cf [] y0
                        | ph' :: later' => ok cf later' (p_exp ph') [] (y0 ++ p_all ph')
                        end
           | _ => True
           end)).
      { destruct phs as [|ph later].
        - left. split; [apply (Hphs x0 y0 Hsplit)|]. rewrite Hsplit in Hphs. apply quiet_read. exact Hphs.
        - rewrite Hsplit in Hphs. destruct (ok_at _ _ _ _ _ _ Hphs) as [Hn|[Hs Hc]].
          + left. split; [exact Hn|]. apply ok_read. exact Hphs.
          + right. exists ph, later. auto. }
      destruct Hcase as [[Hn Hnext]|(ph & later & -> & Hs & Hnext)].
      * (* no reaction: read on *)
        rewrite Hn in Hb. rewrite Hb in H. cbn [answers flat_map app length advance] in H.
        destruct (cl_exec cf (mkSt cur (s_cnt s) (s_att s)) y0 phs sched) as [its' x'] eqn:Hx.
        pair_inv H.
        assert (Hinv' : cl_inv cf (mkSt cur (s_cnt s) (s_att s)) y0 phs)
          by (unfold cl_inv; cbn [s_buf s_att]; auto).
        destruct (IH _ _ _ _ _ Hnk' Hinv' Hx) as [Hr Hres]. cbn [s_cnt] in Hres.
        split; [cbn; exact Hr|].
        destruct x' as [s' pend' phs'|o]; [|exact Hres].
        destruct Hres as (Hi & Hex & Hm). conj; [exact Hi|exact Hex|].
        unfold todo in *. cbn [s_cnt] in Hm. rewrite Hcp. lia.
      * rewrite Hs in Hb. cbn [expected].
        destruct (p_exp ph) as [c| |] eqn:Hexp.
        -- destruct (Nat.leb 2 (getc (s_cnt s) c)) eqn:Hle.
           ++ rewrite Hb in H. pair_inv H. split; reflexivity.
           ++ rewrite Hb in H. cbn [app answers flat_map length] in H.
              cbn [advance] in H.
              assert (Htodo : forall pend1 phs1,
                (length pend1 + later_len (incc (s_cnt s) c) phs1 =
                 length y0 + needed (incc (s_cnt s) c) later)%nat ->
                forall s' pend' phs',
                (count_pos sched + todo s' pend' phs' <=
                 todo (mkSt [] (incc (s_cnt s) c) (s_att s)) pend1 phs1)%nat ->
                (count_pos ((n, t) :: sched) + todo s' pend' phs' <= todo s pend (ph :: later))%nat).
              { intros pend1 phs1 Heq s' pend' phs' Hm. unfold todo in *. cbn [s_cnt] in Hm.
                cbn [later_len]. rewrite Hexp, Hle, Hcp. lia. }
              destruct later as [|ph' later'].
              ** cbn [advance] in H.
                 destruct (cl_exec cf (mkSt [] (incc (s_cnt s) c) (s_att s)) y0 [] sched) as [its' x'] eqn:Hx.
                 pair_inv H.
                 assert (Hinv' : cl_inv cf (mkSt [] (incc (s_cnt s) c) (s_att s)) y0 []).
                 { unfold cl_inv; cbn [s_buf s_att]. conj; [apply react_nil; exact He|exact Hatt|exact Hnext]. }
                 destruct (IH _ _ _ _ _ Hnk' Hinv' Hx) as [Hr Hres]. cbn [s_cnt] in Hres.
                 split; [cbn; exact Hr|].
                 destruct x' as [s' pend' phs'|o].
                 --- destruct Hres as (Hi & Hex & Hm). conj; [exact Hi|rewrite Hex; reflexivity|].
                     eapply (Htodo y0 []); [reflexivity|exact Hm].
                 --- rewrite Hres. reflexivity.
              ** cbn [advance] in H.
                 destruct (cl_exec cf (mkSt [] (incc (s_cnt s) c) (s_att s)) (y0 ++ p_all ph') (ph' :: later') sched)
                   as [its' x'] eqn:Hx.
                 pair_inv H.
                 assert (Hinv' : cl_inv cf (mkSt [] (incc (s_cnt s) c) (s_att s)) (y0 ++ p_all ph') (ph' :: later')).
                 { unfold cl_inv; cbn [s_buf s_att]. conj; [apply react_nil; exact He|exact Hatt|exact Hnext]. }
                 destruct (IH _ _ _ _ _ Hnk' Hinv' Hx) as [Hr Hres]. cbn [s_cnt] in Hres.
                 split; [cbn; exact Hr|].
                 destruct x' as [s' pend' phs'|o].
                 --- destruct Hres as (Hi & Hex & Hm). conj; [exact Hi|rewrite Hex; reflexivity|].
                     eapply (Htodo (y0 ++ p_all ph') (ph' :: later')); [|exact Hm].
                     rewrite app_length. cbn [later_len needed]. lia.
                 --- rewrite Hres. reflexivity.
        -- rewrite Hb in H. pair_inv H. split; reflexivity.
        -- rewrite Hb in H. pair_inv H. split; reflexivity.
Qed.

Lemma total_len_cons : forall ph l, total_len (ph :: l) = (length (p_all ph) + total_len l)%nat.
Proof. intros. unfold total_len. cbn [flat_map]. rewrite app_length. reflexivity. Qed.

Lemma todo_start : forall phs, todo init (cl_start phs) phs = needed zero phs.
Proof. destruct phs as [|ph l]; reflexivity. Qed.

(* the closed loop is a run of the login loop on the events it generates *)
Definition cl_outcome (x : clres) : outcome := match x with ClStop o => o | ClMore _ _ _ => OBlocks end.

Lemma cl_exec_is_exec : forall cf sched s pend phs its x,
  cl_exec cf s pend phs sched = (its, x) ->
  exists r, exec cf s (cl_events cf s pend phs sched) = (its, r) /\ outcome_of r = cl_outcome x.
Proof.
  induction sched as [|[n t] sched IH]; intros s pend phs its x H; cbn [cl_exec cl_events] in *.
  - inversion H; subst. exists (Go s). split; reflexivity.
  - destruct (negb (Nat.eqb n 0) && is_nil pend).
    + inversion H; subst. exists (Go s). split; reflexivity.
    + cbn [exec step]. destruct (body cf s (firstn n pend) t) as [its1 [s1|o]] eqn:Hb.
      * destruct (advance (length (answers its1)) (skipn n pend) phs) as [pend1 phs1].
        destruct (cl_exec cf s1 pend1 phs1 sched) as [its2 x2] eqn:Hx.
        inversion H; subst. destruct (IH _ _ _ _ _ Hx) as (r & Hr & Ho).
        exists r. rewrite Hr. split; [reflexivity|exact Ho].
      * inversion H; subst. exists (Stop o). split; reflexivity.
Qed.

Lemma dlg_ok_inv : forall cf phs, empties cf -> dlg_ok cf phs -> cl_inv cf init (cl_start phs) phs.
Proof.
  intros cf phs He Hd. unfold cl_inv. cbn [init s_buf s_att]. conj.
  - apply react_nil. exact He.
  - lia.
  - destruct phs as [|ph later]; cbn [cl_start].
    + intros x y Hxy. destruct x; [|discriminate]. apply react_nil. exact He.
    + exact Hd.
Qed.

(* ---- Theorem (closed loop): for every dialogue none of whose chunk-prefixes looks like a prompt
   it is not (dlg_ok) and EVERY chunking schedule (reads of any sizes, empty reads / poll expiries
   anywhere, as long as the kick interval has not elapsed): the credentials written are exactly
   those the dialogue asks for, one per prompt, in order; the login ends as the dialogue says
   (shell prompt: returns; third sighting of a prompt or a fatal ssh message:
   ScrapliAuthenticationFailed); no bare return is written; it does end as soon as the schedule has
   delivered what the server prints up to that point ([needed]), i.e. it never waits for the
   timeout unless the server falls silent ---- *)
Theorem closed_loop_correct : forall cf phs sched its x,
  empties cf -> dlg_ok cf phs -> no_kick_sched cf sched ->
  cl_run cf phs sched = (its, x) ->
  count_ret its = 0%nat /\
  (exists rest, expected zero phs = (fst (expected zero phs), answers its ++ rest) /\
                match x with ClStop _ => rest = [] | ClMore _ _ _ => True end) /\
  (forall o, x = ClStop o -> expected zero phs = (o, answers its)) /\
  ((needed zero phs < count_pos sched)%nat -> exists o, x = ClStop o).
Proof.
  intros cf phs sched its x He Hd Hnk H. unfold cl_run in H.
  destruct (cl_exec_spec cf He sched init _ phs its x Hnk (dlg_ok_inv cf phs He Hd) H) as [Hr Hres].
  cbn [init s_cnt] in Hres. conj.
  - exact Hr.
  - destruct x as [s' pend' phs'|o].
    + destruct Hres as (_ & Hex & _). exists (snd (expected (s_cnt s') phs')). split; [|exact I].
      rewrite Hex. reflexivity.
    + exists []. rewrite Hres, app_nil_r. split; reflexivity.
  - intros o ->. exact Hres.
  - intro Hlen. destruct x as [s' pend' phs'|o]; [exfalso|exists o; reflexivity].
    destruct Hres as (_ & _ & Hm). rewrite todo_start in Hm. lia.
Qed.

(* ------------------------------------------------------------------------------------------ *)
(* Part C — shapes of dialogues, reflection, examples, refutations                            *)
(* ------------------------------------------------------------------------------------------ *)

Lemma getc_addc : forall cs n c, getc (addc n cs) c = (getc n c + occ c cs)%nat.
Proof.
  induction cs as [|d cs IH]; intros n c; cbn [addc fold_left]; [unfold occ; cbn; lia|].
  change (fold_left incc cs (incc n d)) with (addc (incc n d) cs). rewrite IH, getc_incc.
  unfold occ. cbn [filter]. destruct (cred_eqb c d); cbn [length]; lia.
Qed.

Lemma occ_cons : forall c d cs, occ c (d :: cs) = ((if cred_eqb c d then 1 else 0) + occ c cs)%nat.
Proof. intros. unfold occ. cbn [filter]. destruct (cred_eqb c d); reflexivity. Qed.

(* a dialogue that starts by asking for the credentials cs (each at most twice) *)
Lemma expected_prefix : forall cs n asked rest,
  map p_exp asked = map XCred cs ->
  (forall c, getc n c + occ c cs <= 2)%nat ->
  expected n (asked ++ rest) =
    (fst (expected (addc n cs) rest), cs ++ snd (expected (addc n cs) rest)) /\
  needed n (asked ++ rest) = (total_len asked + needed (addc n cs) rest)%nat.
Proof.
  induction cs as [|c cs IH]; intros n asked rest Hm Hle.
  - destruct asked; [|discriminate]. cbn [app addc fold_left]. split; [destruct (expected n rest); reflexivity|reflexivity].
  - destruct asked as [|ph asked]; [discriminate|]. cbn [map] in Hm. inversion Hm as [[He Hm']].
    cbn [app expected needed]. rewrite He.
    assert (Hlt : Nat.leb 2 (getc n c) = false).
    { apply Nat.leb_gt. specialize (Hle c). rewrite occ_cons, cred_eqb_refl in Hle. lia. }
    rewrite Hlt.
    assert (Hle' : forall d, (getc (incc n c) d + occ d cs <= 2)%nat).
    { intro d. specialize (Hle d). rewrite occ_cons in Hle. rewrite getc_incc. lia. }
    destruct (IH (incc n c) asked rest Hm' Hle') as [Hx Hn].
    cbn [addc fold_left]. change (fold_left incc cs (incc n c)) with (addc (incc n c) cs).
    rewrite Hx, Hn, total_len_cons. cbn [fst snd app]. split; [reflexivity|lia].
Qed.

Lemma total_len_app : forall a b, total_len (a ++ b) = (total_len a + total_len b)%nat.
Proof. intros. unfold total_len. rewrite flat_map_app, app_length. reflexivity. Qed.

Lemma occ_zero_le : forall cs, (forall c, occ c cs <= 2)%nat -> forall c, (getc zero c + occ c cs <= 2)%nat.
Proof. intros cs H c. rewrite getc_zero. apply H. Qed.

(* ---- Theorem: login completes.  The server asks for the credentials cs (any order, each at most
   twice — once each for a plain login), then prints MOTD and shell prompt; whatever banner, echo
   and MOTD text (under dlg_ok), whatever prompt spellings the patterns accept, whatever chunking:
   the login returns, having written exactly cs, one answer per prompt, and no bare return; it
   has returned as soon as the text up to the shell prompt has been delivered ---- *)
Theorem login_completes : forall cf asked ph rest cs sched its x,
  empties cf ->
  map p_exp asked = map XCred cs -> p_exp ph = XShell -> (forall c, occ c cs <= 2)%nat ->
  dlg_ok cf (asked ++ ph :: rest) -> no_kick_sched cf sched ->
  cl_run cf (asked ++ ph :: rest) sched = (its, x) ->
  count_ret its = 0%nat /\
  (exists more, cs = answers its ++ more) /\
  (forall o, x = ClStop o -> o = ODone /\ answers its = cs) /\
  ((total_len (asked ++ [ph]) < count_pos sched)%nat -> x = ClStop ODone /\ answers its = cs).
Proof.
  intros cf asked ph rest cs sched its x He Hm Hph Hocc Hd Hnk H.
  destruct (expected_prefix cs zero asked (ph :: rest) Hm (occ_zero_le cs Hocc)) as [Hx Hn].
  cbn [expected needed] in Hx, Hn. rewrite Hph in Hx, Hn. cbn [fst snd] in Hx.
  rewrite app_nil_r in Hx.
  destruct (closed_loop_correct cf _ sched its x He Hd Hnk H) as (Hr & (more & Hex & _) & Hstop & Hlive).
  rewrite Hx in Hex, Hstop. cbn [fst] in Hex.
  assert (Hstop' : forall o, x = ClStop o -> o = ODone /\ answers its = cs).
  { intros o Ho. specialize (Hstop o Ho). inversion Hstop. split; reflexivity. }
  conj.
  - exact Hr.
  - exists more. inversion Hex. reflexivity.
  - exact Hstop'.
  - intro Hlen. destruct Hlive as [o Ho].
    + rewrite Hn. rewrite total_len_app, total_len_cons in Hlen. unfold total_len at 2 in Hlen.
      cbn [flat_map length] in Hlen. lia.
    + destruct (Hstop' o Ho) as [-> Ha]. split; [exact Ho|exact Ha].
Qed.

(* ---- Theorem: rejected credentials.  The server keeps re-prompting; when it shows the prompt of
   credential c for the third time (cs: what it asked for before, c twice among them), the login
   raises ScrapliAuthenticationFailed at once — exactly the submissions cs were made, none after,
   no bare return, and no timeout is involved ---- *)
Theorem rejected_gives_up : forall cf asked ph rest cs c sched its x,
  empties cf ->
  map p_exp asked = map XCred cs -> p_exp ph = XCred c ->
  (forall d, occ d cs <= 2)%nat -> occ c cs = 2%nat ->
  dlg_ok cf (asked ++ ph :: rest) -> no_kick_sched cf sched ->
  cl_run cf (asked ++ ph :: rest) sched = (its, x) ->
  count_ret its = 0%nat /\
  (exists more, cs = answers its ++ more) /\
  (forall o, x = ClStop o -> o = OAuthFailed (WThird c) /\ answers its = cs) /\
  ((total_len (asked ++ [ph]) < count_pos sched)%nat ->
   x = ClStop (OAuthFailed (WThird c)) /\ answers its = cs).
Proof.
  intros cf asked ph rest cs c sched its x He Hm Hph Hocc Hc Hd Hnk H.
  destruct (expected_prefix cs zero asked (ph :: rest) Hm (occ_zero_le cs Hocc)) as [Hx Hn].
  cbn [expected needed] in Hx, Hn. rewrite Hph in Hx, Hn.
  assert (Hge : Nat.leb 2 (getc (addc zero cs) c) = true).
  { apply Nat.leb_le. rewrite getc_addc, getc_zero, Hc. lia. }
  rewrite Hge in Hx, Hn. cbn [fst snd] in Hx. rewrite app_nil_r in Hx.
  destruct (closed_loop_correct cf _ sched its x He Hd Hnk H) as (Hr & (more & Hex & _) & Hstop & Hlive).
  rewrite Hx in Hex, Hstop. cbn [fst] in Hex.
  assert (Hstop' : forall o, x = ClStop o -> o = OAuthFailed (WThird c) /\ answers its = cs).
  { intros o Ho. specialize (Hstop o Ho). inversion Hstop. split; reflexivity. }
  conj.
  - exact Hr.
  - exists more. inversion Hex. reflexivity.
  - exact Hstop'.
  - intro Hlen. destruct Hlive as [o Ho].
    + rewrite Hn. rewrite total_len_app, total_len_cons in Hlen. unfold total_len at 2 in Hlen.
      cbn [flat_map length] in Hlen. lia.
    + destruct (Hstop' o Ho) as [-> Ha]. split; [exact Ho|exact Ha].
Qed.

(* ---- Theorem: a fatal ssh client message after the submissions cs ends the login at once ---- *)
Theorem rejected_fatal : forall cf asked ph rest cs sched its x,
  empties cf ->
  map p_exp asked = map XCred cs -> p_exp ph = XFatal -> (forall d, occ d cs <= 2)%nat ->
  dlg_ok cf (asked ++ ph :: rest) -> no_kick_sched cf sched ->
  cl_run cf (asked ++ ph :: rest) sched = (its, x) ->
  count_ret its = 0%nat /\
  (forall o, x = ClStop o -> o = OAuthFailed WFatal /\ answers its = cs) /\
  ((total_len (asked ++ [ph]) < count_pos sched)%nat ->
   x = ClStop (OAuthFailed WFatal) /\ answers its = cs).
Proof.
  intros cf asked ph rest cs sched its x He Hm Hph Hocc Hd Hnk H.
  destruct (expected_prefix cs zero asked (ph :: rest) Hm (occ_zero_le cs Hocc)) as [Hx Hn].
  cbn [expected needed] in Hx, Hn. rewrite Hph in Hx, Hn. cbn [fst snd] in Hx. rewrite app_nil_r in Hx.
  destruct (closed_loop_correct cf _ sched its x He Hd Hnk H) as (Hr & _ & Hstop & Hlive).
  rewrite Hx in Hstop.
  assert (Hstop' : forall o, x = ClStop o -> o = OAuthFailed WFatal /\ answers its = cs).
  { intros o Ho. specialize (Hstop o Ho). inversion Hstop. split; reflexivity. }
  conj.
  - exact Hr.
  - exact Hstop'.
  - intro Hlen. destruct Hlive as [o Ho].
    + rewrite Hn. rewrite total_len_app, total_len_cons in Hlen. unfold total_len at 2 in Hlen.
      cbn [flat_map length] in Hlen. lia.
    + destruct (Hstop' o Ho) as [-> Ha]. split; [exact Ho|exact Ha].
Qed.

(* ---- Theorem: a server that stops talking after asking for cs (no further prompt, no shell):
   the login never raises ScrapliAuthenticationFailed and never returns — it can only wait (for
   the timeout decorator).  With cs = user, password, user, password this is the server that
   re-prompts ONCE and then falls silent or hangs up. ---- *)
Theorem silent_server_blocks : forall cf asked cs sched its x,
  empties cf ->
  map p_exp asked = map XCred cs -> (forall d, occ d cs <= 2)%nat ->
  dlg_ok cf asked -> no_kick_sched cf sched ->
  cl_run cf asked sched = (its, x) ->
  (forall o, x = ClStop o -> o = OBlocks /\ answers its = cs).
Proof.
  intros cf asked cs sched its x He Hm Hocc Hd Hnk H o Ho.
  destruct (expected_prefix cs zero asked [] Hm (occ_zero_le cs Hocc)) as [Hx _].
  rewrite app_nil_r in Hx. cbn [expected fst snd] in Hx. rewrite app_nil_r in Hx.
  destruct (closed_loop_correct cf _ sched its x He Hd Hnk H) as (_ & _ & Hstop & _).
  specialize (Hstop o Ho). rewrite Hx in Hstop. inversion Hstop. split; reflexivity.
Qed.

(* ---- reflection of the executable side conditions ---- *)
Lemma expect_eqb_eq : forall a b, expect_eqb a b = true -> a = b.
Proof.
  destruct a as [c| |], b as [d| |]; cbn; try congruence. intro H. apply cred_eqb_eq in H. congruence.
Qed.

Lemma oexp_eqb_eq : forall a b, oexp_eqb a b = true -> a = b.
Proof.
  destruct a, b; cbn; try congruence. intro H. apply expect_eqb_eq in H. congruence.
Qed.

Lemma splits_complete : forall x s y, s = x ++ y -> In (x, y) (splits s).
Proof.
  induction x as [|c x IH]; intros s y H; cbn [app] in H; subst s.
  - destruct y; left; reflexivity.
  - cbn [splits]. right. apply (in_map (fun p => (c :: fst p, snd p)) _ (x, y)). apply IH. reflexivity.
Qed.

Lemma quietb_sound : forall cf buf rem, quietb cf buf rem = true -> quiet cf buf rem.
Proof.
  intros cf buf rem H x y Hxy. unfold quietb in H. rewrite forallb_forall in H.
  specialize (H (x, y) (splits_complete x rem y Hxy)). cbn [fst] in H. apply oexp_eqb_eq in H. exact H.
Qed.

Lemma okb_sound : forall cf later e buf rem, okb cf later e buf rem = true -> ok cf later e buf rem.
Proof.
  intros cf later. induction later as [|ph later IH]; intros e buf rem H; cbn [okb ok] in *;
    apply andb_prop in H; destruct H as [Hfull Hall]; (split; [apply oexp_eqb_eq; exact Hfull|]);
    intros x y Hxy; rewrite forallb_forall in Hall;
    specialize (Hall (x, y) (splits_complete x rem y Hxy)); cbn [fst snd] in Hall;
    (destruct (react cf (buf ++ lower x)) as [e'|]; [right|left; reflexivity]);
    apply andb_prop in Hall; destruct Hall as [He Hc]; apply expect_eqb_eq in He; subst e';
    (split; [reflexivity|]); destruct e; try exact I.
  - apply quietb_sound. exact Hc.
  - apply IH. exact Hc.
Qed.

Theorem dlg_okb_sound : forall cf phs, dlg_okb cf phs = true -> dlg_ok cf phs.
Proof. intros cf [|ph later] H; [exact I|]. apply okb_sound. exact H. Qed.

Theorem emptiesb_sound : forall cf, emptiesb cf = true -> empties cf.
Proof.
  intros cf H. unfold emptiesb in H.
  repeat (apply andb_prop in H; destruct H as [H ?]).
  repeat match goal with Hn : negb _ = true |- _ => apply negb_true_iff in Hn end.
  unfold empties. conj; try assumption. intros [| |]; assumption.
Qed.

Lemma no_kick_schedb_sound : forall cf sched, no_kick_schedb cf sched = true -> no_kick_sched cf sched.
Proof.
  intros cf sched H. unfold no_kick_schedb in H. rewrite forallb_forall in H.
  apply Forall_forall. intros x Hx. apply N.leb_le. apply H. exact Hx.
Qed.

Lemma no_kick_bytewise : forall cf n, no_kick_sched cf (bytewise n).
Proof.
  intros cf n. apply Forall_forall. intros x Hx. unfold bytewise in Hx. apply repeat_spec in Hx. subst x.
  cbn [snd]. apply N.le_0_l.
Qed.

Lemma count_pos_bytewise : forall n, count_pos (bytewise n) = n.
Proof. induction n as [|n IH]; [reflexivity|]. unfold count_pos, bytewise in *. cbn. rewrite IH. reflexivity. Qed.

(* ---- the property's own wording of the proviso (complete LINES that look like a prompt) is not
   enough: the full statement, its refutation by a witness, and the partial statement ---- *)
Definition login_completes_full (cf : cfg) : Prop :=
  forall asked ph cs sched its x,
    map p_exp asked = map XCred cs -> p_exp ph = XShell -> (forall c, occ c cs <= 1)%nat ->
    lines_clean cf (asked ++ [ph]) = true ->
    no_kick_sched cf sched -> (total_len (asked ++ [ph]) < count_pos sched)%nat ->
    cl_run cf (asked ++ [ph]) sched = (its, x) ->
    x = ClStop ODone /\ answers its = cs.

Fixpoint creds_eqb (a b : list cred) : bool :=
  match a, b with
  | [], [] => true
  | x :: a', y :: b' => cred_eqb x y && creds_eqb a' b'
  | _, _ => false
  end.

Lemma creds_eqb_refl : forall a, creds_eqb a a = true.
Proof. induction a as [|c a IH]; cbn; [reflexivity|]. rewrite cred_eqb_refl, IH. reflexivity. Qed.

Fixpoint exps_eqb (a b : list expect) : bool :=
  match a, b with
  | [], [] => true
  | x :: a', y :: b' => expect_eqb x y && exps_eqb a' b'
  | _, _ => false
  end.

Lemma exps_eqb_eq : forall a b, exps_eqb a b = true -> a = b.
Proof.
  induction a as [|x a IH]; destruct b as [|y b]; cbn; try congruence.
  intro H. apply andb_prop in H. destruct H as [H1 H2]. apply expect_eqb_eq in H1. apply IH in H2. congruence.
Qed.

(* a witness: a line-clean dialogue and a schedule on which the login does not do what it should *)
Definition full_witness (cf : cfg) (asked : list phase) (ph : phase) (cs : list cred)
           (sched : list (nat * N)) : bool :=
  exps_eqb (map p_exp asked) (map XCred cs) && expect_eqb (p_exp ph) XShell &&
  Nat.leb (occ CUser cs) 1 && Nat.leb (occ CPass cs) 1 && Nat.leb (occ CPhrase cs) 1 &&
  lines_clean cf (asked ++ [ph]) && no_kick_schedb cf sched &&
  Nat.ltb (total_len (asked ++ [ph])) (count_pos sched) &&
  let (its, x) := cl_run cf (asked ++ [ph]) sched in
  negb ((clres_code x =? 0) && creds_eqb (answers its) cs).

Theorem login_completes_full_refuted_by : forall cf asked ph cs sched,
  full_witness cf asked ph cs sched = true -> ~ login_completes_full cf.
Proof.
  intros cf asked ph cs sched H Hfull. unfold full_witness in H.
  repeat (apply andb_prop in H; destruct H as [H ?]).
  destruct (cl_run cf (asked ++ [ph]) sched) as [its x] eqn:Hrun.
  match goal with Hn : negb _ = true |- _ => apply negb_true_iff in Hn; rename Hn into Hbad end.
  destruct (Hfull asked ph cs sched its x) as [Hx Ha]; try assumption.
  - apply exps_eqb_eq. assumption.
  - apply expect_eqb_eq. assumption.
  - intros [| |]; apply Nat.leb_le; assumption.
  - apply no_kick_schedb_sound. assumption.
  - apply Nat.ltb_lt. assumption.
  - subst x. rewrite Ha in Hbad. cbn [clres_code outcome_code] in Hbad.
    rewrite creds_eqb_refl in Hbad. discriminate.
Qed.

(* the strongest true statement: the proviso on every chunk-prefix (dlg_ok) — this is
   [login_completes] restricted to the same shape *)
Theorem login_completes_partial : forall cf asked ph cs sched its x,
  empties cf ->
  map p_exp asked = map XCred cs -> p_exp ph = XShell -> (forall c, occ c cs <= 1)%nat ->
  dlg_ok cf (asked ++ [ph]) ->
  no_kick_sched cf sched -> (total_len (asked ++ [ph]) < count_pos sched)%nat ->
  cl_run cf (asked ++ [ph]) sched = (its, x) ->
  x = ClStop ODone /\ answers its = cs.
Proof.
  intros cf asked ph cs sched its x He Hm Hph Hocc Hd Hnk Hlen H.
  assert (Hocc2 : forall c, (occ c cs <= 2)%nat) by (intro c; specialize (Hocc c); lia).
  destruct (login_completes cf asked ph [] cs sched its x He Hm Hph Hocc2 Hd Hnk H) as (_ & _ & _ & Hl).
  apply Hl. exact Hlen.
Qed.

(* ---- a server that re-prompts only once: the full statement "rejected => AuthenticationFailed"
   for every number of re-prompts >= 1 is false ---- *)
Definition telnet_rounds (rounds : nat) : list expect :=
  concat (repeat [XCred CUser; XCred CPass] rounds).

Definition rejected_gives_up_full : Prop :=
  forall cf rounds phs sched its x,
    empties cf -> c_kind cf = Telnet -> (2 <= rounds)%nat ->
    map p_exp phs = telnet_rounds rounds -> dlg_ok cf phs ->
    no_kick_sched cf sched -> (total_len phs < count_pos sched)%nat ->
    cl_run cf phs sched = (its, x) ->
    exists w, x = ClStop (OAuthFailed w).

(* the partial statement: from the second re-prompt on (the third prompt is shown) *)
Theorem rejected_gives_up_partial : forall cf rounds phs sched its x,
  empties cf -> (3 <= rounds)%nat ->
  map p_exp phs = telnet_rounds rounds -> dlg_ok cf phs ->
  no_kick_sched cf sched -> (total_len phs < count_pos sched)%nat ->
  cl_run cf phs sched = (its, x) ->
  x = ClStop (OAuthFailed (WThird CUser)) /\ answers its = [CUser; CPass; CUser; CPass].
Proof.
  intros cf rounds phs sched its x He Hr Hm Hd Hnk Hlen H.
  destruct rounds as [|[|[|r]]]; try lia. unfold telnet_rounds in Hm. cbn [repeat concat app] in Hm.
  destruct phs as [|p1 [|p2 [|p3 [|p4 [|p5 rest]]]]]; try discriminate.
  cbn [map] in Hm. injection Hm as H1 H2 H3 H4 H5 Hrest.
  destruct (rejected_gives_up cf [p1; p2; p3; p4] p5 rest [CUser; CPass; CUser; CPass] CUser sched its x He)
    as (_ & _ & _ & Hl); try assumption.
  - cbn [map]. rewrite H1, H2, H3, H4. reflexivity.
  - intros [| |]; cbn; lia.
  - reflexivity.
  - apply Hl. change ([p1; p2; p3; p4] ++ [p5]) with ([p1; p2; p3; p4; p5]).
    change (p1 :: p2 :: p3 :: p4 :: p5 :: rest) with ([p1; p2; p3; p4; p5] ++ rest) in Hlen.
    rewrite total_len_app in Hlen. lia.
Qed.

(* ---- examples (literal patterns): the premises are satisfiable, the conclusions observable ---- *)
Definition b_login : bytes := [108;111;103;105;110;58].                 (* login: *)
Definition b_password : bytes := [112;97;115;115;119;111;114;100;58].   (* password: *)
Definition b_phrase : bytes := [107;101;121;58].                         (* key: *)
Definition ex_cfg (k : lkind) : cfg :=
  lit_cfg k b_login b_password b_phrase [35] [[100;101;110;105;101;100]] 3000.   (* "#", "denied" *)

(* "hi\n" "Login:" / "u\n" "Password:" / "\nlast login at noon\n" "r1#" *)
Definition ex_p1 := mkPhase [104;105;10] [76;111;103;105;110;58] (XCred CUser).
Definition ex_p2 := mkPhase [117;10] [80;97;115;115;119;111;114;100;58] (XCred CPass).
Definition ex_p3 := mkPhase [10;108;97;115;116;32;108;111;103;105;110;32;97;116;32;110;111;111;110;10]
                            [114;49;35] XShell.
(* "\nLogin incorrect\n" "Login:" *)
Definition ex_r1 := mkPhase [10;76;111;103;105;110;32;105;110;99;111;114;114;101;99;116;10]
                            [76;111;103;105;110;58] (XCred CUser).
(* MOTD with the line "last login: noon" *)
Definition ex_p3_hazard := mkPhase [10;108;97;115;116;32;108;111;103;105;110;58;32;110;111;111;110;10]
                                   [114;49;35] XShell.

Example ex_empties : empties (ex_cfg Telnet).
Proof. apply emptiesb_sound. vm_compute. reflexivity. Qed.

Example ex_dlg_ok : dlg_ok (ex_cfg Telnet) [ex_p1; ex_p2; ex_p3].
Proof. apply dlg_okb_sound. vm_compute. reflexivity. Qed.

Example ex_login_bytewise :
  let (its, x) := cl_run (ex_cfg Telnet) [ex_p1; ex_p2; ex_p3] (bytewise 60) in
  clres_code x = 0 /\ answers its = [CUser; CPass] /\ count_ret its = 0%nat.
Proof. vm_compute. repeat split. Qed.

Example ex_login_two_chunks :
  let (its, x) := cl_run (ex_cfg Telnet) [ex_p1; ex_p2; ex_p3] [(4%nat, 0); (0%nat, 5); (100%nat, 7); (100%nat, 9); (100%nat, 9)] in
  clres_code x = 0 /\ answers its = [CUser; CPass].
Proof. vm_compute. repeat split. Qed.

Example ex_rejected_dlg_ok : dlg_ok (ex_cfg Telnet) [ex_p1; ex_p2; ex_r1; ex_p2; ex_r1; ex_p2].
Proof. apply dlg_okb_sound. vm_compute. reflexivity. Qed.

Example ex_rejected_bytewise :
  let (its, x) := cl_run (ex_cfg Telnet) [ex_p1; ex_p2; ex_r1; ex_p2; ex_r1; ex_p2] (bytewise 100) in
  clres_code x = 1 /\ answers its = [CUser; CPass; CUser; CPass].
Proof. vm_compute. repeat split. Qed.

(* the hazard: line-clean, not dlg_ok; read byte by byte the user name is written a second time *)
Example ex_hazard_lines_clean : lines_clean (ex_cfg Telnet) [ex_p1; ex_p2; ex_p3_hazard] = true.
Proof. vm_compute. reflexivity. Qed.
Example ex_hazard_not_ok : dlg_okb (ex_cfg Telnet) [ex_p1; ex_p2; ex_p3_hazard] = false.
Proof. vm_compute. reflexivity. Qed.
Example ex_hazard_whole_chunks :
  let (its, x) := cl_run (ex_cfg Telnet) [ex_p1; ex_p2; ex_p3_hazard] [(100%nat, 0); (100%nat, 0); (100%nat, 0)] in
  clres_code x = 0 /\ answers its = [CUser; CPass].
Proof. vm_compute. repeat split. Qed.

Theorem login_completes_full_refuted_lit : ~ login_completes_full (ex_cfg Telnet).
Proof.
  apply (login_completes_full_refuted_by (ex_cfg Telnet) [ex_p1; ex_p2] ex_p3_hazard [CUser; CPass] (bytewise 60)).
  vm_compute. reflexivity.
Qed.

Theorem rejected_gives_up_full_refuted : ~ rejected_gives_up_full.
Proof.
  intro Hfull.
  destruct (cl_run (ex_cfg Telnet) [ex_p1; ex_p2; ex_r1; ex_p2] (bytewise 100)) as [its x] eqn:Hrun.
  assert (Hd : dlg_ok (ex_cfg Telnet) [ex_p1; ex_p2; ex_r1; ex_p2]) by (apply dlg_okb_sound; vm_compute; reflexivity).
  destruct (Hfull (ex_cfg Telnet) 2%nat [ex_p1; ex_p2; ex_r1; ex_p2] (bytewise 100) its x) as [w Hw];
    try assumption; try reflexivity; try lia.
  - apply ex_empties.
  - apply no_kick_bytewise.
  - rewrite count_pos_bytewise. vm_compute. lia.
  - destruct (silent_server_blocks (ex_cfg Telnet) [ex_p1; ex_p2; ex_r1; ex_p2] [CUser; CPass; CUser; CPass]
                (bytewise 100) its x ex_empties) with (o := OAuthFailed w) as [Ho _];
      try assumption; try reflexivity.
    + intros [| |]; cbn; lia.
    + apply no_kick_bytewise.
    + discriminate.
Qed.

(* ssh: passphrase, then password, then the shell; and a rejected password ("denied" is fatal) *)
Definition ex_k1 := mkPhase [] [101;110;116;101;114;32;107;101;121;58] (XCred CPhrase).    (* "enter key:" *)
Definition ex_k2 := mkPhase [10] [117;64;104;32;112;97;115;115;119;111;114;100;58] (XCred CPass). (* u@h password: *)
Definition ex_kf := mkPhase [10] [100;101;110;105;101;100] XFatal.                           (* "denied" *)

Example ex_ssh_dlg_ok : dlg_ok (ex_cfg Ssh) [ex_k1; ex_k2; ex_p3].
Proof. apply dlg_okb_sound. vm_compute. reflexivity. Qed.
Example ex_ssh_bytewise :
  let (its, x) := cl_run (ex_cfg Ssh) [ex_k1; ex_k2; ex_p3] (bytewise 60) in
  clres_code x = 0 /\ answers its = [CPhrase; CPass].
Proof. vm_compute. repeat split. Qed.
Example ex_ssh_fatal_dlg_ok : dlg_ok (ex_cfg Ssh) [ex_k2; ex_kf].
Proof. apply dlg_okb_sound. vm_compute. reflexivity. Qed.
Example ex_ssh_fatal_bytewise :
  let (its, x) := cl_run (ex_cfg Ssh) [ex_k2; ex_kf] (bytewise 40) in
  clres_code x = 4 /\ answers its = [CPass].
Proof. vm_compute. repeat split. Qed.

(* open loop examples: a kick, a connection error, a third sighting *)
Example ex_kick :
  run (ex_cfg Telnet) [EData [] 2999; EExpire 3001; EData [] 3002; EExpire 6001; EData b_login 0] =
  (OBlocks, [IRead []; IRead []; IRet; IRead []; IRead []; IRet; IRead b_login; IAns CUser]).
Proof. vm_compute. reflexivity. Qed.
Example ex_err_telnet : run (ex_cfg Telnet) [EErr; EData [35] 0] = (ODone, [IRet; IRead [35]]).
Proof. vm_compute. reflexivity. Qed.
Example ex_err_ssh : run (ex_cfg Ssh) [EErr; EData [35] 0] = (OConnErr, []).
Proof. vm_compute. reflexivity. Qed.
Example ex_third :
  run (ex_cfg Telnet) [EData b_login 0; EData b_login 0; EData b_login 0; EData [35] 0] =
  (OAuthFailed (WThird CUser), [IRead b_login; IAns CUser; IRead b_login; IAns CUser; IRead b_login]).
Proof. vm_compute. reflexivity. Qed.

(* ---- what reaches the wire: without bare returns, exactly credential + return per answer ---- *)
Lemma writes_of_answers : forall cf its,
  count_ret its = 0%nat ->
  writes_of cf its = flat_map (fun c => [c_ans cf c; c_ret cf]) (answers its).
Proof.
  intros cf. induction its as [|i its IH]; intro H; [reflexivity|].
  destruct i as [b|c|]; cbn [writes_of answers flat_map app] in *.
  - apply IH. exact H.
  - f_equal. f_equal. apply IH. exact H.
  - unfold count_ret in H. cbn in H. discriminate.
Qed.

Corollary login_writes_exact : forall cf asked ph rest cs sched its x,
  empties cf ->
  map p_exp asked = map XCred cs -> p_exp ph = XShell -> (forall c, occ c cs <= 2)%nat ->
  dlg_ok cf (asked ++ ph :: rest) -> no_kick_sched cf sched ->
  (total_len (asked ++ [ph]) < count_pos sched)%nat ->
  cl_run cf (asked ++ ph :: rest) sched = (its, x) ->
  x = ClStop ODone /\ writes_of cf its = flat_map (fun c => [c_ans cf c; c_ret cf]) cs.
Proof.
  intros cf asked ph rest cs sched its x He Hm Hph Hocc Hd Hnk Hlen H.
  destruct (login_completes cf asked ph rest cs sched its x He Hm Hph Hocc Hd Hnk H) as (Hr & _ & _ & Hl).
  destruct (Hl Hlen) as [Hx Ha]. split; [exact Hx|]. rewrite (writes_of_answers cf its Hr), Ha. reflexivity.
Qed.

(* ---- histories of logins on one object ---- *)
(* counters local to the login function: every login of a history is a run from the initial state,
   whatever the earlier logins did *)
Theorem history_independent : forall cf logins carried,
  hist_run CsLocal cf carried logins = map (run cf) logins.
Proof.
  intros cf. induction logins as [|evs rest IH]; intro carried; [reflexivity|].
  cbn [hist_run map start_of]. rewrite IH. unfold run.
  destruct (exec cf init evs) as [its r]. reflexivity.
Qed.

Theorem history_cl_independent : forall cf ss carried,
  hist_cl CsLocal cf carried ss = map (fun s => cl_run cf (fst s) (snd s)) ss.
Proof.
  intros cf. induction ss as [|s rest IH]; intro carried; [reflexivity|].
  cbn [hist_cl map start_of]. rewrite IH. reflexivity.
Qed.

Theorem history_completes_local : history_completes_for CsLocal.
Proof.
  intros cf ss He Hall. rewrite history_cl_independent.
  induction Hall as [|s rest Hs _ IH]; [constructor|].
  cbn [map]. constructor; [|exact IH].
  destruct Hs as (Hm & Hph & Hocc & Hd & Hnk & Hlen).
  unfold se_io. cbn [fst snd].
  destruct (cl_run cf (se_phs s) (se_sched s)) as [its x] eqn:Hrun.
  destruct (login_completes cf (se_asked s) (se_ph s) (se_rest s) (se_cs s) (se_sched s) its x
              He Hm Hph Hocc Hd Hnk Hrun) as (Hr & _ & _ & Hl).
  destruct (Hl Hlen) as [Hx Ha].
  unfold login_done. cbn [fst snd]. split; [exact Hx|]. split; [exact Ha|exact Hr].
Qed.

(* ... and the scope is what makes it true: with counters that live on the object the third login
   of a history of three accepted logins raises on the first prompt it sees *)
Definition ex_session : session := mkSession [ex_p1; ex_p2] ex_p3 [] [CUser; CPass] (bytewise 60).

Example ex_session_ok : session_ok (ex_cfg Telnet) ex_session.
Proof.
  unfold session_ok, ex_session. cbn [se_asked se_ph se_rest se_cs se_sched se_phs app].
  split; [reflexivity|]. split; [reflexivity|]. split; [intros [| |]; cbn; lia|].
  split; [exact ex_dlg_ok|]. split; [apply no_kick_bytewise|].
  rewrite count_pos_bytewise. vm_compute. lia.
Qed.

Example ex_history_local :
  map (fun r => (clres_code (snd r), answers (fst r)))
      (hist_cl CsLocal (ex_cfg Telnet) zero (map se_io [ex_session; ex_session; ex_session])) =
  [(0, [CUser; CPass]); (0, [CUser; CPass]); (0, [CUser; CPass])].
Proof. vm_compute. reflexivity. Qed.

Example ex_history_object :
  map (fun r => (clres_code (snd r), answers (fst r)))
      (hist_cl CsObject (ex_cfg Telnet) zero (map se_io [ex_session; ex_session; ex_session])) =
  [(0, [CUser; CPass]); (0, [CUser; CPass]); (1, [])].
Proof. vm_compute. reflexivity. Qed.

Lemma Forall2_nth_error : forall A B (P : A -> B -> Prop) l1 l2, Forall2 P l1 l2 ->
  forall k a b, nth_error l1 k = Some a -> nth_error l2 k = Some b -> P a b.
Proof.
  intros A B P l1 l2 H. induction H as [|x y l1 l2 Hxy _ IH]; intros k a b Ha Hb.
  - destruct k; discriminate.
  - destruct k as [|k]; cbn in Ha, Hb.
    + inversion Ha; inversion Hb; subst. exact Hxy.
    + exact (IH k a b Ha Hb).
Qed.

Theorem history_completes_object_refuted : ~ history_completes_for CsObject.
Proof.
  intro H.
  specialize (H (ex_cfg Telnet) [ex_session; ex_session; ex_session] ex_empties
                (Forall_cons _ ex_session_ok (Forall_cons _ ex_session_ok (Forall_cons _ ex_session_ok (Forall_nil _))))).
  destruct (nth_error (hist_cl CsObject (ex_cfg Telnet) zero (map se_io [ex_session; ex_session; ex_session])) 2)
    as [r|] eqn:E; [|vm_compute in E; discriminate].
  destruct (Forall2_nth_error _ _ _ _ _ H 2%nat ex_session r eq_refl E) as [Hd _].
  vm_compute in E. inversion E; subst. cbn in Hd. discriminate.
Qed.
