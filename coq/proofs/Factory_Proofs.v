(* Factory_Proofs.v — theorems about model/Factory.v, for ALL keyword dictionaries.
   Dictionaries are association lists with unique keys (a Python dict / **kwargs cannot repeat a
   key): hypothesis [NoDup (keys kw)]. *)
From Verif Require Import Bytes Factory.
From Coq Require Import Lia.

(* ---- byte strings ---------------------------------------------------------------------------- *)
Lemma beq_refl : forall a, beq a a = true.
Proof. induction a; simpl; auto. rewrite N.eqb_refl. auto. Qed.

Lemma beq_true : forall a c, beq a c = true -> a = c.
Proof.
  induction a; destruct c; simpl; intros; try discriminate; auto.
  apply andb_true_iff in H. destruct H. apply N.eqb_eq in H. f_equal; auto.
Qed.

Lemma beq_sym : forall a c, beq a c = beq c a.
Proof.
  intros. destruct (beq a c) eqn:E.
  - apply beq_true in E. subst. symmetry. apply beq_refl.
  - destruct (beq c a) eqn:E2; auto. apply beq_true in E2. subst. rewrite beq_refl in E. discriminate.
Qed.

Lemma beq_false_neq : forall a c, beq a c = false -> a <> c.
Proof. intros a c H E. subst. rewrite beq_refl in H. discriminate. Qed.

Lemma neq_beq_false : forall a c, a <> c -> beq a c = false.
Proof. intros. destruct (beq a c) eqn:E; auto. apply beq_true in E. contradiction. Qed.

Lemma mem_key_in : forall k l, mem_key k l = true <-> In k l.
Proof.
  unfold mem_key. intros. rewrite existsb_exists. split.
  - intros [x [H1 H2]]. apply beq_true in H2. subst. auto.
  - intros. exists k. split; auto. apply beq_refl.
Qed.

(* ---- get / set / merge ------------------------------------------------------------------------ *)
Lemma get_in_keys : forall k d v, get k d = Some v -> In k (keys d).
Proof.
  induction d as [|[k' v'] r]; simpl; intros; try discriminate.
  destruct (beq k' k) eqn:E. left. apply beq_true; auto. right. eauto.
Qed.

Lemma get_none_notin : forall k d, get k d = None <-> ~ In k (keys d).
Proof.
  induction d as [|[k' v'] r]; simpl; split; intros; auto.
  - destruct (beq k' k) eqn:E; try discriminate. intros [F|F].
    + subst. rewrite beq_refl in E. discriminate.
    + apply IHr in H. contradiction.
  - destruct (beq k' k) eqn:E.
    + apply beq_true in E. subst. exfalso. apply H. auto.
    + apply IHr. intro. apply H. auto.
Qed.

Lemma in_keys_get : forall k d, In k (keys d) -> exists v, get k d = Some v.
Proof.
  intros. destruct (get k d) eqn:E; eauto. apply get_none_notin in E. contradiction.
Qed.

Lemma get_in_pair : forall k d v, get k d = Some v -> In (k, v) d.
Proof.
  induction d as [|[k' v'] r]; simpl; intros; try discriminate.
  destruct (beq k' k) eqn:E.
  - apply beq_true in E. inversion H. subst. auto.
  - right. auto.
Qed.

Lemma in_pair_get : forall k v d, NoDup (keys d) -> In (k, v) d -> get k d = Some v.
Proof.
  induction d as [|[k' v'] r]; simpl; intros; try contradiction.
  inversion H; subst. destruct H0.
  - inversion H0; subst. rewrite beq_refl. auto.
  - destruct (beq k' k) eqn:E.
    + apply beq_true in E. subst. exfalso. apply H3. change k with (fst (k, v)). apply in_map. auto.
    + auto.
Qed.

Lemma keys_rev : forall d : kwargs, keys (rev d) = rev (keys d).
Proof. intros. unfold keys. apply map_rev. Qed.

Lemma get_rev : forall k d, NoDup (keys d) -> get k (rev d) = get k d.
Proof.
  intros. destruct (get k d) eqn:E.
  - apply in_pair_get.
    + rewrite keys_rev. apply NoDup_rev. auto.
    + apply in_rev. rewrite rev_involutive. apply get_in_pair. auto.
  - apply get_none_notin. rewrite keys_rev. intro F. apply in_rev in F.
    apply get_none_notin in E. contradiction.
Qed.

Lemma get_set : forall k k0 v d, get k (set k0 v d) = if beq k0 k then Some v else get k d.
Proof.
  induction d as [|[k' v'] r]; simpl; intros.
  - destruct (beq k0 k); auto.
  - destruct (beq k' k0) eqn:E.
    + apply beq_true in E. subst. simpl. destruct (beq k0 k); auto.
    + simpl. destruct (beq k' k) eqn:E2.
      * apply beq_true in E2. subst. rewrite beq_sym in E. rewrite E. auto.
      * auto.
Qed.

Lemma merge_app : forall a x y, merge a (x ++ y) = merge (merge a x) y.
Proof. intros. unfold merge. apply fold_left_app. Qed.

(* {**a, **b}[k]: the last binding of k in b, else a[k] *)
Lemma get_merge_rev : forall k bb a,
  get k (merge a bb) = match get k (rev bb) with Some v => Some v | None => get k a end.
Proof.
  intros k bb. induction bb as [|x bb IH] using rev_ind; intros; simpl; auto.
  rewrite merge_app. rewrite rev_app_distr. simpl. destruct x as [k' v']. simpl.
  unfold merge at 1. simpl. rewrite get_set. destruct (beq k' k); auto. apply (IH a).
Qed.

Lemma get_merge : forall k a bb, NoDup (keys bb) ->
  get k (merge a bb) = match get k bb with Some v => Some v | None => get k a end.
Proof. intros. rewrite get_merge_rev. rewrite get_rev; auto. Qed.

Lemma keys_set : forall k v d,
  keys (set k v d) = if mem_key k (keys d) then keys d else keys d ++ [k].
Proof.
  induction d as [|[k' v'] r]; simpl; auto.
  destruct (beq k' k) eqn:E.
  - rewrite beq_sym in E. rewrite E. simpl. auto.
  - rewrite beq_sym in E. rewrite E. simpl. rewrite IHr.
    destruct (mem_key k (keys r)); auto.
Qed.

Lemma nodup_snoc : forall (A : Type) (l : list A) x, NoDup l -> ~ In x l -> NoDup (l ++ [x]).
Proof.
  induction l; simpl; intros.
  - constructor; auto.
  - inversion H; subst. constructor.
    + intro F. apply in_app_or in F. destruct F as [F|F]; auto. simpl in F. destruct F as [F|F]; auto.
    + apply IHl; auto.
Qed.

Lemma nodup_set : forall k v d, NoDup (keys d) -> NoDup (keys (set k v d)).
Proof.
  intros. rewrite keys_set. destruct (mem_key k (keys d)) eqn:E; auto.
  apply nodup_snoc; auto. intro F. apply mem_key_in in F. congruence.
Qed.

Lemma nodup_merge : forall bb a, NoDup (keys a) -> NoDup (keys (merge a bb)).
Proof.
  induction bb as [|[k v] r]; simpl; intros; auto.
  unfold merge. simpl. apply IHr. apply nodup_set. auto.
Qed.

Lemma keys_filter_key : forall (p : key -> bool) (d : kwargs),
  keys (filter (fun kv => p (fst kv)) d) = filter p (keys d).
Proof. induction d as [|[k v] r]; simpl; auto. destruct (p k); simpl; congruence. Qed.

Lemma nodup_filter_any : forall (f : key * val -> bool) d, NoDup (keys d) -> NoDup (keys (filter f d)).
Proof.
  induction d as [|[k v] r]; simpl; intros; auto. inversion H; subst.
  destruct (f (k, v)); simpl; auto. constructor; auto.
  intro F. apply H2. unfold keys in *. apply in_map_iff in F. destruct F as [x [F1 F2]].
  apply filter_In in F2. destruct F2. apply in_map_iff. eauto.
Qed.

Lemma get_filter_val : forall (f : val -> bool) k d, NoDup (keys d) ->
  get k (filter (fun kv => f (snd kv)) d) =
  match get k d with Some v => if f v then Some v else None | None => None end.
Proof.
  induction d as [|[k' v'] r]; simpl; intros; auto. inversion H; subst.
  destruct (f v') eqn:F; simpl.
  - destruct (beq k' k); auto. rewrite F. auto.
  - destruct (beq k' k) eqn:E.
    + apply beq_true in E. subst. rewrite F.
      rewrite IHr; auto. assert (G : get k r = None) by (apply get_none_notin; auto). rewrite G. auto.
    + auto.
Qed.

Lemma mem_key_beq : forall k k' l, beq k' k = true -> mem_key k' l = mem_key k l.
Proof. intros. apply beq_true in H. subst. auto. Qed.

Lemma get_filter_key : forall (p : key -> bool) k d,
  get k (filter (fun kv => p (fst kv)) d) = if p k then get k d else None.
Proof.
  induction d as [|[k' v'] r]; simpl; intros.
  - destruct (p k); auto.
  - destruct (p k') eqn:F; simpl.
    + destruct (beq k' k) eqn:E.
      * apply beq_true in E. subst. rewrite F. auto.
      * auto.
    + destruct (beq k' k) eqn:E.
      * apply beq_true in E. subst. rewrite F in *. rewrite IHr. auto.
      * auto.
Qed.

(* ---- _build_provided_kwargs_dict --------------------------------------------------------------- *)
Lemma get_provided_args : forall k params kw,
  get k (provided_args params kw) = if mem_key k params then Some (getd k kw) else None.
Proof.
  induction params as [|p r]; simpl; intros; auto.
  rewrite (beq_sym k p). destruct (beq p k) eqn:E; simpl.
  - apply beq_true in E. subst. auto.
  - apply IHr.
Qed.

Lemma keys_provided_args : forall params kw, keys (provided_args params kw) = params.
Proof. intros. unfold keys, provided_args. rewrite map_map. simpl. apply map_id. Qed.

(* what the constructor receives for key k *)
Definition forwarded (params : list key) (kw : kwargs) (k : key) : option val :=
  if mem_key k params
  then match get k kw with Some v => if is_none v then None else Some v | None => None end
  else get k kw.

Theorem get_build_provided : forall params kw k,
  NoDup params -> NoDup (keys kw) ->
  get k (build_provided params kw) = forwarded params kw k.
Proof.
  intros. unfold build_provided, forwarded, extras.
  rewrite get_merge.
  2:{ apply nodup_filter_any. auto. }
  rewrite (get_filter_key (fun x => negb (mem_key x params))).
  rewrite (get_filter_val (fun v => negb (is_none v))).
  2:{ rewrite keys_provided_args. auto. }
  rewrite get_provided_args. unfold getd.
  destruct (mem_key k params) eqn:M; simpl.
  - destruct (get k kw) as [v|]; simpl; auto. destruct (is_none v); auto.
  - destruct (get k kw); auto.
Qed.

Lemma nodup_build_provided : forall params kw, NoDup params -> NoDup (keys kw) ->
  NoDup (keys (build_provided params kw)).
Proof.
  intros. unfold build_provided. apply nodup_merge. apply nodup_filter_any.
  rewrite keys_provided_args. auto.
Qed.

(* the user's dictionary with the named arguments that are None left out *)
Definition drop_none (params : list key) (kw : kwargs) : kwargs :=
  filter (fun kv => negb (mem_key (fst kv) params && is_none (snd kv))) kw.

Lemma get_drop_none : forall params kw k, NoDup (keys kw) ->
  get k (drop_none params kw) = forwarded params kw k.
Proof.
  unfold drop_none, forwarded. induction kw as [|[k' v'] r]; simpl; intros.
  - destruct (mem_key k params); auto.
  - inversion H; subst.
    destruct (beq k' k) eqn:E.
    + apply beq_true in E. subst.
      destruct (mem_key k params) eqn:M; simpl.
      * destruct (is_none v') eqn:N; simpl.
        -- rewrite IHr; auto. rewrite M. assert (G : get k r = None) by (apply get_none_notin; auto).
           rewrite G. auto.
        -- rewrite beq_refl. auto.
      * rewrite beq_refl. auto.
    + destruct (mem_key k' params && is_none v'); simpl.
      * apply IHr; auto.
      * rewrite E. apply IHr; auto.
Qed.

(* every supplied argument was given a value other than None *)
Definition supplied (params : list key) (kw : kwargs) : Prop :=
  forall k, In k params -> get k kw <> Some VNone.

Lemma forwarded_supplied : forall params kw k, supplied params kw -> forwarded params kw k = get k kw.
Proof.
  unfold forwarded, supplied. intros. destruct (mem_key k params) eqn:M; auto.
  apply mem_key_in in M. specialize (H k M). destruct (get k kw) as [v|]; auto.
  destruct v; simpl; auto. congruence.
Qed.

(* ---- construction depends on the dictionary only through lookups --------------------------------- *)
Definition same_dict (x y : kwargs) : Prop := forall k, get k x = get k y.

Lemma bind_sig_ext : forall sg x y, same_dict x y -> bind_sig sg x = bind_sig sg y.
Proof.
  induction sg as [|[n d] r]; simpl; intros; auto. rewrite (H n). rewrite (IHr x y H). auto.
Qed.

Lemma forallb_keys_ext : forall (names : list key) x y, same_dict x y ->
  forallb (fun kv => mem_key (fst kv) names) x = true ->
  forallb (fun kv => mem_key (fst kv) names) y = true.
Proof.
  intros. rewrite forallb_forall in *. intros [k v] Hin. simpl.
  assert (In k (keys y)) by (change k with (fst (k, v)); apply in_map; auto).
  apply in_keys_get in H1. destruct H1 as [v2 G]. rewrite <- (H k) in G.
  apply get_in_pair in G. apply (H0 (k, v2)). auto.
Qed.

Theorem construct_ext : forall te c x y, same_dict x y -> construct te c x = construct te c y.
Proof.
  intros. unfold construct, bind.
  assert (E : forallb (fun kv => mem_key (fst kv) (sig_names (c_sig c))) x =
              forallb (fun kv => mem_key (fst kv) (sig_names (c_sig c))) y).
  { destruct (forallb (fun kv => mem_key (fst kv) (sig_names (c_sig c))) x) eqn:A;
    destruct (forallb (fun kv => mem_key (fst kv) (sig_names (c_sig c))) y) eqn:B; auto.
    - rewrite (forallb_keys_ext _ x y H A) in B. discriminate.
    - assert (S : same_dict y x) by (intro k; symmetry; apply H).
      rewrite (forallb_keys_ext _ y x S B) in A. discriminate. }
  rewrite E. rewrite (bind_sig_ext _ x y H). auto.
Qed.

(* ---- the factory on a core platform ----------------------------------------------------------------- *)
Definition host_given (e : fenv) (kw : kwargs) : Prop :=
  forall r, In r (f_required e) -> get r kw <> None.

Lemma required_ok : forall e kw, host_given e kw ->
  forallb (fun r => match get r kw with Some _ => true | None => false end) (f_required e) = true.
Proof.
  unfold host_given. intros. apply forallb_forall. intros r Hin. specialize (H r Hin).
  destruct (get r kw); auto.
Qed.

Lemma factory_call_core : forall e async p v kw c,
  host_given e kw -> mixup (f_te e) async (getd k_transport kw) = false ->
  lookup p (f_core e async) = Some c ->
  factory_call e async (Some p) v kw = Call c (build_provided (f_params e) kw).
Proof.
  intros. unfold factory_call. rewrite required_ok; auto. simpl. rewrite H0. rewrite H1. auto.
Qed.

(* Scrapli(platform, **kw) behaves as CORE_PLATFORM_MAP[platform] called with kw minus the named Nones:
   same object (class and every field) or the same exception *)
Theorem factory_eq_direct_general : forall e async p v kw c cl,
  NoDup (f_params e) -> NoDup (keys kw) -> host_given e kw ->
  mixup (f_te e) async (getd k_transport kw) = false ->
  lookup p (f_core e async) = Some c -> find_cls e c = Some cl ->
  factory e async (Some p) v kw = construct (f_te e) cl (drop_none (f_params e) kw).
Proof.
  intros. unfold factory. rewrite (factory_call_core e async p v kw c); auto. rewrite H4.
  apply construct_ext. intro k. rewrite get_build_provided; auto. rewrite get_drop_none; auto.
Qed.

Theorem factory_eq_direct : forall e async p v kw c cl,
  NoDup (f_params e) -> NoDup (keys kw) -> host_given e kw -> supplied (f_params e) kw ->
  mixup (f_te e) async (getd k_transport kw) = false ->
  lookup p (f_core e async) = Some c -> find_cls e c = Some cl ->
  factory e async (Some p) v kw = construct (f_te e) cl kw.
Proof.
  intros. unfold factory. rewrite (factory_call_core e async p v kw c); auto. rewrite H5.
  apply construct_ext. intro k. rewrite get_build_provided; auto. apply forwarded_supplied. auto.
Qed.

(* an argument given as None is an argument not given *)
Theorem none_is_absent : forall e async p v kw,
  NoDup (f_params e) -> NoDup (keys kw) -> host_given e kw ->
  mixup (f_te e) async (getd k_transport kw) = false ->
  forall c cl, lookup p (f_core e async) = Some c -> find_cls e c = Some cl ->
  factory e async (Some p) v kw = factory e async (Some p) v (drop_none (f_params e) kw)
  \/ ~ host_given e (drop_none (f_params e) kw).
Proof.
  intros. destruct (forallb (fun r => match get r (drop_none (f_params e) kw) with Some _ => true | None => false end) (f_required e)) eqn:R.
  - left. unfold factory, factory_call. rewrite required_ok; auto. rewrite R. simpl.
    assert (T : getd k_transport (drop_none (f_params e) kw) = getd k_transport kw \/
                getd k_transport kw = VNone).
    { unfold getd. rewrite get_drop_none; auto. unfold forwarded.
      destruct (mem_key k_transport (f_params e)); auto.
      destruct (get k_transport kw) as [x|]; auto. destruct x; simpl; auto. }
    assert (M : mixup (f_te e) async (getd k_transport (drop_none (f_params e) kw)) = false).
    { destruct T as [T|T]. rewrite T; auto.
      unfold getd in *. rewrite get_drop_none; auto. unfold forwarded.
      destruct (mem_key k_transport (f_params e)).
      - destruct (get k_transport kw) as [x|]; auto. subst. simpl. auto.
      - rewrite T in H2. destruct (get k_transport kw); subst; auto. }
    rewrite H2, M, H3, H4. apply construct_ext. intro k.
    rewrite !get_build_provided; auto.
    2:{ apply nodup_filter_any. auto. }
    unfold forwarded. rewrite !get_drop_none; auto. unfold forwarded.
    destruct (mem_key k (f_params e)); auto.
    destruct (get k kw) as [x|]; auto. destruct (is_none x) eqn:N; auto. rewrite N. auto.
  - right. intro G. rewrite required_ok in R; auto. discriminate.
Qed.

(* ---- every supplied argument takes effect (falsy values included) ----------------------------------- *)
Theorem falsy_take_effect : forall e async p variant kw c k v,
  NoDup (f_params e) -> NoDup (keys kw) -> host_given e kw ->
  mixup (f_te e) async (getd k_transport kw) = false ->
  lookup p (f_core e async) = Some c ->
  get k kw = Some v -> (In k (f_params e) -> v <> VNone) ->
  exists fk, factory_call e async (Some p) variant kw = Call c fk /\ get k fk = Some v.
Proof.
  intros. exists (build_provided (f_params e) kw). split.
  - apply factory_call_core; auto.
  - rewrite get_build_provided; auto. unfold forwarded. rewrite H4.
    destruct (mem_key k (f_params e)) eqn:M; auto.
    apply mem_key_in in M. specialize (H5 M). destruct v; simpl; auto. congruence.
Qed.

(* nothing is invented: what the constructor receives was given by the caller *)
Theorem nothing_invented : forall e async p variant kw c k v,
  NoDup (f_params e) -> NoDup (keys kw) -> host_given e kw ->
  mixup (f_te e) async (getd k_transport kw) = false ->
  lookup p (f_core e async) = Some c ->
  forall fk, factory_call e async (Some p) variant kw = Call c fk -> get k fk = Some v -> get k kw = Some v.
Proof.
  intros. rewrite (factory_call_core e async p variant kw c) in H4; auto. inversion H4; subst.
  rewrite get_build_provided in H5; auto. unfold forwarded in H5.
  destruct (mem_key k (f_params e)); auto.
  destruct (get k kw) as [x|]; try discriminate. destruct (is_none x); try discriminate. auto.
Qed.

(* ---- community platforms: the user's arguments win ---------------------------------------------------- *)
Theorem user_overrides_community : forall e async p variant kw cm0 c add fk,
  NoDup (f_params e) -> NoDup (keys kw) ->
  factory_call e async (Some p) variant kw = Call c fk ->
  lookup p (f_core e async) = None ->
  lookup (dotted p) (f_community e) = Some (Some cm0) ->
  driver_kwargs (mkCom (cm_driver_type cm0) (deepcopy_kw (cm_defaults cm0))
                       (map (fun x => (fst x, (fst (snd x), deepcopy_kw (snd (snd x))))) (cm_variants cm0)))
                variant async = Ok add ->
  forall k,
    get k fk = match forwarded (f_params e) kw k with
               | Some v => Some v             (* supplied by the user: wins *)
               | None => get k add            (* otherwise the platform's default / variant value *)
               end.
Proof.
  intros. unfold factory_call in H1.
  destruct (negb (forallb _ (f_required e))); try discriminate.
  destruct (mixup (f_te e) async (getd k_transport kw)); try discriminate.
  rewrite H2, H3 in H1.
  match type of H1 with context[driver_class ?a ?b ?cm ?v ?as_] => destruct (driver_class a b cm v as_) end; try discriminate.
  rewrite H4 in H1. inversion H1; subst. clear H1.
  destruct add as [|x r].
  - rewrite get_build_provided; auto. simpl. destruct (forwarded (f_params e) kw k); auto.
  - rewrite get_merge.
    2:{ apply nodup_build_provided; auto. }
    rewrite get_build_provided; auto.
Qed.

(* ---- rejections ----------------------------------------------------------------------------------------- *)
Theorem rejects_explicit_mixup : forall e async platform variant kw,
  host_given e kw -> mixup (f_te e) async (getd k_transport kw) = true ->
  factory e async platform variant kw = Raised ScrapliValueError.
Proof.
  intros. unfold factory, factory_call. rewrite required_ok; auto. simpl. rewrite H0. auto.
Qed.

Theorem rejects_non_str_platform : forall e async variant kw,
  host_given e kw -> exists x, factory e async None variant kw = Raised x /\ scrapli_error x = true.
Proof.
  intros. unfold factory, factory_call. rewrite required_ok; auto. simpl.
  destruct (mixup (f_te e) async (getd k_transport kw)); eexists; split; eauto.
Qed.

Theorem rejects_unknown_platform : forall e async p variant kw,
  host_given e kw ->
  lookup p (f_core e async) = None ->
  (lookup (dotted p) (f_community e) = None \/ lookup (dotted p) (f_community e) = Some None) ->
  exists x, factory e async (Some p) variant kw = Raised x /\ scrapli_error x = true.
Proof.
  intros. unfold factory, factory_call. rewrite required_ok; auto. simpl.
  destruct (mixup (f_te e) async (getd k_transport kw)).
  - eexists; split; eauto.
  - rewrite H0. destruct H1 as [H1|H1]; rewrite H1; eexists; split; eauto.
Qed.

(* a driver that was built has a transport of its own family: whatever the arguments, sync and
   asyncio never mix (this is the check in Driver / AsyncDriver.__init__, reached by every path) *)
Lemma base_init_built : forall te c f cid fields,
  base_init te c f = Built cid fields ->
  exists tr, getd k_transport f = VStr tr /\ mixup te (c_async c) (VStr tr) = false
             /\ existsb (beq tr) (installed_transports te) = true.
Proof.
  unfold base_init. intros te c f cid fields.
  destruct (getd k_transport f) as [| | | |tr| | |]; simpl; try discriminate.
  destruct (str_of (getd k_channel_log_mode f)); try discriminate.
  repeat match goal with
         | |- context[if ?x then Raised _ else _] => destruct x eqn:?; try discriminate
         end.
  intros. exists tr. repeat split; auto.
  match goal with H : negb (existsb (beq tr) _) = false |- _ => apply negb_false_iff in H; auto end.
Qed.

Theorem built_never_mixed : forall e async platform variant kw cid fields,
  factory e async platform variant kw = Built cid fields ->
  exists cl tr, find_cls e cid = Some cl /\ mixup (f_te e) (c_async cl) (VStr tr) = false.
Proof.
  unfold factory. intros. destruct (factory_call e async platform variant kw); try discriminate.
  destruct (find_cls e c) eqn:F; try discriminate.
  unfold construct in H. destruct (bind (c_sig c0) kw0); try discriminate.
  pose proof H as H'. apply base_init_built in H. destruct H as [tr [A [B C]]].
  assert (cid = c_id c0).
  { unfold base_init in H'. rewrite A in H'. simpl in H'.
    destruct (str_of (getd k_channel_log_mode (subst_none (c_subst c0) k))); try discriminate.
    repeat match type of H' with
           | context[if ?x then Raised _ else _] => destruct x; try discriminate
           end.
    inversion H'. auto. }
  subst. unfold find_cls in F. pose proof (find_some _ _ F) as [_ G]. apply N.eqb_eq in G.
  exists c0, tr. split; auto. unfold find_cls. rewrite G. auto.
Qed.

Lemma nodup_keysb_spec : forall l, nodup_keysb l = true -> NoDup l.
Proof.
  induction l; simpl; intros. constructor. apply andb_true_iff in H. destruct H.
  constructor; auto. intro F. apply mem_key_in in F. rewrite F in H. discriminate.
Qed.

(* ---- the premises are satisfiable ---------------------------------------------------------------------------- *)
Example supplied_falsy_example :
  let params := [k_host; k_port; k_auth_strict_key; k_comms_return_char] in
  let kw := [(k_comms_return_char, VStr []); (k_host, VStr s_h); (k_auth_strict_key, VBool false);
             (k_port, VInt 0); (k_auth_telnet_login_pattern, VNone)] in
  supplied params kw /\ NoDup (keys kw) /\
  build_provided params kw =
    [(k_host, VStr s_h); (k_port, VInt 0); (k_auth_strict_key, VBool false);
     (k_comms_return_char, VStr []); (k_auth_telnet_login_pattern, VNone)].
Proof.
  simpl. split; [|split].
  - intros k Hin. repeat (destruct Hin as [Hin|Hin]; [subst; vm_compute; congruence|]). contradiction.
  - vm_compute. repeat constructor; simpl; intuition discriminate.
  - vm_compute. reflexivity.
Qed.

Example none_dropped_example :
  build_provided [k_host; k_port] [(k_port, VNone); (k_host, VStr s_h)] = [(k_host, VStr s_h)].
Proof. vm_compute. reflexivity. Qed.
