(* PromptCacheBound_Proofs.v — the memo in front of the prompt classifier stays a well-formed LRU store on EVERY
   history: it never holds more than its capacity and never two entries for one key — for the single-object machine
   (PromptCache.crun) and the class-wide machine of several driver objects (PromptCacheObjs.mrun), whatever the
   classifier, the clearing flag and the key discipline are.  Together with cache_transparent this says that the
   answers are right AND that the store cannot grow with the number of distinct prompts a long-lived session sees. *)
From Verif Require Import Bytes PromptCache PromptCacheObjs PromptCache_Proofs.

Section Store.
  Variable R : Type.
  Notation store := (list (bytes * R)).

  Definition keys (l : store) : list bytes := map fst l.
  Definition good (cap : nat) (l : store) : Prop := (length l <= cap)%nat /\ NoDup (keys l).

  Lemma beq_refl a : beq a a = true.
  Proof. induction a as [|x a IH]; cbn; [reflexivity|]. rewrite N.eqb_refl. exact IH. Qed.

  Lemma lookup_none_notin p (l : store) : lookup p l = None -> ~ In p (keys l).
  Proof.
    induction l as [|[k w] l IH]; cbn; [tauto|].
    destruct (beq k p) eqn:E; [discriminate|].
    intros H [Hk|Hin]; [subst; rewrite beq_refl in E; discriminate|exact (IH H Hin)].
  Qed.

  Lemma remove_keys_incl p (l : store) x : In x (keys (remove p l)) -> In x (keys l).
  Proof.
    induction l as [|[k w] l IH]; cbn; [tauto|].
    destruct (beq k p); cbn; [tauto|]. intros [H|H]; [left; exact H|right; exact (IH H)].
  Qed.

  Lemma remove_hit_length p (l : store) v : lookup p l = Some v -> S (length (remove p l)) = length l.
  Proof.
    induction l as [|[k w] l IH]; cbn; [discriminate|].
    destruct (beq k p); [reflexivity|]. intros H. cbn. f_equal. exact (IH H).
  Qed.

  Lemma remove_nodup p (l : store) : NoDup (keys l) -> NoDup (keys (remove p l)) /\ ~ In p (keys (remove p l)).
  Proof.
    induction l as [|[k w] l IH]; cbn; intros H; [split; [constructor|tauto]|].
    inversion H as [|? ? Hk Hl]; subst. destruct (IH Hl) as [IH1 IH2].
    destruct (beq k p) eqn:E.
    - apply beq_true in E. subst. split; assumption.
    - cbn. split.
      + constructor; [|exact IH1]. intros Hin. apply Hk. exact (remove_keys_incl _ _ _ Hin).
      + intros [Hkp|Hin]; [subst; rewrite beq_refl in E; discriminate|exact (IH2 Hin)].
  Qed.

  Lemma firstn_nodup {A} n : forall l : list A, NoDup l -> NoDup (firstn n l).
  Proof.
    induction n as [|n IH]; intros [|x l] H; cbn; try constructor.
    - inversion H; subst. intros Hin. apply firstn_incl in Hin. tauto.
    - inversion H; subst. auto.
  Qed.

  Lemma hit_good cap p v (l : store) : lookup p l = Some v -> good cap l -> good cap ((p, v) :: remove p l).
  Proof.
    intros Hl [Hlen Hnd]. destruct (remove_nodup p l Hnd) as [H1 H2]. split.
    - cbn [length]. rewrite (remove_hit_length p l v Hl). exact Hlen.
    - cbn. constructor; assumption.
  Qed.

  Lemma miss_good cap p v (l : store) : lookup p l = None -> good cap l -> good cap (firstn cap ((p, v) :: l)).
  Proof.
    intros Hl [Hlen Hnd]. split.
    - rewrite firstn_length. apply Nat.le_min_l.
    - unfold keys. rewrite <- firstn_map. apply firstn_nodup. cbn. constructor; [exact (lookup_none_notin p l Hl)|exact Hnd].
  Qed.

  Lemma nil_good cap : good cap [].
  Proof. split; [apply Nat.le_0_l|constructor]. Qed.
End Store.

Section Single.
  Variables (T R : Type).
  Variable classify : T -> bytes -> option R.
  Variables (cap : nat) (clears : bool).

  Lemma cstep_good s o : good R cap (c_cache s) -> good R cap (c_cache (fst (cstep classify cap clears s o))).
  Proof.
    intros Hg. destruct o as [p|t]; cbn [cstep].
    - destruct (lookup p (c_cache s)) as [v|] eqn:El; cbn [fst c_cache]; [exact (hit_good R cap p v _ El Hg)|].
      destruct (classify (c_tbl s) p) as [v|]; cbn [fst c_cache]; [exact (miss_good R cap p v _ El Hg)|exact Hg].
    - cbn [fst c_cache]. destruct clears; [apply nil_good|exact Hg].
  Qed.

  Theorem cache_bounded : forall ops s,
    good R cap (c_cache s) -> good R cap (c_cache (fst (crun classify cap clears s ops))).
  Proof.
    induction ops as [|o ops IH]; intros s Hg; [exact Hg|].
    cbn [crun]. pose proof (cstep_good s o Hg) as Hg'.
    destruct (cstep classify cap clears s o) as [s' out]. cbn [fst] in Hg'.
    specialize (IH s' Hg'). destruct (crun classify cap clears s' ops) as [s'' outs]. exact IH.
  Qed.

  (* recency: a query that is answered leaves its own entry at the front (most recently used first), hit or miss *)
  Lemma cstep_front s p v : (1 <= cap)%nat ->
    snd (cstep classify cap clears s (Query p)) = Some (Some v) ->
    hd_error (c_cache (fst (cstep classify cap clears s (Query p)))) = Some (p, v).
  Proof.
    intros Hc. cbn [cstep]. destruct (lookup p (c_cache s)) as [w|]; cbn [fst snd c_cache].
    - intros H. inversion H. reflexivity.
    - destruct (classify (c_tbl s) p) as [w|]; cbn [fst snd c_cache]; [|discriminate].
      intros H. inversion H. destruct cap as [|n]; [inversion Hc|reflexivity].
  Qed.
End Single.

Section Multi.
  Variables (T R : Type).
  Variable classify : T -> bytes -> option R.
  Variables (keyed : bool) (cap : nat) (clears : bool).

  Lemma mstep_good s o : good R cap (m_cache s) -> good R cap (m_cache (fst (mstep classify keyed cap clears s o))).
  Proof.
    intros Hg. destruct o as [i p|i t]; cbn [mstep].
    - destruct (lookup (key keyed i p) (m_cache s)) as [v|] eqn:El; cbn [fst m_cache]; [exact (hit_good R cap _ v _ El Hg)|].
      destruct (nth_error (m_tbls s) i) as [t|]; [|exact Hg].
      destruct (classify t p) as [v|]; cbn [fst m_cache]; [exact (miss_good R cap _ v _ El Hg)|exact Hg].
    - cbn [fst m_cache]. destruct clears; [apply nil_good|exact Hg].
  Qed.

  Theorem objects_cache_bounded : forall ops s,
    good R cap (m_cache s) -> good R cap (m_cache (fst (mrun classify keyed cap clears s ops))).
  Proof.
    induction ops as [|o ops IH]; intros s Hg; [exact Hg|].
    cbn [mrun]. pose proof (mstep_good s o Hg) as Hg'.
    destruct (mstep classify keyed cap clears s o) as [s' out]. cbn [fst] in Hg'.
    specialize (IH s' Hg'). destruct (mrun classify keyed cap clears s' ops) as [s'' outs]. exact IH.
  Qed.
End Multi.

(* not vacuous: capacity 2, three distinct prompts then a repeat — the store holds the two most recent, once each *)
Example bounded_example :
  map fst (c_cache (fst (crun toy_classify 2 true (mkC 0%nat []) [Query [1]; Query [2]; Query [3]; Query [2]])))
  = [[2]; [3]].
Proof. vm_compute. reflexivity. Qed.
