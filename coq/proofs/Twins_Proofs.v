(* Twins_Proofs.v — theorems about model/Twins.v (C06). *)
From Verif Require Import Bytes Twins.
From Coq Require Import Lia.

(* ------------------------------------------------------------------------------------------ *)
(* Part 1 — soundness of the table decision procedures (reflection)                           *)
(* ------------------------------------------------------------------------------------------ *)

Lemma tw_beq_eq : forall a b, beq a b = true -> a = b.
Proof.
  induction a as [|x a IH]; destruct b as [|y b]; cbn [beq]; intros H; try discriminate; auto.
  apply andb_true_iff in H. destruct H as [H1 H2]. apply N.eqb_eq in H1. subst. f_equal. auto.
Qed.

Lemma tw_beq_refl : forall a, beq a a = true.
Proof. induction a as [|x a IH]; cbn [beq]; auto. rewrite N.eqb_refl, IH. reflexivity. Qed.

Lemma tw_obeq_eq : forall a b, obeq a b = true -> a = b.
Proof.
  intros a b. destruct a, b; cbn [obeq]; intros H; try discriminate; auto. f_equal. apply tw_beq_eq; auto.
Qed.

Lemma param_eqb_eq : forall p q, param_eqb p q = true -> p = q.
Proof.
  intros [n k d] [n' k' d']. unfold param_eqb. cbn [p_name p_kind p_default]. intros H.
  apply andb_true_iff in H. destruct H as [H H3]. apply andb_true_iff in H. destruct H as [H1 H2].
  apply tw_beq_eq in H1. apply N.eqb_eq in H2. apply tw_obeq_eq in H3. subst. reflexivity.
Qed.

Lemma params_eqb_eq : forall a b, params_eqb a b = true -> a = b.
Proof.
  induction a as [|p a IH]; destruct b as [|q b]; cbn [params_eqb]; intros H; try discriminate; auto.
  apply andb_true_iff in H. destruct H as [H1 H2]. apply param_eqb_eq in H1. subst. f_equal. auto.
Qed.

Lemma find_meth_some : forall n l m, find_meth n l = Some m -> In m l /\ m_name m = n.
Proof.
  induction l as [|x l IH]; cbn [find_meth]; intros m H; try discriminate.
  destruct (beq (m_name x) n) eqn:E.
  - inversion H; subst. split; [left; reflexivity | apply tw_beq_eq; auto].
  - destruct (IH _ H). split; [right|]; auto.
Qed.

Definition same_attr (m m' : meth) : Prop :=
  m_name m' = m_name m /\ m_kind m' = m_kind m /\ m_params m' = m_params m.

Lemma meth_ok_sound : forall others m, meth_ok others m = true ->
  exists m', In m' others /\ same_attr m m'.
Proof.
  unfold meth_ok. intros others m H. destruct (find_meth (m_name m) others) as [m'|] eqn:E; try discriminate.
  apply find_meth_some in E. destruct E as [Hin Hn].
  apply andb_true_iff in H. destruct H as [Hk Hp]. apply N.eqb_eq in Hk. apply params_eqb_eq in Hp.
  exists m'. unfold same_attr. repeat split; auto.
Qed.

(* every public attribute of the sync class exists on the async class with the same kind and the
   same parameter list (names, order, kinds incl. keyword-only, defaults), and conversely; no
   attribute of a sync class is a coroutine function *)
Theorem sigs_ok_sound : forall cs, sigs_ok cs = true ->
  forall c, In c cs ->
    (forall m, In m (c_smeths c) -> exists m', In m' (c_ameths c) /\ same_attr m m') /\
    (forall m, In m (c_ameths c) -> exists m', In m' (c_smeths c) /\ same_attr m m') /\
    (forall m, In m (c_smeths c) -> m_coro m = false).
Proof.
  unfold sigs_ok. intros cs H c Hc. rewrite forallb_forall in H. specialize (H c Hc).
  apply andb_true_iff in H. destruct H as [H H3]. apply andb_true_iff in H. destruct H as [H1 H2].
  unfold cls_ok in H1. unfold cls_ok_rev in H2. unfold cls_sync_plain in H3.
  rewrite forallb_forall in H1, H2, H3. repeat split.
  - intros m Hm. apply meth_ok_sound. auto.
  - intros m Hm. apply meth_ok_sound. auto.
  - intros m Hm. specialize (H3 m Hm). destruct (m_coro m); auto; discriminate.
Qed.

Lemma map_filter_neg_nil : forall (A B : Type) (g : A -> B) (p : A -> bool) l,
  map g (filter (fun x => negb (p x)) l) = [] <-> forallb p l = true.
Proof.
  intros A B g p l. induction l as [|x l IHl]; cbn [filter map forallb]; [tauto|].
  destruct (p x); cbn [map negb andb]; [exact IHl | split; intros; discriminate].
Qed.

Lemma map_filter_nil : forall (A B : Type) (g : A -> B) (p : A -> bool) l,
  map g (filter p l) = [] <-> forallb (fun x => negb (p x)) l = true.
Proof.
  intros A B g p l. induction l as [|x l IHl]; cbn [filter map forallb]; [tauto|].
  destruct (p x); cbn [map negb andb]; [split; intros; discriminate | exact IHl].
Qed.

(* the witness list is empty exactly when the decision procedure accepts *)
Lemma failing_meths_nil_iff : forall cs, failing_meths cs = [] <-> sigs_ok cs = true.
Proof.
  induction cs as [|c cs IH]; cbn [failing_meths flat_map sigs_ok forallb]; [tauto|].
  fold (failing_meths cs). fold (sigs_ok cs).
  unfold cls_ok, cls_ok_rev, cls_sync_plain.
  split.
  - intros H. apply app_eq_nil in H. destruct H as [H Hr]. apply app_eq_nil in H. destruct H as [Ha H].
    apply app_eq_nil in H. destruct H as [Hb Hc].
    apply map_filter_neg_nil in Ha. apply map_filter_neg_nil in Hb. apply map_filter_nil in Hc. apply IH in Hr.
    rewrite Ha, Hb, Hc, Hr. reflexivity.
  - intros H. apply andb_true_iff in H. destruct H as [H Hr]. apply andb_true_iff in H. destruct H as [H H3].
    apply andb_true_iff in H. destruct H as [H1 H2]. apply IH in Hr. rewrite Hr.
    apply (map_filter_neg_nil _ _ (fun m => (c_sync c, m_name m))) in H1.
    apply (map_filter_neg_nil _ _ (fun m => (c_async c, m_name m))) in H2.
    apply (map_filter_nil _ _ (fun m => (c_sync c, m_name m))) in H3.
    rewrite H1, H2, H3. reflexivity.
Qed.

(* ---- the normaliser against a declarative reading ---- *)
Inductive erases (drop : list N) (rn : list (N * N)) : list N -> list N -> Prop :=
  | er_nil : erases drop rn [] []
  | er_drop : forall t ts out, mem t drop = true -> erases drop rn ts out -> erases drop rn (t :: ts) out
  | er_keep : forall t ts out, mem t drop = false -> erases drop rn ts out ->
              erases drop rn (t :: ts) (rename1 rn t :: out).

Theorem normalise_spec : forall drop rn ts out, erases drop rn ts out <-> out = normalise drop rn ts.
Proof.
  intros drop rn ts. unfold normalise. induction ts as [|t ts IH]; intros out; split; intros H.
  - inversion H; reflexivity.
  - cbn in H. subst. constructor.
  - inversion H; subst; cbn [filter]; rewrite H2; cbn [negb map].
    + apply IH; auto.
    + f_equal. apply IH; auto.
  - cbn [filter] in H. destruct (mem t drop) eqn:E; cbn [negb map] in H.
    + apply er_drop; auto. apply IH; auto.
    + subst. apply er_keep; auto. apply IH; reflexivity.
Qed.

Lemma normalise_app : forall drop rn a b,
  normalise drop rn (a ++ b) = normalise drop rn a ++ normalise drop rn b.
Proof. intros. unfold normalise. rewrite filter_app, map_app. reflexivity. Qed.

(* tokens that are neither dropped nor renamed pass unchanged: an edit to such a token on one side
   only is therefore always visible *)
Lemma rename1_id : forall rn t, (forall a s, In (a, s) rn -> a <> t) -> rename1 rn t = t.
Proof.
  induction rn as [|[a s] rn IH]; cbn [rename1]; intros t H; auto.
  destruct (a =? t) eqn:E.
  - apply N.eqb_eq in E. exfalso. apply (H a s); [left; reflexivity | auto].
  - apply IH. intros a' s' Hin. apply (H a' s'). right; auto.
Qed.

Lemma lookup_allowed_some : forall n al h, lookup_allowed n al = Some h -> In (n, h) al.
Proof.
  induction al as [|[k h'] al IH]; cbn [lookup_allowed]; intros h H; try discriminate.
  destruct (beq k n) eqn:E.
  - inversion H; subst. apply tw_beq_eq in E. subst. left; reflexivity.
  - right. auto.
Qed.

Definition twin_identical drop rn (f : twin_fn) : Prop :=
  f_in_sync f = true /\ f_in_async f = true /\
  normalise drop rn (f_stoks f) = normalise drop rn (f_atoks f).

(* every paired function is token-identical after normalisation, or is on the committed difference
   list with exactly the reviewed difference *)
Theorem fns_ok_sound : forall drop rn al fs, fns_ok drop rn al fs = true ->
  forall f, In f fs ->
    twin_identical drop rn f \/ (f_hash f <> [] /\ In (f_name f, f_hash f) al).
Proof.
  unfold fns_ok. intros drop rn al fs H f Hf. rewrite forallb_forall in H. specialize (H f Hf).
  unfold fn_ok in H. destruct (fn_equal drop rn f) eqn:E.
  - left. unfold fn_equal in E. apply andb_true_iff in E. destruct E as [E E3].
    apply andb_true_iff in E. destruct E as [E1 E2]. apply tw_beq_eq in E3. repeat split; auto.
  - right. destruct (lookup_allowed (f_name f) al) as [h|] eqn:L; try discriminate.
    apply andb_true_iff in H. destruct H as [H1 H2]. apply tw_beq_eq in H2. subst h.
    split.
    + destruct (f_hash f); [discriminate | intro; discriminate].
    + apply lookup_allowed_some; auto.
Qed.

Theorem allowed_exact_sound : forall drop rn al fs, allowed_exact drop rn al fs = true ->
  forall n h, In (n, h) al -> exists f, In f fs /\ f_name f = n /\ ~ twin_identical drop rn f.
Proof.
  unfold allowed_exact. intros drop rn al fs H n h Hin. rewrite forallb_forall in H.
  specialize (H _ Hin). apply existsb_exists in H. destruct H as [f [Hf H]].
  apply andb_true_iff in H. destruct H as [H1 H2]. cbn [fst] in H1. apply tw_beq_eq in H1.
  exists f. repeat split; auto. intros [I1 [I2 I3]].
  unfold fn_equal in H2. rewrite I1, I2, I3, tw_beq_refl in H2. discriminate.
Qed.

(* ------------------------------------------------------------------------------------------ *)
(* Part 2 — the login loops: stutter invariance, sync = asyncio                               *)
(* ------------------------------------------------------------------------------------------ *)

(* none of the patterns matches the empty buffer *)
Definition empty_safe (cfg : lcfg) : Prop :=
  l_pre cfg [] = false /\ l_m1 cfg [] = false /\ l_m2 cfg [] = false /\ l_prompt cfg [] = false.

(* the loop state between iterations: nothing matches the retained buffer *)
Definition settled (cfg : lcfg) (st : lst) : Prop :=
  l_pre cfg (abuf st) = false /\ l_m1 cfg (abuf st) = false /\
  l_m2 cfg (abuf st) = false /\ l_prompt cfg (abuf st) = false.

Lemma settled_init : forall cfg, empty_safe cfg -> settled cfg l_init.
Proof. intros cfg H. exact H. Qed.

Lemma lower_nil : lower [] = [].
Proof. reflexivity. Qed.

Lemma lbody_settled : forall cfg st b k st',
  empty_safe cfg -> lbody cfg st b k = Cont st' -> settled cfg st'.
Proof.
  intros cfg st b k st' [E0 [E1 [E2 E3]]] H. unfold lbody in H.
  set (st0 := if l_kicks cfg && is_nil b && k then wr_add st [l_ret cfg] else st) in *.
  set (ab := abuf st0 ++ lower b) in *.
  destruct (l_pre cfg ab) eqn:P; try discriminate.
  destruct (l_m1 cfg ab) eqn:M1.
  - destruct (Nat.ltb 2 (S (c1 st0))); try discriminate. cbn [abuf c1 c2 wr] in H.
    rewrite E2 in H. cbn [abuf] in H. rewrite E3 in H. inversion H; subst. unfold settled. cbn [abuf]. auto.
  - cbn [abuf c1 c2 wr] in H. destruct (l_m2 cfg ab) eqn:M2.
    + destruct (Nat.ltb 2 (S (c2 st0))); try discriminate. cbn [abuf] in H. rewrite E3 in H.
      inversion H; subst. unfold settled. cbn [abuf]. auto.
    + cbn [abuf] in H. destruct (l_prompt cfg ab) eqn:PR; try discriminate.
      inversion H; subst. unfold settled. cbn [abuf]. auto.
Qed.

Lemma lstep_settled : forall cfg st e st',
  empty_safe cfg -> settled cfg st -> lstep cfg st e = Cont st' -> settled cfg st'.
Proof.
  intros cfg st e st' E S H. destruct e as [b k|k|]; cbn [lstep] in H.
  - eapply lbody_settled; eauto.
  - eapply lbody_settled; eauto.
  - destruct (l_catch cfg); try discriminate. inversion H; subst. exact S.
Qed.

Lemma lbody_quiet : forall cfg st k,
  settled cfg st -> l_kicks cfg && k = false -> lbody cfg st [] k = Cont st.
Proof.
  intros cfg st k [S0 [S1 [S2 S3]]] K. unfold lbody.
  replace (l_kicks cfg && is_nil (@nil N) && k) with false
    by (cbn [is_nil]; rewrite andb_true_r; symmetry; exact K).
  rewrite lower_nil, app_nil_r. rewrite S0, S1. cbn [abuf c1 c2 wr]. rewrite S2. cbn [abuf]. rewrite S3.
  destruct st; reflexivity.
Qed.

Lemma lstep_quiet : forall cfg st e,
  settled cfg st -> quiet cfg e = true -> lstep cfg st e = Cont st.
Proof.
  intros cfg st e S Q. destruct e as [b k|k|]; cbn [quiet] in Q; try discriminate.
  - destruct b; try discriminate. cbn [lstep]. apply lbody_quiet; auto.
    destruct (l_kicks cfg && k); auto; discriminate.
  - cbn [lstep]. apply lbody_quiet; auto. destruct (l_kicks cfg && k); auto; discriminate.
Qed.

Lemma lrun_destutter : forall cfg evs st,
  empty_safe cfg -> settled cfg st -> lrun cfg st evs = lrun cfg st (destutter cfg evs).
Proof.
  intros cfg evs. induction evs as [|e evs IH]; intros st E S; [reflexivity|].
  unfold destutter. cbn [filter]. fold (destutter cfg evs).
  destruct (quiet cfg e) eqn:Q; cbn [negb].
  - cbn [lrun]. rewrite (lstep_quiet _ _ _ S Q). apply IH; auto.
  - cbn [lrun]. destruct (lstep cfg st e) as [st'|o w] eqn:L; auto.
    apply IH; auto. eapply lstep_settled; eauto.
Qed.

(* evs' is evs with quiet iterations (empty reads / poll expiries that trigger no kick) inserted
   anywhere *)
Inductive stutters (cfg : lcfg) : list lev -> list lev -> Prop :=
  | st_nil : stutters cfg [] []
  | st_keep : forall e a b, stutters cfg a b -> stutters cfg (e :: a) (e :: b)
  | st_ins : forall q a b, quiet cfg q = true -> stutters cfg a b -> stutters cfg a (q :: b).

Lemma stutters_destutter : forall cfg a b, stutters cfg a b -> destutter cfg b = destutter cfg a.
Proof.
  intros cfg a b H. induction H; auto.
  - unfold destutter. cbn [filter]. fold (destutter cfg a). fold (destutter cfg b). rewrite IHstutters. reflexivity.
  - unfold destutter. cbn [filter]. rewrite H. cbn [negb]. exact IHstutters.
Qed.

(* DESIGN C06: inserting any number of empty reads anywhere in the read sequence changes neither
   the bytes written nor the outcome of the login state machine (the time-based kick is the
   separate input k: an empty read whose kick fires is not quiet) *)
Theorem auth_stutter_invariant : forall cfg evs evs',
  empty_safe cfg -> stutters cfg evs evs' ->
  lrun cfg l_init evs' = lrun cfg l_init evs.
Proof.
  intros cfg evs evs' E H.
  rewrite (lrun_destutter cfg evs' l_init E (settled_init cfg E)).
  rewrite (lrun_destutter cfg evs l_init E (settled_init cfg E)).
  rewrite (stutters_destutter _ _ _ H). reflexivity.
Qed.

Theorem auth_destutter_eq : forall cfg evs evs',
  empty_safe cfg -> destutter cfg evs = destutter cfg evs' ->
  lrun cfg l_init evs = lrun cfg l_init evs'.
Proof.
  intros cfg evs evs' E H.
  rewrite (lrun_destutter cfg evs l_init E (settled_init cfg E)).
  rewrite (lrun_destutter cfg evs' l_init E (settled_init cfg E)). rewrite H. reflexivity.
Qed.

(* poll expiries whose kick does not fire *)
Definition expiries_quiet (cfg : lcfg) (evs : list lev) : Prop :=
  forall k, In (LExpire k) evs -> l_kicks cfg && k = false.

Lemma destutter_sync_view : forall cfg evs, expiries_quiet cfg evs ->
  destutter cfg (sync_view evs) = destutter cfg evs.
Proof.
  intros cfg evs. induction evs as [|e evs IH]; intros H; [reflexivity|].
  assert (H' : expiries_quiet cfg evs) by (intros k Hk; apply (H k); right; auto).
  unfold sync_view, destutter. cbn [filter]. fold (sync_view evs).
  destruct e as [b k|k|]; cbn [is_expire negb filter].
  - fold (destutter cfg (sync_view evs)). fold (destutter cfg evs). rewrite IH; auto.
  - fold (destutter cfg (sync_view evs)). fold (destutter cfg evs). cbn [quiet].
    rewrite (H k) by (left; reflexivity). cbn [negb]. apply IH; auto.
  - fold (destutter cfg (sync_view evs)). fold (destutter cfg evs). rewrite IH; auto.
Qed.

(* the asyncio loop (which sees the device's reads with poll expiries interleaved in any way) and
   the sync loop (which sees only the reads) write the same bytes and end the same way *)
Theorem login_sync_eq_async : forall cfg evs,
  empty_safe cfg -> expiries_quiet cfg evs ->
  lrun cfg l_init evs = lrun cfg l_init (sync_view evs).
Proof.
  intros cfg evs E H. apply auth_destutter_eq; auto. symmetry. apply destutter_sync_view; auto.
Qed.

(* ---- the pinned commit: the asyncio Telnet login does not catch ScrapliConnectionError ---- *)
Definition with_catch (cfg : lcfg) (c : bool) : lcfg :=
  mkLcfg (l_m1 cfg) (l_m2 cfg) (l_prompt cfg) (l_pre cfg) (l_a1 cfg) (l_a2 cfg) (l_ret cfg) (l_kicks cfg) c.

Definition login_catch_irrelevant : Prop :=
  forall cfg evs, empty_safe cfg ->
    lrun (with_catch cfg true) l_init evs = lrun (with_catch cfg false) l_init evs.

Definition demo_cfg : lcfg :=
  lit_cfg [108;111;103;105;110;58] [112;97;115;115;119;111;114;100;58] [35]
          [117] [112] [10] true true.

Theorem login_catch_irrelevant_refuted : ~ login_catch_irrelevant.
Proof.
  intros H.
  specialize (H demo_cfg [LErr; LData [35] false]).
  assert (E : empty_safe demo_cfg) by (vm_compute; auto).
  specialize (H E). vm_compute in H. discriminate.
Qed.

Definition has_err (evs : list lev) : bool := existsb (fun e => match e with LErr => true | _ => false end) evs.

Lemma lrun_catch_no_err : forall cfg evs st,
  has_err evs = false ->
  lrun (with_catch cfg true) st evs = lrun (with_catch cfg false) st evs.
Proof.
  intros cfg evs. induction evs as [|e evs IH]; intros st H; [reflexivity|].
  cbn [has_err existsb] in H. apply orb_false_iff in H. destruct H as [He Hr].
  cbn [lrun]. destruct e as [b k|k|]; try discriminate; cbn [lstep].
  - change (lbody (with_catch cfg true) st b k) with (lbody (with_catch cfg false) st b k).
    destruct (lbody (with_catch cfg false) st b k); auto.
  - change (lbody (with_catch cfg true) st [] k) with (lbody (with_catch cfg false) st [] k).
    destruct (lbody (with_catch cfg false) st [] k); auto.
Qed.

(* strongest true statement for the pinned commit: the two stacks agree on every history without a
   connection error during login (the region of the finding is exactly "read raised
   ScrapliConnectionError inside channel_authenticate_telnet") *)
Theorem login_catch_partial : forall cfg evs,
  has_err evs = false ->
  lrun (with_catch cfg true) l_init evs = lrun (with_catch cfg false) l_init evs.
Proof. intros. apply lrun_catch_no_err; auto. Qed.

(* ---- premises are satisfiable, non-trivially ---- *)
Example demo_empty_safe : empty_safe demo_cfg.
Proof. vm_compute; auto. Qed.

Definition demo_evs : list lev :=
  [LData [76;111;103;105;110;58] false; LData [80;97;115;115] false; LData [119;111;114;100;58;32] false;
   LData [114;49;35] false].
Definition demo_evs_stuttered : list lev :=
  [LExpire false; LData [76;111;103;105;110;58] false; LData [] false; LExpire false; LData [80;97;115;115] false;
   LData [119;111;114;100;58;32] false; LExpire false; LData [114;49;35] false; LExpire false].

Example demo_stutters : stutters demo_cfg demo_evs demo_evs_stuttered.
Proof.
  unfold demo_evs, demo_evs_stuttered.
  repeat (first [ apply st_nil | apply st_keep | (apply st_ins; [reflexivity|]) ]).
Qed.

Example demo_run : lrun demo_cfg l_init demo_evs_stuttered = (LDone, [[117]; [10]; [112]; [10]]).
Proof. vm_compute. reflexivity. Qed.

Example demo_expiries_quiet : expiries_quiet demo_cfg demo_evs_stuttered.
Proof.
  intros k H. cbn in H.
  repeat (destruct H as [H|H]; [try discriminate; inversion H; reflexivity|]). destruct H.
Qed.

(* a kicking empty read is NOT quiet: the theorem's side condition is not vacuous *)
Example demo_kick_matters :
  lrun demo_cfg l_init [LData [] true; LData [35] false] <> lrun demo_cfg l_init [LData [35] false].
Proof. vm_compute. discriminate. Qed.
