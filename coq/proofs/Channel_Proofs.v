(* Channel_Proofs.v — C01: a command's response is exactly what the device printed for that command.
   General theorems about coq/model/Channel.v, for EVERY chunker, search depth, output length, history.
   The regular-expression matcher is a Section variable with named hypotheses (Part H); Part J shows
   that the priority engine on a concrete pattern satisfies them whenever a few computable checks pass. *)
From Verif Require Import Bytes Regex RegexPrio Response Response_Proofs Channel.
From Coq Require Import Lia.

(* ============================================================================================ *)
(* Part A — lists and bytes *)

Lemma app_cons_assoc {A} (a : list A) x b : a ++ x :: b = (a ++ [x]) ++ b.
Proof. now rewrite <- app_assoc. Qed.

Lemma firstn_add {A} (k n : nat) (l : list A) : firstn (k + n) l = firstn k l ++ firstn n (skipn k l).
Proof.
  revert l; induction k as [|k IH]; intros l; [reflexivity|].
  destruct l as [|x l]; cbn; [now rewrite firstn_nil|]. now rewrite IH.
Qed.

Lemma skipn_add {A} (k n : nat) (l : list A) : skipn (k + n) l = skipn n (skipn k l).
Proof.
  revert l; induction k as [|k IH]; intros l; [reflexivity|].
  destruct l as [|x l]; cbn; [now rewrite skipn_nil|]. apply IH.
Qed.

Lemma firstn_app_exact {A} (a b : list A) : firstn (length a) (a ++ b) = a.
Proof. induction a; cbn; congruence. Qed.

Lemma skipn_app_exact {A} (a b : list A) : skipn (length a) (a ++ b) = b.
Proof. induction a; cbn; congruence. Qed.

Lemma firstn_app_le {A} n (a b : list A) : (n <= length a)%nat -> firstn n (a ++ b) = firstn n a.
Proof. intros. rewrite firstn_app. replace (n - length a)%nat with O by lia. cbn. apply app_nil_r. Qed.

Lemma firstn_app_ge {A} n (a b : list A) : (length a <= n)%nat ->
  firstn n (a ++ b) = a ++ firstn (n - length a) b.
Proof. intros. rewrite firstn_app. rewrite firstn_all2 by lia. reflexivity. Qed.

Lemma skipn_app_ge {A} n (a b : list A) : (length a <= n)%nat -> skipn n (a ++ b) = skipn (n - length a) b.
Proof. intros. rewrite skipn_app. rewrite skipn_all2 by lia. reflexivity. Qed.

Lemma lastn_all {A} d (b : list A) : (length b <= d)%nat -> lastn d b = b.
Proof. intros. unfold lastn. replace (length b - d)%nat with O by lia. reflexivity. Qed.

Lemma lastn_app_le {A} d (a b : list A) : (length b <= d)%nat -> lastn d (a ++ b) = lastn (d - length b) a ++ b.
Proof.
  intros. unfold lastn. rewrite app_length, skipn_app.
  replace (length a + length b - d - length a)%nat with O by lia. cbn.
  f_equal. f_equal. lia.
Qed.

Lemma lastn_app_ge {A} d (a b : list A) : (d <= length b)%nat -> lastn d (a ++ b) = lastn d b.
Proof.
  intros. unfold lastn. rewrite app_length, skipn_app.
  rewrite skipn_all2 by lia. cbn. f_equal. lia.
Qed.

Lemma In_lastn {A} d (l : list A) x : In x (lastn d l) -> In x l.
Proof. unfold lastn. intros H. rewrite <- (firstn_skipn (length l - d) l). apply in_or_app. now right. Qed.

Lemma In_firstn {A} n (l : list A) x : In x (firstn n l) -> In x l.
Proof. intros H. rewrite <- (firstn_skipn n l). apply in_or_app. now left. Qed.

Lemma In_skipn {A} n (l : list A) x : In x (skipn n l) -> In x l.
Proof. intros H. rewrite <- (firstn_skipn n l). apply in_or_app. now right. Qed.

Lemma forallb_firstn {A} (p : A -> bool) n l : forallb p l = true -> forallb p (firstn n l) = true.
Proof. rewrite !forallb_forall. intros H x Hx. apply H. eapply In_firstn; eauto. Qed.

Lemma forallb_skipn {A} (p : A -> bool) n l : forallb p l = true -> forallb p (skipn n l) = true.
Proof. rewrite !forallb_forall. intros H x Hx. apply H. eapply In_skipn; eauto. Qed.

Lemma forallb_lastn {A} (p : A -> bool) d l : forallb p l = true -> forallb p (lastn d l) = true.
Proof. apply forallb_skipn. Qed.

Lemma last_app_single {A} (l : list A) x d : last (l ++ [x]) d = x.
Proof. induction l as [|y l IH]; [reflexivity|]. cbn. destruct (l ++ [x]) eqn:E; [destruct l; discriminate|]. exact IH. Qed.

Lemma eqb_neq_false (a b : N) : a <> b -> (a =? b) = false.
Proof. apply N.eqb_neq. Qed.

(* ---- removing a byte ---- *)
Lemma remove_byte_app c a b : remove_byte c (a ++ b) = remove_byte c a ++ remove_byte c b.
Proof. apply filter_app. Qed.

Lemma remove_byte_id c s : ~ In c s -> remove_byte c s = s.
Proof.
  induction s as [|x s IH]; intros H; [reflexivity|]. cbn.
  destruct (x =? c) eqn:E; cbn.
  - apply N.eqb_eq in E. subst. exfalso. apply H. now left.
  - f_equal. apply IH. intros Hin. apply H. now right.
Qed.

Lemma rm13_app a b : rm13 (a ++ b) = rm13 a ++ rm13 b.
Proof. apply remove_byte_app. Qed.

Lemma rm13_id s : ~ In 13 s -> rm13 s = s.
Proof. apply remove_byte_id. Qed.

Lemma In_remove_byte c x s : In x (remove_byte c s) -> In x s.
Proof. unfold remove_byte. rewrite filter_In. tauto. Qed.

Lemma length_remove_byte c s : (length (remove_byte c s) <= length s)%nat.
Proof. unfold remove_byte. induction s as [|x s IH]; cbn; [lia|]. destruct (negb (x =? c)); cbn; lia. Qed.

(* ---- membership ---- *)
Lemma mem_false c s : ~ In c s -> mem c s = false.
Proof.
  intros H. unfold mem. apply Bool.not_true_is_false. intros E.
  apply existsb_exists in E as (x & Hx & Ex). apply N.eqb_eq in Ex. subst. auto.
Qed.

Lemma mem_true_In c s : mem c s = true -> In c s.
Proof. unfold mem. intros E. apply existsb_exists in E as (x & Hx & Ex). apply N.eqb_eq in Ex. now subst. Qed.

(* ---- lower / squash ---- *)
Lemma lower_app a b : lower (a ++ b) = lower a ++ lower b.
Proof. apply map_app. Qed.

Lemma squash_app a b : squash_ws (a ++ b) = squash_ws a ++ squash_ws b.
Proof. apply filter_app. Qed.

Lemma is_ws_lower c : is_ws (lower_byte c) = is_ws c.
Proof.
  unfold lower_byte. destruct ((65 <=? c) && (c <=? 90)) eqn:E; [|reflexivity].
  apply andb_prop in E as [E1 E2]. apply N.leb_le in E1, E2.
  unfold is_ws.
  replace (c + 32 =? 32) with false by (symmetry; apply N.eqb_neq; lia).
  replace (c =? 32) with false by (symmetry; apply N.eqb_neq; lia).
  replace (c + 32 <=? 13) with false by (symmetry; apply N.leb_gt; lia).
  replace (c <=? 13) with false by (symmetry; apply N.leb_gt; lia).
  now rewrite !andb_false_r.
Qed.

Lemma lower_byte_not8 c : c <> 8 -> lower_byte c <> 8.
Proof.
  unfold lower_byte. destruct ((65 <=? c) && (c <=? 90)) eqn:E; [|auto].
  apply andb_prop in E as [E1 E2]. apply N.leb_le in E1. lia.
Qed.

Lemma lower_no8 s : ~ In 8 s -> ~ In 8 (lower s).
Proof.
  intros H Hin. unfold lower in Hin. apply in_map_iff in Hin as (x & Ex & Hx).
  destruct (N.eq_dec x 8) as [->|Hne]; [auto|]. now apply lower_byte_not8 in Hne.
Qed.

Definition all_ws (s : bytes) : bool := forallb is_ws s.

Lemma squash_all_ws s : all_ws s = true -> squash_ws s = [].
Proof.
  induction s as [|c s IH]; [reflexivity|]. cbn. intros H. apply andb_prop in H as [H1 H2].
  rewrite H1. cbn. auto.
Qed.

Lemma all_ws_lower s : all_ws (lower s) = all_ws s.
Proof. unfold all_ws, lower. induction s as [|c s IH]; [reflexivity|]. cbn. now rewrite is_ws_lower, IH. Qed.

Lemma squash_lower_length s : length (squash_ws (lower s)) = length (squash_ws s).
Proof.
  induction s as [|c s IH]; [reflexivity|]. cbn. rewrite is_ws_lower.
  destruct (is_ws c); cbn; auto.
Qed.

Lemma squash_nonws_pos s c : In c s -> is_ws c = false -> (0 < length (squash_ws s))%nat.
Proof.
  induction s as [|x s IH]; [contradiction|]. intros [->|Hin] Hc; cbn.
  - rewrite Hc. cbn. lia.
  - destruct (is_ws x); cbn; [auto|lia].
Qed.

(* ---- substring test ---- *)
Lemma prefixb_length p s : prefixb p s = true -> (length p <= length s)%nat.
Proof.
  revert s; induction p as [|x p IH]; intros s H; cbn; [lia|].
  destruct s as [|y s]; [discriminate|]. cbn in H. apply andb_prop in H as [_ H]. apply IH in H. cbn. lia.
Qed.

Lemma infixb_length p s : infixb p s = true -> (length p <= length s)%nat.
Proof.
  induction s as [|y s IH]; intros H.
  - cbn in H. rewrite orb_false_r in H. now apply prefixb_length in H.
  - cbn [infixb] in H. apply orb_prop in H as [H|H]; [now apply prefixb_length|]. apply IH in H. cbn. lia.
Qed.

Lemma prefixb_refl_app p t : prefixb p (p ++ t) = true.
Proof. induction p as [|x p IH]; [reflexivity|]. cbn. now rewrite N.eqb_refl, IH. Qed.

Lemma infixb_refl p : infixb p p = true.
Proof.
  destruct p as [|x p]; [reflexivity|]. cbn [infixb]. apply orb_true_intro. left.
  rewrite <- (app_nil_r (x :: p)) at 2. apply prefixb_refl_app.
Qed.

Lemma infixb_nil s : infixb [] s = true.
Proof. destruct s; reflexivity. Qed.

(* ---- white space stripping ---- *)
Lemma lstrip_ws_all s : all_ws s = true -> lstrip_ws s = [].
Proof. induction s as [|c s IH]; [reflexivity|]. cbn. intros H. apply andb_prop in H as [H1 H2]. now rewrite H1; auto. Qed.

Lemma lstrip_ws_app_ws a b : all_ws a = true -> lstrip_ws (a ++ b) = lstrip_ws b.
Proof. induction a as [|c a IH]; [reflexivity|]. cbn. intros H. apply andb_prop in H as [H1 H2]. rewrite H1. auto. Qed.

Lemma lstrip_ws_nonws c s : is_ws c = false -> lstrip_ws (c :: s) = c :: s.
Proof. intros H. cbn. now rewrite H. Qed.

Lemma rstrip_ws_app_ws a b : all_ws b = true -> rstrip_ws (a ++ b) = rstrip_ws a.
Proof.
  intros H. unfold rstrip_ws. rewrite rev_app_distr. rewrite lstrip_ws_app_ws; [reflexivity|].
  unfold all_ws in *. rewrite forallb_forall in *. intros x Hx. apply H. now apply in_rev.
Qed.

Lemma rstrip_ws_all s : all_ws s = true -> rstrip_ws s = [].
Proof. intros H. rewrite <- (app_nil_l s). rewrite rstrip_ws_app_ws by assumption. reflexivity. Qed.

Lemma rstrip_ws_last_nonws a c : is_ws c = false -> rstrip_ws (a ++ [c]) = a ++ [c].
Proof.
  intros H. unfold rstrip_ws. rewrite rev_app_distr. cbn [rev app]. rewrite lstrip_ws_nonws by assumption.
  cbn [rev]. now rewrite rev_involutive.
Qed.

Lemma all_ws_app a b : all_ws (a ++ b) = all_ws a && all_ws b.
Proof. apply forallb_app. Qed.

(* a non-empty string whose last byte is not white space *)
Definition ends_nonws (s : bytes) : Prop := exists a c, s = a ++ [c] /\ is_ws c = false.

Lemma rstrip_ws_ends a t : ends_nonws a -> all_ws t = true -> rstrip_ws (a ++ t) = a.
Proof. intros (a' & c & -> & Hc) Ht. rewrite rstrip_ws_app_ws by assumption. now apply rstrip_ws_last_nonws. Qed.

(* every string is either all white space or ends (after its trailing white space) with a non-ws byte *)
Lemma ws_tail_split s : exists a t, s = a ++ t /\ all_ws t = true /\ (a = [] \/ ends_nonws a).
Proof.
  induction s as [|c s IH] using rev_ind.
  - exists [], []. cbn. auto.
  - destruct (is_ws c) eqn:Ec.
    + destruct IH as (a & t & -> & Ht & Ha). exists a, (t ++ [c]). rewrite app_assoc. split; [reflexivity|]. split; [|assumption].
      rewrite all_ws_app, Ht. cbn. now rewrite Ec.
    + exists (s ++ [c]), []. rewrite app_nil_r. split; [reflexivity|]. split; [reflexivity|]. right. now exists s, c.
Qed.

Lemma rstrip_ws_spec s : exists t, s = rstrip_ws s ++ t /\ all_ws t = true /\ (rstrip_ws s = [] \/ ends_nonws (rstrip_ws s)).
Proof.
  destruct (ws_tail_split s) as (a & t & -> & Ht & Ha).
  destruct Ha as [->|Ha].
  - cbn [app]. rewrite rstrip_ws_all by assumption. exists t. auto.
  - rewrite rstrip_ws_ends by assumption. exists t. auto.
Qed.

Lemma rstrip_ws_no10 s : ~ In 10 s -> ~ In 10 (rstrip_ws s).
Proof. intros H Hin. destruct (rstrip_ws_spec s) as (t & E & _). apply H. rewrite E. apply in_or_app. now left. Qed.

Lemma rstrip_ws_idem s : rstrip_ws (rstrip_ws s) = rstrip_ws s.
Proof.
  destruct (rstrip_ws_spec s) as (t & E & Ht & [H|H]).
  - rewrite H. reflexivity.
  - rewrite <- (app_nil_r (rstrip_ws s)) at 1. now apply rstrip_ws_ends.
Qed.

(* ============================================================================================ *)
(* Part B — the search window (_process_read_buf) *)

Lemma partition_byte_none c s : ~ In c s -> partition_byte c s = (s, false, []).
Proof.
  induction s as [|x s IH]; intros H; [reflexivity|]. cbn.
  destruct (x =? c) eqn:E.
  - apply N.eqb_eq in E. subst. exfalso. apply H. now left.
  - rewrite IH; [reflexivity|]. intros Hin. apply H. now right.
Qed.

Lemma partition_byte_app c a b : ~ In c a -> partition_byte c (a ++ c :: b) = (a, true, b).
Proof.
  induction a as [|x a IH]; intros H; cbn.
  - now rewrite N.eqb_refl.
  - destruct (x =? c) eqn:E.
    + apply N.eqb_eq in E. subst. exfalso. apply H. now left.
    + rewrite IH; [reflexivity|]. intros Hin. apply H. now right.
Qed.

(* every string either has no newline or splits at its first one *)
Lemma first10 s : ~ In 10 s \/ exists a b, s = a ++ 10 :: b /\ ~ In 10 a.
Proof.
  induction s as [|x s IH]; [left; intros []|].
  destruct (N.eq_dec x 10) as [->|Hx].
  - right. exists [], s. split; [reflexivity|intros []].
  - destruct IH as [IH|(a & b & -> & Ha)].
    + left. intros [E|Hin]; [now apply Hx|auto].
    + right. exists (x :: a), b. split; [reflexivity|]. intros [E|Hin]; [now apply Hx|auto].
Qed.

Lemma prb_no10 d p : ~ In 10 p -> prb d p = lastn d p.
Proof.
  intros H. unfold prb. rewrite partition_byte_none; [reflexivity|].
  intros Hin. apply H. eapply In_lastn; eauto.
Qed.

(* the window lemma: a last line shorter than the window is seen whole, and what precedes it in the
   search buffer is empty or a sequence of complete lines — for EVERY amount of preceding output *)
Lemma found_through_window d pre l :
  ~ In 10 l -> l <> [] -> (S (length l) <= d)%nat ->
  exists pre', prb d (pre ++ 10 :: l) = pre' ++ l /\ (pre' = [] \/ exists q, pre' = q ++ [10]).
Proof.
  intros Hl Hne Hd.
  assert (E : lastn d (pre ++ 10 :: l) = lastn (d - S (length l)) pre ++ 10 :: l)
    by (rewrite lastn_app_le by (cbn; lia); reflexivity).
  unfold prb. rewrite E. set (x := lastn (d - S (length l)) pre).
  destruct (first10 x) as [Hx|(a & b & Ex & Ha)].
  - rewrite partition_byte_app by assumption. destruct l; [contradiction|]. exists []. auto.
  - rewrite Ex, <- app_assoc. cbn [app]. rewrite partition_byte_app by assumption.
    destruct (b ++ 10 :: l) eqn:Eb; [destruct b; discriminate|]. rewrite <- Eb.
    exists (b ++ [10]). rewrite <- app_assoc. split; [reflexivity|]. right. now exists b.
Qed.

(* a first line without newline that is followed by something never reaches the search buffer *)
Lemma prb_drop_head d w rest : ~ In 10 w -> rest <> [] -> prb d (w ++ 10 :: rest) = prb d (10 :: rest).
Proof.
  intros Hw Hne.
  destruct (Nat.le_gt_cases d (length rest)) as [Hd|Hd].
  - unfold prb. rewrite (app_cons_assoc w 10 rest). rewrite lastn_app_ge by assumption.
    change (10 :: rest) with ([10] ++ rest). now rewrite lastn_app_ge by assumption.
  - unfold prb. rewrite lastn_app_le by (cbn; lia).
    rewrite partition_byte_app by (intros Hin; apply Hw; eapply In_lastn; eauto).
    rewrite (lastn_all d (10 :: rest)) by (cbn; lia).
    change (10 :: rest) with ([] ++ 10 :: rest) at 2. rewrite partition_byte_app by (intros []).
    destruct rest; [contradiction|reflexivity].
Qed.

(* a buffer that is a line without newline plus the newline: the search falls back to (the tail of) that line *)
Lemma prb_line_nl d w : ~ In 10 w -> exists k, prb d (w ++ [10]) = lastn k w.
Proof.
  intros Hw. destruct d as [|d].
  - exists O. unfold prb, lastn. rewrite !Nat.sub_0_r, !skipn_all. reflexivity.
  - exists d. unfold prb. rewrite lastn_app_le by (cbn; lia). cbn [length].
    replace (S d - 1)%nat with d by lia.
    rewrite partition_byte_app by (intros Hin; apply Hw; eapply In_lastn; eauto). reflexivity.
Qed.

(* ============================================================================================ *)
(* Part C — lines: split10, splitlines without CR, join, normalise *)

Lemma split10_nonempty s : split10 s <> [].
Proof. destruct s as [|c s]; cbn; [discriminate|]. destruct (c =? 10); [discriminate|]. destruct (split10 s); discriminate. Qed.

Lemma split10_no10 s : ~ In 10 s -> split10 s = [s].
Proof.
  induction s as [|c s IH]; intros H; [reflexivity|]. cbn.
  rewrite eqb_neq_false by (intros ->; apply H; now left).
  rewrite IH; [reflexivity|]. intros Hin. apply H. now right.
Qed.

Lemma split10_app a b : split10 (a ++ 10 :: b) = split10 a ++ split10 b.
Proof.
  induction a as [|c a IH]; [reflexivity|]. cbn [app split10].
  destruct (c =? 10); [now rewrite IH|].
  rewrite IH. destruct (split10 a) eqn:E; [now apply split10_nonempty in E|]. reflexivity.
Qed.

Lemma split10_cons10 s : split10 (10 :: s) = [] :: split10 s.
Proof. reflexivity. Qed.

Lemma split10_snoc10 s : split10 (s ++ [10]) = split10 s ++ [[]].
Proof. now rewrite split10_app. Qed.

Lemma split10_lines_no10 s l : In l (split10 s) -> ~ In 10 l.
Proof.
  revert l; induction s as [|c s IH]; intros l H.
  - cbn in H. destruct H as [<-|[]]. intros [].
  - cbn in H. destruct (c =? 10) eqn:E.
    + destruct H as [<-|H]; [intros []|auto].
    + destruct (split10 s) as [|h t] eqn:Es; [now apply split10_nonempty in Es|].
      destruct H as [<-|H].
      * intros [E'|Hin]; [subst; discriminate|]. revert Hin. apply IH. now left.
      * apply IH. now right.
Qed.

(* bytes.splitlines() on a string without CR: the lines, without a trailing empty one *)
Definition chop (l : list bytes) : list bytes := match rev l with [] :: t => rev t | _ => l end.
Definition glue (p : bytes) (l : list bytes) : list bytes := match l with h :: t => (p ++ h) :: t | [] => [] end.

Lemma chop_cons x L : L <> [] -> chop (x :: L) = x :: chop L.
Proof.
  intros H. unfold chop. cbn [rev].
  destruct (rev L) as [|y t] eqn:E.
  - exfalso. apply H. rewrite <- (rev_involutive L), E. reflexivity.
  - cbn [app]. destruct y; [|reflexivity]. rewrite rev_app_distr. reflexivity.
Qed.

Lemma chop_snoc_nonempty L x : x <> [] -> chop (L ++ [x]) = L ++ [x].
Proof. intros H. unfold chop. rewrite rev_app_distr. cbn. destruct x; [contradiction|reflexivity]. Qed.

Lemma chop_snoc_empty L : chop (L ++ [[]]) = L.
Proof. unfold chop. rewrite rev_app_distr. cbn. apply rev_involutive. Qed.

Lemma splitlines_aux_no13 s : ~ In 13 s -> forall cur, splitlines_aux cur s = chop (glue (rev cur) (split10 s)).
Proof.
  induction s as [|c s IH]; intros H cur.
  - cbn. rewrite app_nil_r. unfold chop. cbn. destruct cur as [|x cur]; [reflexivity|].
    destruct (rev (x :: cur)) eqn:E; [|reflexivity]. cbn in E. destruct (rev cur); discriminate.
  - assert (Hs : ~ In 13 s) by (intros Hin; apply H; now right).
    assert (Hc : c <> 13) by (intros ->; apply H; now left).
    destruct (N.eq_dec c 10) as [->|Hc10].
    + cbn [splitlines_aux split10]. rewrite N.eqb_refl. rewrite (IH Hs []). cbn [rev glue].
      rewrite app_nil_r.
      destruct (split10 s) as [|h t] eqn:Es; [now apply split10_nonempty in Es|].
      cbn [glue app]. symmetry. apply (chop_cons (rev cur) (h :: t)). easy.
    + assert (E : splitlines_aux cur (c :: s) = splitlines_aux (c :: cur) s).
      { cbn [splitlines_aux]. destruct c as [|p]; [reflexivity|].
        do 4 (destruct p as [p|p|]; try reflexivity); try (exfalso; apply Hc; reflexivity);
          try (exfalso; apply Hc10; reflexivity). }
      rewrite E, (IH Hs). cbn [split10 rev]. rewrite (eqb_neq_false _ _ Hc10).
      destruct (split10 s) as [|h t] eqn:Es; [now apply split10_nonempty in Es|].
      cbn [glue]. now rewrite <- app_assoc.
Qed.

Lemma splitlines_no13 s : ~ In 13 s -> splitlines s = chop (split10 s).
Proof.
  intros H. unfold splitlines. rewrite splitlines_aux_no13 by assumption. cbn [rev].
  destruct (split10 s) eqn:E; [now apply split10_nonempty in E|]. reflexivity.
Qed.

Lemma split10_In s l x : In l (split10 s) -> In x l -> In x s.
Proof.
  revert l; induction s as [|c s IH]; intros l H Hx.
  - cbn in H. destruct H as [<-|[]]. destruct Hx.
  - cbn in H. destruct (c =? 10).
    + destruct H as [<-|H]; [destruct Hx|]. right. eapply IH; eauto.
    + destruct (split10 s) as [|h t] eqn:Es; [now apply split10_nonempty in Es|].
      destruct H as [<-|H].
      * destruct Hx as [->|Hx]; [now left|]. right. apply (IH h); [now left|assumption].
      * right. apply (IH l); [now right|assumption].
Qed.

(* ---- join ---- *)
Lemma join_cons sep x L : L <> [] -> join sep (x :: L) = x ++ sep ++ join sep L.
Proof. destruct L; [contradiction|reflexivity]. Qed.

Lemma join_app sep A B : A <> [] -> B <> [] -> join sep (A ++ B) = join sep A ++ sep ++ join sep B.
Proof.
  intros HA HB. induction A as [|x A IH]; [contradiction|].
  destruct A as [|y A].
  - cbn [app]. now rewrite join_cons.
  - change ((x :: y :: A) ++ B) with (x :: ((y :: A) ++ B)).
    rewrite join_cons by (destruct A; easy).
    rewrite IH by easy. rewrite (join_cons sep x (y :: A)) by easy.
    now rewrite <- !app_assoc.
Qed.

Lemma join_snoc sep A x : A <> [] -> join sep (A ++ [x]) = join sep A ++ sep ++ x.
Proof. intros H. now rewrite join_app by (assumption || easy). Qed.

Lemma map_nonempty {A B} (f : A -> B) l : l <> [] -> map f l <> [].
Proof. destruct l; [contradiction|discriminate]. Qed.

(* ---- cleaned text: every line right-stripped, all lines kept ---- *)
Definition cl (s : bytes) : bytes := join [10] (map rstrip_ws (split10 s)).

Definition okline (l : bytes) : Prop := (l = [] \/ ends_nonws l) /\ ~ In 10 l /\ ~ In 13 l.

Lemma okline_rstrip s l : ~ In 13 s -> In l (split10 s) -> okline (rstrip_ws l).
Proof.
  intros Hs Hl. destruct (rstrip_ws_spec l) as (t & E & Ht & Hor). repeat split; [assumption| |].
  - apply rstrip_ws_no10. eapply split10_lines_no10; eauto.
  - intros Hin. apply Hs. eapply split10_In; eauto. rewrite E. apply in_or_app. now left.
Qed.

Lemma Forall_okline_cl s : ~ In 13 s -> Forall okline (map rstrip_ws (split10 s)).
Proof.
  intros Hs. apply Forall_forall. intros l Hl. apply in_map_iff in Hl as (l0 & <- & Hl0).
  eapply okline_rstrip; eauto.
Qed.

(* the characters lstrip removes: those of the return char, "\n" or "\r\n" *)
Definition retchars (rc : bytes) : Prop := mem 10 rc = true /\ forall c, In c rc -> c = 10 \/ c = 13.

Lemma retchars_nl : retchars [10].
Proof. split; [reflexivity|]. intros c [<-|[]]. now left. Qed.
Lemma retchars_crnl : retchars [13; 10].
Proof. split; [reflexivity|]. intros c [<-|[<-|[]]]; auto. Qed.

Lemma lstrip_chars_okline rc x : retchars rc -> okline x -> lstrip_chars rc x = x.
Proof.
  intros [_ Hrc] (_ & H10 & H13). destruct x as [|c x]; [reflexivity|]. cbn.
  rewrite mem_false; [reflexivity|]. intros Hin. apply Hrc in Hin as [->| ->]; [apply H10|apply H13]; now left.
Qed.

Lemma lstrip_join rc R : retchars rc -> Forall okline R ->
  lstrip_chars rc (join [10] R) = join [10] (drop_empty R).
Proof.
  intros Hrc. induction R as [|x R IH]; intros HR; [reflexivity|].
  inversion HR as [|? ? Hx HR']; subst.
  destruct R as [|y R].
  - cbn [join]. destruct x as [|c x]; [reflexivity|]. cbn [drop_empty join]. now apply lstrip_chars_okline.
  - rewrite join_cons by easy. destruct x as [|c x].
    + cbn [app drop_empty]. cbn [lstrip_chars]. destruct Hrc as [H10 Hrc]. rewrite H10.
      apply IH; assumption.
    + cbn [drop_empty]. rewrite (join_cons [10] (c :: x) (y :: R)) by easy.
      destruct Hx as (_ & H10 & H13). destruct Hrc as [_ Hrc]. cbn [app lstrip_chars].
      rewrite mem_false; [reflexivity|]. intros Hin. apply Hrc in Hin as [->| ->]; [apply H10|apply H13]; now left.
Qed.

Lemma rstrip_join R : Forall okline R -> rstrip_ws (join [10] R) = join [10] (rev (drop_empty (rev R))).
Proof.
  induction R as [|x R IH] using rev_ind; intros HR; [reflexivity|].
  apply Forall_app in HR as [HR Hx]. inversion Hx as [|? ? Hx' _]; subst.
  rewrite rev_app_distr. cbn [rev app].
  destruct Hx' as ([->|Hends] & _ & _).
  - cbn [drop_empty]. destruct R as [|y R]; [reflexivity|].
    rewrite join_snoc by easy. rewrite app_nil_r.
    rewrite rstrip_ws_app_ws by reflexivity. now apply IH.
  - assert (Hne : x <> []) by (destruct Hends as (a & c & -> & _); destruct a; discriminate).
    destruct x as [|c0 x0] eqn:Ex; [contradiction|]. cbn [drop_empty]. rewrite <- Ex in *.
    cbn [rev]. rewrite rev_involutive.
    destruct Hends as (a & c & Ea & Hc).
    destruct R as [|y R].
    + cbn. rewrite Ea. now apply rstrip_ws_last_nonws.
    + rewrite join_snoc by easy. rewrite Ea, !app_assoc. now apply rstrip_ws_last_nonws.
Qed.

Lemma Forall_drop_empty (P : bytes -> Prop) R : Forall P R -> Forall P (drop_empty R).
Proof.
  induction R as [|x R IH]; intros H; [constructor|]. inversion H; subst.
  destruct x; cbn; auto.
Qed.

Lemma post_join rc R : retchars rc -> Forall okline R ->
  rstrip_ws (lstrip_chars rc (join [10] R)) = join [10] (trim_blank R).
Proof.
  intros Hrc HR. rewrite lstrip_join by assumption.
  rewrite rstrip_join by now apply Forall_drop_empty. reflexivity.
Qed.

Lemma post_cl rc s : retchars rc -> ~ In 13 s -> rstrip_ws (lstrip_chars rc (cl s)) = normalise s.
Proof. intros Hrc Hs. unfold cl, normalise. apply post_join; [assumption|now apply Forall_okline_cl]. Qed.

(* ---- trim_blank / normalise algebra ---- *)
Lemma trim_blank_cons_empty R : trim_blank ([] :: R) = trim_blank R.
Proof. reflexivity. Qed.

Lemma trim_blank_snoc_empty R : trim_blank (R ++ [[]]) = trim_blank R.
Proof.
  induction R as [|x R IH]; [reflexivity|].
  destruct x as [|c x].
  - cbn [app]. now rewrite !trim_blank_cons_empty.
  - unfold trim_blank. cbn [app drop_empty]. change ((c :: x) :: R ++ [[]]) with (((c :: x) :: R) ++ [[]]).
    rewrite rev_app_distr. reflexivity.
Qed.

Lemma normalise_cons10 s : normalise (10 :: s) = normalise s.
Proof. reflexivity. Qed.

Lemma normalise_snoc10 s : normalise (s ++ [10]) = normalise s.
Proof. unfold normalise. rewrite split10_snoc10, map_app. cbn [map]. change (rstrip_ws []) with (@nil N). now rewrite trim_blank_snoc_empty. Qed.

Lemma rstrip_ws_cons c h h' : rstrip_ws h = rstrip_ws h' -> rstrip_ws (c :: h) = rstrip_ws (c :: h').
Proof.
  intros E.
  destruct (rstrip_ws_spec h) as (t & Eh & Ht & _). destruct (rstrip_ws_spec h') as (t' & Eh' & Ht' & _).
  rewrite Eh, Eh', <- E.
  change (c :: rstrip_ws h ++ t) with ((c :: rstrip_ws h) ++ t).
  change (c :: rstrip_ws h ++ t') with ((c :: rstrip_ws h) ++ t').
  now rewrite !rstrip_ws_app_ws by assumption.
Qed.

(* trailing white space (without newline) after the last line does not show *)
Lemma map_rstrip_split10_tail s t : all_ws t = true -> ~ In 10 t ->
  map rstrip_ws (split10 (s ++ t)) = map rstrip_ws (split10 s).
Proof.
  intros Ht Hn. induction s as [|c s IH].
  - cbn [app]. rewrite split10_no10 by assumption. cbn. now rewrite rstrip_ws_all.
  - cbn [app split10]. destruct (c =? 10); [cbn [map]; now rewrite IH|].
    destruct (split10 (s ++ t)) as [|h tl] eqn:E1; [now apply split10_nonempty in E1|].
    destruct (split10 s) as [|h' tl'] eqn:E2; [now apply split10_nonempty in E2|].
    cbn [map] in *. injection IH as Eh Etl. rewrite Etl. f_equal. now apply rstrip_ws_cons.
Qed.

Lemma normalise_tail_ws s t : all_ws t = true -> ~ In 10 t -> normalise (s ++ t) = normalise s.
Proof. intros. unfold normalise. now rewrite map_rstrip_split10_tail. Qed.

(* a first line of white space only (the residue of an echo or of the previous prompt) does not show *)
Lemma normalise_head_ws w s : all_ws w = true -> ~ In 10 w -> normalise (w ++ 10 :: s) = normalise s.
Proof.
  intros Hw Hn. unfold normalise. rewrite split10_app, split10_no10 by assumption.
  cbn [app map]. now rewrite rstrip_ws_all.
Qed.

(* the post-processing of _process_output without prompt stripping is [normalise] *)
Lemma post_splitlines rc s : retchars rc -> ~ In 13 s ->
  rstrip_ws (lstrip_chars rc (join [10] (map rstrip_ws (splitlines s)))) = normalise s.
Proof.
  intros Hrc Hs. rewrite splitlines_no13 by assumption.
  pose proof (Forall_okline_cl s Hs) as HF. unfold normalise.
  destruct (rev (split10 s)) as [|l t] eqn:E.
  - exfalso. apply (split10_nonempty s). rewrite <- (rev_involutive (split10 s)), E. reflexivity.
  - assert (Es : split10 s = rev t ++ [l]) by (rewrite <- (rev_involutive (split10 s)), E; reflexivity).
    destruct l as [|c l].
    + unfold chop. rewrite E. rewrite Es in *. rewrite map_app in *. cbn [map] in *.
      change (rstrip_ws []) with (@nil N) in *. rewrite trim_blank_snoc_empty.
      apply Forall_app in HF as [HF _]. now apply post_join.
    + unfold chop. rewrite E. now apply post_join.
Qed.

(* ============================================================================================ *)
(* Part D — the device, the transport, one read, the read loop *)

Definition plain (s : bytes) : Prop := ~ In 10 s /\ ~ In 13 s.

Lemma plain_cons c s : plain (c :: s) -> c <> 10 /\ c <> 13 /\ plain s.
Proof.
  intros [H1 H2]. repeat split.
  - intros ->. apply H1. now left.
  - intros ->. apply H2. now left.
  - intros Hin. apply H1. now right.
  - intros Hin. apply H2. now right.
Qed.

Lemma dev_feed_plain_gen e data : forall dv em0,
  plain data -> d_skip dv = false ->
  fold_left (dev_feed1 e) data (dv, em0) =
  (mkDev (d_line dv ++ data) false (d_mode dv) (d_count dv) (d_log dv),
   em0 ++ (if dev_echo dv then data else [])).
Proof.
  induction data as [|c data IH]; intros dv em0 Hp Hs.
  - cbn [fold_left]. rewrite app_nil_r.
    replace (if dev_echo dv then [] else []) with (@nil N) by (now destruct (dev_echo dv)).
    rewrite app_nil_r. destruct dv; cbn in *; now subst.
  - apply plain_cons in Hp as (H10 & H13 & Hp). cbn [fold_left]. unfold dev_feed1 at 2.
    rewrite (eqb_neq_false _ _ H13), (eqb_neq_false _ _ H10).
    rewrite IH by (assumption || reflexivity). cbn [d_line d_mode d_count d_log].
    unfold dev_echo. cbn [d_mode]. rewrite <- app_assoc. cbn [app].
    destruct (d_mode dv) as [|[] ? ?]; now rewrite <- ?app_assoc.
Qed.

Lemma dev_feed_plain e dv data : plain data -> d_skip dv = false ->
  dev_feed e dv data =
  (mkDev (d_line dv ++ data) false (d_mode dv) (d_count dv) (d_log dv), if dev_echo dv then data else []).
Proof. intros. unfold dev_feed. now rewrite dev_feed_plain_gen. Qed.

Definition is_ret (ret : bytes) : Prop := ret = [10] \/ ret = [13; 10].

Lemma dev_feed_ret e dv ret : is_ret ret -> d_skip dv = false ->
  dev_feed e dv ret =
  (let '(mode, count, log, out) := ret_core e (d_line dv) (d_mode dv) (d_count dv) (d_log dv) in
   (mkDev [] false mode count log, out)).
Proof.
  intros [-> | ->] Hs; unfold dev_feed; cbn [fold_left]; unfold dev_feed1, dev_return, set_skip;
    cbn [d_line d_skip d_mode d_count d_log]; rewrite ?Hs;
    change (13 =? 13) with true; change (10 =? 13) with false; change (10 =? 10) with true; cbv iota;
    destruct (ret_core e (d_line dv) (d_mode dv) (d_count dv) (d_log dv)) as [[[mode count] log] out];
    cbn; reflexivity.
Qed.

Lemma take_bounds e w : w_pending w <> [] -> (1 <= take e w <= length (w_pending w))%nat.
Proof. intros H. unfold take. destruct (w_pending w); [contradiction|]. cbn [length]. lia. Qed.

Lemma ch_read_plain c e w : w_pending w <> [] -> ~ In 27 (w_pending w) -> w_partial w = [] ->
  ch_read c e w =
  Ok (rm13 (firstn (take e w) (w_pending w)),
      mkW (skipn (take e w) (w_pending w)) (w_delivered w + take e w) (S (w_reads w)) [] (w_dev w) (w_written w)).
Proof.
  intros Hne H27 Hp. unfold ch_read. destruct (w_pending w) eqn:E; [contradiction|]. rewrite <- E in *.
  rewrite Hp. cbn [app].
  assert (Hm : mem 27 (rm13 (firstn (take e w) (w_pending w))) = false).
  { apply mem_false. intros Hin. apply H27. eapply In_firstn. eapply In_remove_byte. exact Hin. }
  rewrite Hm. cbv iota. rewrite Hm. reflexivity.
Qed.

(* the loop returns at the FIRST read boundary at or beyond offset [a], if the test fails on every
   shorter prefix of what is pending and succeeds on every longer one: for every chunker *)
Lemma rloop_first {R} c e (Q : bytes -> option R) : forall fuel acc w a,
  ~ In 27 (w_pending w) -> w_partial w = [] ->
  (1 <= a <= length (w_pending w))%nat -> (length (w_pending w) < fuel)%nat ->
  (forall n, (0 < n < a)%nat -> Q (acc ++ rm13 (firstn n (w_pending w))) = None) ->
  (forall n, (a <= n <= length (w_pending w))%nat -> Q (acc ++ rm13 (firstn n (w_pending w))) <> None) ->
  exists n r w', (a <= n <= length (w_pending w))%nat /\
    rloop c e Q fuel acc w = Ok (r, w') /\
    Q (acc ++ rm13 (firstn n (w_pending w))) = Some r /\
    w_pending w' = skipn n (w_pending w) /\ w_partial w' = [] /\
    w_dev w' = w_dev w /\ w_written w' = w_written w.
Proof.
  induction fuel as [|f IH]; intros acc w a H27 Hp Ha Hf Hno Hyes; [lia|].
  assert (Hne : w_pending w <> []) by (intros E; rewrite E in Ha; cbn in Ha; lia).
  pose proof (take_bounds e w Hne) as Hk.
  cbn [rloop]. rewrite ch_read_plain by assumption. set (k := take e w) in *.
  destruct (Nat.le_gt_cases a k) as [Hak|Hak].
  - destruct (Q (acc ++ rm13 (firstn k (w_pending w)))) as [r|] eqn:EQ.
    + exists k, r. eexists. repeat split; try reflexivity; try lia. exact EQ.
    + exfalso. apply (Hyes k); [lia|exact EQ].
  - rewrite (Hno k) by lia.
    set (w1 := mkW (skipn k (w_pending w)) (w_delivered w + k) (S (w_reads w)) [] (w_dev w) (w_written w)).
    assert (Hlen : length (w_pending w1) = (length (w_pending w) - k)%nat) by (cbn; apply skipn_length).
    destruct (IH (acc ++ rm13 (firstn k (w_pending w))) w1 (a - k)%nat) as (n & r & w' & Hn & Hr & HQ & Hpend & Hpart & Hdev & Hwr).
    + cbn. intros Hin. apply H27. eapply In_skipn; eauto.
    + reflexivity.
    + rewrite Hlen. lia.
    + rewrite Hlen. lia.
    + intros n Hn. cbn [w_pending w1]. rewrite <- app_assoc, <- rm13_app, <- firstn_add. apply Hno. lia.
    + intros n Hn. rewrite Hlen in Hn. cbn [w_pending w1]. rewrite <- app_assoc, <- rm13_app, <- firstn_add. apply Hyes. lia.
    + rewrite Hlen in Hn. exists (k + n)%nat, r, w'. repeat split; try lia; try assumption.
      * rewrite firstn_add, rm13_app, app_assoc. exact HQ.
      * rewrite Hpend. cbn [w_pending w1]. now rewrite skipn_add.
Qed.

(* ============================================================================================ *)
(* Part E — the echo (_read_until_input, strict mode) *)

Lemma is_ws_8 : is_ws 8 = false.
Proof. reflexivity. Qed.

Lemma all_ws_no8 s : all_ws s = true -> ~ In 8 s.
Proof.
  intros H Hin. unfold all_ws in H. rewrite forallb_forall in H. apply H in Hin. now rewrite is_ws_8 in Hin.
Qed.

Lemma proc_echo_no8 s : ~ In 8 s -> proc_echo s = squash_ws (lower s).
Proof. intros H. unfold proc_echo. rewrite remove_byte_id; [reflexivity|now apply lower_no8]. Qed.

Lemma squash_lower_ws s : all_ws s = true -> squash_ws (lower s) = [].
Proof. intros H. apply squash_all_ws. now rewrite all_ws_lower. Qed.

Lemma all_ws_skipn n s : all_ws s = true -> all_ws (skipn n s) = true.
Proof. apply forallb_skipn. Qed.

Lemma all_ws_firstn n s : all_ws s = true -> all_ws (firstn n s) = true.
Proof. apply forallb_firstn. Qed.

Lemma ends_nonws_nonempty s : ends_nonws s -> s <> [].
Proof. intros (a & c & -> & _). destruct a; discriminate. Qed.

(* with only white space pending in front of the echo, the echo test first succeeds at a read boundary
   at or after the last non-blank character of the input; what stays unread is white space of the
   input's tail (or, for an input of white space only, of that and the earlier residue) *)
Lemma read_until_input_spec c e w cmd r0 :
  w_pending w = r0 ++ cmd -> w_partial w = [] ->
  all_ws r0 = true -> ~ In 13 (r0 ++ cmd) -> ~ In 27 (r0 ++ cmd) -> ~ In 8 cmd ->
  exists buf w' t x,
    read_until_input c e cmd w = Ok (buf, w') /\
    r0 ++ cmd = buf ++ w_pending w' /\ all_ws (w_pending w') = true /\
    cmd = rstrip_ws cmd ++ t /\ r0 ++ t = x ++ w_pending w' /\
    w_partial w' = [] /\ w_dev w' = w_dev w /\ w_written w' = w_written w.
Proof.
  intros HP Hpart Hr0 H13 H27 H8.
  destruct cmd as [|c0 cmd0].
  { exists [], w, [], []. cbn [read_until_input]. rewrite HP, !app_nil_r. cbn [app]. repeat split; auto. }
  remember (c0 :: cmd0) as cmd eqn:Ecm.
  assert (Hcmd : cmd <> []) by (subst cmd; easy). clear Ecm c0 cmd0.
  destruct (rstrip_ws_spec cmd) as (tw & Ecmd & Htw & Hc1). set (c1 := rstrip_ws cmd) in *.
  assert (Ercmd : read_until_input c e cmd w = rloop c e (q_input (squash_ws (lower cmd))) (fuel_of w) [] w)
    by (unfold read_until_input; destruct cmd; [contradiction|reflexivity]).
  assert (H8R : ~ In 8 (r0 ++ cmd)) by (intros Hin; apply in_app_or in Hin as [Hin|Hin]; [now apply all_ws_no8 in Hin|auto]).
  assert (Hpin : squash_ws (lower cmd) = squash_ws (lower c1)).
  { rewrite Ecmd at 1. rewrite lower_app, squash_app, (squash_lower_ws tw Htw). apply app_nil_r. }
  assert (HR : w_pending w = (r0 ++ c1) ++ tw) by (rewrite HP, Ecmd at 1; now rewrite app_assoc).
  assert (Hprefix : forall n, rm13 (firstn n (w_pending w)) = firstn n (w_pending w)).
  { intros n. apply rm13_id. intros Hin. apply H13. rewrite <- HP. eapply In_firstn; eauto. }
  assert (Hproc : forall n, proc_echo (firstn n (w_pending w)) = squash_ws (lower (firstn n (w_pending w)))).
  { intros n. apply proc_echo_no8. intros Hin. apply H8R. rewrite <- HP. eapply In_firstn; eauto. }
  set (a := match c1 with [] => 1%nat | _ => length (r0 ++ c1) end).
  assert (Ha : (1 <= a <= length (w_pending w))%nat).
  { unfold a. destruct c1 eqn:E1.
    - rewrite HP, app_length. destruct cmd; [contradiction|]. cbn. lia.
    - rewrite HR, !app_length. cbn. lia. }
  destruct (rloop_first c e (q_input (squash_ws (lower cmd))) (fuel_of w) [] w a) as (n & r & w' & Hn & Hrun & HQ & Hpend & Hpart' & Hdev & Hwr).
  - now rewrite HP.
  - assumption.
  - assumption.
  - unfold fuel_of. lia.
  - (* too short: a non-blank character of the input is still to come *)
    intros n Hn. cbn [app]. rewrite Hprefix. unfold q_input, test. rewrite Hproc.
    unfold a in Hn. destruct Hc1 as [E1|Hends]; [rewrite E1 in Hn; lia|].
    destruct c1 as [|cc c1'] eqn:E1; [now apply ends_nonws_nonempty in Hends|]. rewrite <- E1 in *.
    rewrite HR, firstn_app_le by lia.
    destruct (infixb (squash_ws (lower cmd)) (squash_ws (lower (firstn n (r0 ++ c1))))) eqn:Ei; [|reflexivity].
    exfalso. apply infixb_length in Ei. rewrite Hpin in Ei.
    assert (Hsq : squash_ws (lower (r0 ++ c1)) = squash_ws (lower c1))
      by (rewrite lower_app, squash_app, (squash_lower_ws r0 Hr0); reflexivity).
    assert (Hlen : length (squash_ws (lower (r0 ++ c1))) =
                   (length (squash_ws (lower (firstn n (r0 ++ c1)))) + length (squash_ws (lower (skipn n (r0 ++ c1)))))%nat).
    { rewrite <- (firstn_skipn n (r0 ++ c1)) at 1. now rewrite lower_app, squash_app, app_length. }
    rewrite Hsq in Hlen.
    destruct Hends as (a0 & cl0 & Ec1 & Hcl).
    assert (Hin : In cl0 (skipn n (r0 ++ c1))).
    { rewrite Ec1, app_assoc, skipn_app. apply in_or_app. right.
      replace (n - length (r0 ++ a0))%nat with O; [now left|].
      rewrite Ec1, !app_length in Hn. rewrite app_length. cbn in Hn. lia. }
    assert (Hpos : (0 < length (squash_ws (lower (skipn n (r0 ++ c1)))))%nat).
    { apply (squash_nonws_pos _ (lower_byte cl0)).
      - unfold lower. apply in_map. exact Hin.
      - now rewrite is_ws_lower. }
    lia.
  - (* long enough: the processed buffer is the processed input *)
    intros n Hn. cbn [app]. rewrite Hprefix. unfold q_input, test. rewrite Hproc.
    assert (Ei : infixb (squash_ws (lower cmd)) (squash_ws (lower (firstn n (w_pending w)))) = true).
    { unfold a in Hn. destruct c1 as [|cc c1'] eqn:E1.
      - rewrite Hpin. apply infixb_nil.
      - rewrite <- E1 in *. rewrite HR, firstn_app_ge by lia.
        rewrite !lower_app, !squash_app, (squash_lower_ws r0 Hr0).
        rewrite (squash_lower_ws (firstn _ tw)) by (now apply all_ws_firstn).
        cbn [app]. rewrite app_nil_r, Hpin. apply infixb_refl. }
    rewrite Ei. discriminate.
  - cbn [app] in HQ. rewrite Hprefix in HQ. unfold q_input, test in HQ.
    destruct (infixb _ _) in HQ; [|discriminate]. injection HQ as <-.
    assert (Hws : all_ws (w_pending w') = true).
    { rewrite Hpend. unfold a in Hn. destruct c1 as [|cc c1'] eqn:E1.
      - apply all_ws_skipn. rewrite HR. cbn [app]. rewrite app_nil_r, all_ws_app, Hr0, Htw. reflexivity.
      - rewrite <- E1 in *. rewrite HR, skipn_app_ge by lia. now apply all_ws_skipn. }
    assert (Hsuf : exists x, r0 ++ tw = x ++ w_pending w').
    { rewrite Hpend. unfold a in Hn. destruct c1 as [|cc c1'] eqn:E1.
      - exists (firstn n (r0 ++ tw)). rewrite HR. cbn [app]. rewrite app_nil_r. symmetry. apply firstn_skipn.
      - rewrite <- E1 in *. rewrite HR, skipn_app_ge by lia.
        exists (r0 ++ firstn (n - length (r0 ++ c1)) tw). rewrite <- app_assoc. f_equal. symmetry. apply firstn_skipn. }
    destruct Hsuf as (x & Hx).
    exists (firstn n (w_pending w)), w', tw, x. rewrite Ercmd. repeat split; try assumption.
    rewrite Hpend, <- HP. symmetry. apply firstn_skipn.
Qed.

(* ============================================================================================ *)
(* Part F — one windowed read loop (_read_until_prompt, _read_until_explicit_prompt), any test *)

Definition strict_prefix (p s : bytes) : Prop := exists q, q <> [] /\ s = p ++ q.

Definition blankline (b : bytes) : Prop := all_ws b = true /\ ~ In 10 b.

Lemma blankline_lastn k b : blankline b -> blankline (lastn k b).
Proof. intros [H1 H2]. split; [now apply forallb_lastn|]. intros Hin. apply H2. eapply In_lastn; eauto. Qed.

Lemma all_ws_In_not27 s : all_ws s = true -> ~ In 27 s.
Proof. intros H Hin. unfold all_ws in H. rewrite forallb_forall in H. apply H in Hin. discriminate. Qed.

Lemma rm13_firstn_strict A A' x n : A = A' ++ [x] -> x <> 13 -> (n < length A)%nat ->
  exists q, q <> [] /\ rm13 A = rm13 (firstn n A) ++ q.
Proof.
  intros EA Hx Hn. exists (rm13 (skipn n A)). split.
  - rewrite EA, skipn_app. rewrite EA, app_length in Hn. cbn in Hn.
    replace (n - length A')%nat with O by lia. cbn [skipn]. rewrite rm13_app.
    unfold rm13 at 2. cbn. rewrite (eqb_neq_false _ _ Hx). cbn. intros E. apply app_eq_nil in E as [_ E]. discriminate.
  - rewrite <- rm13_app. now rewrite firstn_skipn.
Qed.

(* pending = w1 (white space of an echo's tail or of the last prompt) ++ A ++ B, where A cleans to
   "\n" ++ X and ends the awaited text, and B is its trailing blank: the loop returns exactly
   w1 ++ "\n" ++ X ++ (a prefix of B) and leaves the rest of B unread *)
Lemma read_stage_spec c e (Qb : bytes -> bool) w w1 A A' x B X :
  w_pending w = w1 ++ A ++ B -> w_partial w = [] -> ~ In 27 (w_pending w) ->
  blankline w1 -> ~ In 13 w1 -> A = A' ++ [x] -> x <> 13 -> rm13 A = 10 :: X -> X <> [] ->
  ~ In 13 B ->
  (forall b, blankline b -> Qb b = false) ->
  (forall p, strict_prefix p (10 :: X) -> Qb (prb (c_depth c) p) = false) ->
  (forall t t', B = t ++ t' -> Qb (prb (c_depth c) (10 :: X ++ t)) = true) ->
  exists t t' w',
    B = t ++ t' /\
    rloop c e (fun buf => test (Qb (prb (c_depth c) buf)) buf) (fuel_of w) [] w = Ok (w1 ++ 10 :: X ++ t, w') /\
    w_pending w' = t' /\ w_partial w' = [] /\ w_dev w' = w_dev w /\ w_written w' = w_written w.
Proof.
  intros HP Hpart H27 Hw1 Hw13 EA Hx HA HX HB Hsilent Hquiet Hfound.
  set (d := c_depth c) in *.
  assert (HR : w_pending w = (w1 ++ A) ++ B) by (rewrite HP; now rewrite app_assoc).
  assert (Hclean : rm13 (w1 ++ A) = w1 ++ 10 :: X) by (rewrite rm13_app, (rm13_id w1 Hw13), HA; reflexivity).
  assert (HA1 : w1 ++ A = (w1 ++ A') ++ [x]) by (rewrite EA; now rewrite app_assoc).
  set (a := length (w1 ++ A)).
  assert (Ha : (1 <= a <= length (w_pending w))%nat).
  { unfold a. rewrite HR, HA1, !app_length. cbn. lia. }
  destruct (rloop_first c e (fun buf => test (Qb (prb d buf)) buf) (fuel_of w) [] w a)
    as (n & r & w' & Hn & Hrun & HQ & Hpend & Hpart' & Hdev & Hwr); try assumption.
  - unfold fuel_of. lia.
  - (* before the end of the awaited text *)
    intros n Hn. cbn [app]. unfold test.
    rewrite HR, firstn_app_le by (fold a; lia).
    destruct (rm13_firstn_strict (w1 ++ A) (w1 ++ A') x n HA1 Hx) as (q & Hq & Eq); [fold a; lia|].
    rewrite Hclean in Eq. set (p' := rm13 (firstn n (w1 ++ A))) in *.
    assert (Hfalse : Qb (prb d p') = false).
    { symmetry in Eq. apply app_eq_app in Eq as (l & [[E1 E2]|[E1 E2]]).
      - destruct l as [|l0 l'].
        + rewrite app_nil_r in E1. rewrite E1. destruct Hw1 as [Hws Hno]. rewrite prb_no10 by assumption.
          apply Hsilent. now apply blankline_lastn.
        + cbn [app] in E2. injection E2 as <- E2. rewrite E1.
          destruct l' as [|l1 l2].
          * destruct Hw1 as [Hws Hno]. destruct (prb_line_nl d w1 Hno) as (k & ->).
            apply Hsilent. now apply blankline_lastn.
          * destruct Hw1 as [Hws Hno]. rewrite prb_drop_head by (assumption || easy).
            apply Hquiet. exists q. split; [assumption|]. now rewrite E2.
      - assert (Hbl : blankline p').
        { destruct Hw1 as [Hws Hno]. rewrite E1 in Hws, Hno. rewrite all_ws_app in Hws.
          apply andb_prop in Hws as [Hws _]. split; [assumption|]. intros Hin. apply Hno. apply in_or_app. now left. }
        destruct Hbl as [Hws Hno]. rewrite prb_no10 by assumption. apply Hsilent. now apply blankline_lastn. }
    now rewrite Hfalse.
  - (* at or beyond it *)
    intros n Hn. cbn [app]. unfold test.
    rewrite HR, firstn_app_ge by (fold a; lia). fold a.
    rewrite rm13_app, Hclean. rewrite (rm13_id (firstn (n - a) B)) by (intros Hin; apply HB; eapply In_firstn; eauto).
    rewrite <- app_assoc. cbn [app]. destruct Hw1 as [Hws Hno].
    rewrite prb_drop_head; [|assumption|destruct X; [contradiction|easy]].
    rewrite (Hfound (firstn (n - a) B) (skipn (n - a) B)) by (symmetry; apply firstn_skipn). discriminate.
  - cbn [app] in HQ. unfold test in HQ. destruct (Qb _) in HQ; [|discriminate]. injection HQ as <-.
    exists (firstn (n - a) B), (skipn (n - a) B), w'.
    split; [symmetry; apply firstn_skipn|].
    split.
    + rewrite Hrun. f_equal. f_equal.
      rewrite HR, firstn_app_ge by (fold a; lia). fold a.
      rewrite rm13_app, Hclean. rewrite (rm13_id (firstn (n - a) B)) by (intros Hin; apply HB; eapply In_firstn; eauto).
      rewrite <- app_assoc. reflexivity.
    + repeat split; try assumption. rewrite Hpend, HR, skipn_app_ge by (fold a; lia). reflexivity.
Qed.

(* ============================================================================================ *)
(* Part G — writes, the device at its prompt, cleaning of what was read *)

Lemma t_write_plain e data w : plain data -> d_skip (w_dev w) = false ->
  t_write e data w =
  mkW (w_pending w ++ (if dev_echo (w_dev w) then data else [])) (w_delivered w) (w_reads w) (w_partial w)
      (mkDev (d_line (w_dev w) ++ data) false (d_mode (w_dev w)) (d_count (w_dev w)) (d_log (w_dev w)))
      (w_written w ++ data).
Proof. intros Hp Hs. unfold t_write. now rewrite dev_feed_plain. Qed.

Lemma t_write_ret e ret w : is_ret ret -> d_skip (w_dev w) = false ->
  t_write e ret w =
  (let '(mode, count, log, out) :=
     ret_core e (d_line (w_dev w)) (d_mode (w_dev w)) (d_count (w_dev w)) (d_log (w_dev w)) in
   mkW (w_pending w ++ out) (w_delivered w) (w_reads w) (w_partial w) (mkDev [] false mode count log)
       (w_written w ++ ret)).
Proof.
  intros Hr Hs. unfold t_write. rewrite dev_feed_ret by assumption.
  destruct (ret_core _ _ _ _ _) as [[[mode count] log] out]. reflexivity.
Qed.

Lemma rm13_ret nl : is_ret nl -> rm13 nl = [10].
Proof. intros [-> | ->]; reflexivity. Qed.

Lemma rm13_crlf nl s : is_ret nl -> ~ In 13 s -> rm13 (crlf nl s) = s.
Proof.
  intros Hnl. induction s as [|x s IH]; intros H; [reflexivity|].
  unfold crlf. cbn [flat_map]. fold (crlf nl s). rewrite rm13_app, IH by (intros Hin; apply H; now right).
  destruct (x =? 10) eqn:E.
  - apply N.eqb_eq in E. subst. now rewrite rm13_ret.
  - unfold rm13. cbn. rewrite eqb_neq_false by (intros ->; apply H; now left). reflexivity.
Qed.

Lemma rm13_dbody nl t : is_ret nl -> ~ In 13 t -> rm13 (dbody nl t) = body t.
Proof.
  intros Hnl H. destruct t as [|x t]; [reflexivity|]. unfold dbody, body.
  now rewrite rm13_app, rm13_crlf, rm13_ret.
Qed.

Lemma In_ret nl x : is_ret nl -> In x nl -> x = 10 \/ x = 13.
Proof. intros [-> | ->] H; cbn in H; intuition. Qed.

Lemma In_crlf nl s x : is_ret nl -> In x (crlf nl s) -> In x s \/ x = 13.
Proof.
  intros Hnl. induction s as [|y s IH]; [intros []|].
  unfold crlf. cbn [flat_map]. fold (crlf nl s). intros H. apply in_app_or in H as [H|H].
  - destruct (y =? 10) eqn:E.
    + apply N.eqb_eq in E. subst. apply (In_ret _ _ Hnl) in H as [-> | ->]; [left; now left|now right].
    + destruct H as [<-|[]]. left. now left.
  - apply IH in H as [H|H]; [left; now right|now right].
Qed.

Lemma not27_dbody nl t : is_ret nl -> ~ In 27 t -> ~ In 27 (dbody nl t).
Proof.
  intros Hnl H Hin. destruct t as [|x t]; [destruct Hin|]. unfold dbody in Hin.
  apply in_app_or in Hin as [Hin|Hin].
  - apply (In_crlf _ _ _ Hnl) in Hin as [Hin|Hin]; [auto|discriminate].
  - apply (In_ret _ _ Hnl) in Hin as [Hin|Hin]; discriminate.
Qed.

Lemma not27_ret nl : is_ret nl -> ~ In 27 nl.
Proof. intros Hnl Hin. apply (In_ret _ _ Hnl) in Hin as [Hin|Hin]; discriminate. Qed.

Lemma body_no13 t : ~ In 13 t -> ~ In 13 (body t).
Proof.
  intros H Hin. destruct t as [|x t]; [destruct Hin|]. unfold body in Hin.
  apply in_app_or in Hin as [Hin|[Hin|[]]]; [auto|discriminate].
Qed.

(* cleaned body, as it appears in front of the prompt line after splitlines / rstrip / join *)
Definition clb (out : bytes) : bytes := match out with [] => [] | _ => cl out ++ [10] end.

Lemma cl_nl_body out : cl (10 :: body out) = 10 :: clb out.
Proof.
  unfold cl. rewrite split10_cons10. cbn [map]. change (rstrip_ws []) with (@nil N).
  destruct out as [|x out].
  - reflexivity.
  - unfold body, clb. rewrite split10_snoc10, map_app. cbn [map]. change (rstrip_ws []) with (@nil N).
    rewrite join_cons by (intros E; apply app_eq_nil in E as [_ E]; discriminate).
    rewrite join_snoc by (apply map_nonempty, split10_nonempty). now rewrite app_nil_r.
Qed.

Lemma clean_join w1 out core t :
  blankline w1 -> ends_nonws core -> ~ In 10 core -> blankline t ->
  ~ In 13 (w1 ++ 10 :: (body out ++ core) ++ t) ->
  join [10] (map rstrip_ws (splitlines (w1 ++ 10 :: (body out ++ core) ++ t))) = 10 :: clb out ++ core.
Proof.
  intros [Hw1 Hw10] Hcore Hc10 [Ht Ht10] H13.
  rewrite splitlines_no13 by assumption.
  rewrite split10_app, (split10_no10 w1 Hw10).
  assert (Hlast : ~ In 10 (core ++ t)) by (intros Hin; apply in_app_or in Hin as [Hin|Hin]; auto).
  assert (Hne : core ++ t <> []) by (apply ends_nonws_nonempty in Hcore; destruct core; [contradiction|easy]).
  destruct out as [|x out].
  - cbn [body app]. rewrite (split10_no10 _ Hlast).
    pose proof (chop_snoc_nonempty [w1] (core ++ t) Hne) as Hch. cbn [app] in Hch. unfold bytes in *. rewrite Hch. cbn [app map].
    rewrite (rstrip_ws_all w1 Hw1), rstrip_ws_ends by assumption. reflexivity.
  - assert (E : (body (x :: out) ++ core) ++ t = (x :: out) ++ 10 :: (core ++ t))
      by (unfold body; now rewrite <- !app_assoc).
    rewrite E, split10_app, (split10_no10 _ Hlast).
    rewrite app_assoc.
    pose proof (chop_snoc_nonempty ([w1] ++ split10 (x :: out)) (core ++ t) Hne) as Hch. unfold bytes in *. rewrite Hch.
    rewrite !map_app. cbn [map]. rewrite (rstrip_ws_all w1 Hw1), rstrip_ws_ends by assumption.
    cbn [app]. rewrite join_cons by (intros E0; apply app_eq_nil in E0 as [_ E0]; discriminate).
    rewrite join_snoc by (apply map_nonempty, split10_nonempty).
    unfold clb, cl. cbn [app]. now rewrite <- !app_assoc.
Qed.

Lemma retchars_of_ret ret : is_ret ret -> retchars ret.
Proof. intros [-> | ->]; [apply retchars_nl|apply retchars_crnl]. Qed.

Lemma post_send_fields input raw res : post_send input raw res = mkResp raw res false.
Proof. reflexivity. Qed.

(* ============================================================================================ *)
(* Part H — one connection: configuration, device, prompt, matcher hypotheses *)

Definition is_suffix (s l : bytes) : Prop := exists x, l = x ++ s.
Definition is_prefix (p l : bytes) : Prop := exists x, l = p ++ x.

Section Framing.

Variable c : cfg.
Variable e : env.
Variables core trail : bytes.       (* the prompt: its text, and the blank(s) that may follow it *)

Hypothesis Hret : is_ret (c_ret c).
Hypothesis Hnl : is_ret (e_nl e).
Hypothesis Hprompt : e_prompt e = core ++ trail.
Hypothesis Hcore_end : ends_nonws core.
Hypothesis Hcore10 : ~ In 10 core.
Hypothesis Hcore13 : ~ In 13 core.
Hypothesis Hcore27 : ~ In 27 core.
Hypothesis Htrail : blankline trail.
Hypothesis Htrail13 : ~ In 13 trail.
Hypothesis Hdepth : (S (length (core ++ trail)) <= c_depth c)%nat.

(* the matcher (Section variable through [c_M c]): named hypotheses *)
(* M1: white space alone is never read as a prompt *)
Hypothesis M_silent : forall b, blankline b -> m_search (c_M c) b = false.
(* M2: the prompt on the last line is found whatever complete lines precede it *)
Hypothesis M_found : forall pre t t', (pre = [] \/ exists q, pre = q ++ [10]) -> trail = t ++ t' ->
  m_search (c_M c) (pre ++ core ++ t) = true.
(* M3 (get_prompt searches the whole buffer): nothing before the complete prompt matches; the match is the prompt *)
Hypothesis G_quiet : forall w0 p, is_suffix w0 trail -> strict_prefix p (w0 ++ 10 :: core) ->
  m_group0 (c_M c) p = None.
Hypothesis G_found : forall w0 t t', is_suffix w0 trail -> trail = t ++ t' ->
  exists g, m_group0 (c_M c) (w0 ++ 10 :: core ++ t) = Some g /\ strip_ws g = core.

(* ---- the property's side conditions on inputs and on what the device prints ---- *)
Definition cmd_ok (cmd : bytes) : Prop := ~ In 8 cmd /\ ~ In 10 cmd /\ ~ In 13 cmd /\ ~ In 27 cmd.

(* no proper prefix of what the device prints up to the end of the next prompt is read as a prompt
   through the search window ("no complete or partial line of the output can be read as a prompt") *)
Definition quiet (out : bytes) : Prop :=
  forall p, strict_prefix p (10 :: body out ++ core) -> m_search (c_M c) (prb (c_depth c) p) = false.

(* the prompt removed from the cleaned text is the final one, and only that *)
Definition sub_ok (out : bytes) : Prop := m_sub (c_M c) (10 :: clb out ++ core) = 10 :: clb out.

Definition out_ok (strip : bool) (out : bytes) : Prop :=
  ~ In 13 out /\ ~ In 27 out /\ quiet out /\ (strip = true -> sub_ok out).

(* ---- the invariant between operations ---- *)
Definition Inv (w : world) : Prop :=
  d_line (w_dev w) = [] /\ d_skip (w_dev w) = false /\ d_mode (w_dev w) = Ready /\
  w_partial w = [] /\ is_suffix (w_pending w) trail.

Lemma suffix_blank s : is_suffix s trail -> blankline s /\ ~ In 13 s /\ ~ In 27 s.
Proof.
  intros (x & E). destruct Htrail as [Hws0 H10].
  assert (Hws : all_ws s = true).
  { rewrite E, all_ws_app in Hws0. now apply andb_prop in Hws0 as [_ Hws0]. }
  repeat split; try assumption.
  - intros Hin. apply H10. rewrite E. apply in_or_app. now right.
  - intros Hin. apply Htrail13. rewrite E. apply in_or_app. now right.
  - now apply all_ws_In_not27.
Qed.

Lemma prefix_blank t t' : trail = t ++ t' -> blankline t /\ ~ In 13 t.
Proof.
  intros E. destruct Htrail as [Hws0 H10].
  assert (Hws : all_ws t = true).
  { rewrite E, all_ws_app in Hws0. now apply andb_prop in Hws0 as [Hws0 _]. }
  repeat split; try assumption.
  - intros Hin. apply H10. rewrite E. apply in_or_app. now left.
  - intros Hin. apply Htrail13. rewrite E. apply in_or_app. now left.
Qed.

Lemma core_last : exists a x, core = a ++ [x] /\ x <> 13 /\ is_ws x = false.
Proof. destruct Hcore_end as (a & x & E & Hx). exists a, x. repeat split; try assumption. intros ->. discriminate. Qed.

Lemma core_nonempty : core <> [].
Proof. now apply ends_nonws_nonempty. Qed.

(* the prompt line is found through the window, whatever the amount of output before it *)
Lemma prompt_found_through_window out t t' : trail = t ++ t' ->
  m_search (c_M c) (prb (c_depth c) (10 :: (body out ++ core) ++ t)) = true.
Proof.
  intros Et.
  assert (Hl10 : ~ In 10 (core ++ t)).
  { destruct (prefix_blank t t' Et) as [[_ Ht10] _]. intros Hin. apply in_app_or in Hin as [Hin|Hin]; auto. }
  assert (Hlne : core ++ t <> []) by (pose proof core_nonempty; destruct core; [contradiction|easy]).
  assert (Hlen : (S (length (core ++ t)) <= c_depth c)%nat).
  { rewrite Et in Hdepth. rewrite !app_length in *. lia. }
  destruct out as [|x out].
  - cbn [body app]. change (10 :: core ++ t) with ([] ++ 10 :: (core ++ t)).
    destruct (found_through_window (c_depth c) [] (core ++ t) Hl10 Hlne Hlen) as (pre' & -> & Hpre').
    now apply (M_found pre' t t').
  - replace (10 :: (body (x :: out) ++ core) ++ t) with ((10 :: x :: out) ++ 10 :: (core ++ t))
      by (unfold body; cbn [app]; now rewrite <- !app_assoc).
    destruct (found_through_window (c_depth c) (10 :: x :: out) (core ++ t) Hl10 Hlne Hlen) as (pre' & -> & Hpre').
    now apply (M_found pre' t t').
Qed.

(* _read_until_prompt after the return of a command whose output is [out] *)
Lemma read_until_prompt_spec w w1 out :
  w_pending w = w1 ++ (e_nl e ++ dbody (e_nl e) out ++ core) ++ trail ->
  w_partial w = [] -> blankline w1 -> ~ In 13 w1 -> ~ In 27 w1 ->
  ~ In 13 out -> ~ In 27 out -> quiet out ->
  exists t t' w',
    trail = t ++ t' /\
    read_until_prompt c e w = Ok (w1 ++ 10 :: (body out ++ core) ++ t, w') /\
    w_pending w' = t' /\ w_partial w' = [] /\ w_dev w' = w_dev w /\ w_written w' = w_written w.
Proof.
  intros HP Hpart Hw1 Hw13 Hw27 Ho13 Ho27 Hq.
  destruct core_last as (a & x & Ecore & Hx13 & _).
  unfold read_until_prompt.
  change (q_prompt c) with (fun buf => test (m_search (c_M c) (prb (c_depth c) buf)) buf).
  eapply (read_stage_spec c e (m_search (c_M c)) w w1 _ ((e_nl e ++ dbody (e_nl e) out) ++ a) x trail (body out ++ core)); try eassumption.
  - rewrite HP. intros Hin. repeat (apply in_app_or in Hin as [Hin|Hin]); try contradiction.
    + now apply (not27_ret _ Hnl) in Hin.
    + now apply (not27_dbody _ _ Hnl Ho27) in Hin.
    + destruct Htrail as [Hws _]. now apply all_ws_In_not27 in Hin.
  - rewrite Ecore. now rewrite <- !app_assoc.
  - rewrite !rm13_app, (rm13_ret _ Hnl), (rm13_dbody _ _ Hnl Ho13), (rm13_id core Hcore13). reflexivity.
  - pose proof core_nonempty. destruct (body out); [assumption|easy].
  - intros t t' Et. now apply (prompt_found_through_window out t t').
Qed.

(* ---- what the device does with a command line typed at its prompt ---- *)
Inductive cmd_reply (k : nat) (cmd out : bytes) : nat -> list (bytes * bytes) -> Prop :=
| CR_blank : strip_ws cmd = [] -> out = [] -> cmd_reply k cmd out k []
| CR_plain : strip_ws cmd <> [] -> e_reply e k (strip_ws cmd) = RPlain out ->
             cmd_reply k cmd out (S k) [(cmd, out)].

Lemma ret_core_ready k cmd out k' l log : cmd_reply k cmd out k' l ->
  ret_core e cmd Ready k log = (Ready, k', log ++ l, e_nl e ++ dbody (e_nl e) out ++ e_prompt e).
Proof.
  intros [Hb -> | Hnb Hr]; unfold ret_core.
  - rewrite Hb. now rewrite app_nil_r.
  - destruct (strip_ws cmd) eqn:E; [contradiction|]. rewrite Hr. reflexivity.
Qed.

Lemma Inv_pending w : Inv w -> blankline (w_pending w) /\ ~ In 13 (w_pending w) /\ ~ In 27 (w_pending w).
Proof. intros (_ & _ & _ & _ & Hs). now apply suffix_blank. Qed.

(* send_input (channel level): one command at the prompt *)
Lemma send_input_spec w cmd strip out k' l :
  Inv w -> cmd_ok cmd -> cmd_reply (d_count (w_dev w)) cmd out k' l -> out_ok strip out ->
  exists raw res w' w1 t t' tw x,
    send_input c e cmd strip false false w = Ok (raw, res, w') /\
    Inv w' /\ trail = t ++ t' /\ w_pending w' = t' /\
    raw = w1 ++ 10 :: (body out ++ core) ++ t /\ blankline w1 /\
    cmd = rstrip_ws cmd ++ tw /\ w_pending w ++ tw = x ++ w1 /\
    res = (if strip then normalise out else normalise (body out ++ core)) /\
    d_count (w_dev w') = k' /\ d_log (w_dev w') = d_log (w_dev w) ++ l /\
    w_written w' = w_written w ++ cmd ++ c_ret c.
Proof.
  intros HI (H8 & H10 & H13 & H27) Hrep (Ho13 & Ho27 & Hq & Hsub).
  pose proof (Inv_pending w HI) as ([Hr0ws Hr010] & Hr013 & Hr027).
  destruct HI as (Hline & Hskip & Hmode & Hpart & Hsuf).
  unfold send_input. cbv iota.
  (* write the input: the device echoes it *)
  rewrite t_write_plain by (assumption || (split; assumption)).
  unfold dev_echo. rewrite Hmode, Hline. cbn [app].
  set (wa := mkW _ _ _ _ _ _).
  destruct (read_until_input_spec c e wa cmd (w_pending w)) as (buf1 & wb & tw & x & Hrun1 & Hcons & Hws1 & Etw & Ex & Hpartb & Hdevb & Hwrb);
    try reflexivity; try assumption.
  { intros Hin. apply in_app_or in Hin as [Hin|Hin]; auto. }
  { intros Hin. apply in_app_or in Hin as [Hin|Hin]; auto. }
  rewrite Hrun1. cbn [bind fst snd].
  (* write the return: the device executes the line and prints output and prompt *)
  rewrite t_write_ret by (assumption || (rewrite Hdevb; reflexivity)).
  rewrite Hdevb. cbn [w_dev d_line d_mode d_count d_log wa].
  rewrite (ret_core_ready _ _ _ _ _ _ Hrep). rewrite Hprompt.
  set (wc := mkW _ _ _ _ _ _).
  assert (Hw1 : blankline (w_pending wb)).
  { split; [assumption|]. intros Hin. assert (Hin' : In 10 (w_pending w ++ cmd)) by (rewrite Hcons; apply in_or_app; now right).
    apply in_app_or in Hin' as [Hin'|Hin']; auto. }
  assert (Hw113 : ~ In 13 (w_pending wb)).
  { intros Hin. assert (Hin' : In 13 (w_pending w ++ cmd)) by (rewrite Hcons; apply in_or_app; now right).
    apply in_app_or in Hin' as [Hin'|Hin']; auto. }
  assert (Hw127 : ~ In 27 (w_pending wb)) by (now apply all_ws_In_not27).
  destruct (read_until_prompt_spec wc (w_pending wb) out) as (t & t' & wd & Et & Hrun2 & Hpendd & Hpartd & Hdevd & Hwrd);
    try assumption.
  { cbn [wc w_pending]. now rewrite <- !app_assoc. }
  rewrite Hrun2. cbn [bind fst snd].
  destruct (prefix_blank t t' Et) as (Htb & Ht13).
  exists (w_pending wb ++ 10 :: (body out ++ core) ++ t), (process_output c (w_pending wb ++ 10 :: (body out ++ core) ++ t) strip), wd,
    (w_pending wb), t, t', tw, x.
  split; [reflexivity|].
  split.
  { unfold Inv. rewrite Hdevd. cbn [wc w_dev d_line d_skip d_mode]. repeat split; try assumption.
    rewrite Hpendd. exists t. exact Et. }
  split; [exact Et|]. split; [exact Hpendd|]. split; [reflexivity|]. split; [exact Hw1|].
  split; [exact Etw|]. split; [exact Ex|].
  split.
  { (* the processed result *)
    assert (Hb13 : ~ In 13 (w_pending wb ++ 10 :: (body out ++ core) ++ t)).
    { intros Hin. apply in_app_or in Hin as [Hin|[Hin|Hin]]; [auto|discriminate|].
      apply in_app_or in Hin as [Hin|Hin]; [|auto].
      apply in_app_or in Hin as [Hin|Hin]; [now apply body_no13 in Hin|auto]. }
    unfold process_output. destruct strip.
    - rewrite clean_join by assumption. rewrite (Hsub eq_refl).
      rewrite <- cl_nl_body. rewrite post_cl.
      + rewrite normalise_cons10. destruct out as [|o out]; [reflexivity|]. unfold body. apply normalise_snoc10.
      + now apply retchars_of_ret.
      + intros [Hin|Hin]; [discriminate|now apply body_no13 in Hin].
    - rewrite post_splitlines by (assumption || now apply retchars_of_ret).
      destruct Hw1 as [Hw1a Hw1b]. rewrite normalise_head_ws by assumption.
      destruct Htb as [Htb1 Htb2]. now rewrite normalise_tail_ws by assumption. }
  rewrite Hdevd, Hwrd. cbn [wc w_dev w_written d_count d_log]. rewrite Hwrb. cbn [wa w_written].
  repeat split; try reflexivity. now rewrite <- app_assoc.
Qed.

Lemma send_command_spec w cmd strip out k' l :
  Inv w -> cmd_ok cmd -> cmd_reply (d_count (w_dev w)) cmd out k' l -> out_ok strip out ->
  exists raw w' w1 t t' tw x,
    send_command c e cmd strip false w =
      Ok (mkResp raw (if strip then normalise out else normalise (body out ++ core)) false, w') /\
    Inv w' /\ trail = t ++ t' /\ w_pending w' = t' /\
    raw = w1 ++ 10 :: (body out ++ core) ++ t /\ blankline w1 /\
    cmd = rstrip_ws cmd ++ tw /\ w_pending w ++ tw = x ++ w1 /\
    d_count (w_dev w') = k' /\ d_log (w_dev w') = d_log (w_dev w) ++ l /\
    w_written w' = w_written w ++ cmd ++ c_ret c.
Proof.
  intros HI Hc Hr Ho.
  destruct (send_input_spec w cmd strip out k' l HI Hc Hr Ho)
    as (raw & res & w' & w1 & t & t' & tw & x & Hrun & HI' & Et & Hp & Eraw & Hw1 & Etw & Ex & Eres & Hk & Hl & Hwr).
  exists raw, w', w1, t, t', tw, x. unfold send_command. rewrite Hrun. cbn [bind fst snd].
  rewrite post_send_fields, Eres. split; [reflexivity|]. repeat (split; [assumption|]). assumption.
Qed.

(* get_prompt *)
Lemma get_prompt_spec w : Inv w ->
  exists w' t t',
    get_prompt c e w = Ok (core, w') /\ Inv w' /\ trail = t ++ t' /\ w_pending w' = t' /\
    d_count (w_dev w') = d_count (w_dev w) /\ d_log (w_dev w') = d_log (w_dev w) /\
    w_written w' = w_written w ++ c_ret c.
Proof.
  intros HI. pose proof (Inv_pending w HI) as ([Hr0ws Hr010] & Hr013 & Hr027).
  destruct HI as (Hline & Hskip & Hmode & Hpart & Hsuf).
  unfold get_prompt. rewrite t_write_ret by assumption. rewrite Hline, Hmode.
  unfold ret_core. cbn [strip_ws rstrip_ws rev lstrip_ws]. rewrite Hprompt.
  set (wa := mkW _ _ _ _ _ _).
  destruct core_last as (a0 & xl & Ecore & Hx13 & _).
  set (A := w_pending w ++ e_nl e ++ core).
  assert (HR : w_pending wa = A ++ trail) by (unfold A; cbn [wa w_pending]; now rewrite <- !app_assoc).
  assert (Hclean : rm13 A = w_pending w ++ 10 :: core).
  { unfold A. now rewrite !rm13_app, (rm13_id _ Hr013), (rm13_ret _ Hnl), (rm13_id _ Hcore13). }
  assert (HA1 : A = (w_pending w ++ e_nl e ++ a0) ++ [xl]) by (unfold A; rewrite Ecore; now rewrite <- !app_assoc).
  set (a := length A).
  assert (Ha : (1 <= a <= length (w_pending wa))%nat).
  { unfold a. rewrite HR, HA1, !app_length. cbn. lia. }
  destruct (rloop_first c e (q_getprompt c) (fuel_of wa) [] wa a)
    as (n & r & w' & Hn & Hrun & HQ & Hpend & Hpart' & Hdev & Hwr); try assumption.
  - rewrite HR. unfold A. intros Hin. repeat (apply in_app_or in Hin as [Hin|Hin]); try contradiction.
    + now apply (not27_ret _ Hnl) in Hin.
    + destruct Htrail as [Hws _]. now apply all_ws_In_not27 in Hin.
  - unfold fuel_of. lia.
  - intros n Hn. cbn [app]. rewrite HR, firstn_app_le by (fold a; lia).
    destruct (rm13_firstn_strict A _ xl n HA1 Hx13) as (q & Hq & Eq); [fold a; lia|].
    unfold q_getprompt. rewrite (G_quiet (w_pending w) (rm13 (firstn n A))); [reflexivity|assumption|].
    exists q. split; [assumption|]. now rewrite <- Hclean.
  - intros n Hn. cbn [app]. rewrite HR, firstn_app_ge by (fold a; lia). fold a.
    rewrite rm13_app, Hclean.
    rewrite (rm13_id (firstn (n - a) trail)) by (intros Hin; apply Htrail13; eapply In_firstn; eauto).
    rewrite <- app_assoc. cbn [app].
    destruct (G_found (w_pending w) (firstn (n - a) trail) (skipn (n - a) trail) Hsuf) as (g & Eg & _);
      [symmetry; apply firstn_skipn|].
    unfold q_getprompt. rewrite Eg. discriminate.
  - cbn [app] in HQ. rewrite HR, firstn_app_ge in HQ by (fold a; lia). fold a in HQ.
    rewrite rm13_app, Hclean in HQ.
    rewrite (rm13_id (firstn (n - a) trail)) in HQ by (intros Hin; apply Htrail13; eapply In_firstn; eauto).
    rewrite <- app_assoc in HQ. cbn [app] in HQ.
    destruct (G_found (w_pending w) (firstn (n - a) trail) (skipn (n - a) trail) Hsuf) as (g & Eg & Hg);
      [symmetry; apply firstn_skipn|].
    unfold q_getprompt in HQ. rewrite Eg in HQ. injection HQ as <-. rewrite Hg in Hrun.
    exists w', (firstn (n - a) trail), (skipn (n - a) trail).
    assert (Hp' : w_pending w' = skipn (n - a) trail) by (rewrite Hpend, HR, skipn_app_ge by (fold a; lia); reflexivity).
    split; [exact Hrun|]. split.
    { unfold Inv. rewrite Hdev. cbn [wa w_dev d_line d_skip d_mode]. repeat split; try assumption.
      rewrite Hp'. exists (firstn (n - a) trail). symmetry. apply firstn_skipn. }
    split; [symmetry; apply firstn_skipn|]. split; [exact Hp'|].
    rewrite Hdev, Hwr. cbn [wa w_dev w_written d_count d_log]. repeat split; reflexivity.
Qed.

(* ---- send_commands ---- *)
Definition cmd_res_ok (strip : bool) (cmd out : bytes) (r : resp) : Prop :=
  rs_failed r = false /\
  rs_result r = (if strip then normalise out else normalise (body out ++ core)) /\
  exists w1 t tw, blankline w1 /\ is_prefix t trail /\
    rs_raw r = w1 ++ 10 :: (body out ++ core) ++ t /\
    cmd = rstrip_ws cmd ++ tw /\ is_suffix w1 (trail ++ tw).

Inductive cmds_run : nat -> list bytes -> list bytes -> nat -> list (bytes * bytes) -> Prop :=
| CRnil k : cmds_run k [] [] k []
| CRcons k cmd out k1 l1 cmds outs k2 l2 :
    cmd_reply k cmd out k1 l1 -> cmds_run k1 cmds outs k2 l2 ->
    cmds_run k (cmd :: cmds) (out :: outs) k2 (l1 ++ l2).

Inductive resps_ok (strip : bool) : list bytes -> list bytes -> list resp -> Prop :=
| RO_nil : resps_ok strip [] [] []
| RO_cons cmd out r cmds outs rs :
    cmd_res_ok strip cmd out r -> resps_ok strip cmds outs rs ->
    resps_ok strip (cmd :: cmds) (out :: outs) (r :: rs).

Lemma send_command_res w cmd strip out k' l :
  Inv w -> cmd_ok cmd -> cmd_reply (d_count (w_dev w)) cmd out k' l -> out_ok strip out ->
  exists r w',
    send_command c e cmd strip false w = Ok (r, w') /\ Inv w' /\ cmd_res_ok strip cmd out r /\
    d_count (w_dev w') = k' /\ d_log (w_dev w') = d_log (w_dev w) ++ l /\
    w_written w' = w_written w ++ cmd ++ c_ret c.
Proof.
  intros HI Hc Hr Ho.
  destruct (send_command_spec w cmd strip out k' l HI Hc Hr Ho)
    as (raw & w' & w1 & t & t' & tw & x & Hrun & HI' & Et & Hp & Eraw & Hw1 & Etw & Ex & Hk & Hl & Hwr).
  eexists. exists w'. split; [exact Hrun|]. split; [exact HI'|]. split.
  - unfold cmd_res_ok. cbn [rs_failed rs_result rs_raw]. split; [reflexivity|]. split; [reflexivity|].
    exists w1, t, tw. split; [assumption|]. split; [now exists t'|]. split; [assumption|]. split; [assumption|].
    destruct HI as (_ & _ & _ & _ & (y & Ey)). exists (y ++ x). rewrite Ey, <- !app_assoc. now rewrite Ex.
  - repeat split; assumption.
Qed.

Lemma send_commands_cons x rest strip w :
  send_commands c e (x :: rest) strip false w =
  bind (send_command c e x strip false w) (fun r =>
  bind (send_commands c e rest strip false (snd r)) (fun rs => Ok (fst r :: fst rs, snd rs))).
Proof. destruct rest; [|reflexivity]. cbn [send_commands]. destruct (send_command c e x strip false w); reflexivity. Qed.

Lemma send_commands_spec strip cmds : forall outs w k' l,
  Inv w -> Forall cmd_ok cmds -> cmds_run (d_count (w_dev w)) cmds outs k' l -> Forall (out_ok strip) outs ->
  exists rs w',
    send_commands c e cmds strip false w = Ok (rs, w') /\ Inv w' /\ resps_ok strip cmds outs rs /\
    d_count (w_dev w') = k' /\ d_log (w_dev w') = d_log (w_dev w) ++ l /\
    w_written w' = w_written w ++ flat_map (fun cmd => cmd ++ c_ret c) cmds.
Proof.
  induction cmds as [|cmd cmds IH]; intros outs w k' l HI Hc Hrun Ho.
  - inversion Hrun; subst. exists [], w. cbn [send_commands flat_map]. rewrite !app_nil_r.
    split; [reflexivity|]. split; [assumption|]. split; [constructor|]. repeat split; reflexivity.
  - inversion Hrun as [|? ? out k1 l1 ? outs' ? l2 Hr1 Hrun']; subst.
    inversion Hc as [|? ? Hc1 Hc']; subst. inversion Ho as [|? ? Ho1 Ho']; subst.
    destruct (send_command_res w cmd strip out k1 l1 HI Hc1 Hr1 Ho1) as (r & w1 & Hrun1 & HI1 & Hres & Hk1 & Hl1 & Hwr1).
    rewrite <- Hk1 in Hrun'.
    destruct (IH outs' w1 k' l2 HI1 Hc' Hrun' Ho') as (rs & w2 & Hrun2 & HI2 & Hress & Hk2 & Hl2 & Hwr2).
    exists (r :: rs), w2. rewrite send_commands_cons, Hrun1. cbn [bind fst snd]. rewrite Hrun2. cbn [bind fst snd].
    split; [reflexivity|]. split; [assumption|]. split; [now constructor|]. split; [assumption|].
    split; [rewrite Hl2, Hl1; now rewrite app_assoc|].
    rewrite Hwr2, Hwr1. cbn [flat_map]. now rewrite <- !app_assoc.
Qed.

(* ---- send_interactive ---- *)
Definition input_ok (echoed : bool) (i : bytes) : Prop :=
  ~ In 10 i /\ ~ In 13 i /\ (echoed = true -> ~ In 8 i /\ ~ In 27 i).

(* the expected response [r] is found (through the window) exactly when the text X has arrived *)
Definition stage_ok (r : xpat) (X B : bytes) : Prop :=
  (forall b, blankline b -> xsearch (c_M c) r b = false) /\
  (forall p, strict_prefix p (10 :: X) -> xsearch (c_M c) r (prb (c_depth c) p) = false) /\
  (forall t t', B = t ++ t' -> xsearch (c_M c) r (prb (c_depth c) (10 :: X ++ t)) = true).

Fixpoint dialogue_ok (evs : list event) (ec : bool) (stages : list stage) (final : bytes) : Prop :=
  match evs with
  | [] => False
  | ev :: evs' =>
      input_ok ec (ev_input ev) /\ is_class (ev_resp ev) = false /\ ev_hidden ev = negb ec /\
      match stages with
      | (t, q, ec') :: stages' =>
          ~ In 13 t /\ ~ In 27 t /\
          exists qc qt, q = qc ++ qt /\ ends_nonws qc /\ ~ In 10 qc /\ ~ In 13 qc /\ ~ In 27 qc /\
            blankline qt /\ ~ In 13 qt /\
            stage_ok (ev_resp ev) (body t ++ qc) qt /\ dialogue_ok evs' ec' stages' final
      | [] => evs' = [] /\ ~ In 13 final /\ ~ In 27 final /\ stage_ok (ev_resp ev) (body final ++ core) trail
      end
  end.

(* everything the device prints during the dialogue, up to the end of the final prompt *)
Fixpoint transcript (evs : list event) (ec : bool) (stages : list stage) (final : bytes) : bytes :=
  match evs with
  | [] => []
  | ev :: evs' =>
      (if ec then ev_input ev else []) ++ 10 ::
      match stages with
      | (t, q, ec') :: stages' => body t ++ q ++ transcript evs' ec' stages' final
      | [] => body final ++ core
      end
  end.

Fixpoint dialogue_log (evs : list event) (stages : list stage) (final : bytes) : list (bytes * bytes) :=
  match evs with
  | [] => []
  | ev :: evs' =>
      match stages with
      | (t, q, _) :: stages' => (ev_input ev, body t ++ q) :: dialogue_log evs' stages' final
      | [] => [(ev_input ev, final)]
      end
  end.

Lemma xq_single r b : existsb (fun p => xsearch (c_M c) p b) [r] = xsearch (c_M c) r b.
Proof. cbn. apply orb_false_r. Qed.

Lemma explicit_stage w r w1 A A' x B X :
  w_pending w = w1 ++ A ++ B -> w_partial w = [] -> ~ In 27 (w_pending w) ->
  blankline w1 -> ~ In 13 w1 -> A = A' ++ [x] -> x <> 13 -> rm13 A = 10 :: X -> X <> [] -> ~ In 13 B ->
  stage_ok r X B ->
  exists t t' w',
    B = t ++ t' /\ read_until_explicit c e [r] w = Ok (w1 ++ 10 :: X ++ t, w') /\
    w_pending w' = t' /\ w_partial w' = [] /\ w_dev w' = w_dev w /\ w_written w' = w_written w.
Proof.
  intros HP Hpart H27 Hw1 Hw13 EA Hx HA HX HB (Hs & Hq & Hf).
  unfold read_until_explicit.
  change (q_explicit c [r]) with (fun buf => test (existsb (fun p => xsearch (c_M c) p (prb (c_depth c) buf)) [r]) buf).
  eapply (read_stage_spec c e (fun b => existsb (fun p => xsearch (c_M c) p b) [r]) w w1 A A' x B X); try eassumption.
  - intros b Hb. rewrite xq_single. now apply Hs.
  - intros p Hp. rewrite xq_single. now apply Hq.
  - intros t t' Et. rewrite xq_single. now apply (Hf t t').
Qed.

Lemma interact_spec : forall evs ec stages final buf w k1,
  d_line (w_dev w) = [] -> d_skip (w_dev w) = false -> dev_echo (w_dev w) = ec -> w_partial w = [] ->
  blankline (w_pending w) -> ~ In 13 (w_pending w) ->
  match evs with
  | ev :: _ => ret_core e (ev_input ev) (d_mode (w_dev w)) (d_count (w_dev w)) (d_log (w_dev w)) =
               ret_stage e (d_log (w_dev w)) (ev_input ev) k1 stages final
  | [] => True
  end ->
  dialogue_ok evs ec stages final ->
  exists w' t t',
    interact_events c e evs [] buf w = Ok (buf ++ w_pending w ++ transcript evs ec stages final ++ t, w') /\
    trail = t ++ t' /\ w_pending w' = t' /\
    d_line (w_dev w') = [] /\ d_skip (w_dev w') = false /\ d_mode (w_dev w') = Ready /\ w_partial w' = [] /\
    d_count (w_dev w') = k1 /\ d_log (w_dev w') = d_log (w_dev w) ++ dialogue_log evs stages final /\
    w_written w' = w_written w ++ flat_map (fun ev => ev_input ev ++ c_ret c) evs.
Proof.
  induction evs as [|ev evs IH]; intros ec stages final buf w k1 Hline Hskip Hecho Hpart Hbl H13 Hm Hd; [destruct Hd|].
  cbn [dialogue_ok] in Hd. destruct Hd as ((Hi10 & Hi13 & Hi8) & Hcls & Hhid & Hst).
  cbn [interact_events].
  rewrite t_write_plain by (assumption || (split; assumption)).
  rewrite Hecho, Hline. cbn [app].
  set (wa := mkW _ _ _ _ _ _).
  rewrite Hcls, Hhid. cbn [negb andb]. rewrite Bool.negb_involutive.
  assert (Hstep1 : exists b1 wb,
    (if ec then read_until_input c e (ev_input ev) wa else Ok ([], wa)) = Ok (b1, wb) /\
    b1 ++ w_pending wb = w_pending w ++ (if ec then ev_input ev else []) /\
    blankline (w_pending wb) /\ ~ In 13 (w_pending wb) /\ w_partial wb = [] /\
    w_dev wb = w_dev wa /\ w_written wb = w_written wa).
  { destruct Hbl as [Hws H10]. destruct ec.
    - destruct (Hi8 eq_refl) as [H8 H27].
      destruct (read_until_input_spec c e wa (ev_input ev) (w_pending w))
        as (b1 & wb & tw & x & Hrun & Hcons & Hwsb & _ & _ & Hpb & Hdvb & Hwrb); try reflexivity; try assumption.
      { intros Hin. apply in_app_or in Hin as [Hin|Hin]; auto. }
      { intros Hin. apply in_app_or in Hin as [Hin|Hin]; [now apply all_ws_In_not27 in Hin|auto]. }
      exists b1, wb. split; [exact Hrun|]. split; [now symmetry|].
      assert (Hsub : forall y, In y (w_pending wb) -> In y (w_pending w ++ ev_input ev))
        by (intros y Hy; rewrite Hcons; apply in_or_app; now right).
      repeat split; try assumption.
      + intros Hin. apply Hsub in Hin. apply in_app_or in Hin as [Hin|Hin]; auto.
      + intros Hin. apply Hsub in Hin. apply in_app_or in Hin as [Hin|Hin]; auto.
    - exists [], wa. cbn [app wa w_pending w_partial]. rewrite app_nil_r. repeat split; try assumption; reflexivity. }
  destruct Hstep1 as (b1 & wb & Hrun1 & Hcons & Hblb & H13b & Hpb & Hdvb & Hwrb).
  rewrite Hrun1. cbn [bind fst snd].
  rewrite t_write_ret by (assumption || (rewrite Hdvb; reflexivity)).
  rewrite Hdvb. cbn [wa w_dev d_line d_mode d_count d_log]. rewrite Hm.
  assert (H27b : ~ In 27 (w_pending wb)) by (destruct Hblb; now apply all_ws_In_not27).
  destruct stages as [|[[t q] ec'] stages'].
  - (* last event: the final output and the prompt *)
    destruct Hst as (-> & Hf13 & Hf27 & Hso). unfold ret_stage. rewrite Hprompt.
    set (wc := mkW _ _ _ _ _ _).
    destruct core_last as (a0 & xl & Ecore & Hx13 & _).
    destruct (explicit_stage wc (ev_resp ev) (w_pending wb) (e_nl e ++ dbody (e_nl e) final ++ core)
               ((e_nl e ++ dbody (e_nl e) final) ++ a0) xl trail (body final ++ core))
      as (tq & tq' & wd & Etq & Hrun2 & Hpd & Hpartd & Hdvd & Hwrd); try assumption.
    + cbn [wc w_pending]. now rewrite <- !app_assoc.
    + cbn [wc w_pending]. intros Hin. repeat (apply in_app_or in Hin as [Hin|Hin]); try contradiction.
      * now apply (not27_ret _ Hnl) in Hin.
      * now apply (not27_dbody _ _ Hnl Hf27) in Hin.
      * destruct Htrail as [Hws _]. now apply all_ws_In_not27 in Hin.
    + rewrite Ecore. now rewrite <- !app_assoc.
    + rewrite !rm13_app, (rm13_ret _ Hnl), (rm13_dbody _ _ Hnl Hf13), (rm13_id core Hcore13). reflexivity.
    + pose proof core_nonempty. destruct (body final); [assumption|easy].
    + rewrite Hrun2. cbn [bind fst snd interaction_complete interact_events].
      exists wd, tq, tq'. split.
      { f_equal. f_equal. cbn [transcript]. rewrite <- !app_assoc. f_equal.
        rewrite (app_assoc b1), Hcons, <- !app_assoc. cbn [app]. now rewrite <- !app_assoc. }
      split; [exact Etq|]. split; [exact Hpd|].
      rewrite Hdvd, Hwrd. cbn [wc w_dev w_written d_line d_skip d_mode d_count d_log dialogue_log flat_map].
      rewrite Hwrb. cbn [wa w_written]. rewrite app_nil_r, <- app_assoc.
      repeat split; try reflexivity; assumption.
  - (* a stage: text and question, then the next event *)
    destruct Hst as (Ht13 & Ht27 & qc & qt & Eq & Hqc & Hqc10 & Hqc13 & Hqc27 & Hqt & Hqt13 & Hso & Hd').
    unfold ret_stage.
    set (wc := mkW _ _ _ _ _ _).
    destruct Hqc as (a0 & xl & Eqc & Hxl).
    assert (Hx13 : xl <> 13) by (intros ->; discriminate).
    destruct (explicit_stage wc (ev_resp ev) (w_pending wb) (e_nl e ++ dbody (e_nl e) t ++ qc)
               ((e_nl e ++ dbody (e_nl e) t) ++ a0) xl qt (body t ++ qc))
      as (tq & tq' & wd & Etq & Hrun2 & Hpd & Hpartd & Hdvd & Hwrd); try assumption.
    + cbn [wc w_pending]. rewrite Eq. now rewrite <- !app_assoc.
    + cbn [wc w_pending]. rewrite Eq. intros Hin. repeat (apply in_app_or in Hin as [Hin|Hin]); try contradiction.
      * now apply (not27_ret _ Hnl) in Hin.
      * now apply (not27_dbody _ _ Hnl Ht27) in Hin.
      * destruct Hqt as [Hws _]. now apply all_ws_In_not27 in Hin.
    + rewrite Eqc. now rewrite <- !app_assoc.
    + rewrite !rm13_app, (rm13_ret _ Hnl), (rm13_dbody _ _ Hnl Ht13), (rm13_id qc Hqc13). reflexivity.
    + rewrite Eqc. destruct (body t); destruct a0; easy.
    + rewrite Hrun2. cbn [bind fst snd interaction_complete].
      assert (Hbld : blankline (w_pending wd) /\ ~ In 13 (w_pending wd)).
      { rewrite Hpd. destruct Hqt as [Hws H10]. rewrite Etq in Hws, H10, Hqt13. rewrite all_ws_app in Hws.
        apply andb_prop in Hws as [_ Hws]. repeat split; try assumption.
        - intros Hin. apply H10. apply in_or_app. now right.
        - intros Hin. apply Hqt13. apply in_or_app. now right. }
      destruct Hbld as [Hbld H13d].
      destruct (IH ec' stages' final (buf ++ b1 ++ w_pending wb ++ 10 :: (body t ++ qc) ++ tq) wd k1)
        as (w' & tf & tf' & Hrun3 & Etf & Hpf & Hl' & Hs' & Hm' & Hp' & Hk' & Hlog' & Hwr'); try assumption.
      * rewrite Hdvd. reflexivity.
      * rewrite Hdvd. reflexivity.
      * rewrite Hdvd. reflexivity.
      * rewrite Hdvd. cbn [wc w_dev d_mode d_count d_log]. destruct evs; [exact I|reflexivity].
      * exists w', tf, tf'. split.
        { rewrite Hrun3. f_equal. f_equal. cbn [transcript]. rewrite Hpd, Eq, Etq.
          rewrite <- !app_assoc. f_equal. rewrite !app_assoc. rewrite Hcons. rewrite <- !app_assoc. cbn [app].
          now rewrite <- !app_assoc. }
        split; [exact Etf|]. split; [exact Hpf|].
        rewrite Hlog', Hwr', Hdvd, Hwrd. cbn [wc w_dev w_written d_log dialogue_log flat_map].
        rewrite Hwrb. cbn [wa w_written]. rewrite <- !app_assoc. cbn [app].
        repeat split; try reflexivity; assumption.
Qed.

Lemma transcript_no13 : forall evs ec stages final,
  dialogue_ok evs ec stages final -> ~ In 13 (transcript evs ec stages final).
Proof.
  induction evs as [|ev evs IH]; intros ec stages final Hd; [intros []|].
  cbn [dialogue_ok] in Hd. destruct Hd as ((Hi10 & Hi13 & _) & _ & _ & Hst).
  cbn [transcript]. intros Hin. apply in_app_or in Hin as [Hin|[Hin|Hin]].
  - destruct ec; [auto|destruct Hin].
  - discriminate.
  - destruct stages as [|[[t q] ec'] stages'].
    + destruct Hst as (_ & Hf13 & _ & _). apply in_app_or in Hin as [Hin|Hin]; [now apply body_no13 in Hin|auto].
    + destruct Hst as (Ht13 & _ & qc & qt & Eq & _ & _ & Hqc13 & _ & _ & Hqt13 & _ & Hd').
      apply in_app_or in Hin as [Hin|Hin]; [now apply body_no13 in Hin|].
      apply in_app_or in Hin as [Hin|Hin].
      * rewrite Eq in Hin. apply in_app_or in Hin as [Hin|Hin]; auto.
      * now apply (IH _ _ _ Hd') in Hin.
Qed.

Definition inter_ok (k : nat) (evs : list event) (stages : list stage) (final : bytes) : Prop :=
  match evs with
  | ev :: _ => strip_ws (ev_input ev) <> [] /\ e_reply e k (strip_ws (ev_input ev)) = RDialog stages final
  | [] => False
  end /\ dialogue_ok evs true stages final.

Lemma send_interactive_spec w evs stages final :
  Inv w -> inter_ok (d_count (w_dev w)) evs stages final ->
  exists raw w' t t',
    send_interactive c e evs [] w =
      Ok (mkResp raw (normalise (w_pending w ++ transcript evs true stages final)) false, w') /\
    Inv w' /\ trail = t ++ t' /\ w_pending w' = t' /\
    raw = w_pending w ++ transcript evs true stages final ++ t /\
    d_count (w_dev w') = S (d_count (w_dev w)) /\
    d_log (w_dev w') = d_log (w_dev w) ++ dialogue_log evs stages final /\
    w_written w' = w_written w ++ flat_map (fun ev => ev_input ev ++ c_ret c) evs.
Proof.
  intros HI (Hhead & Hd).
  pose proof (Inv_pending w HI) as (Hbl & Hr013 & Hr027).
  destruct HI as (Hline & Hskip & Hmode & Hpart & Hsuf).
  destruct (interact_spec evs true stages final [] w (S (d_count (w_dev w))))
    as (w' & t & t' & Hrun & Et & Hp & Hl' & Hs' & Hm' & Hp' & Hk' & Hlog' & Hwr'); try assumption.
  - unfold dev_echo. now rewrite Hmode.
  - destruct evs as [|ev evs]; [exact I|]. destruct Hhead as [Hne Hrep]. rewrite Hmode. unfold ret_core.
    destruct (strip_ws (ev_input ev)); [contradiction|]. now rewrite Hrep.
  - exists (w_pending w ++ transcript evs true stages final ++ t), w', t, t'.
    unfold send_interactive, send_inputs_interact. rewrite Hrun. cbn [bind fst snd app]. rewrite post_send_fields.
    split.
    { f_equal. f_equal. f_equal. unfold process_output.
      destruct (prefix_blank t t' Et) as ([Htws Ht10] & Ht13).
      rewrite post_splitlines.
      - rewrite app_assoc. now apply normalise_tail_ws.
      - now apply retchars_of_ret.
      - intros Hin. apply in_app_or in Hin as [Hin|Hin]; [auto|].
        apply in_app_or in Hin as [Hin|Hin]; [now apply (transcript_no13 _ _ _ _ Hd) in Hin|auto]. }
    split; [unfold Inv; repeat split; try assumption; rewrite Hp; now exists t|].
    repeat split; assumption.
Qed.

(* ---- histories ---- *)
Inductive xres :=
| XCmd (cmd out : bytes) (strip : bool)
| XCmds (cmds outs : list bytes) (strip : bool)
| XInter (T : bytes)
| XPrompt.

(* what an operation makes the device do, from the device's reply function: expected result shape,
   execution counter after it, lines logged *)
Inductive op_run : nat -> op -> xres -> nat -> list (bytes * bytes) -> Prop :=
| OR_cmd k cmd strip out k' l :
    cmd_ok cmd -> cmd_reply k cmd out k' l -> out_ok strip out ->
    op_run k (OCmd cmd strip) (XCmd cmd out strip) k' l
| OR_cmds k cmds strip outs k' l :
    Forall cmd_ok cmds -> cmds_run k cmds outs k' l -> Forall (out_ok strip) outs ->
    op_run k (OCmds cmds strip false) (XCmds cmds outs strip) k' l
| OR_inter k evs stages final :
    inter_ok k evs stages final ->
    op_run k (OInter evs []) (XInter (transcript evs true stages final)) (S k) (dialogue_log evs stages final)
| OR_prompt k : op_run k OPrompt XPrompt k [].

Inductive ops_run : nat -> list op -> list xres -> nat -> list (bytes * bytes) -> Prop :=
| ORs_nil k : ops_run k [] [] k []
| ORs_cons k o x k1 l1 ops xs k2 l2 :
    op_run k o x k1 l1 -> ops_run k1 ops xs k2 l2 -> ops_run k (o :: ops) (x :: xs) k2 (l1 ++ l2).

Definition res_ok (x : xres) (r : opres) : Prop :=
  match x, r with
  | XCmd cmd out strip, PCmd r => cmd_res_ok strip cmd out r
  | XCmds cmds outs strip, PCmds rs => resps_ok strip cmds outs rs
  | XInter T, PInter r =>
      rs_failed r = false /\
      exists r0 t, is_suffix r0 trail /\ is_prefix t trail /\
        rs_raw r = r0 ++ T ++ t /\ rs_result r = normalise (r0 ++ T)
  | XPrompt, PPrompt p => p = core
  | _, _ => False
  end.

Definition op_writes (o : op) : bytes :=
  match o with
  | OCmd cmd _ => cmd ++ c_ret c
  | OCmds cmds _ _ => flat_map (fun cmd => cmd ++ c_ret c) cmds
  | OInter evs _ => flat_map (fun ev => ev_input ev ++ c_ret c) evs
  | OPrompt => c_ret c
  end.

Lemma op_spec w o x k' l : Inv w -> op_run (d_count (w_dev w)) o x k' l ->
  exists r w', run_op c e o w = Ok (r, w') /\ Inv w' /\ res_ok x r /\
    d_count (w_dev w') = k' /\ d_log (w_dev w') = d_log (w_dev w) ++ l /\
    w_written w' = w_written w ++ op_writes o.
Proof.
  intros HI Hop. inversion Hop; subst.
  - destruct (send_command_res w cmd strip out k' l HI H H0 H1) as (r & w' & Hrun & HI' & Hres & Hk & Hl & Hwr).
    exists (PCmd r), w'. cbn [run_op]. rewrite Hrun. cbn [bind fst snd].
    split; [reflexivity|]. repeat (split; [assumption|]). assumption.
  - destruct (send_commands_spec strip cmds outs w k' l HI H H0 H1) as (rs & w' & Hrun & HI' & Hres & Hk & Hl & Hwr).
    exists (PCmds rs), w'. cbn [run_op]. rewrite Hrun. cbn [bind fst snd].
    split; [reflexivity|]. repeat (split; [assumption|]). assumption.
  - destruct (send_interactive_spec w evs stages final HI H) as (raw & w' & t & t' & Hrun & HI' & Et & Hp & Eraw & Hk & Hl & Hwr).
    eexists. exists w'. cbn [run_op]. rewrite Hrun. cbn [bind fst snd].
    split; [reflexivity|]. split; [assumption|]. split.
    + cbn [res_ok rs_failed rs_raw rs_result]. split; [reflexivity|].
      exists (w_pending w), t. destruct HI as (_ & _ & _ & _ & Hs).
      split; [assumption|]. split; [now exists t'|]. split; [assumption|reflexivity].
    + repeat (split; [assumption|]). assumption.
  - destruct (get_prompt_spec w HI) as (w' & t & t' & Hrun & HI' & Et & Hp & Hk & Hl & Hwr).
    exists (PPrompt core), w'. cbn [run_op]. rewrite Hrun. cbn [bind fst snd].
    rewrite app_nil_r. split; [reflexivity|]. split; [assumption|]. split; [reflexivity|].
    repeat (split; [assumption|]). assumption.
Qed.

(* C01, the history theorem: every result is its own command's output; between operations nothing is
   unread but (part of) the last prompt's trailing blank; the device executed exactly the lines sent *)
Theorem history_spec : forall ops xs w k' l,
  Inv w -> ops_run (d_count (w_dev w)) ops xs k' l ->
  exists rs w',
    run_ops c e ops w = (rs, Ok w') /\ Inv w' /\ Forall2 res_ok xs rs /\
    d_count (w_dev w') = k' /\ d_log (w_dev w') = d_log (w_dev w) ++ l /\
    w_written w' = w_written w ++ flat_map op_writes ops.
Proof.
  induction ops as [|o ops IH]; intros xs w k' l HI Hrun.
  - inversion Hrun; subst. exists [], w. cbn [run_ops flat_map]. rewrite !app_nil_r.
    split; [reflexivity|]. split; [assumption|]. split; [constructor|]. repeat split; reflexivity.
  - inversion Hrun as [|? ? x k1 l1 ? xs' ? l2 Hop Hrun']; subst.
    destruct (op_spec w o x k1 l1 HI Hop) as (r & w1 & Hr & HI1 & Hres & Hk1 & Hl1 & Hwr1).
    rewrite <- Hk1 in Hrun'.
    destruct (IH xs' w1 k' l2 HI1 Hrun') as (rs & w2 & Hrs & HI2 & Hress & Hk2 & Hl2 & Hwr2).
    exists (r :: rs), w2. cbn [run_ops]. rewrite Hr, Hrs.
    split; [reflexivity|]. split; [assumption|]. split; [now constructor|]. split; [assumption|].
    split; [rewrite Hl2, Hl1; now rewrite app_assoc|].
    rewrite Hwr2, Hwr1. cbn [flat_map]. now rewrite app_assoc.
Qed.

End Framing.

(* ============================================================================================ *)
(* Part J — the priority engine on a concrete pattern satisfies the matcher hypotheses
   whenever a few computable checks pass *)

Lemma is_ws_cases x : is_ws x = true -> x = 9 \/ x = 10 \/ x = 11 \/ x = 12 \/ x = 13 \/ x = 32.
Proof.
  unfold is_ws. intros H. apply orb_prop in H as [H|H].
  - apply N.eqb_eq in H. auto 10.
  - apply andb_prop in H as [H1 H2]. apply N.leb_le in H1, H2. lia.
Qed.

Definition cls_no_ws (s : cset) : bool := forallb (fun x => negb (cmem x s)) [9; 10; 11; 12; 13; 32].

Lemma cls_no_ws_spec s x : cls_no_ws s = true -> is_ws x = true -> cmem x s = false.
Proof.
  unfold cls_no_ws. rewrite forallb_forall. intros H Hx.
  apply Bool.negb_true_iff. apply H. apply is_ws_cases in Hx. cbn. intuition.
Qed.

(* "every match of r consumes at least one byte that is not white space" — a sufficient syntactic check *)
Fixpoint nbw (r : re) : bool :=
  match r with
  | Emp => true
  | Eps | Bol | Eol => false
  | Cls s => cls_no_ws s
  | Cat a b => nbw a || nbw b
  | Alt a b => nbw a && nbw b
  | Rep a mn _ _ => negb (Nat.eqb mn 0) && nbw a
  end.

Definition ws_cursor (cu : cursor) : Prop := all_ws (snd cu) = true.

Lemma m_ws_dead r : forall cu k, ws_cursor cu -> (forall cu', ws_cursor cu' -> k cu' = None) -> m r cu k = None.
Proof.
  induction r as [| | | |s|a IHa b IHb|a IHa b IHb|a IHa mn mx g]; intros cu k Hc Hk; cbn [m].
  - reflexivity.
  - now apply Hk.
  - destruct (fst cu); [now apply Hk|reflexivity].
  - destruct (snd cu) as [|x rest]; [now apply Hk|]. destruct (x =? 10); [now apply Hk|reflexivity].
  - destruct cu as [p [|x rest]]; cbn [snd]; [reflexivity|].
    destruct (cmem x s); [|reflexivity]. apply Hk. unfold ws_cursor in *. cbn [snd] in *.
    apply andb_prop in Hc as [_ Hc]. exact Hc.
  - apply IHa; [assumption|]. intros cu' Hc'. now apply IHb.
  - rewrite IHa by assumption. now apply IHb.
  - generalize (S (length (snd cu)) + mn)%nat as fuel. generalize O as i.
    intros i fuel. revert i cu Hc.
    induction fuel as [|f IHf]; intros i cu Hc; [reflexivity|].
    cbn beta iota fix zeta delta -[m under Nat.ltb Nat.leb length].
    assert (Hmore : forall kk, (forall cu', ws_cursor cu' -> kk cu' = None) ->
                               (if under i mx then m a cu kk else None) = None).
    { intros kk Hkk. destruct (under i mx); [|reflexivity]. now apply IHa. }
    rewrite Hmore.
    + rewrite (Hk cu Hc). destruct g; destruct (Nat.leb mn i); reflexivity.
    + intros cu' Hc'. destruct (_ || _); [|reflexivity]. now apply IHf.
Qed.

Lemma nbw_dead r : nbw r = true -> forall cu k, ws_cursor cu -> m r cu k = None.
Proof.
  induction r as [| | | |s|a IHa b IHb|a IHa b IHb|a IHa mn mx g]; intros Hn cu k Hc; cbn [m nbw] in *; try discriminate.
  - reflexivity.
  - destruct cu as [p [|x rest]]; cbn [snd]; [reflexivity|].
    unfold ws_cursor in Hc. cbn [snd] in Hc. apply andb_prop in Hc as [Hx _].
    now rewrite (cls_no_ws_spec s x Hn Hx).
  - apply orb_prop in Hn as [Hn|Hn].
    + now apply IHa.
    + apply m_ws_dead; [assumption|]. intros cu' Hc'. now apply IHb.
  - apply andb_prop in Hn as [Ha Hb]. rewrite IHa by assumption. now apply IHb.
  - apply andb_prop in Hn as [Hmn Ha]. apply Bool.negb_true_iff, Nat.eqb_neq in Hmn.
    cbn [plus]. rewrite (IHa Ha) by assumption.
    replace (Nat.leb mn 0) with false by (symmetry; apply Nat.leb_gt; lia).
    destruct (under 0 mx); now destruct g.
Qed.

Lemma search_from_ws_dead r : nbw r = true -> forall fuel pre cu, ws_cursor cu -> search_from r pre cu fuel = None.
Proof.
  intros Hn. induction fuel as [|f IH]; intros pre cu Hc; cbn [search_from]; unfold match_at;
    rewrite (nbw_dead r Hn) by assumption.
  - reflexivity.
  - destruct (snd cu) as [|x rest] eqn:E; [reflexivity|]. apply IH. unfold ws_cursor in *. cbn [snd].
    rewrite E in Hc. cbn in Hc. now apply andb_prop in Hc as [_ Hc].
Qed.

(* M1 for the concrete engine *)
Lemma search_bool_silent r b : nbw r = true -> all_ws b = true -> search_bool r b = false.
Proof. intros Hn Hb. unfold search_bool, search. now rewrite search_from_ws_dead. Qed.

(* M2 for the concrete engine: a match at the start of the last line is found behind any complete lines *)
Lemma search_from_reaches r l e0 : match_at r (true, l) = Some e0 ->
  forall pre acc pnl fuel, (length pre <= fuel)%nat -> (pre = [] -> pnl = true) ->
  (pre <> [] -> exists q, pre = q ++ [10]) ->
  exists res, search_from r acc (pnl, pre ++ l) fuel = Some res.
Proof.
  intros Hm. induction pre as [|x pre IH]; intros acc pnl fuel Hf H0 Hl.
  - rewrite (H0 eq_refl). cbn [app]. destruct fuel; cbn [search_from]; unfold cursor, bytes in *; rewrite Hm; eauto.
  - destruct fuel as [|f]; [cbn in Hf; lia|]. cbn [search_from app].
    destruct (match_at r (pnl, x :: pre ++ l)); [eauto|]. cbn [snd].
    apply IH.
    + cbn in Hf. lia.
    + intros ->. destruct (Hl ltac:(easy)) as (q & Eq). destruct q as [|y [|z q]]; cbn in Eq.
      * injection Eq as ->. reflexivity.
      * discriminate.
      * injection Eq as _ Eq. destruct q; discriminate.
    + intros Hne. destruct (Hl ltac:(easy)) as (q & Eq). destruct q as [|y q].
      * cbn in Eq. injection Eq as _ Eq. now subst.
      * cbn in Eq. injection Eq as _ Eq. now exists q.
Qed.

Lemma search_bool_found r pre l e0 : match_at r (true, l) = Some e0 ->
  (pre = [] \/ exists q, pre = q ++ [10]) -> search_bool r (pre ++ l) = true.
Proof.
  intros Hm Hpre. unfold search_bool, search.
  destruct (search_from_reaches r l e0 Hm pre [] true (length (pre ++ l))) as (res & Hres); [rewrite app_length; lia|reflexivity| |].
  - intros Hne. destruct Hpre as [->|H]; [contradiction|assumption].
  - unfold cursor, bytes in *. now rewrite Hres.
Qed.

(* ---- enumerations, for the finitely many cases of the get_prompt hypotheses ---- *)
Fixpoint prefixes (l : bytes) : list bytes :=
  [] :: match l with [] => [] | x :: r => map (cons x) (prefixes r) end.

Fixpoint suffixes (l : bytes) : list bytes :=
  l :: match l with [] => [] | _ :: r => suffixes r end.

Lemma prefixes_spec p l : is_prefix p l -> In p (prefixes l).
Proof.
  revert p; induction l as [|x l IH]; intros p (q & E).
  - destruct p; [now left|discriminate].
  - destruct p as [|y p]; [now left|]. cbn [app] in E. injection E as <- E. right.
    cbn. apply in_map. apply IH. now exists q.
Qed.

Lemma suffixes_spec s l : is_suffix s l -> In s (suffixes l).
Proof.
  induction l as [|x l IH]; intros (q & E).
  - destruct q; cbn in E; [subst; now left|discriminate].
  - destruct q as [|y q]; cbn in E.
    + subst. now left.
    + injection E as _ E. right. apply IH. now exists q.
Qed.

Lemma beq_refl a : beq a a = true.
Proof. induction a as [|x a IH]; [reflexivity|]. cbn. now rewrite N.eqb_refl. Qed.

Lemma beq_true a : forall b, beq a b = true -> a = b.
Proof.
  induction a as [|x a IH]; intros [|y b] H; try discriminate; [reflexivity|].
  cbn in H. apply andb_prop in H as [H1 H2]. apply N.eqb_eq in H1. subst. f_equal. now apply IH.
Qed.

Definition is_none {A} (o : option A) : bool := match o with None => true | Some _ => false end.
Definition is_some {A} (o : option A) : bool := match o with None => false | Some _ => true end.

Definition ends_nonwsb (s : bytes) : bool := match rev s with x :: _ => negb (is_ws x) | [] => false end.

Lemma ends_nonwsb_spec s : ends_nonwsb s = true -> ends_nonws s.
Proof.
  unfold ends_nonwsb. destruct (rev s) as [|x t] eqn:E; [discriminate|]. intros H.
  exists (rev t), x. split; [|now apply Bool.negb_true_iff].
  rewrite <- (rev_involutive s), E. reflexivity.
Qed.

(* all the conditions the history theorem puts on the prompt and on the pattern, as one computation *)
Definition prompt_okb (r : re) (d : nat) (core trail : bytes) : bool :=
  ends_nonwsb core && negb (mem 10 core) && negb (mem 13 core) && negb (mem 27 core) &&
  all_ws trail && negb (mem 10 trail) && negb (mem 13 trail) &&
  Nat.leb (S (length (core ++ trail))) d &&
  nbw r &&
  forallb (fun t => is_some (match_at r (true, core ++ t))) (prefixes trail) &&
  forallb (fun w0 =>
    forallb (fun p => beq p (w0 ++ 10 :: core) || is_none (group0 r p)) (prefixes (w0 ++ 10 :: core)) &&
    forallb (fun t => match group0 r (w0 ++ 10 :: core ++ t) with
                      | Some g => beq (strip_ws g) core | None => false end) (prefixes trail))
    (suffixes trail).

Lemma mem_In_iff x s : In x s -> mem x s = true.
Proof. intros H. unfold mem. apply existsb_exists. exists x. split; [assumption|apply N.eqb_refl]. Qed.

Lemma negb_mem_notin x s : negb (mem x s) = true -> ~ In x s.
Proof. intros H Hin. apply mem_In_iff in Hin. rewrite Hin in H. discriminate. Qed.

Lemma strict_prefix_neq p s : strict_prefix p s -> p <> s.
Proof.
  intros (q & Hq & E) ->. apply (f_equal (@length N)) in E. rewrite app_length in E.
  destruct q; [contradiction|cbn in E; lia].
Qed.

Lemma strict_prefix_prefix p s : strict_prefix p s -> is_prefix p s.
Proof. intros (q & _ & E). now exists q. Qed.

(* the history theorem for the priority engine on a concrete pattern: the matcher hypotheses are
   discharged by [prompt_okb], a computation on (pattern, depth, prompt) *)
Theorem history_concrete r ansi partial scan d ret e core trail :
  is_ret ret -> is_ret (e_nl e) -> e_prompt e = core ++ trail ->
  prompt_okb r d core trail = true ->
  forall ops xs w k' l,
    Inv trail w ->
    ops_run (re_cfg r ansi partial scan d ret) e core trail (d_count (w_dev w)) ops xs k' l ->
    exists rs w',
      run_ops (re_cfg r ansi partial scan d ret) e ops w = (rs, Ok w') /\ Inv trail w' /\
      Forall2 (res_ok core trail) xs rs /\
      d_count (w_dev w') = k' /\ d_log (w_dev w') = d_log (w_dev w) ++ l /\
      w_written w' = w_written w ++ flat_map (op_writes (re_cfg r ansi partial scan d ret)) ops.
Proof.
  intros Hret Hnl Hp Hok. unfold prompt_okb in Hok.
  apply andb_prop in Hok as [Hok Hgp]. apply andb_prop in Hok as [Hok Hmf].
  apply andb_prop in Hok as [Hok Hnbw]. apply andb_prop in Hok as [Hok Hdep].
  apply andb_prop in Hok as [Hok Ht13]. apply andb_prop in Hok as [Hok Ht10].
  apply andb_prop in Hok as [Hok Htws]. apply andb_prop in Hok as [Hok Hc27].
  apply andb_prop in Hok as [Hok Hc13]. apply andb_prop in Hok as [Hce Hc10].
  apply history_spec; try assumption.
  - now apply ends_nonwsb_spec.
  - now apply negb_mem_notin.
  - now apply negb_mem_notin.
  - now apply negb_mem_notin.
  - split; [assumption|now apply negb_mem_notin].
  - now apply negb_mem_notin.
  - now apply Nat.leb_le.
  - intros b [Hb _]. cbn. now apply search_bool_silent.
  - intros pre t t' Hpre Et. cbn.
    assert (Hin : In t (prefixes trail)) by (apply prefixes_spec; now exists t').
    rewrite forallb_forall in Hmf. apply Hmf in Hin.
    destruct (match_at r (true, core ++ t)) as [e0|] eqn:E; [|discriminate].
    now apply (search_bool_found r pre (core ++ t) e0).
  - intros w0 p Hw0 Hsp. cbn.
    rewrite forallb_forall in Hgp. apply suffixes_spec, Hgp in Hw0. apply andb_prop in Hw0 as [Hq _].
    rewrite forallb_forall in Hq. pose proof (Hq p (prefixes_spec _ _ (strict_prefix_prefix _ _ Hsp))) as Hp0.
    apply orb_prop in Hp0 as [Hp0|Hp0].
    + apply beq_true in Hp0. now apply strict_prefix_neq in Hsp.
    + destruct (group0 r p); [discriminate|reflexivity].
  - intros w0 t t' Hw0 Et. cbn.
    rewrite forallb_forall in Hgp. apply suffixes_spec, Hgp in Hw0. apply andb_prop in Hw0 as [_ Hf].
    rewrite forallb_forall in Hf. assert (Hin : In t (prefixes trail)) by (apply prefixes_spec; now exists t').
    apply Hf in Hin. destruct (group0 r (w0 ++ 10 :: core ++ t)) as [g|]; [|discriminate].
    exists g. split; [reflexivity|now apply beq_true].
Qed.

(* ---- computable forms of the side conditions on outputs and commands (used by the Examples) ---- *)
Definition quietb (r : re) (d : nat) (core out : bytes) : bool :=
  forallb (fun p => beq p (10 :: body out ++ core) || negb (search_bool r (prb d p)))
          (prefixes (10 :: body out ++ core)).

Definition sub_okb (r : re) (core out : bytes) : bool := beq (sub_all r (10 :: clb out ++ core)) (10 :: clb out).

Definition out_okb (r : re) (d : nat) (core : bytes) (strip : bool) (out : bytes) : bool :=
  negb (mem 13 out) && negb (mem 27 out) && quietb r d core out && (negb strip || sub_okb r core out).

Definition cmd_okb (cmd : bytes) : bool :=
  negb (mem 8 cmd) && negb (mem 10 cmd) && negb (mem 13 cmd) && negb (mem 27 cmd).

Lemma cmd_okb_spec cmd : cmd_okb cmd = true -> cmd_ok cmd.
Proof.
  unfold cmd_okb. intros H. repeat (apply andb_prop in H as [H ?]).
  repeat split; now apply negb_mem_notin.
Qed.

Lemma out_okb_spec r ansi partial scan d ret core strip out :
  out_okb r d core strip out = true -> out_ok (re_cfg r ansi partial scan d ret) core strip out.
Proof.
  unfold out_okb. intros H. repeat (apply andb_prop in H as [H ?]).
  split; [now apply negb_mem_notin|]. split; [now apply negb_mem_notin|]. split.
  - intros p Hsp. cbn. unfold quietb in H1. rewrite forallb_forall in H1.
    pose proof (H1 p (prefixes_spec _ _ (strict_prefix_prefix _ _ Hsp))) as Hp0.
    apply orb_prop in Hp0 as [Hp0|Hp0].
    + apply beq_true in Hp0. now apply strict_prefix_neq in Hsp.
    + now apply Bool.negb_true_iff.
  - intros ->. cbn in H0. unfold sub_ok, sub_okb in *. cbn. now apply beq_true.
Qed.

(* ============================================================================================ *)
(* Part K — the strict reading (nothing at all unread, raw result exact) is false; where it is true *)

Definition res_exact (core trail : bytes) (x : xres) (r : opres) : Prop :=
  match x, r with
  | XCmd cmd out strip, PCmd r =>
      rs_raw r = 10 :: (body out ++ core) ++ trail /\
      rs_result r = (if strip then normalise out else normalise (body out ++ core))
  | XCmds cmds outs strip, PCmds rs =>
      Forall2 (fun out r => rs_raw r = 10 :: (body out ++ core) ++ trail /\
                            rs_result r = (if strip then normalise out else normalise (body out ++ core))) outs rs
  | XInter T, PInter r => rs_raw r = T ++ trail /\ rs_result r = normalise T
  | XPrompt, PPrompt p => p = core
  | _, _ => False
  end.

(* every call returns with nothing unread and with the raw result being exactly what was printed *)
Definition strict_framing (c : cfg) (e : env) (core trail : bytes) : Prop :=
  forall ops xs w k' l,
    Inv trail w -> w_pending w = [] -> ops_run c e core trail (d_count (w_dev w)) ops xs k' l ->
    exists rs w', run_ops c e ops w = (rs, Ok w') /\ w_pending w' = [] /\ Forall2 (res_exact core trail) xs rs.

Definition tidy_x (x : xres) : Prop :=
  match x with
  | XCmd cmd _ _ => rstrip_ws cmd = cmd
  | XCmds cmds _ _ => Forall (fun cmd => rstrip_ws cmd = cmd) cmds
  | _ => True
  end.

Lemma prefix_nil t : is_prefix t [] -> t = [].
Proof. intros (x & E). symmetry in E. now apply app_eq_nil in E as [E _]. Qed.

Lemma suffix_nil s : is_suffix s [] -> s = [].
Proof. intros (x & E). symmetry in E. now apply app_eq_nil in E as [_ E]. Qed.

Lemma cmd_res_exact core strip cmd out r : rstrip_ws cmd = cmd -> cmd_res_ok core [] strip cmd out r ->
  rs_raw r = 10 :: (body out ++ core) ++ [] /\
  rs_result r = (if strip then normalise out else normalise (body out ++ core)).
Proof.
  intros Ht (_ & Hres & w1 & t & tw & _ & Hpt & Eraw & Etw & Hs).
  apply prefix_nil in Hpt. subst t. rewrite Ht in Etw.
  assert (tw = []) by (rewrite <- (app_nil_r cmd) in Etw at 1; now apply app_inv_head in Etw).
  subst tw. cbn [app] in Hs. apply suffix_nil in Hs. subst w1. split; [exact Eraw|exact Hres].
Qed.

Lemma exact_of_ok core x r : tidy_x x -> res_ok core [] x r -> res_exact core [] x r.
Proof.
  destruct x as [cmd out strip|cmds outs strip|T|]; destruct r as [r|rs|r|p]; cbn [res_ok res_exact tidy_x]; try tauto.
  - intros Ht H. now apply cmd_res_exact with (cmd := cmd).
  - intros Ht H. induction H as [|cmd out r cmds outs rs H1 H2 IH]; [constructor|].
    inversion Ht; subst. constructor; [now apply cmd_res_exact with (cmd := cmd)|auto].
  - intros _ (_ & r0 & t & Hr0 & Ht & Eraw & Eres). apply suffix_nil in Hr0. apply prefix_nil in Ht. subst.
    cbn [app] in *. now rewrite app_nil_r in *.
Qed.

(* C01 exact: with a prompt without trailing blank and commands without trailing white space, every
   call returns with NOTHING unread and the raw result is exactly what the device printed *)
Theorem history_exact c e core :
  is_ret (c_ret c) -> is_ret (e_nl e) -> e_prompt e = core ++ [] ->
  ends_nonws core -> ~ In 10 core -> ~ In 13 core -> ~ In 27 core ->
  (S (length (core ++ [])) <= c_depth c)%nat ->
  (forall b, blankline b -> m_search (c_M c) b = false) ->
  (forall pre t t', (pre = [] \/ exists q, pre = q ++ [10]) -> [] = t ++ t' ->
     m_search (c_M c) (pre ++ core ++ t) = true) ->
  (forall w0 p, is_suffix w0 [] -> strict_prefix p (w0 ++ 10 :: core) -> m_group0 (c_M c) p = None) ->
  (forall w0 t t', is_suffix w0 [] -> [] = t ++ t' ->
     exists g, m_group0 (c_M c) (w0 ++ 10 :: core ++ t) = Some g /\ strip_ws g = core) ->
  forall ops xs w k' l,
    Inv [] w -> ops_run c e core [] (d_count (w_dev w)) ops xs k' l -> Forall tidy_x xs ->
    exists rs w', run_ops c e ops w = (rs, Ok w') /\ w_pending w' = [] /\ Forall2 (res_exact core []) xs rs.
Proof.
  intros Hret Hnl Hp Hce Hc10 Hc13 Hc27 Hd M1 M2 G1 G2 ops xs w k' l HI Hrun Htidy.
  destruct (history_spec c e core [] Hret Hnl Hp Hce Hc10 Hc13 Hc27) with (ops := ops) (xs := xs) (w := w) (k' := k') (l := l)
    as (rs & w' & Hr & HI' & Hres & _); try assumption.
  - split; [reflexivity|intros []].
  - intros [].
  - exists rs, w'. split; [assumption|]. split.
    + destruct HI' as (_ & _ & _ & _ & Hs). now apply suffix_nil in Hs.
    + clear Hr Hrun. induction Hres as [|x r xs' rs' H1 H2 IH]; [constructor|].
      inversion Htidy; subst. constructor; [now apply exact_of_ok|auto].
Qed.

(* ---- witnesses: a small prompt pattern  ^[0-9a-z]+#\s?$  ---- *)
Definition wit_pat : re :=
  Cat Bol (Cat (Rep (Cls [(48, 57); (97, 122)]) 1 None true)
          (Cat (Cls [(35, 35)]) (Cat (Rep (Cls [(9, 13); (32, 32)]) 0 (Some 1%nat) true) Eol))).

Definition wit_cfg : cfg := re_cfg wit_pat Emp Emp false 1000 [10].
Definition wit_env (p : policy) (prompt : bytes) (script : list reply) : env :=
  mkEnv (policy_ch p) prompt [13; 10] (script_reply script).

Definition b_show : bytes := [115; 104; 111; 119].          (* "show" *)
Definition b_ok : bytes := [111; 107].                      (* "ok" *)
Definition b_r1 : bytes := [114; 49; 35].                   (* "r1#" *)

Lemma wit_prompt_blank_ok : prompt_okb wit_pat 1000 b_r1 [32] = true.
Proof. vm_compute. reflexivity. Qed.
Lemma wit_prompt_ok : prompt_okb wit_pat 1000 b_r1 [] = true.
Proof. vm_compute. reflexivity. Qed.

Lemma Inv_world0 trail : Inv trail (world0 [] 0).
Proof. unfold Inv, world0. cbn. repeat split; try reflexivity. exists trail. now rewrite app_nil_r. Qed.

Lemma wit_ops_run trail p prompt cmd :
  cmd_okb cmd = true -> strip_ws cmd <> [] -> out_okb wit_pat 1000 b_r1 true b_ok = true ->
  ops_run wit_cfg (wit_env p prompt [RPlain b_ok]) b_r1 trail 0 [OCmd cmd true] [XCmd cmd b_ok true] 1 ([(cmd, b_ok)] ++ []).
Proof.
  intros Hc Hs Ho. econstructor; [|constructor]. constructor.
  - now apply cmd_okb_spec.
  - constructor; [assumption|]. cbn. destruct (strip_ws cmd); [contradiction|reflexivity].
  - now apply out_okb_spec.
Qed.

(* (1) a prompt with a trailing blank and a read boundary in front of the blank: the blank stays unread *)
Theorem strict_refuted_prompt_blank :
  prompt_okb wit_pat 1000 b_r1 [32] = true /\
  ~ strict_framing wit_cfg (wit_env PBlank (b_r1 ++ [32]) [RPlain b_ok]) b_r1 [32].
Proof.
  split; [exact wit_prompt_blank_ok|]. intros H.
  destruct (H [OCmd b_show true] [XCmd b_show b_ok true] (world0 [] 0) 1%nat ([(b_show, b_ok)] ++ []))
    as (rs & w' & Hr & Hp & _).
  - apply Inv_world0.
  - reflexivity.
  - apply wit_ops_run; [reflexivity|discriminate|vm_compute; reflexivity].
  - vm_compute in Hr. injection Hr as _ Hw. subst w'. discriminate.
Qed.

(* (2) a command that ends in a blank and a read boundary in front of its echo: the blank is in raw_result *)
Theorem strict_refuted_echo_blank :
  prompt_okb wit_pat 1000 b_r1 [] = true /\
  ~ strict_framing wit_cfg (wit_env (PBytes 4) b_r1 [RPlain b_ok]) b_r1 [].
Proof.
  split; [exact wit_prompt_ok|]. intros H.
  destruct (H [OCmd (b_show ++ [32]) true] [XCmd (b_show ++ [32]) b_ok true] (world0 [] 0) 1%nat ([(b_show ++ [32], b_ok)] ++ []))
    as (rs & w' & Hr & Hp & Hres).
  - apply Inv_world0.
  - reflexivity.
  - apply wit_ops_run; [reflexivity|discriminate|vm_compute; reflexivity].
  - vm_compute in Hr. injection Hr as Hrs Hw. subst rs. inversion Hres as [|? ? ? ? Hx _]; subst.
    cbn in Hx. destruct Hx as [Hraw _]. discriminate.
Qed.

(* ============================================================================================ *)
(* Part L — builders with computable premises (for the Examples over generated patterns) *)

Lemma op_run_cmd_b r ansi partial scan d ret e core trail k cmd strip out :
  cmd_okb cmd = true -> strip_ws cmd <> [] -> e_reply e k (strip_ws cmd) = RPlain out ->
  out_okb r d core strip out = true ->
  op_run (re_cfg r ansi partial scan d ret) e core trail k (OCmd cmd strip) (XCmd cmd out strip) (S k) [(cmd, out)].
Proof.
  intros Hc Hs Hr Ho. constructor.
  - now apply cmd_okb_spec.
  - now constructor.
  - now apply out_okb_spec.
Qed.

Definition has_nonws (l : bytes) : bool := existsb (fun x => negb (is_ws x)) l.

Lemma infixb_ws_false l b : has_nonws l = true -> all_ws b = true -> infixb l b = false.
Proof.
  intros Hl Hb. apply Bool.not_true_is_false. intros Hi. apply infixb_spec in Hi as (a & c0 & E).
  unfold has_nonws in Hl. apply existsb_exists in Hl as (x & Hx & Hnw). apply Bool.negb_true_iff in Hnw.
  unfold all_ws in Hb. rewrite forallb_forall in Hb.
  rewrite (Hb x) in Hnw; [discriminate|]. rewrite E. apply in_or_app. right. apply in_or_app. now left.
Qed.

(* a literal expected response of send_interactive: found exactly when the text X has arrived *)
Definition stage_okb (d : nat) (l X B : bytes) : bool :=
  has_nonws l &&
  forallb (fun p => beq p (10 :: X) || negb (infixb l (prb d p))) (prefixes (10 :: X)) &&
  forallb (fun t => infixb l (prb d (10 :: X ++ t))) (prefixes B).

Lemma stage_okb_spec c l X B : stage_okb (c_depth c) l X B = true -> stage_ok c (XLit l) X B.
Proof.
  unfold stage_okb. intros H. apply andb_prop in H as [H Hf]. apply andb_prop in H as [Hn Hq].
  repeat split.
  - intros b [Hb _]. cbn. now apply infixb_ws_false.
  - intros p Hsp. cbn. rewrite forallb_forall in Hq.
    pose proof (Hq p (prefixes_spec _ _ (strict_prefix_prefix _ _ Hsp))) as Hp0.
    apply orb_prop in Hp0 as [Hp0|Hp0].
    + apply beq_true in Hp0. now apply strict_prefix_neq in Hsp.
    + now apply Bool.negb_true_iff.
  - intros t t' Et. cbn. rewrite forallb_forall in Hf. apply Hf. apply prefixes_spec. now exists t'.
Qed.

(* ---------------------------------------------------------------------------------------------- *)
(* histories in which the prompt pattern is changed between operations.  The invariant between operations ([Inv]:
   device at its prompt, nothing unread but a suffix of the prompt's trailing blank, no carried-over escape sequence)
   does not mention the pattern, so the segments compose: every segment is judged against the pattern IN FORCE while
   it runs - the prompt is a prompt of that pattern ([prompt_okb]) and the outputs of ITS operations are quiet under
   that pattern ([ops_run] over the segment's configuration); what an earlier or later pattern would read as a prompt
   is no condition. *)
Inductive segs_run (ansi partial : re) (scan : bool) (d : nat) (ret : bytes) (e : env) (core trail : bytes)
  : nat -> list seg -> list xres -> nat -> list (bytes * bytes) -> Prop :=
| SR_nil k : segs_run ansi partial scan d ret e core trail k [] [] k []
| SR_cons k r ops xs k1 l1 segs xs' k2 l2 :
    prompt_okb r d core trail = true ->
    ops_run (re_cfg r ansi partial scan d ret) e core trail k ops xs k1 l1 ->
    segs_run ansi partial scan d ret e core trail k1 segs xs' k2 l2 ->
    segs_run ansi partial scan d ret e core trail k ((r, ops) :: segs) (xs ++ xs') k2 (l1 ++ l2).

Theorem history_segments ansi partial scan d ret e core trail :
  is_ret ret -> is_ret (e_nl e) -> e_prompt e = core ++ trail ->
  forall segs xs w k' l,
    Inv trail w ->
    segs_run ansi partial scan d ret e core trail (d_count (w_dev w)) segs xs k' l ->
    exists rs w',
      run_segs (fun r => re_cfg r ansi partial scan d ret) e segs w = (rs, Ok w') /\ Inv trail w' /\
      Forall2 (res_ok core trail) xs rs /\
      d_count (w_dev w') = k' /\ d_log (w_dev w') = d_log (w_dev w) ++ l.
Proof.
  intros Hret Hnl Hp. induction segs as [|[r ops] segs IH]; intros xs w k' l HI Hrun.
  - inversion Hrun; subst. exists [], w. cbn [run_segs]. rewrite app_nil_r.
    split; [reflexivity|]. split; [assumption|]. split; [constructor|]. split; reflexivity.
  - inversion Hrun as [|? ? ? xs1 k1 l1 ? xs2 ? l2 Hok Hops Hrest]; subst.
    destruct (history_concrete r ansi partial scan d ret e core trail Hret Hnl Hp Hok ops xs1 w k1 l1 HI Hops)
      as (rs1 & w1 & Hr1 & HI1 & Hres1 & Hk1 & Hl1 & _).
    rewrite <- Hk1 in Hrest.
    destruct (IH xs2 w1 k' l2 HI1 Hrest) as (rs2 & w2 & Hr2 & HI2 & Hres2 & Hk2 & Hl2).
    exists (rs1 ++ rs2), w2. cbn [run_segs]. cbn beta. rewrite Hr1, Hr2.
    split; [reflexivity|]. split; [assumption|]. split; [apply Forall2_app; assumption|].
    split; [assumption|]. rewrite Hl2, Hl1, app_assoc. reflexivity.
Qed.
