(* NetDriver_Proofs.v — C03: belief soundness and the level of every user line, for every history.

   Shape: [platform_check P] is a boolean computed from a platform table (navigation from every sound
   (belief, mode) pair to every registered level ends there with the belief set; the abort step leaves a
   sound belief; the reachable key orders are closed under registration; login modes are unambiguous).
   It is decided by vm_compute for the five generated tables in props/C03.v.  Everything below holds for
   EVERY platform passing the check and EVERY history — by an invariant, not by enumeration. *)
From Coq Require Import List Arith Bool Lia.
Import ListNotations.
From Verif Require Import NetDriver.

(* ---------------------------------------------------------------- generic list facts *)
Lemma mem_In : forall x l, mem x l = true <-> In x l.
Proof.
  induction l as [|y r IH]; simpl; [split; [discriminate|tauto]|].
  rewrite orb_true_iff, Nat.eqb_eq, IH. split; intros [H|H]; auto.
Qed.

Fixpoint list_eqb (a b : list nat) : bool :=
  match a, b with
  | [], [] => true
  | x :: r, y :: s => (x =? y) && list_eqb r s
  | _, _ => false
  end.

Lemma list_eqb_eq : forall a b, list_eqb a b = true -> a = b.
Proof.
  induction a as [|x r IH]; destruct b as [|y s]; simpl; try discriminate; auto.
  rewrite andb_true_iff, Nat.eqb_eq. intros [-> H]. f_equal; auto.
Qed.

Fixpoint lmem (a : list nat) (l : list (list nat)) : bool :=
  match l with [] => false | b :: r => list_eqb a b || lmem a r end.

Lemma lmem_In : forall a l, lmem a l = true -> In a l.
Proof.
  induction l as [|b r IH]; simpl; [discriminate|].
  rewrite orb_true_iff. intros [H|H]; [left; symmetry; now apply list_eqb_eq | right; auto].
Qed.

(* ---------------------------------------------------------------- log projections *)
Definition is_user (e : entry) : bool := match snd e with KUser => true | _ => false end.
Definition user_entries (seg : list entry) : list (nat * nat) := map fst (filter is_user seg).
Definition no_user (seg : list entry) : bool := forallb (fun e => negb (is_user e)) seg.

Lemma user_entries_app : forall a b, user_entries (a ++ b) = user_entries a ++ user_entries b.
Proof. intros. unfold user_entries. now rewrite filter_app, map_app. Qed.

Lemma no_user_entries : forall seg, no_user seg = true -> user_entries seg = [].
Proof.
  induction seg as [|e r IH]; simpl; auto. rewrite andb_true_iff, negb_true_iff. intros [H1 H2].
  unfold user_entries in *. simpl. rewrite H1. auto.
Qed.

Lemma user_entries_user : forall m ls, user_entries (map (fun l => (m, l, KUser)) ls) = map (pair m) ls.
Proof. induction ls; simpl; auto. unfold user_entries in *. simpl. now rewrite IHls. Qed.

Lemma user_entries_other : forall m k ls, k <> KUser -> user_entries (map (fun l => (m, l, k)) ls) = [].
Proof.
  intros m k ls Hk. induction ls; simpl; auto. unfold user_entries in *. simpl.
  unfold is_user at 1. simpl. destruct k; try congruence; auto.
Qed.

(* lines of a send that are expected to reach the device *)
Fixpoint sent (stop : bool) (ls : list uline) : list nat :=
  match ls with
  | [] => []
  | (l, f) :: r => l :: (if stop && f then [] else sent stop r)
  end.

Lemma sent_plain : forall ls, sent false (map (fun l => (l, false)) ls) = ls.
Proof. induction ls; simpl; auto. now rewrite IHls. Qed.

Section Platform.
Variable P : platform.

(* ---------------------------------------------------------------- the device under the proviso *)
Lemma neutral_dstep : forall l m, neutral P l = true -> dstep P m l = m.
Proof.
  intros l m. unfold neutral, dstep. induction (p_dev P) as [|[[m0 l0] m1] r IH]; simpl; auto.
  rewrite andb_true_iff. intros [H1 H2].
  destruct (m0 =? m) eqn:E1; destruct (l0 =? l) eqn:E2; simpl; auto.
  simpl in H1. apply Nat.eqb_eq in H1, E1. congruence.
Qed.

Definition ulines_neutral (ls : list uline) : bool := forallb (fun u => neutral P (fst u)) ls.

Lemma ulines_neutral_plain : forall ls, ulines_neutral (map (fun l => (l, false)) ls) = forallb (neutral P) ls.
Proof. induction ls; simpl; auto. now rewrite IHls. Qed.

Lemma send_lines_neutral : forall k stop ls m, ulines_neutral ls = true ->
  exists fl, send_lines P k stop m ls = (m, map (fun l => (m, l, k)) (sent stop ls), fl).
Proof.
  induction ls as [|[l f] r IH]; intros m H; simpl in *; [now exists false|].
  apply andb_true_iff in H. destruct H as [Hl Hr]. rewrite (neutral_dstep l m Hl).
  destruct (stop && f); [now exists true|].
  destruct (IH m Hr) as [fl E]. rewrite E. now exists (f || fl).
Qed.

(* ---------------------------------------------------------------- the computed check *)
Definition nav_ok (r : list nat) (b : option nat) (m d : nat) : bool :=
  match acquire P r b m d with
  | (Some d', m', seg, Ok) => (d' =? d) && (m' =? d) && no_user seg
  | _ => false
  end.

Definition abort_ok (r : list nat) (m : nat) : bool :=
  match abort_config P r (Some m) m with
  | (Some b', m', seg, Ok) => (b' =? m') && mem m' r && no_user seg
  | _ => false
  end.

(* navigation cut at every channel call (the budgets beyond [int_bound] cut nothing: acquire_loop_k_sat), the cut line
   executed by the device or not: the belief left behind is DUMMY or the device's mode, the device is in a registered
   level, only the driver's own lines were sent.  This is where the ORDER fact [p_reset_first] is consumed. *)
Definition bsound (b : option nat) (m : nat) : bool := match b with None => true | Some y => y =? m end.

Definition int_bound (r : list nat) : nat := 2 * (length r * 2 + 2).

Definition nav_int_ok (r : list nat) (b : option nat) (m d : nat) : bool :=
  forallb (fun bud => forallb (fun x =>
      match acquire_k P r b m d bud x with
      | (b', m', seg, Interrupted) => bsound b' m' && mem m' r && no_user seg
      | _ => true
      end) [false; true]) (seq 0 (int_bound r)).

Definition reg_ok (r : list nat) : bool :=
  mem (p_default P) r && mem (p_cfg P) r
  && forallb (fun m => abort_ok r m
                       && forallb (fun d => nav_ok r (Some m) m d && (negb (unamb P r m) || nav_ok r None m d)) r) r
  && forallb (fun k => mem k r || lmem (r ++ [k]) (p_regs P)) (p_cands P)
  && forallb (fun m => forallb (fun d => nav_int_ok r (Some m) m d && (negb (unamb P r m) || nav_int_ok r None m d)) r) r.

Definition base : list nat := seq 0 (p_base P).

Definition platform_check : bool :=
  lmem base (p_regs P) && forallb reg_ok (p_regs P)
  && forallb (fun m => mem m base && unamb P base m) (p_login P)
  && forallb (neutral P) (p_open P)
  && p_reset_first P
  && p_reg_keeps P.

(* ---------------------------------------------------------------- invariant, specification *)
Definition belief_sound (s : state) : Prop := belief s = None \/ belief s = Some (mode s).

Definition sound (r : list nat) (b : option nat) (m : nat) : Prop :=
  b = Some m \/ (b = None /\ unamb P r m = true).

Definition Inv (s : state) : Prop :=
  In (reg s) (p_regs P) /\ In (mode s) (reg s) /\ sound (reg s) (belief s) (mode s).

Definition op_neutral (o : op) : bool :=
  match o with
  | OSendCommands ls _ | OSendConfigs ls _ _ => ulines_neutral ls
  | OInteractive ls _ => forallb (neutral P) ls
  | _ => true
  end.

(* the finding's region: the belief is (re)set to DUMMY while the prompt is shared, or a sibling level is registered
   while the belief IS DUMMY and the new level shares the prompt the device shows.  Registering does not touch the
   belief (REGISTER fact p_reg_keeps, part of platform_check): with the belief set, a session may be registered
   wherever the device is — in exec, privilege_exec, configuration or inside another session (register_safe_believed). *)
Definition op_safe (s : state) (o : op) : bool :=
  match o with
  | OSetGeneric true => unamb P (reg s) (mode s)
  | ORegister k =>
      if mem k (reg s) || negb (mem k (p_cands P)) then true
      else match belief s with None => unamb P (reg s ++ [k]) (mode s) | Some _ => true end
  | _ => true
  end.

Fixpoint hist_safe (s : state) (h : list op) : bool :=
  match h with
  | [] => true
  | o :: r => op_safe s o && hist_safe (fst (fst (run_op P s o))) r
  end.

(* level at which send_command(s) lines must run: default_desired; generic-driver mode makes no level
   claim — the lines run wherever the device is *)
Definition cmd_level (s : state) : nat := if generic s then mode s else p_default P.

(* what one operation must have done: outcome, and the (mode at execution, line) of every user line *)
Definition op_spec (s : state) (o : op) (seg : list entry) (res : result) : Prop :=
  match o with
  | OSendCommands ls stop =>
      res = Ok /\ user_entries seg = map (pair (cmd_level s)) (sent stop ls)
  | OSendConfigs ls stop priv =>
      let lv := match priv with Some p => p | None => p_cfg P end in
      if generic s then res = PrivErr /\ seg = []
      else if mem lv (reg s) then res = Ok /\ user_entries seg = map (pair lv) (sent stop ls)
      else res = PrivErr /\ seg = []
  | OInteractive ls priv =>
      match priv with
      | Some p => if mem p (reg s) then res = Ok /\ user_entries seg = map (pair p) ls
                  else res = PrivErr /\ seg = []
      | None => res = Ok /\ user_entries seg = map (pair (cmd_level s)) ls
      end
  | OAcquire d =>
      user_entries seg = [] /\ (if mem d (reg s) then res = Ok else res = PrivErr /\ seg = [])
  | OOpen => res = Ok /\ user_entries seg = []
  | ORegister _ | OSetGeneric _ => seg = []
  end.

Hypothesis Hchk : platform_check = true.

Lemma chk_parts :
  In base (p_regs P) /\ (forall r, In r (p_regs P) -> reg_ok r = true)
  /\ (forall m, In m (p_login P) -> In m base /\ unamb P base m = true)
  /\ forallb (neutral P) (p_open P) = true.
Proof.
  unfold platform_check in Hchk. repeat rewrite andb_true_iff in Hchk.
  destruct Hchk as [[[[[H1 H2] H3] H4] _] _]. repeat split; auto.
  - now apply lmem_In.
  - intros r Hr. rewrite forallb_forall in H2. auto.
  - rewrite forallb_forall in H3. apply H3 in H. apply andb_true_iff in H. apply mem_In. tauto.
  - rewrite forallb_forall in H3. apply H3 in H. apply andb_true_iff in H. tauto.
Qed.

(* the REGISTER fact: registering a configuration session does not touch the belief *)
Lemma chk_reg_keeps : p_reg_keeps P = true.
Proof. unfold platform_check in Hchk. apply andb_true_iff in Hchk. tauto. Qed.

Lemma reg_parts : forall r, In r (p_regs P) ->
  In (p_default P) r /\ In (p_cfg P) r
  /\ (forall m, In m r -> abort_ok r m = true)
  /\ (forall m d, In m r -> In d r -> nav_ok r (Some m) m d = true)
  /\ (forall m d, In m r -> In d r -> unamb P r m = true -> nav_ok r None m d = true)
  /\ (forall k, In k (p_cands P) -> ~ In k r -> In (r ++ [k]) (p_regs P))
  /\ (forall m d, In m r -> In d r -> nav_int_ok r (Some m) m d = true)
  /\ (forall m d, In m r -> In d r -> unamb P r m = true -> nav_int_ok r None m d = true).
Proof.
  intros r Hr. destruct chk_parts as [_ [H _]]. specialize (H r Hr). unfold reg_ok in H.
  repeat rewrite andb_true_iff in H. destruct H as [[[[H1 H2] H3] H4] H5].
  rewrite forallb_forall in H3, H4, H5.
  repeat split.
  - now apply mem_In.
  - now apply mem_In.
  - intros m Hm. apply H3 in Hm. apply andb_true_iff in Hm. tauto.
  - intros m d Hm Hd. apply H3 in Hm. apply andb_true_iff in Hm. destruct Hm as [_ Hm].
    rewrite forallb_forall in Hm. apply Hm in Hd. apply andb_true_iff in Hd. tauto.
  - intros m d Hm Hd Hu. apply H3 in Hm. apply andb_true_iff in Hm. destruct Hm as [_ Hm].
    rewrite forallb_forall in Hm. apply Hm in Hd. apply andb_true_iff in Hd. destruct Hd as [_ Hd].
    rewrite Hu in Hd. simpl in Hd. exact Hd.
  - intros k Hk Hn. apply H4 in Hk. apply orb_true_iff in Hk. destruct Hk as [Hk|Hk].
    + apply mem_In in Hk. contradiction.
    + now apply lmem_In.
  - intros m d Hm Hd. apply H5 in Hm. rewrite forallb_forall in Hm. apply Hm in Hd.
    apply andb_true_iff in Hd. tauto.
  - intros m d Hm Hd Hu. apply H5 in Hm. rewrite forallb_forall in Hm. apply Hm in Hd.
    apply andb_true_iff in Hd. destruct Hd as [_ Hd]. rewrite Hu in Hd. simpl in Hd. exact Hd.
Qed.

(* navigation from a sound (belief, mode) pair to a registered level: arrives, belief set, only own lines *)
Lemma acquire_sound : forall r b m d, In r (p_regs P) -> In m r -> In d r -> sound r b m ->
  exists seg, acquire P r b m d = (Some d, d, seg, Ok) /\ no_user seg = true.
Proof.
  intros r b m d Hr Hm Hd Hs. destruct (reg_parts r Hr) as (_ & _ & _ & N1 & N2 & _).
  assert (H : nav_ok r b m d = true).
  { destruct Hs as [->|[-> Hu]]; auto. }
  unfold nav_ok in H. destruct (acquire P r b m d) as [[[b' m'] seg] res].
  destruct b' as [d'|]; [|discriminate]. destruct res; try discriminate.
  repeat rewrite andb_true_iff in H. destruct H as [[H1 H2] H3].
  apply Nat.eqb_eq in H1, H2. subst. now exists seg.
Qed.

Lemma ensure_sound : forall r b m d, In r (p_regs P) -> In m r -> In d r -> sound r b m ->
  exists seg, ensure P r b m d = (Some d, d, seg, Ok) /\ no_user seg = true.
Proof.
  intros r b m d Hr Hm Hd Hs. unfold ensure. destruct (opt_eqb b (Some d)) eqn:E.
  - destruct b as [x|]; simpl in E; [|discriminate]. apply Nat.eqb_eq in E. subst x.
    destruct Hs as [Hs|[Hs _]]; [|discriminate]. inversion Hs; subst. now exists [].
  - now apply acquire_sound.
Qed.

Lemma acquire_invalid : forall r b m d, ~ In d r -> acquire P r b m d = (b, m, [], PrivErr).
Proof.
  intros. unfold acquire. destruct (mem d r) eqn:E; auto. apply mem_In in E. contradiction.
Qed.

Lemma abort_sound : forall r m, In r (p_regs P) -> In m r ->
  exists m' seg, abort_config P r (Some m) m = (Some m', m', seg, Ok) /\ In m' r /\ no_user seg = true.
Proof.
  intros r m Hr Hm. destruct (reg_parts r Hr) as (_ & _ & A & _). specialize (A m Hm).
  unfold abort_ok in A. destruct (abort_config P r (Some m) m) as [[[b' m'] seg] res].
  destruct b' as [x|]; [|discriminate]. destruct res; try discriminate.
  repeat rewrite andb_true_iff in A. destruct A as [[A1 A2] A3]. apply Nat.eqb_eq in A1. subst x.
  exists m', seg. repeat split; auto. now apply mem_In.
Qed.

Lemma sound_at : forall r m, sound r (Some m) m.
Proof. intros. now left. Qed.

Ltac inv_pair := match goal with H : (_, _) = (_, _) |- _ => inversion H; subst; clear H end.

(* ---------------------------------------------------------------- one operation *)
Theorem step_ok : forall s o s' seg res,
  Inv s -> op_neutral o = true -> op_safe s o = true -> run_op P s o = (s', seg, res) ->
  Inv s' /\ op_spec s o seg res.
Proof.
  intros s o s' seg res [Hr [Hm Hs]] Hn Hsafe Hrun.
  destruct (reg_parts (reg s) Hr) as (Hdef & Hcfg & _ & _ & _ & Hclos & _).
  destruct o as [|ls stop|ls stop priv|d|ls priv|k|b]; simpl in Hrun, Hn.
  - (* open *)
    destruct (acquire_sound (reg s) (belief s) (mode s) (p_default P) Hr Hm Hdef Hs) as [seg1 [E1 U1]].
    rewrite E1 in Hrun.
    destruct chk_parts as (_ & _ & _ & Hopen).
    destruct (send_lines_neutral KOpen false (map (fun l => (l, false)) (p_open P)) (p_default P)) as [fl E2].
    { now rewrite ulines_neutral_plain. }
    rewrite E2 in Hrun. inv_pair.
    split; [repeat split; simpl; auto; apply sound_at|].
    simpl. split; auto. rewrite user_entries_app, (no_user_entries _ U1), user_entries_other; auto; discriminate.
  - (* send_command(s) *)
    unfold op_spec, cmd_level. destruct (generic s) eqn:G.
    + destruct (send_lines_neutral KUser stop ls (mode s) Hn) as [fl E2]. rewrite E2 in Hrun. inv_pair.
      split; [repeat split; simpl; auto|]. split; auto. simpl. apply user_entries_user.
    + destruct (ensure_sound (reg s) (belief s) (mode s) (p_default P) Hr Hm Hdef Hs) as [seg1 [E1 U1]].
      rewrite E1 in Hrun.
      destruct (send_lines_neutral KUser stop ls (p_default P) Hn) as [fl E2]. rewrite E2 in Hrun. inv_pair.
      split; [repeat split; simpl; auto; apply sound_at|]. split; auto.
      rewrite user_entries_app, (no_user_entries _ U1). simpl. apply user_entries_user.
  - (* send_config(s) *)
    unfold op_spec. destruct (generic s) eqn:G.
    + inv_pair. split; [repeat split; auto|]. auto.
    + unfold send_configs_core in Hrun.
      set (lv := match priv with Some p => p | None => p_cfg P end).
      assert (Hcase : (mem lv (reg s) = true /\
                       (match priv with Some p => if mem p (reg s) then true else false | None => true end = true))
                      \/ (mem lv (reg s) = false /\ exists p, priv = Some p /\ mem p (reg s) = false)).
      { destruct priv as [p|]; subst lv; simpl.
        - destruct (mem p (reg s)) eqn:E; [left; auto | right; split; auto; now exists p].
        - left. split; auto. now apply mem_In. }
      destruct Hcase as [[Hlv _]|[Hlv [p [-> Hp]]]].
      * rewrite Hlv. assert (Hin : In lv (reg s)) by now apply mem_In.
        destruct (ensure_sound (reg s) (belief s) (mode s) lv Hr Hm Hin Hs) as [seg1 [E1 U1]].
        destruct (send_lines_neutral KUser stop ls lv Hn) as [fl E2].
        assert (Hcore : (match priv with
                 | Some p => if mem p (reg s)
                             then match ensure P (reg s) (belief s) (mode s) p with
                                  | (b1, m1, seg1, Ok) => match send_lines P KUser stop m1 ls with
                                                          | (m2, seg2, fl) => (b1, m2, seg1 ++ seg2, Ok, fl) end
                                  | (b1, m1, seg1, e) => (b1, m1, seg1, e, false) end
                             else (belief s, mode s, [], PrivErr, false)
                 | None => match ensure P (reg s) (belief s) (mode s) (p_cfg P) with
                           | (b1, m1, seg1, Ok) => match send_lines P KUser stop m1 ls with
                                                   | (m2, seg2, fl) => (b1, m2, seg1 ++ seg2, Ok, fl) end
                           | (b1, m1, seg1, e) => (b1, m1, seg1, e, false) end
                 end) = (Some lv, lv, seg1 ++ map (fun l => (lv, l, KUser)) (sent stop ls), Ok, fl)).
        { destruct priv as [p|]; subst lv; simpl in *; [rewrite Hlv|]; rewrite E1, E2; reflexivity. }
        rewrite Hcore in Hrun. clear Hcore.
        destruct (stop && fl).
        -- destruct (abort_sound (reg s) lv Hr Hin) as [m' [seg3 [E3 [Hm' U3]]]]. rewrite E3 in Hrun. inv_pair.
           split; [repeat split; simpl; auto; apply sound_at|]. split; auto.
           rewrite !user_entries_app, (no_user_entries _ U1), (no_user_entries _ U3), app_nil_r. simpl.
           apply user_entries_user.
        -- inv_pair. split; [repeat split; simpl; auto; apply sound_at|]. split; auto.
           rewrite user_entries_app, (no_user_entries _ U1). simpl. apply user_entries_user.
      * subst lv. simpl in Hlv. rewrite Hp in *. inv_pair. split; [repeat split; auto|]. auto.
  - (* acquire_priv *)
    unfold op_spec. destruct (mem d (reg s)) eqn:E.
    + assert (Hd : In d (reg s)) by now apply mem_In.
      destruct (acquire_sound (reg s) (belief s) (mode s) d Hr Hm Hd Hs) as [seg1 [E1 U1]].
      rewrite E1 in Hrun. inv_pair. split; [repeat split; simpl; auto; apply sound_at|].
      split; auto. now apply no_user_entries.
    + rewrite acquire_invalid in Hrun by (intro Hd; apply mem_In in Hd; congruence). inv_pair.
      split; [repeat split; auto|]. destruct s; simpl; auto.
  - (* send_interactive *)
    unfold op_spec, cmd_level.
    assert (Hn' : ulines_neutral (map (fun l => (l, false)) ls) = true) by now rewrite ulines_neutral_plain.
    destruct priv as [p|].
    + destruct (mem p (reg s)) eqn:E.
      * assert (Hp : In p (reg s)) by now apply mem_In.
        destruct (ensure_sound (reg s) (belief s) (mode s) p Hr Hm Hp Hs) as [seg1 [E1 U1]]. rewrite E1 in Hrun.
        destruct (send_lines_neutral KUser false _ p Hn') as [fl E2]. rewrite E2 in Hrun. inv_pair.
        split; [repeat split; simpl; auto; apply sound_at|]. split; auto.
        rewrite user_entries_app, (no_user_entries _ U1), sent_plain. simpl. apply user_entries_user.
      * inv_pair. split; [repeat split; auto|]. destruct s; simpl; auto.
    + destruct (generic s) eqn:G.
      * destruct (send_lines_neutral KUser false _ (mode s) Hn') as [fl E2]. rewrite E2 in Hrun. inv_pair.
        split; [repeat split; simpl; auto|]. split; auto. rewrite sent_plain. simpl. apply user_entries_user.
      * destruct (ensure_sound (reg s) (belief s) (mode s) (p_default P) Hr Hm Hdef Hs) as [seg1 [E1 U1]].
        rewrite E1 in Hrun.
        destruct (send_lines_neutral KUser false _ (p_default P) Hn') as [fl E2]. rewrite E2 in Hrun. inv_pair.
        split; [repeat split; simpl; auto; apply sound_at|]. split; auto.
        rewrite user_entries_app, (no_user_entries _ U1), sent_plain. simpl. apply user_entries_user.
  - (* register_configuration_session *)
    unfold op_safe in Hsafe. destruct (mem k (reg s)) eqn:E1; [inv_pair; split; [repeat split; auto|]; simpl; auto|].
    destruct (mem k (p_cands P)) eqn:E2; simpl in Hsafe; [|inv_pair; split; [repeat split; auto|]; simpl; auto].
    rewrite chk_reg_keeps in Hrun. inv_pair. split; [|simpl; auto]. repeat split; simpl.
    + apply Hclos; [now apply mem_In|]. intro H. apply mem_In in H. congruence.
    + apply in_or_app. now left.
    + destruct Hs as [Hs|[Hs Hu]]; [now left|]. right. rewrite Hs in Hsafe. auto.
  - (* generic-mode setter *)
    inv_pair. split; [|simpl; auto]. repeat split; simpl; auto.
    destruct b; auto. right. split; auto.
Qed.

(* ---------------------------------------------------------------- registering a session: not a belief-resetting event *)
Lemma register_keeps_belief : forall s k, belief (fst (fst (run_op P s (ORegister k)))) = belief s.
Proof.
  intros s k. simpl. destruct (mem k (reg s)); simpl; auto. destruct (mem k (p_cands P)); simpl; auto.
  now rewrite chk_reg_keeps.
Qed.

(* with the belief set, registering is outside the finding's region wherever the device is *)
Lemma register_safe_believed : forall s k, belief s <> None -> op_safe s (ORegister k) = true.
Proof.
  intros s k H. unfold op_safe. destruct (mem k (reg s) || negb (mem k (p_cands P))); auto.
  destruct (belief s); congruence.
Qed.

(* operations that neither reset the belief nor add a level: never in the finding's region *)
Definition plain_op (o : op) : bool :=
  match o with ORegister _ | OSetGeneric true => false | _ => true end.

Lemma hist_safe_plain : forall h s, forallb plain_op h = true -> hist_safe s h = true.
Proof.
  induction h as [|o r IH]; intros s H; simpl; auto. simpl in H. apply andb_true_iff in H. destruct H as [H1 H2].
  rewrite IH by auto. destruct o as [| | | | | |[|]]; simpl in *; auto; discriminate.
Qed.

(* ---------------------------------------------------------------- every history *)
Definition step_good (t : state * op * list entry * result * state) : Prop :=
  match t with (s, o, seg, res, s') => op_spec s o seg res /\ belief_sound s' end.

Lemma Inv_belief_sound : forall s, Inv s -> belief_sound s.
Proof. intros s (_ & _ & [H|[H _]]); [now right | now left]. Qed.

Theorem hist_ok : forall h s,
  Inv s -> forallb op_neutral h = true -> hist_safe s h = true ->
  Forall step_good (run_hist P s h).
Proof.
  induction h as [|o r IH]; intros s HI Hn Hs; simpl; [constructor|].
  simpl in Hn, Hs. apply andb_true_iff in Hn. destruct Hn as [Hn1 Hn2].
  apply andb_true_iff in Hs. destruct Hs as [Hs1 Hs2].
  destruct (run_op P s o) as [[s' seg] res] eqn:E. simpl in Hs2.
  destruct (step_ok s o s' seg res HI Hn1 Hs1 E) as [HI' Hspec].
  constructor; [split; auto; now apply Inv_belief_sound|]. now apply IH.
Qed.

(* from ANY state with the belief set — the device in exec, privilege_exec, configuration or INSIDE a configuration
   session — a session is registered and then any commands / configs at any level (the new session, the one the device
   sits in, ...) / acquire_priv / send_interactive follow: full specification, no region hypothesis *)
Theorem register_in_level_ok : forall s k h,
  Inv s -> belief s <> None -> forallb op_neutral h = true -> forallb plain_op h = true ->
  Forall step_good (run_hist P s (ORegister k :: h)).
Proof.
  intros s k h HI Hb Hn Hp. apply hist_ok; auto. cbn [hist_safe].
  rewrite (register_safe_believed s k Hb). cbn [andb]. now apply hist_safe_plain.
Qed.

Lemma init_Inv : forall m0, In m0 (p_login P) -> Inv (init P m0).
Proof.
  intros m0 H. destruct chk_parts as (Hb & _ & Hl & _). destruct (Hl m0 H) as [H1 H2].
  repeat split; simpl; auto. right. auto.
Qed.

(* ---------------------------------------------------------------- histories that never switch generic mode on *)
(* the only operation that resets a belief the driver has is switching generic-driver mode on: every other operation
   — registering a session included — leaves the belief set *)
Definition no_generic_on (o : op) : bool := match o with OSetGeneric true => false | _ => true end.

Lemma believed_step : forall s o s' seg res,
  Inv s -> belief s <> None -> op_neutral o = true -> no_generic_on o = true -> run_op P s o = (s', seg, res) ->
  belief s' <> None.
Proof.
  intros s o s' seg res [Hr [Hm Hs]] Hb Hn Hg Hrun.
  destruct (reg_parts (reg s) Hr) as (Hdef & Hcfg & _ & _ & _ & Hclos & _).
  destruct o as [|ls stop|ls stop priv|d|ls priv|k|b]; simpl in Hrun, Hn.
  - destruct (acquire_sound (reg s) (belief s) (mode s) (p_default P) Hr Hm Hdef Hs) as [seg1 [E1 U1]].
    rewrite E1 in Hrun.
    destruct chk_parts as (_ & _ & _ & Hopen).
    destruct (send_lines_neutral KOpen false (map (fun l => (l, false)) (p_open P)) (p_default P)) as [fl E2].
    { now rewrite ulines_neutral_plain. }
    rewrite E2 in Hrun. inv_pair. simpl. discriminate.
  - destruct (generic s) eqn:G.
    + destruct (send_lines_neutral KUser stop ls (mode s) Hn) as [fl E2]. rewrite E2 in Hrun. inv_pair. simpl. auto.
    + destruct (ensure_sound (reg s) (belief s) (mode s) (p_default P) Hr Hm Hdef Hs) as [seg1 [E1 U1]].
      rewrite E1 in Hrun.
      destruct (send_lines_neutral KUser stop ls (p_default P) Hn) as [fl E2]. rewrite E2 in Hrun. inv_pair.
      simpl. discriminate.
  - destruct (generic s) eqn:G.
    + inv_pair. auto.
    + unfold send_configs_core in Hrun.
      set (lv := match priv with Some p => p | None => p_cfg P end).
      assert (Hcase : (mem lv (reg s) = true /\
                       (match priv with Some p => if mem p (reg s) then true else false | None => true end = true))
                      \/ (mem lv (reg s) = false /\ exists p, priv = Some p /\ mem p (reg s) = false)).
      { destruct priv as [p|]; subst lv; simpl.
        - destruct (mem p (reg s)) eqn:E; [left; auto | right; split; auto; now exists p].
        - left. split; auto. now apply mem_In. }
      destruct Hcase as [[Hlv _]|[Hlv [p [-> Hp]]]].
      * assert (Hin : In lv (reg s)) by now apply mem_In.
        destruct (ensure_sound (reg s) (belief s) (mode s) lv Hr Hm Hin Hs) as [seg1 [E1 U1]].
        destruct (send_lines_neutral KUser stop ls lv Hn) as [fl E2].
        assert (Hcore : (match priv with
                 | Some p => if mem p (reg s)
                             then match ensure P (reg s) (belief s) (mode s) p with
                                  | (b1, m1, seg1, Ok) => match send_lines P KUser stop m1 ls with
                                                          | (m2, seg2, fl) => (b1, m2, seg1 ++ seg2, Ok, fl) end
                                  | (b1, m1, seg1, e) => (b1, m1, seg1, e, false) end
                             else (belief s, mode s, [], PrivErr, false)
                 | None => match ensure P (reg s) (belief s) (mode s) (p_cfg P) with
                           | (b1, m1, seg1, Ok) => match send_lines P KUser stop m1 ls with
                                                   | (m2, seg2, fl) => (b1, m2, seg1 ++ seg2, Ok, fl) end
                           | (b1, m1, seg1, e) => (b1, m1, seg1, e, false) end
                 end) = (Some lv, lv, seg1 ++ map (fun l => (lv, l, KUser)) (sent stop ls), Ok, fl)).
        { destruct priv as [p|]; subst lv; simpl in *; [rewrite Hlv|]; rewrite E1, E2; reflexivity. }
        rewrite Hcore in Hrun. clear Hcore.
        destruct (stop && fl).
        -- destruct (abort_sound (reg s) lv Hr Hin) as [m' [seg3 [E3 [Hm' U3]]]]. rewrite E3 in Hrun. inv_pair.
           simpl. discriminate.
        -- inv_pair. simpl. discriminate.
      * subst lv. simpl in Hlv. rewrite Hp in *. inv_pair. auto.
  - destruct (mem d (reg s)) eqn:E.
    + assert (Hd : In d (reg s)) by now apply mem_In.
      destruct (acquire_sound (reg s) (belief s) (mode s) d Hr Hm Hd Hs) as [seg1 [E1 U1]].
      rewrite E1 in Hrun. inv_pair. simpl. discriminate.
    + rewrite acquire_invalid in Hrun by (intro Hd; apply mem_In in Hd; congruence). inv_pair. simpl. auto.
  - assert (Hn' : ulines_neutral (map (fun l => (l, false)) ls) = true) by now rewrite ulines_neutral_plain.
    destruct priv as [p|].
    + destruct (mem p (reg s)) eqn:E.
      * assert (Hp : In p (reg s)) by now apply mem_In.
        destruct (ensure_sound (reg s) (belief s) (mode s) p Hr Hm Hp Hs) as [seg1 [E1 U1]]. rewrite E1 in Hrun.
        destruct (send_lines_neutral KUser false _ p Hn') as [fl E2]. rewrite E2 in Hrun. inv_pair. simpl. discriminate.
      * inv_pair. simpl. auto.
    + destruct (generic s) eqn:G.
      * destruct (send_lines_neutral KUser false _ (mode s) Hn') as [fl E2]. rewrite E2 in Hrun. inv_pair. simpl. auto.
      * destruct (ensure_sound (reg s) (belief s) (mode s) (p_default P) Hr Hm Hdef Hs) as [seg1 [E1 U1]].
        rewrite E1 in Hrun.
        destruct (send_lines_neutral KUser false _ (p_default P) Hn') as [fl E2]. rewrite E2 in Hrun. inv_pair.
        simpl. discriminate.
  - destruct (mem k (reg s)) eqn:E1; [inv_pair; auto|].
    destruct (mem k (p_cands P)) eqn:E2; [|inv_pair; auto].
    rewrite chk_reg_keeps in Hrun. inv_pair. simpl. auto.
  - destruct b; [discriminate|]. inv_pair. simpl. auto.
Qed.

Lemma hist_safe_believed : forall h s,
  Inv s -> belief s <> None -> forallb op_neutral h = true -> forallb no_generic_on h = true -> hist_safe s h = true.
Proof.
  induction h as [|o r IH]; intros s HI Hb Hn Hg; simpl; auto.
  simpl in Hn, Hg. apply andb_true_iff in Hn. destruct Hn as [Hn1 Hn2]. apply andb_true_iff in Hg. destruct Hg as [Hg1 Hg2].
  assert (Hs : op_safe s o = true).
  { destruct o as [| | | | |k|[|]]; simpl in *; auto; try discriminate.
    destruct (mem k (reg s) || negb (mem k (p_cands P))); auto. destruct (belief s); congruence. }
  rewrite Hs. simpl. destruct (run_op P s o) as [[s' seg] res] eqn:E. simpl.
  destruct (step_ok s o s' seg res HI Hn1 Hs E) as [HI' _].
  apply IH; auto. exact (believed_step s o s' seg res HI Hb Hn1 Hg1 E).
Qed.

(* open, then ANY history that never switches generic-driver mode on — sessions registered at any moment, in any level,
   inside another session included: full specification, no region hypothesis *)
Theorem levels_without_generic_on : forall m0 h,
  In m0 (p_login P) -> forallb op_neutral h = true -> forallb no_generic_on h = true ->
  Forall step_good (run_hist P (init P m0) (OOpen :: h)).
Proof.
  intros m0 h Hl Hn Hg. apply hist_ok; [now apply init_Inv | exact Hn |].
  cbn [hist_safe op_safe andb]. destruct (run_op P (init P m0) OOpen) as [[s' seg] res] eqn:E. cbn [fst].
  destruct (step_ok (init P m0) OOpen s' seg res (init_Inv m0 Hl) eq_refl eq_refl E) as [HI' _].
  apply hist_safe_believed; auto.
  (* open leaves the belief set *)
  clear Hn Hg. pose proof (init_Inv m0 Hl) as [Hr [Hm Hs]].
  destruct (reg_parts _ Hr) as (Hdef & _).
  simpl in E. destruct (acquire_sound _ _ _ (p_default P) Hr Hm Hdef Hs) as [seg1 [E1 _]]. simpl in E1. rewrite E1 in E.
  destruct chk_parts as (_ & _ & _ & Hopen).
  destruct (send_lines_neutral KOpen false (map (fun l => (l, false)) (p_open P)) (p_default P)) as [fl E2].
  { now rewrite ulines_neutral_plain. }
  rewrite E2 in E. inversion E; subst. simpl. discriminate.
Qed.


Theorem levels_partial : forall m0 h,
  In m0 (p_login P) -> forallb op_neutral h = true -> hist_safe (init P m0) h = true ->
  Forall step_good (run_hist P (init P m0) h).
Proof. intros. apply hist_ok; auto. now apply init_Inv. Qed.


(* ---------------------------------------------------------------- interrupted operations *)
(* a budget of two channel calls per loop turn cuts nothing *)
Lemma acquire_loop_k_sat : forall r dest x f c b m seg bud,
  2 * f <= bud -> snd (acquire_loop_k P r f c b m dest seg bud x) <> Interrupted.
Proof.
  induction f as [|f IH]; intros c b m seg bud H; [simpl; discriminate|].
  destruct bud as [|[|bud2]]; try lia.
  cbn [acquire_loop_k].
  destruct (process_acquire P r b dest (matches P r m)); simpl; try discriminate.
  - destruct (length r * 2 <? S c); simpl; [discriminate|]. apply IH. lia.
  - destruct (length r * 2 <? S c); simpl; [discriminate|]. apply IH. lia.
Qed.

Lemma acquire_k_int : forall r b m d bud x b' m' seg,
  In r (p_regs P) -> In m r -> In d r -> sound r b m ->
  acquire_k P r b m d bud x = (b', m', seg, Interrupted) ->
  (b' = None \/ b' = Some m') /\ In m' r /\ no_user seg = true.
Proof.
  intros r b m d bud x b' m' seg Hr Hm Hd Hs E.
  destruct (reg_parts r Hr) as (_ & _ & _ & _ & _ & _ & I1 & I2).
  assert (H : nav_int_ok r b m d = true) by (destruct Hs as [->|[-> Hu]]; auto).
  assert (Hb : bud < int_bound r).
  { destruct (Nat.lt_ge_cases bud (int_bound r)) as [|Hge]; auto. exfalso.
    unfold acquire_k in E. destruct (mem d r); [|discriminate].
    pose proof (acquire_loop_k_sat r d x (length r * 2 + 2) 0 b m [] bud Hge) as Hn.
    rewrite E in Hn. now apply Hn. }
  unfold nav_int_ok in H. rewrite forallb_forall in H.
  assert (Hi : In bud (seq 0 (int_bound r))) by (apply in_seq; lia).
  specialize (H bud Hi). rewrite forallb_forall in H.
  assert (Hx : In x [false; true]) by (destruct x; simpl; auto).
  specialize (H x Hx). rewrite E in H. repeat rewrite andb_true_iff in H. destruct H as [[A B] C].
  split; [|split; [now apply mem_In|exact C]].
  destruct b' as [y|]; [right; simpl in A; apply Nat.eqb_eq in A; now subst | now left].
Qed.

Lemma send_lines_k_neutral : forall k stop ls m n x m' seg,
  ulines_neutral ls = true -> send_lines_k P k stop m ls n x = (m', seg, Interrupted) ->
  m' = m /\ Forall (fun e => fst (fst e) = m /\ snd e = k) seg.
Proof.
  induction ls as [|[l f] r IH]; intros m n x m' seg H E; simpl in *; [discriminate|].
  apply andb_true_iff in H. destruct H as [Hl Hr]. rewrite (neutral_dstep l m Hl) in E.
  destruct n as [|n1].
  - destruct x; inv_pair; split; auto.
  - destruct (stop && f); [discriminate|].
    destruct (send_lines_k P k stop m r n1 x) as [[m2 seg2] res2] eqn:E2. inv_pair.
    destruct (IH m n1 x m' seg2 Hr E2) as [-> HF]. split; auto.
Qed.

(* the level the user lines of an operation must run in *)
Definition req_level (s : state) (o : op) : nat :=
  match o with
  | OSendConfigs _ _ priv => match priv with Some p => p | None => p_cfg P end
  | OInteractive _ (Some p) => p
  | _ => cmd_level s
  end.

Definition seg_at (lv : nat) (seg : list entry) : Prop :=
  Forall (fun e => is_user e = true -> fst (fst e) = lv) seg.

Lemma no_user_seg_at : forall lv seg, no_user seg = true -> seg_at lv seg.
Proof.
  intros lv seg H. unfold seg_at. apply Forall_forall. intros e He Hu.
  unfold no_user in H. rewrite forallb_forall in H. apply H in He. rewrite Hu in He. discriminate.
Qed.

(* after an interruption the belief may be DUMMY while the prompt is shared: the finding's region *)
Definition st_safe (s : state) : bool :=
  match belief s with None => unamb P (reg s) (mode s) | Some _ => true end.

Lemma op_nav_to : forall s o force d,
  In (p_default P) (reg s) -> In (p_cfg P) (reg s) -> op_nav P s o = NavTo force d ->
  (force = false -> In d (reg s))
  /\ (req_level s o = d \/ fst (fst (op_lines P o)) = KOpen \/ snd (op_lines P o) = []).
Proof.
  intros s o force d Hdef Hcfg H. unfold req_level, cmd_level.
  destruct o as [|ls stop|ls stop priv|d0|ls priv|k|b]; simpl in *.
  - inversion H; subst. split; [discriminate|auto].
  - destruct (generic s); [discriminate|]. inversion H; subst. split; auto.
  - destruct (generic s); [discriminate|]. destruct priv as [p|].
    + destruct (mem p (reg s)) eqn:E; [|discriminate]. inversion H; subst. split; auto. intros _. now apply mem_In.
    + inversion H; subst. split; auto.
  - inversion H; subst. split; [discriminate|auto].
  - destruct priv as [p|].
    + destruct (mem p (reg s)) eqn:E; [|discriminate]. inversion H; subst. split; auto. intros _. now apply mem_In.
    + destruct (generic s); [discriminate|]. inversion H; subst. split; auto.
  - discriminate.
  - discriminate.
Qed.

Lemma op_nav_none : forall s o, op_nav P s o = NoNav -> req_level s o = mode s.
Proof.
  intros s o H. unfold req_level, cmd_level.
  destruct o as [|ls stop|ls stop priv|d0|ls priv|k|b]; simpl in *; try discriminate.
  - destruct (generic s); [auto|discriminate].
  - destruct (generic s); [discriminate|]. destruct priv as [p|]; [destruct (mem p (reg s))|]; discriminate.
  - destruct priv as [p|]; [destruct (mem p (reg s)); discriminate|]. destruct (generic s); [auto|discriminate].
Qed.

Lemma op_lines_neutral : forall o, op_neutral o = true -> ulines_neutral (snd (op_lines P o)) = true.
Proof.
  destruct chk_parts as (_ & _ & _ & Hopen).
  intros o H. destruct o as [|ls stop|ls stop priv|d0|ls priv|k|b]; simpl in *; auto.
  - now rewrite ulines_neutral_plain.
  - now rewrite ulines_neutral_plain.
Qed.

(* one interrupted operation from any state satisfying the invariant: the belief left behind is DUMMY or the
   device's mode, every user line that did reach the device ran in the required level, and the invariant holds
   again unless the state is in the finding's region (belief DUMMY at a shared prompt) *)
Theorem int_ok : forall s o pt s' seg,
  Inv s -> op_neutral o = true -> run_op_int P s o pt = Some (s', seg) ->
  belief_sound s' /\ seg_at (req_level s o) seg /\ (st_safe s' = true -> Inv s').
Proof.
  intros s o pt s' seg [Hr [Hm Hs]] Hn E.
  destruct (reg_parts (reg s) Hr) as (Hdef & Hcfg & _).
  pose proof (op_lines_neutral o Hn) as Hln.
  destruct pt as [bud x|n x]; unfold run_op_int in E.
  - (* cut while acquiring the level *)
    destruct (op_nav P s o) as [force d| |] eqn:N; try discriminate.
    destruct (op_nav_to s o force d Hdef Hcfg N) as [Hf _].
    assert (EK : exists b1 m1, acquire_k P (reg s) (belief s) (mode s) d bud x = (b1, m1, seg, Interrupted)
                               /\ s' = mkSt b1 (generic s) (reg s) m1).
    { destruct force.
      - destruct (acquire_k P (reg s) (belief s) (mode s) d bud x) as [[[b1 m1] seg1] r1].
        destruct r1; try discriminate. inversion E; subst. now exists b1, m1.
      - unfold ensure_k in E. destruct (opt_eqb (belief s) (Some d)); [discriminate|].
        destruct (acquire_k P (reg s) (belief s) (mode s) d bud x) as [[[b1 m1] seg1] r1].
        destruct r1; try discriminate. inversion E; subst. now exists b1, m1. }
    destruct EK as [b1 [m1 [EK ->]]].
    assert (Hd : In d (reg s)).
    { destruct (mem d (reg s)) eqn:Md; [now apply mem_In|]. unfold acquire_k in EK. rewrite Md in EK. discriminate. }
    destruct (acquire_k_int _ _ _ _ _ _ _ _ _ Hr Hm Hd Hs EK) as (Hb & Hin & Hu).
    split; [exact Hb|]. split; [now apply no_user_seg_at|].
    intros Hsafe. repeat split; simpl; auto.
    unfold st_safe in Hsafe. simpl in Hsafe.
    destruct Hb as [Hb | Hb]; rewrite Hb in *; [right; auto | now left].
  - (* level acquired, cut in the send loop *)
    destruct (op_lines P o) as [[k stop] ls] eqn:L. simpl in Hln.
    destruct (op_nav P s o) as [force d| |] eqn:N; try discriminate.
    + destruct (op_nav_to s o force d Hdef Hcfg N) as [Hf Hreq]. rewrite L in Hreq. simpl in Hreq.
      assert (Hd : In d (reg s)).
      { destruct (mem d (reg s)) eqn:Md; [now apply mem_In|]. destruct force.
        - rewrite acquire_invalid in E by (intro Hd; apply mem_In in Hd; congruence). discriminate.
        - exact (Hf eq_refl). }
      assert (EN : exists seg1, (if force then acquire P (reg s) (belief s) (mode s) d
                                 else ensure P (reg s) (belief s) (mode s) d) = (Some d, d, seg1, Ok)
                                /\ no_user seg1 = true).
      { destruct force; [now apply acquire_sound | now apply ensure_sound]. }
      destruct EN as [seg1 [EN U1]]. rewrite EN in E.
      destruct (send_lines_k P k stop d ls n x) as [[m2 seg2] r2] eqn:E2.
      destruct r2; try discriminate. inversion E; subst.
      destruct (send_lines_k_neutral _ _ _ _ _ _ _ _ Hln E2) as [-> HF].
      split; [now right|]. split; [|intros _; split; [exact Hr|]; split; [exact Hd|]; apply sound_at].
      apply Forall_app. split; [now apply no_user_seg_at|].
      destruct Hreq as [Hreq|[Hk|Hl]].
      * rewrite Hreq. eapply Forall_impl; [|exact HF]. intros e [He _] _. exact He.
      * subst k. eapply Forall_impl; [|exact HF]. intros e [_ He] Hu. unfold is_user in Hu. rewrite He in Hu. discriminate.
      * subst ls. simpl in E2. discriminate.
    + destruct (send_lines_k P k stop (mode s) ls n x) as [[m2 seg2] r2] eqn:E2.
      destruct r2; try discriminate. inversion E; subst.
      destruct (send_lines_k_neutral _ _ _ _ _ _ _ _ Hln E2) as [-> HF].
      split; [apply Inv_belief_sound; repeat split; auto|].
      split; [|intros _; repeat split; simpl; auto].
      simpl. rewrite (op_nav_none s o N). eapply Forall_impl; [|exact HF]. intros e [He _] _. exact He.
Qed.

Lemma op_spec_int : forall s o seg lv, op_spec s o seg Interrupted -> seg_at lv seg.
Proof.
  intros s o seg lv H. unfold seg_at.
  destruct o as [|ls stop|ls stop priv|d0|ls priv|k|b]; simpl in H.
  - destruct H; discriminate.
  - destruct H; discriminate.
  - destruct (generic s); [destruct H; discriminate|].
    destruct (mem _ (reg s)); destruct H; discriminate.
  - destruct H as [_ H]. destruct (mem d0 (reg s)); [discriminate|destruct H; discriminate].
  - destruct priv as [p|]; [destruct (mem p (reg s))|]; destruct H; discriminate.
  - subst. constructor.
  - subst. constructor.
Qed.

(* histories with interruptions *)
Definition iop_safe (s : state) (io : iop) : bool :=
  op_safe s (fst io)
  && match snd io with
     | Some pt => match run_op_int P s (fst io) pt with Some (s', _) => st_safe s' | None => true end
     | None => true
     end.

Fixpoint hist_safe_i (s : state) (h : list iop) : bool :=
  match h with
  | [] => true
  | io :: r => iop_safe s io && hist_safe_i (fst (fst (run_iop P s io))) r
  end.

Definition step_good_i (t : state * op * list entry * result * state) : Prop :=
  match t with
  | (s, o, seg, res, s') =>
      belief_sound s' /\ (res <> Interrupted -> op_spec s o seg res) /\ (res = Interrupted -> seg_at (req_level s o) seg)
  end.

Theorem hist_i_ok : forall h s,
  Inv s -> forallb (fun io => op_neutral (fst io)) h = true -> hist_safe_i s h = true ->
  Forall step_good_i (run_hist_i P s h).
Proof.
  induction h as [|[o pt] r IH]; intros s HI Hn Hs; simpl; [constructor|].
  simpl in Hn, Hs. apply andb_true_iff in Hn. destruct Hn as [Hn1 Hn2].
  apply andb_true_iff in Hs. destruct Hs as [Hs1 Hs2].
  unfold iop_safe in Hs1. simpl in Hs1. apply andb_true_iff in Hs1. destruct Hs1 as [Hs1 Hs3].
  assert (Hplain : forall s' seg res, run_op P s o = (s', seg, res) ->
            Inv s' /\ step_good_i (s, o, seg, res, s')).
  { intros s' seg res E. destruct (step_ok s o s' seg res HI Hn1 Hs1 E) as [HI' Hspec].
    split; auto. split; [now apply Inv_belief_sound|]. split; auto.
    intros ->. eapply op_spec_int; eauto. }
  unfold run_iop in *. simpl in *.
  destruct pt as [pt|].
  - destruct (run_op_int P s o pt) as [[s' seg]|] eqn:E.
    + destruct (int_ok s o pt s' seg HI Hn1 E) as (Hb & Hseg & HI').
      simpl in Hs2. constructor; [|apply IH; auto].
      split; auto. split; [congruence|auto].
    + destruct (run_op P s o) as [[s' seg] res] eqn:E2. simpl in Hs2.
      destruct (Hplain s' seg res eq_refl) as [HI' Hg]. constructor; auto.
  - destruct (run_op P s o) as [[s' seg] res] eqn:E2. simpl in Hs2.
    destruct (Hplain s' seg res eq_refl) as [HI' Hg]. constructor; auto.
Qed.

Theorem belief_sound_i : forall m0 h,
  In m0 (p_login P) -> forallb (fun io => op_neutral (fst io)) h = true -> hist_safe_i (init P m0) h = true ->
  Forall (fun t => belief_sound (snd t)) (run_hist_i P (init P m0) h).
Proof.
  intros m0 h H1 H2 H3. pose proof (hist_i_ok h (init P m0) (init_Inv m0 H1) H2 H3) as H.
  eapply Forall_impl; [|exact H]. intros [[[[s o] seg] res] s'] [Hb _]. exact Hb.
Qed.

End Platform.

(* ---------------------------------------------------------------- fuel *)
(* the loop bound of acquire_priv is what ends the loop: the model's fuel is never what stops it *)
Lemma acquire_loop_fuel : forall P r dest f c b m seg,
  c <= length r * 2 -> length r * 2 + 2 <= f + c ->
  snd (acquire_loop P r f c b m dest seg) <> OutOfFuel.
Proof.
  induction f as [|f IH]; intros c b m seg H1 H2; [lia|].
  simpl. destruct (process_acquire P r b dest (matches P r m)); simpl; try discriminate.
  - destruct (length r * 2 <? S c) eqn:E; simpl; [discriminate|].
    apply Nat.ltb_ge in E. apply IH; lia.
  - destruct (length r * 2 <? S c) eqn:E; simpl; [discriminate|].
    apply Nat.ltb_ge in E. apply IH; lia.
Qed.

Theorem acquire_never_out_of_fuel : forall P r b m d, snd (acquire P r b m d) <> OutOfFuel.
Proof.
  intros. unfold acquire. destruct (mem d r); simpl; [|discriminate].
  apply acquire_loop_fuel; lia.
Qed.

(* ---------------------------------------------------------------- corollaries used by props/C03.v *)
Theorem belief_sound_hist : forall P, platform_check P = true -> forall m0 h,
  In m0 (p_login P) -> forallb (op_neutral P) h = true -> hist_safe P (init P m0) h = true ->
  Forall (fun t => belief_sound (snd t)) (run_hist P (init P m0) h).
Proof.
  intros P Hc m0 h H1 H2 H3. pose proof (levels_partial P Hc m0 h H1 H2 H3) as H.
  eapply Forall_impl; [|exact H]. intros [[[[s o] seg] res] s'] [_ Hb]. exact Hb.
Qed.

Theorem levels_on_checked : forall Ps, forallb platform_check Ps = true -> forall P, In P Ps ->
  forall m0 h, In m0 (p_login P) -> forallb (op_neutral P) h = true -> hist_safe P (init P m0) h = true ->
  Forall (step_good P) (run_hist P (init P m0) h).
Proof.
  intros Ps H P HP. rewrite forallb_forall in H. apply levels_partial. auto.
Qed.

(* ---------------------------------------------------------------- the full statement, and its refutation *)
(* the property as stated: no restriction on where the belief is reset *)
Definition C03_full : Prop :=
  forall P, platform_check P = true -> forall m0 h,
    In m0 (p_login P) -> forallb (op_neutral P) h = true ->
    Forall (step_good P) (run_hist P (init P m0) h).

(* IOS-XR's shape: privilege_exec, configuration and configuration_exclusive with one prompt pattern *)
Definition xr_like : platform :=
  mkPlatform
    [mkLevel None 0 0 0 false; mkLevel (Some 0) 1 2 1 false; mkLevel (Some 0) 3 2 1 false]
    3 0 1 (AbSend 6 0) [4; 5]
    [(0, 1, 1); (0, 3, 2); (1, 2, 0); (1, 6, 0); (2, 2, 0); (2, 6, 0)]
    [0] [] [[0; 1; 2]] true true.

Example xr_like_checked : platform_check xr_like = true.
Proof. vm_compute. reflexivity. Qed.

(* send_configs(x) . generic mode on . off . send_configs(y, privilege_level = configuration_exclusive) *)
Definition xr_witness : list op :=
  [OOpen; OSendConfigs [(100, false)] false None; OSetGeneric true; OSetGeneric false;
   OSendConfigs [(101, false)] false (Some 2)].

Example xr_witness_neutral : forallb (op_neutral xr_like) xr_witness = true.
Proof. vm_compute. reflexivity. Qed.

(* ... y is executed in mode 1 (shared configuration), and the driver then believes 2 *)
Example xr_witness_runs_in_configuration :
  nth 4 (map (fun t => match t with (_, _, seg, res, s') => (seg, res, belief s', mode s') end)
             (run_hist xr_like (init xr_like 0) xr_witness)) ([], Ok, None, 0)
  = ([(1, 101, KUser)], Ok, Some 2, 1).
Proof. vm_compute. reflexivity. Qed.

Example xr_witness_outside_region : hist_safe xr_like (init xr_like 0) xr_witness = false.
Proof. vm_compute. reflexivity. Qed.

Theorem full_refuted : ~ C03_full.
Proof.
  intro H. specialize (H xr_like xr_like_checked 0 xr_witness (or_introl eq_refl) xr_witness_neutral).
  pose proof (proj1 (Forall_nth _ _) H 4
                (init xr_like 0, OOpen, [], Ok, init xr_like 0)) as H4.
  vm_compute in H4. specialize (H4 (le_n _)). destruct H4 as [[_ H4] _]. discriminate H4.
Qed.

(* the premises of the partial theorem are satisfiable by a non-trivial history: exclusive and shared
   configuration, a failing line with stop_on_failed (abort), and generic-mode toggles at the command level *)
Definition xr_safe_history : list op :=
  [OOpen; OSendConfigs [(100, false)] false (Some 2); OSendConfigs [(101, false); (150, true); (102, false)] true None;
   OSetGeneric true; OSendCommands [(103, false)] false; OInteractive [104] (Some 1); OSetGeneric false;
   OSendCommands [(105, false)] false; OSetGeneric true; OSetGeneric false; OSendConfigs [(106, false)] false (Some 2)].

Example xr_safe_history_premises :
  forallb (op_neutral xr_like) xr_safe_history = true /\ hist_safe xr_like (init xr_like 0) xr_safe_history = true.
Proof. split; vm_compute; reflexivity. Qed.

Example xr_safe_history_levels :
  map (fun t => match t with (_, _, seg, _, _) => user_entries seg end) (run_hist xr_like (init xr_like 0) xr_safe_history)
  = [[]; [(2, 100)]; [(1, 101); (1, 150)]; []; [(0, 103)]; [(1, 104)]; []; [(0, 105)]; []; []; [(2, 106)]].
Proof. vm_compute. reflexivity. Qed.

(* the invariant is satisfiable with the belief unknown (login) and with the belief set *)
Example Inv_at_login : Inv xr_like (init xr_like 0).
Proof. apply init_Inv; [exact xr_like_checked | now left]. Qed.

(* ---------------------------------------------------------------- interrupted histories: corollaries for props/C03.v *)
Theorem belief_sound_hist_i : forall P, platform_check P = true -> forall m0 h,
  In m0 (p_login P) -> forallb (fun io => op_neutral P (fst io)) h = true -> hist_safe_i P (init P m0) h = true ->
  Forall (fun t => belief_sound (snd t)) (run_hist_i P (init P m0) h).
Proof. intros P Hc. exact (belief_sound_i P Hc). Qed.

Theorem levels_hist_i : forall P, platform_check P = true -> forall m0 h,
  In m0 (p_login P) -> forallb (fun io => op_neutral P (fst io)) h = true -> hist_safe_i P (init P m0) h = true ->
  Forall (step_good_i P) (run_hist_i P (init P m0) h).
Proof. intros P Hc m0 h H1 H2 H3. apply hist_i_ok; auto. now apply init_Inv. Qed.

(* a history without interruption points is a plain history *)
Lemma run_hist_i_plain : forall P h s, run_hist_i P s (map (fun o => (o, None)) h) = run_hist P s h.
Proof.
  induction h as [|o r IH]; intros s; simpl; auto.
  unfold run_iop. simpl. destruct (run_op P s o) as [[s' seg] res]. now rewrite IH.
Qed.

(* the ORDER fact is what the statement rests on: the same table with the reset AFTER the escalate / deescalate step
   fails the check, and the belief is wrong after an interruption *)
Definition set_reset_first (P : platform) (b : bool) : platform :=
  mkPlatform (p_levels P) (p_base P) (p_default P) (p_cfg P) (p_abort P) (p_open P) (p_dev P) (p_login P)
             (p_cands P) (p_regs P) b (p_reg_keeps P).

Definition xr_like_after : platform := set_reset_first xr_like false.

(* open . send_configs cut while "configure terminal" is in flight, the device having executed it . send_command *)
Definition xr_cut_witness : list iop :=
  [(OOpen, None); (OSendConfigs [(100, false)] false None, Some (INav 1 true)); (OSendCommands [(101, false)] false, None)].

Example xr_cut_witness_premises :
  forallb (fun io => op_neutral xr_like_after (fst io)) xr_cut_witness = true
  /\ hist_safe_i xr_like_after (init xr_like_after 0) xr_cut_witness = true.
Proof. split; vm_compute; reflexivity. Qed.

(* reset first (the code as it is): belief DUMMY, device in configuration; the next command runs in privilege_exec
   (on this table the cut leaves the belief DUMMY at a shared prompt, i.e. inside the finding's region; the
   command level is unambiguous, so the command is not affected) *)
Example xr_cut_reset_first :
  map (fun t => match t with (_, _, seg, res, s') => (seg, res, belief s', mode s') end)
      (run_hist_i xr_like (init xr_like 0) xr_cut_witness)
  = [([(0, 4, KOpen); (0, 5, KOpen)], Ok, Some 0, 0);
     ([(0, 1, KNav)], Interrupted, None, 1);
     ([(1, 2, KNav); (0, 101, KUser)], Ok, Some 0, 0)].
Proof. vm_compute. reflexivity. Qed.

(* reset after: the driver still believes privilege_exec, and the next command runs in configuration *)
Example xr_cut_reset_after :
  map (fun t => match t with (_, _, seg, res, s') => (seg, res, belief s', mode s') end)
      (run_hist_i xr_like_after (init xr_like_after 0) xr_cut_witness)
  = [([(0, 4, KOpen); (0, 5, KOpen)], Ok, Some 0, 0);
     ([(0, 1, KNav)], Interrupted, Some 0, 1);
     ([(1, 101, KUser)], Ok, Some 0, 1)].
Proof. vm_compute. reflexivity. Qed.

(* the interrupted-history statement for tables that pass the check when the order fact is ignored *)
Definition C03_int_without_order : Prop :=
  forall P, platform_check (set_reset_first P true) = true -> forall m0 h,
    In m0 (p_login P) -> forallb (fun io => op_neutral P (fst io)) h = true -> hist_safe_i P (init P m0) h = true ->
    Forall (fun t => belief_sound (snd t)) (run_hist_i P (init P m0) h).

Theorem int_without_order_refuted : ~ C03_int_without_order.
Proof.
  intro H. destruct xr_cut_witness_premises as (N & S).
  specialize (H xr_like_after xr_like_checked 0 xr_cut_witness (or_introl eq_refl) N S).
  pose proof (proj1 (Forall_nth _ _) H 1 (init xr_like 0, OOpen, [], Ok, init xr_like 0)) as H1.
  vm_compute in H1. specialize (H1 (le_S _ _ (le_n _))). destruct H1 as [H1|H1]; discriminate H1.
Qed.

Example xr_like_after_fails_check : platform_check xr_like_after = false.
Proof. vm_compute. reflexivity. Qed.

(* the premises of the interrupted-history theorem are satisfiable by a non-trivial history: cuts in the navigation
   (line executed or not), in the send loop, and operations after each of them *)
Definition xr_int_history : list iop :=
  [(OOpen, None); (OSendConfigs [(100, false); (101, false)] false None, Some (ILine 1 true));
   (OSendCommands [(102, false)] false, Some (INav 1 true)); (OSendCommands [(103, false)] false, None);
   (OAcquire 1, Some (INav 1 false)); (OSendConfigs [(104, false)] false None, None)].

Example xr_int_history_premises :
  forallb (fun io => op_neutral xr_like (fst io)) xr_int_history = true
  /\ hist_safe_i xr_like (init xr_like 0) xr_int_history = true.
Proof. split; vm_compute; reflexivity. Qed.

Example xr_int_history_runs :
  map (fun t => match t with (_, _, seg, res, s') => (user_entries seg, res, belief s', mode s') end)
      (run_hist_i xr_like (init xr_like 0) xr_int_history)
  = [([], Ok, Some 0, 0); ([(1, 100); (1, 101)], Interrupted, Some 1, 1); ([], Interrupted, None, 0);
     ([(0, 103)], Ok, Some 0, 0); ([], Interrupted, None, 0); ([(1, 104)], Ok, Some 1, 1)].
Proof. vm_compute. reflexivity. Qed.

(* ---------------------------------------------------------------- registering a session while in a session *)
(* NX-OS's shape: privilege_exec, configuration, and two configuration sessions with ONE prompt pattern *)
Definition nx_like : platform :=
  mkPlatform
    [mkLevel None 0 0 0 false; mkLevel (Some 0) 1 2 1 false; mkLevel (Some 0) 3 2 2 true; mkLevel (Some 0) 4 2 2 true]
    2 0 1 (AbSess 6 0) [5]
    [(0, 1, 1); (0, 3, 2); (0, 4, 3); (1, 2, 0); (2, 2, 0); (2, 6, 0); (3, 2, 0); (3, 6, 0)]
    [0] [2; 3] [[0; 1]; [0; 1; 2]; [0; 1; 3]; [0; 1; 2; 3]; [0; 1; 3; 2]] true true.

Example nx_like_checked : platform_check nx_like = true.
Proof. vm_compute. reflexivity. Qed.

(* open . register A . send_configs(A) . register B WHILE IN A . send_configs(B) . send_configs(A) . send_commands .
   send_configs(B, failing line, stop_on_failed: abort) . send_configs() *)
Definition nx_register_history : list op :=
  [OOpen; ORegister 2; OSendConfigs [(100, false)] false (Some 2); ORegister 3; OSendConfigs [(101, false)] false (Some 3);
   OSendConfigs [(102, false)] false (Some 2); OSendCommands [(103, false)] false;
   OSendConfigs [(104, false); (150, true); (105, false)] true (Some 3); OSendConfigs [(106, false)] false None].

Example nx_register_history_premises :
  forallb (op_neutral nx_like) nx_register_history = true /\ hist_safe nx_like (init nx_like 0) nx_register_history = true.
Proof. split; vm_compute; reflexivity. Qed.

(* the belief A is what sends the driver A -> privilege_exec -> B although B's pattern matches A's prompt *)
Example nx_register_history_runs :
  map (fun t => match t with (_, _, seg, res, s') => (map fst seg, res, belief s', mode s') end)
      (run_hist nx_like (init nx_like 0) nx_register_history)
  = [([(0, 5)], Ok, Some 0, 0); ([], Ok, Some 0, 0); ([(0, 3); (2, 100)], Ok, Some 2, 2); ([], Ok, Some 2, 2);
     ([(2, 2); (0, 4); (3, 101)], Ok, Some 3, 3); ([(3, 2); (0, 3); (2, 102)], Ok, Some 2, 2);
     ([(2, 2); (0, 103)], Ok, Some 0, 0); ([(0, 4); (3, 104); (3, 150); (3, 6)], Ok, Some 0, 0);
     ([(0, 1); (1, 106)], Ok, Some 1, 1)].
Proof. vm_compute. reflexivity. Qed.

(* the REGISTER fact is what this rests on: the same table with a registration that forgets the level fails the check,
   and the configs for B run inside A *)
Definition set_reg_keeps (P : platform) (b : bool) : platform :=
  mkPlatform (p_levels P) (p_base P) (p_default P) (p_cfg P) (p_abort P) (p_open P) (p_dev P) (p_login P)
             (p_cands P) (p_regs P) (p_reset_first P) b.

Definition nx_like_forgets : platform := set_reg_keeps nx_like false.

Definition nx_register_witness : list op :=
  [OOpen; ORegister 2; OSendConfigs [(100, false)] false (Some 2); ORegister 3; OSendConfigs [(101, false)] false (Some 3)].

Example nx_register_witness_premises :
  forallb (op_neutral nx_like_forgets) nx_register_witness = true
  /\ hist_safe nx_like_forgets (init nx_like_forgets 0) nx_register_witness = true.
Proof. split; vm_compute; reflexivity. Qed.

Example nx_register_witness_runs_in_A :
  nth 4 (map (fun t => match t with (_, _, seg, res, s') => (seg, res, belief s', mode s') end)
             (run_hist nx_like_forgets (init nx_like_forgets 0) nx_register_witness)) ([], Ok, None, 0)
  = ([(2, 101, KUser)], Ok, Some 3, 2).
Proof. vm_compute. reflexivity. Qed.

(* the levels statement for tables that pass the check when the register fact is ignored *)
Definition C03_without_register_fact : Prop :=
  forall P, platform_check (set_reg_keeps P true) = true -> forall m0 h,
    In m0 (p_login P) -> forallb (op_neutral P) h = true -> hist_safe P (init P m0) h = true ->
    Forall (step_good P) (run_hist P (init P m0) h).

Theorem without_register_fact_refuted : ~ C03_without_register_fact.
Proof.
  intro H. destruct nx_register_witness_premises as (N & S).
  specialize (H nx_like_forgets nx_like_checked 0 nx_register_witness (or_introl eq_refl) N S).
  pose proof (proj1 (Forall_nth _ _) H 4 (init nx_like 0, OOpen, [], Ok, init nx_like 0)) as H4.
  vm_compute in H4. specialize (H4 (le_n _)). destruct H4 as [[_ H4] _]. discriminate H4.
Qed.

Example nx_like_forgets_fails_check : platform_check nx_like_forgets = false.
Proof. vm_compute. reflexivity. Qed.

(* corollaries used by props/C03.v *)
Theorem register_keeps_belief_checked : forall P, platform_check P = true -> forall s k,
  belief (fst (fst (run_op P s (ORegister k)))) = belief s.
Proof. intros P Hc. exact (register_keeps_belief P Hc). Qed.

Theorem register_in_level : forall P, platform_check P = true -> forall s k h,
  Inv P s -> belief s <> None -> forallb (op_neutral P) h = true -> forallb plain_op h = true ->
  Forall (step_good P) (run_hist P s (ORegister k :: h)).
Proof. intros P Hc. exact (register_in_level_ok P Hc). Qed.

Theorem levels_no_generic_on : forall P, platform_check P = true -> forall m0 h,
  In m0 (p_login P) -> forallb (op_neutral P) h = true -> forallb no_generic_on h = true ->
  Forall (step_good P) (run_hist P (init P m0) (OOpen :: h)).
Proof. intros P Hc. exact (levels_without_generic_on P Hc). Qed.

(* its premises are satisfied by the history above (sessions registered at login level and inside a session) *)
Example nx_register_history_no_generic_on :
  nx_register_history = OOpen :: tl nx_register_history /\ forallb no_generic_on (tl nx_register_history) = true.
Proof. split; vm_compute; reflexivity. Qed.
