(* KnownHosts_Proofs.v — theorems about model/KnownHosts.v (scrapli/ssh_config.py SSHKnownHosts).
   HMAC-SHA1 and base64 decoding are Section variables: every statement holds for ANY such
   functions; the only place their behaviour matters is the named premise "the digest recorded
   in the entry is not the digest of the looked-up name" (no collision). *)
From Verif Require Import Bytes KnownHosts.
From Coq Require Import Lia.

Lemma kb_refl a : beq a a = true.
Proof. induction a as [|x a IH]; cbn; [reflexivity|]. rewrite N.eqb_refl, IH. reflexivity. Qed.

Lemma kb_eq a : forall b, beq a b = true -> a = b.
Proof.
  induction a as [|x a IH]; intros [|y b] H; cbn in H; try discriminate; [reflexivity|].
  apply andb_prop in H as [H1 H2]. apply N.eqb_eq in H1. subst. f_equal. apply IH, H2.
Qed.

Lemma kb_neq a b : a <> b -> beq a b = false.
Proof. intros H. destruct (beq a b) eqn:E; [|reflexivity]. apply kb_eq in E. contradiction. Qed.

Fixpoint inb (k : bytes) (l : list bytes) : bool :=
  match l with [] => false | x :: r => beq k x || inb k r end.

Lemma kget_kset_same k v d : kget k (kset k v d) = Some v.
Proof.
  induction d as [|[k' v'] d IH]; cbn.
  - rewrite kb_refl. reflexivity.
  - destruct (beq k k') eqn:E; cbn; rewrite E; auto.
Qed.

Lemma kget_kset_other k k2 v d : beq k2 k = false -> kget k2 (kset k v d) = kget k2 d.
Proof.
  intros N. induction d as [|[k' v'] d IH]; cbn.
  - rewrite N. reflexivity.
  - destruct (beq k k') eqn:E; cbn.
    + apply kb_eq in E. subst. rewrite N. reflexivity.
    + destruct (beq k2 k'); auto.
Qed.

(* the ids of one line: each gets the line's value, the others are untouched *)
Lemma kget_add_ids h v : forall ids d,
  kget h (fold_left (fun d id => kset id v d) ids d) = if inb h ids then Some v else kget h d.
Proof.
  induction ids as [|id ids IH]; intros d; cbn [fold_left inb]; [reflexivity|].
  rewrite IH. destruct (beq h id) eqn:E; cbn [orb].
  - apply kb_eq in E. subst. destruct (inb id ids); [reflexivity|apply kget_kset_same].
  - destruct (inb h ids); [reflexivity|apply kget_kset_other, E].
Qed.

(* the value of the LAST line that lists the name among its comma separated ids *)
Definition last_plain (lines : list (bytes * kval)) (h : bytes) : option kval :=
  fold_left (fun acc l => if inb h (split_on COMMA_C (fst l)) then Some (snd l) else acc) lines None.

Lemma kget_fold h : forall lines d,
  kget h (fold_left kadd_line lines d) =
  fold_left (fun acc l => if inb h (split_on COMMA_C (fst l)) then Some (snd l) else acc) lines (kget h d).
Proof.
  induction lines as [|l lines IH]; intros d; cbn [fold_left]; [reflexivity|].
  rewrite IH. unfold kadd_line at 1. rewrite kget_add_ids. reflexivity.
Qed.

(* exact characterisation of the dict _parse builds, for EVERY name *)
Theorem kparse_get lines h : kget h (kparse lines) = last_plain lines h.
Proof. unfold kparse, last_plain. rewrite kget_fold. reflexivity. Qed.

Section Lookup.
  Variable hmac : bytes -> bytes -> bytes.
  Variable b64dec : bytes -> option bytes.

  Notation parse_hid := (parse_hid b64dec).
  Notation klookup := (klookup hmac b64dec).
  Notation kscan := (kscan hmac b64dec).

  (* an entry that cannot answer for [h]: not a hashed id, or a well-formed hashed id whose
     recorded digest is not the salted HMAC of [h] *)
  Definition miss (h : bytes) (e : bytes * kval) : Prop :=
    parse_hid (fst e) = NotHashed
    \/ exists s dg, parse_hid (fst e) = Hid s dg /\ dg <> hmac s h.

  Lemma kscan_skip h : forall d1 d2, (forall e, In e d1 -> miss h e) -> kscan h (d1 ++ d2) = kscan h d2.
  Proof.
    induction d1 as [|[id v] d1 IH]; intros d2 H; cbn [app kscan]; [reflexivity|].
    destruct (H (id, v) (or_introl eq_refl)) as [E|[s [dg [E N]]]]; cbn [fst] in E; rewrite E.
    - apply IH. intros e I. apply H. right. exact I.
    - rewrite kb_neq by (intros X; apply N; symmetry; exact X).
      apply IH. intros e I. apply H. right. exact I.
  Qed.

  (* plain and comma-listed: the key of the last line naming the host *)
  Theorem known_hosts_plain lines h v :
    last_plain lines h = Some v -> klookup (kparse lines) h = KFound v.
  Proof. intros H. unfold KnownHosts.klookup. rewrite kparse_get, H. reflexivity. Qed.

  (* hashed: the key of the first entry whose salted digest is the name's *)
  Theorem known_hosts_hashed lines h d1 id v d2 s :
    last_plain lines h = None ->
    kparse lines = d1 ++ (id, v) :: d2 ->
    (forall e, In e d1 -> miss h e) ->
    parse_hid id = Hid s (hmac s h) ->
    klookup (kparse lines) h = KFound v.
  Proof.
    intros P E M Hh. unfold KnownHosts.klookup. rewrite kparse_get, P, E.
    rewrite kscan_skip by exact M. cbn [KnownHosts.kscan]. rewrite Hh, kb_refl. reflexivity.
  Qed.

  (* nothing for any other host *)
  Theorem known_hosts_other lines h :
    last_plain lines h = None ->
    (forall e, In e (kparse lines) -> miss h e) ->
    klookup (kparse lines) h = KNone.
  Proof.
    intros P M. unfold KnownHosts.klookup. rewrite kparse_get, P.
    rewrite <- (app_nil_r (kparse lines)). rewrite kscan_skip by exact M. reflexivity.
  Qed.

  (* the same in terms of "recorded for host g": no answer for h unless the HMACs collide *)
  Corollary known_hosts_other_host lines h :
    last_plain lines h = None ->
    (forall id v, In (id, v) (kparse lines) ->
       parse_hid id = NotHashed
       \/ exists s g, parse_hid id = Hid s (hmac s g) /\ hmac s g <> hmac s h (* no collision *)) ->
    klookup (kparse lines) h = KNone.
  Proof.
    intros P H. apply known_hosts_other; [exact P|]. intros [id v] I.
    destruct (H id v I) as [E|[s [g [E N]]]]; [left; exact E|right; eauto].
  Qed.

  (* a malformed hashed id makes the scan raise as soon as it is reached (modelled, outside the
     property's domain): lookups of names listed plainly are not affected *)
  Theorem known_hosts_plain_unaffected_by_malformed lines h v :
    last_plain lines h = Some v -> klookup (kparse lines) h <> KRaise 0 /\ klookup (kparse lines) h <> KRaise 1.
  Proof. intros H. rewrite (known_hosts_plain _ _ _ H). split; discriminate. Qed.
End Lookup.

(* ---- the premises are satisfiable: a concrete file with a plain list, and a hashed entry ---- *)
Definition ex_salt : bytes := [1; 2; 3].
Definition ex_hmac (s h : bytes) : bytes := s ++ h.                 (* a stand-in, injective in h *)
Definition ex_b64 (x : bytes) : option bytes := Some x.             (* identity decoding *)
Definition ex_lines : list (bytes * kval) :=
  [([97; 44; 98], mkK [114] [75; 49]);                              (* "a,b"  r K1 *)
   ([124; 49; 124; 1; 2; 3; 124; 1; 2; 3; 104], mkK [114] [75; 50]);  (* |1|salt|salt++"h"  r K2 *)
   ([98], mkK [101] [75; 51])].                                     (* "b"  e K3 *)

Example ex_plain : klookup ex_hmac ex_b64 (kparse ex_lines) [97] = KFound (mkK [114] [75; 49])
  /\ last_plain ex_lines [97] = Some (mkK [114] [75; 49]).
Proof. split; vm_compute; reflexivity. Qed.
Example ex_plain_last_wins : klookup ex_hmac ex_b64 (kparse ex_lines) [98] = KFound (mkK [101] [75; 51]).
Proof. vm_compute; reflexivity. Qed.
Example ex_hashed : klookup ex_hmac ex_b64 (kparse ex_lines) [104] = KFound (mkK [114] [75; 50])
  /\ last_plain ex_lines [104] = None
  /\ parse_hid ex_b64 [124; 49; 124; 1; 2; 3; 124; 1; 2; 3; 104] = Hid ex_salt (ex_hmac ex_salt [104]).
Proof. repeat split; vm_compute; reflexivity. Qed.
Example ex_other : klookup ex_hmac ex_b64 (kparse ex_lines) [105] = KNone.
Proof. vm_compute; reflexivity. Qed.
