(* TimeoutOverlap_Proofs.v — theorems about model/TimeoutOverlap.v.

   Main results (saved value a local of the wrapper call, SlotLocal)
     interleaving_preserves_restore   for EVERY schedule of EVERY number of connections: at every moment a
                                      connection that is not inside a call has ITS OWN values
     interleaving_is_a_product        what a connection goes through in an interleaved run is what it goes
                                      through when its own events run alone (the connections' automata have
                                      disjoint state: step_other)
     own_override_in_effect           from the wrapper's entry to its exit the connection's I/O sees ITS
                                      override, whatever the other connections do meanwhile
   and for a slot shared between the connections (SlotShared)
     shared_slot_refuted              two connections, nested calls: the call that started first and ends
                                      last leaves its connection with the OTHER connection's timeout_ops
     shared_slot_not_a_product        ... although the same events of that connection alone restore
     shared_slot_sequential_restores  calls that do not overlap restore with either slot (why no test on
                                      one connection, or on sequential calls, can tell the two apart) *)
From Verif Require Import TimeoutRestore TimeoutRestore_Proofs TimeoutOverlap.
From Coq Require Import Lia Arith.

Lemma upd_same : forall (A : Type) (m : nat -> A) i v, upd m i v i = v.
Proof. intros; unfold upd; rewrite Nat.eqb_refl; reflexivity. Qed.

Lemma upd_other : forall (A : Type) (m : nat -> A) i j v, j <> i -> upd m i v j = m j.
Proof.
  intros A m i j v H; unfold upd. destruct (Nat.eqb j i) eqn:E; [apply Nat.eqb_eq in E; contradiction | reflexivity].
Qed.

(* ---- disjoint state: an event touches its own connection only ------------------------------------- *)
Lemma step_shape : forall k w e w', step k w e = Some w' ->
  w' = w \/ exists s f sh, w' = set_conn w (ev_conn e) s f sh.
Proof.
  intros k w e w' H. destruct e as [i o | i p | i rd | i | i]; cbn [step ev_conn] in *.
  - destruct (w_frame w i); [discriminate|]. destruct o as [|v|].
    + inversion H; right; eauto.
    + destruct (v =? ops (w_conn w i)); inversion H; right; eauto.
    + inversion H; left; reflexivity.
  - inversion H; right; eauto.
  - destruct (w_frame w i) as [[m sv [p|]]|]; try discriminate. inversion H; right; eauto.
  - destruct (w_frame w i) as [[m sv [p|]]|]; try discriminate. inversion H; right; eauto.
  - destruct (w_frame w i) as [[m sv [p|]]|]; try discriminate. inversion H; right; eauto.
Qed.

Lemma step_other : forall k w e w' j, step k w e = Some w' -> ev_conn e <> j ->
  w_conn w' j = w_conn w j /\ w_frame w' j = w_frame w j.
Proof.
  intros k w e w' j H Hj. destruct (step_shape k w e w' H) as [E | [s [f [sh E]]]]; subst w'.
  - split; reflexivity.
  - unfold set_conn; cbn [w_conn w_frame]. rewrite !upd_other by (intro X; apply Hj; symmetry; exact X).
    split; reflexivity.
Qed.

Lemma run_other : forall k l w w' j, run k l w = Some w' -> Forall (fun e => ev_conn e <> j) l ->
  w_conn w' j = w_conn w j /\ w_frame w' j = w_frame w j.
Proof.
  intros k l; induction l as [|e r IH]; intros w w' j H Hl; cbn [run] in H.
  - inversion H; split; reflexivity.
  - inversion Hl as [|e' r' He Hr]; subst e' r'.
    destruct (step k w e) as [w1|] eqn:E; [|discriminate].
    destruct (step_other k w e w1 j E He) as [A B]. destruct (IH w1 w' j H Hr) as [C D].
    rewrite C, D, A, B. split; reflexivity.
Qed.

(* ---- the invariant: what the finallys still to run will put back is the connection's own value ------ *)
Definition restored (s : st) (f : option frame) : Z * Z * Z :=
  match f with
  | None => core s
  | Some f => (if f_mod f then f_saved f else ops s, match f_prev f with Some p => p | None => tr s end, sess s)
  end.

Definition Inv (ref : nat -> Z * Z * Z) (w : world) : Prop :=
  forall j, restored (w_conn w j) (w_frame w j) = ref j.

Lemma step_inv : forall ref w e w', step SlotLocal w e = Some w' -> Inv ref w -> Inv ref w'.
Proof.
  intros ref w e w' H I j. destruct (Nat.eq_dec (ev_conn e) j) as [E | E].
  - subst j. specialize (I (ev_conn e)).
    destruct e as [i o | i p | i rd | i | i]; cbn [step ev_conn] in *.
    + destruct (w_frame w i) eqn:F; [discriminate|]. destruct o as [|v|].
      * inversion H; subst w'; unfold set_conn; cbn [w_conn w_frame]; rewrite !upd_same. exact I.
      * destruct (v =? ops (w_conn w i)); inversion H; subst w'; unfold set_conn; cbn [w_conn w_frame];
          rewrite !upd_same; exact I.
      * inversion H; subst w'. rewrite F. exact I.
    + inversion H; subst w'; unfold set_conn; cbn [w_conn w_frame]; rewrite !upd_same.
      destruct (w_frame w i); exact I.
    + destruct (w_frame w i) as [[m sv [p|]]|]; try discriminate.
      inversion H; subst w'; unfold set_conn; cbn [w_conn w_frame]; rewrite !upd_same. exact I.
    + destruct (w_frame w i) as [[m sv [p|]]|]; try discriminate.
      inversion H; subst w'; unfold set_conn; cbn [w_conn w_frame]; rewrite !upd_same. exact I.
    + destruct (w_frame w i) as [[m sv [p|]]|]; try discriminate.
      inversion H; subst w'; unfold set_conn; cbn [w_conn w_frame]; rewrite !upd_same.
      destruct m; exact I.
  - destruct (step_other SlotLocal w e w' j H E) as [A B]. rewrite A, B. apply I.
Qed.

Lemma run_inv : forall ref l w w', run SlotLocal l w = Some w' -> Inv ref w -> Inv ref w'.
Proof.
  intros ref l; induction l as [|e r IH]; intros w w' H I; cbn [run] in H.
  - inversion H; subst; exact I.
  - destruct (step SlotLocal w e) as [w1|] eqn:E; [|discriminate].
    apply (IH w1 w' H). apply (step_inv ref w e w1 E I).
Qed.

(* EVERY schedule, EVERY number of connections, EVERY prefix of the run: a connection that is not inside a
   call has the timeouts it had before the first call - its own *)
Theorem interleaving_preserves_restore : forall (l : list ev) (c0 : nat -> st) (w' : world),
  run SlotLocal l (world0 c0) = Some w' ->
  forall i, idle w' i -> core (w_conn w' i) = core (c0 i).
Proof.
  intros l c0 w' H i Hi.
  assert (I : Inv (fun j => core (c0 j)) (world0 c0)) by (intro j; reflexivity).
  pose proof (run_inv _ l _ w' H I i) as R. unfold idle in Hi. rewrite Hi in R. exact R.
Qed.

(* ---- the interleaved run is the product of the connections' own runs ---------------------------------- *)
Definition agree (i : nat) (w1 w2 : world) : Prop :=
  w_conn w1 i = w_conn w2 i /\ w_frame w1 i = w_frame w2 i.

Lemma step_congr : forall i w1 w2 e w1', agree i w1 w2 -> ev_conn e = i ->
  step SlotLocal w1 e = Some w1' -> exists w2', step SlotLocal w2 e = Some w2' /\ agree i w1' w2'.
Proof.
  intros i w1 w2 e w1' [Hc Hf] He H.
  destruct e as [j o | j p | j rd | j | j]; cbn [step ev_conn] in *; subst j; rewrite <- Hc, <- Hf.
  - destruct (w_frame w1 i) eqn:F; [discriminate|]. destruct o as [|v|].
    + inversion H; subst w1'. eexists; split; [reflexivity|].
      unfold agree, set_conn; cbn [w_conn w_frame]; rewrite !upd_same; split; reflexivity.
    + destruct (v =? ops (w_conn w1 i)); inversion H; subst w1'; (eexists; split; [reflexivity|]);
        unfold agree, set_conn; cbn [w_conn w_frame]; rewrite !upd_same; split; reflexivity.
    + inversion H; subst w1'. eexists; split; [reflexivity|]. split; [exact Hc | rewrite F; exact Hf].
  - inversion H; subst w1'. eexists; split; [reflexivity|].
    unfold agree, set_conn; cbn [w_conn w_frame]; rewrite !upd_same; split; reflexivity.
  - destruct (w_frame w1 i) as [[m sv [p|]]|]; try discriminate.
    inversion H; subst w1'. eexists; split; [reflexivity|].
    unfold agree, set_conn; cbn [w_conn w_frame]; rewrite !upd_same; split; reflexivity.
  - destruct (w_frame w1 i) as [[m sv [p|]]|]; try discriminate.
    inversion H; subst w1'. eexists; split; [reflexivity|].
    unfold agree, set_conn; cbn [w_conn w_frame]; rewrite !upd_same; split; reflexivity.
  - destruct (w_frame w1 i) as [[m sv [p|]]|]; try discriminate.
    inversion H; subst w1'. eexists; split; [reflexivity|].
    unfold agree, set_conn; cbn [w_conn w_frame]; rewrite !upd_same; split; reflexivity.
Qed.

Lemma run_projection : forall i l w1 w2 w1', agree i w1 w2 -> run SlotLocal l w1 = Some w1' ->
  exists w2', run SlotLocal (on i l) w2 = Some w2' /\ agree i w1' w2'.
Proof.
  intros i l; induction l as [|e r IH]; intros w1 w2 w1' A H; cbn [run] in H.
  - inversion H; subst. exists w2; split; [reflexivity | exact A].
  - destruct (step SlotLocal w1 e) as [w1a|] eqn:E; [|discriminate].
    unfold on; cbn [filter]. destruct (Nat.eqb (ev_conn e) i) eqn:Q.
    + apply Nat.eqb_eq in Q. destruct (step_congr i w1 w2 e w1a A Q E) as [w2a [S2 A2]].
      cbn [run]. rewrite S2. apply (IH w1a w2a w1' A2 H).
    + apply Nat.eqb_neq in Q. destruct (step_other SlotLocal w1 e w1a i E Q) as [C F].
      apply (IH w1a w2 w1'); [|exact H]. destruct A as [Ac Af]. split; [rewrite C; exact Ac | rewrite F; exact Af].
Qed.

Theorem interleaving_is_a_product : forall (l : list ev) (c0 : nat -> st) (w' : world) (i : nat),
  run SlotLocal l (world0 c0) = Some w' ->
  exists w'', run SlotLocal (on i l) (world0 c0) = Some w''
              /\ w_conn w'' i = w_conn w' i /\ w_frame w'' i = w_frame w' i.
Proof.
  intros l c0 w' i H.
  destruct (run_projection i l (world0 c0) (world0 c0) w' (conj eq_refl eq_refl) H) as [w2 [R [A B]]].
  exists w2; split; [exact R | split; symmetry; assumption].
Qed.

(* ---- during the call: its own override, whatever the others do ---------------------------------------- *)
Theorem own_override_in_effect : forall k w i v w1 l w2 p,
  step k w (EvEnter i (OvVal v)) = Some w1 -> v <> ops (w_conn w i) ->
  Forall (fun e => ev_conn e <> i) l -> run k l w1 = Some w2 ->
  exists w3, step k w2 (EvIo i p) = Some w3
             /\ hd_error (log (w_conn w3 i)) = Some (p, (v, tr (w_conn w i), sess (w_conn w i))).
Proof.
  intros k w i v w1 l w2 p H Hv Hl R.
  destruct (run_other k l w1 w2 i R Hl) as [C _].
  cbn [step] in H. destruct (w_frame w i); [discriminate|].
  destruct (v =? ops (w_conn w i)) eqn:E; [apply Z.eqb_eq in E; contradiction|].
  inversion H; subst w1. unfold set_conn in C; cbn [w_conn] in C; rewrite upd_same in C.
  eexists; split; [reflexivity|]. unfold set_conn; cbn [w_conn]; rewrite upd_same, C. reflexivity.
Qed.

(* ---- a slot shared between the connections ---------------------------------------------------------- *)
Definition two (a b : st) : nat -> st := fun i => match i with O => a | _ => b end.

Definition conn_a : st := mkst 10000 30000 30000 [].
Definition conn_b : st := mkst 60000 12500 12500 [].

(* A enters and is parked on a read; B runs its call from start to end; A goes on *)
Definition nested_schedule : list ev :=
  [EvEnter 0 (OvVal 5000); EvIo 0 PhIo; EvEnter 1 (OvVal 7500); EvIo 1 PhIo; EvLeave 1; EvIo 0 PhIo; EvLeave 0].

(* A parks, B parks, A ends, B ends *)
Definition staggered_schedule : list ev :=
  [EvEnter 0 (OvVal 5000); EvIo 0 PhIo; EvEnter 1 (OvVal 7500); EvTimedIn 1 2999; EvIo 1 PhTimed;
   EvIo 0 PhIo; EvLeave 0; EvIo 1 PhTimed; EvTimedOut 1; EvLeave 1].

Definition final_ops (k : slot) (l : list ev) (c0 : nat -> st) (i : nat) : option (bool * Z) :=
  match run k l (world0 c0) with
  | Some w => Some (match w_frame w i with None => true | Some _ => false end, ops (w_conn w i))
  | None => None
  end.

(* (true, v): the connection is idle at the end and its timeout_ops is v *)
Theorem shared_slot_refuted :
  final_ops SlotShared nested_schedule (two conn_a conn_b) 0 = Some (true, 60000)
  /\ final_ops SlotShared nested_schedule (two conn_a conn_b) 1 = Some (true, 60000)
  /\ final_ops SlotShared staggered_schedule (two conn_a conn_b) 0 = Some (true, 60000).
Proof. repeat split; vm_compute; reflexivity. Qed.

Definition C14_overlap_full (k : slot) : Prop :=
  forall (l : list ev) (c0 : nat -> st) (w' : world),
    run k l (world0 c0) = Some w' -> forall i, idle w' i -> core (w_conn w' i) = core (c0 i).

Theorem shared_slot_refutes_full : ~ C14_overlap_full SlotShared.
Proof.
  intro H.
  destruct (run SlotShared nested_schedule (world0 (two conn_a conn_b))) as [w|] eqn:E; [|vm_compute in E; discriminate E].
  specialize (H nested_schedule (two conn_a conn_b) w E 0%nat).
  assert (F : w_frame w 0%nat = None) by (vm_compute in E; inversion E; reflexivity).
  specialize (H F). vm_compute in E. inversion E; subst w. vm_compute in H. discriminate H.
Qed.

Theorem local_slot_is_full : C14_overlap_full SlotLocal.
Proof. exact interleaving_preserves_restore. Qed.

(* the same schedules with the saved value in the call's frame *)
Example local_slot_on_the_witnesses :
  final_ops SlotLocal nested_schedule (two conn_a conn_b) 0 = Some (true, 10000)
  /\ final_ops SlotLocal nested_schedule (two conn_a conn_b) 1 = Some (true, 60000)
  /\ final_ops SlotLocal staggered_schedule (two conn_a conn_b) 0 = Some (true, 10000)
  /\ final_ops SlotLocal staggered_schedule (two conn_a conn_b) 1 = Some (true, 60000).
Proof. repeat split; vm_compute; reflexivity. Qed.

(* with a shared slot the interleaved run is NOT the product: A's own events alone restore A *)
Theorem shared_slot_not_a_product :
  final_ops SlotShared (on 0 nested_schedule) (two conn_a conn_b) 0 = Some (true, 10000)
  /\ final_ops SlotShared nested_schedule (two conn_a conn_b) 0 = Some (true, 60000).
Proof. split; vm_compute; reflexivity. Qed.

(* ---- why sequential calls cannot tell: a call that nobody interleaves with restores with either slot ---- *)
Definition call_events (i : nat) (o : ov) (n : nat) : list ev :=
  EvEnter i o :: repeat (EvIo i PhIo) n ++ [EvLeave i].

Lemma run_app : forall k l1 l2 w, run k (l1 ++ l2) w = match run k l1 w with Some w1 => run k l2 w1 | None => None end.
Proof.
  intros k l1; induction l1 as [|e r IH]; intros l2 w; cbn [app run]; [reflexivity|].
  destruct (step k w e); [apply IH | reflexivity].
Qed.

Lemma run_ios : forall k i n w, exists w',
  run k (repeat (EvIo i PhIo) n) w = Some w' /\ core (w_conn w' i) = core (w_conn w i)
  /\ w_frame w' i = w_frame w i /\ w_shared w' = w_shared w.
Proof.
  intros k i n; induction n as [|n IH]; intros w; cbn [repeat run].
  - exists w; repeat split; reflexivity.
  - cbn [step]. destruct (IH (set_conn w i (tick PhIo (w_conn w i)) (w_frame w i) (w_shared w))) as [w' [R [C [F S]]]].
    exists w'; split; [exact R|]. unfold set_conn in *; cbn [w_conn w_frame w_shared] in *; rewrite !upd_same in *.
    repeat split; assumption.
Qed.

Theorem shared_slot_sequential_restores : forall k i o n w, o <> OvBad -> idle w i ->
  exists w', run k (call_events i o n) w = Some w' /\ idle w' i /\ core (w_conn w' i) = core (w_conn w i).
Proof.
  intros k i o n w Ho Hi. unfold call_events, idle in *. cbn [run step]. rewrite Hi.
  destruct o as [|v|]; [| |contradiction Ho; reflexivity].
  - rewrite run_app.
    destruct (run_ios k i n (set_conn w i (w_conn w i) (Some (mkframe false 0 None)) (w_shared w))) as [w1 [R [C [F S]]]].
    rewrite R. unfold set_conn in C, F; cbn [w_conn w_frame] in C, F; rewrite !upd_same in C, F.
    cbn [run step]. rewrite F. eexists; split; [reflexivity|].
    unfold set_conn; cbn [w_conn w_frame]; rewrite !upd_same. split; [reflexivity | exact C].
  - destruct (v =? ops (w_conn w i)) eqn:E; rewrite run_app.
    + destruct (run_ios k i n (set_conn w i (w_conn w i) (Some (mkframe false 0 None)) (w_shared w))) as [w1 [R [C [F S]]]].
      rewrite R. unfold set_conn in C, F; cbn [w_conn w_frame] in C, F; rewrite !upd_same in C, F.
      cbn [run step]. rewrite F. eexists; split; [reflexivity|].
      unfold set_conn; cbn [w_conn w_frame]; rewrite !upd_same. split; [reflexivity | exact C].
    + destruct (run_ios k i n (set_conn w i (set_ops v (w_conn w i)) (Some (mkframe true (ops (w_conn w i)) None)) (ops (w_conn w i))))
        as [w1 [R [C [F S]]]].
      rewrite R. unfold set_conn in C, F, S; cbn [w_conn w_frame w_shared] in C, F, S; rewrite !upd_same in C, F.
      cbn [run step]. rewrite F. eexists; split; [reflexivity|].
      unfold set_conn; cbn [w_conn w_frame]; rewrite !upd_same. split; [reflexivity|].
      rewrite S. unfold core in *; cbn [set_ops ops tr sess] in *. inversion C.
      destruct k; reflexivity.
Qed.

(* ---- one call on one connection is TimeoutRestore's [with_override] ------------------------------------ *)
Theorem single_call_is_with_override : forall k o n c0 i, o <> OvBad ->
  exists w', run k (call_events i o n) (world0 c0) = Some w'
             /\ core (w_conn w' i) = core (fst (with_override o (fun s => (ticks PhIo n s, Ok)) (c0 i))).
Proof.
  intros k o n c0 i Ho.
  destruct (shared_slot_sequential_restores k i o n (world0 c0) Ho eq_refl) as [w' [R [_ C]]].
  exists w'; split; [exact R|]. rewrite C. cbn [world0 w_conn].
  destruct o as [|v|]; cbn [with_override fst].
  - unfold core. rewrite ticks_ops, ticks_tr, ticks_sess. reflexivity.
  - destruct (v =? ops (c0 i)); cbn [fst].
    + unfold core. rewrite ticks_ops, ticks_tr, ticks_sess. reflexivity.
    + destruct (ticks PhIo n (set_ops v (c0 i))) as [xo xt xs xl] eqn:T. cbn [fst]. unfold core; cbn [set_ops ops tr sess].
      pose proof (ticks_tr PhIo n (set_ops v (c0 i))) as A. pose proof (ticks_sess PhIo n (set_ops v (c0 i))) as B.
      rewrite T in A, B. cbn [tr sess set_ops] in A, B. rewrite A, B. reflexivity.
  - contradiction Ho; reflexivity.
Qed.
