(* LogFormat_Proofs.v — theorems about model/LogFormat.v (ScrapliFormatter). *)
From Verif Require Import Bytes LogFormat.
From Coq Require Import Lia.

Lemma ljust_length : forall w s, length (ljust w s) = Nat.max w (length s).
Proof. intros. unfold ljust. rewrite app_length, repeat_length. lia. Qed.

Lemma ljust_prefix : forall w s, firstn (length s) (ljust w s) = s.
Proof.
  intros. unfold ljust. rewrite firstn_app, Nat.sub_diag, firstn_all. cbn [firstn]. apply app_nil_r.
Qed.

(* the truncation never exceeds its bound when the two slices respect it *)
Lemma trunc_length : forall bound keep cut s,
  (keep <= bound)%nat -> (cut + 3 <= bound)%nat -> (length (trunc bound keep cut s) <= bound)%nat.
Proof.
  intros. unfold trunc. destruct (length s <=? bound)%nat eqn:E.
  - rewrite firstn_length. lia.
  - rewrite app_length, firstn_length. cbn [dots length]. lia.
Qed.

(* ... and keeps a string that fits unchanged *)
Lemma trunc_short : forall bound s, (length s <= bound)%nat -> trunc bound bound (bound - 3) s = s.
Proof.
  intros. unfold trunc. apply Nat.leb_le in H as H'. rewrite H'. apply firstn_all2. exact H.
Qed.

(* ... and otherwise shows the first [cut] characters followed by "..." *)
Lemma trunc_long : forall bound keep cut s, (bound < length s)%nat ->
  trunc bound keep cut s = firstn cut s ++ dots.
Proof.
  intros. unfold trunc. destruct (length s <=? bound)%nat eqn:E; [apply Nat.leb_le in E; lia | reflexivity].
Qed.

(* ---- format_total ---- *)
(* the full statement: formatting a record never raises, whichever of host / port / uid it carries,
   and the target column is at most 25 wide *)
Definition format_total_for (portfix : bool) : Prop :=
  forall x : extras, exists t, target portfix x = Some t /\ (length t <= 25)%nat.

Theorem format_total : format_total_for true.
Proof.
  intros [h p u]. unfold target, host_port. cbn [x_host x_port x_uid].
  destruct h as [h|]; [destruct p as [p|]|]; eexists; (split; [reflexivity|]);
    apply trunc_length; unfold target_keep, target_bound, target_cut; lia.
Qed.

(* the pinned commit raised AttributeError for a record with a host and no port *)
Theorem format_total_refuted_for_pinned : ~ format_total_for false.
Proof.
  intro H. destruct (H (mkX (Some [104]) None None)) as [t [E _]]. vm_compute in E. discriminate.
Qed.

(* ... and was total exactly outside that region *)
Theorem format_total_pinned_partial : forall x,
  (x_host x <> None -> x_port x <> None) ->
  exists t, target false x = Some t /\ (length t <= 25)%nat /\ target true x = Some t.
Proof.
  intros [h p u] Hp. unfold target, host_port. cbn [x_host x_port x_uid] in *.
  destruct h as [h|]; [destruct p as [p|]|].
  - eexists; repeat split. apply trunc_length; unfold target_keep, target_bound, target_cut; lia.
  - exfalso. apply Hp; [discriminate | reflexivity].
  - eexists; repeat split. apply trunc_length; unfold target_keep, target_bound, target_cut; lia.
Qed.

(* everything get_instance_logger can build is in that region *)
Lemma instance_extras_region : forall host port uid,
  x_host (instance_extras host port uid) <> None -> x_port (instance_extras host port uid) <> None.
Proof.
  intros host port uid. unfold instance_extras. cbn [x_host x_port].
  destruct host; [intro H; exfalso; apply H; reflexivity|].
  destruct (negb (port =? 0)); [discriminate | intro H; exfalso; apply H; reflexivity].
Qed.

Example instance_extras_nontrivial :
  target false (instance_extras [114; 49] 22 [117]) = Some [117; 58; 114; 49; 58; 50; 50]   (* "u:r1:22" *)
  /\ target false (instance_extras [] 22 []) = Some []
  /\ target true (mkX (Some [104]) None (Some [117])) = Some [117; 58; 104; 58].           (* "u:h:" *)
Proof. vm_compute. repeat split. Qed.

(* a target that fits in the column is shown in full: nothing is cut silently *)
Theorem target_exact_when_short : forall x hp,
  host_port true x = Some hp -> (length (uid_part x ++ hp) <= 25)%nat ->
  target true x = Some (uid_part x ++ hp).
Proof.
  intros x hp H L. unfold target. rewrite H. f_equal.
  change target_cut with (target_bound - 3)%nat. change target_keep with target_bound.
  apply trunc_short. exact L.
Qed.

Theorem target_long_is_marked : forall x hp,
  host_port true x = Some hp -> (25 < length (uid_part x ++ hp))%nat ->
  target true x = Some (firstn 22 (uid_part x ++ hp) ++ dots).
Proof.
  intros x hp H L. unfold target. rewrite H. f_equal. apply trunc_long. exact L.
Qed.

(* the record as a whole *)
Theorem format_record_total : forall c id m message,
  exists line, format_record true c id m message = Some line.
Proof.
  intros. unfold format_record. destruct (format_total (m_x m)) as [t [E _]]. rewrite E. eexists; reflexivity.
Qed.

(* the target column of a written line is exactly 25 wide *)
Theorem target_column_width : forall x t, target true x = Some t -> length (ljust 25 t) = 25%nat.
Proof.
  intros x t E. destruct (format_total x) as [t' [E' L]]. rewrite E in E'. injection E' as <-.
  rewrite ljust_length. lia.
Qed.

(* the message is written verbatim at the end of the line: the line is a prefix that does not depend
   on the message, followed by the message *)
Lemma render_message_last : forall ps v,
  (forall p, In p ps -> match p with Fld FMessage _ => False | _ => True end) ->
  forall msg, render (ps ++ [Fld FMessage 0]) (mkF (f_id v) (f_time v) (f_level v) (f_target v) (f_module v) (f_func v) (f_lineno v) msg)
              = render ps v ++ msg.
Proof.
  induction ps as [|p ps IH]; intros v Hn msg.
  - cbn. unfold ljust. cbn. rewrite !app_nil_r. reflexivity.
  - cbn [app render]. destruct p as [s|f w].
    + rewrite <- app_assoc. f_equal. apply IH. intros q Hq. apply Hn. right. exact Hq.
    + rewrite <- app_assoc. f_equal.
      * assert (Hf := Hn (Fld f w) (or_introl eq_refl)). destruct f; try reflexivity. contradiction.
      * apply IH. intros q Hq. apply Hn. right. exact Hq.
Qed.

Theorem line_ends_with_message : forall c id m t,
  exists pre, forall message, format_with c id m t message = pre ++ message.
Proof.
  intros c id m t.
  set (ct := fun s : str => if caller_info c then trunc caller_bound caller_keep caller_cut s else s).
  set (v := mkF (dec id) (m_time m) (m_level m) t (ct (m_module m)) (ct (m_func m)) (dec (m_lineno m)) []).
  assert (Hsplit : exists ps, the_fmt c = ps ++ [Fld FMessage 0] /\
            (forall p, In p ps -> match p with Fld FMessage _ => False | _ => True end)).
  { unfold the_fmt. destruct (caller_info c).
    - exists (removelast fmt_caller). split; [reflexivity|].
      intros p Hp. cbn in Hp. repeat (destruct Hp as [<-|Hp]; [exact I|]). contradiction.
    - exists (removelast fmt_plain). split; [reflexivity|].
      intros p Hp. cbn in Hp. repeat (destruct Hp as [<-|Hp]; [exact I|]). contradiction. }
  destruct Hsplit as [ps [Eps Hn]].
  destruct ((id =? 1) && log_header c) eqn:Eh.
  - exists (render (the_fmt c) (header_fields (length t)) ++ 10 :: render ps v).
    intro message. unfold format_with. fold ct. rewrite Eh.
    rewrite <- app_assoc. f_equal. cbn [app]. f_equal.
    rewrite Eps. exact (render_message_last ps v Hn message).
  - exists (render ps v). intro message. unfold format_with. fold ct. rewrite Eh.
    rewrite Eps. exact (render_message_last ps v Hn message).
Qed.

(* the header row goes out with the first message only *)
Theorem header_only_first : forall c id m t message, id <> 1 ->
  format_with c id m t message =
  render (the_fmt c)
    (mkF (dec id) (m_time m) (m_level m) t
         (if caller_info c then trunc caller_bound caller_keep caller_cut (m_module m) else m_module m)
         (if caller_info c then trunc caller_bound caller_keep caller_cut (m_func m) else m_func m)
         (dec (m_lineno m)) message).
Proof.
  intros. unfold format_with. apply N.eqb_neq in H. rewrite H. reflexivity.
Qed.

Example format_example :
  format_record true (mkFC false true) 1
    (mkM [84] [73; 78; 70; 79] (mkX (Some [104]) (Some [50; 50]) None) [109] [102] 7) [104; 105]
  = Some ([73;68;32;32;32;32;124;32] ++ h_time ++ [32;124;32;76;69;86;69;76;32;32;32;32;124;32] ++ ljust 25 h_target
          ++ [32;124;32;77;69;83;83;65;71;69;10]
          ++ [49;32;32;32;32;32;124;32;84;32;124;32;73;78;70;79;32;32;32;32;32;124;32] ++ ljust 25 [104;58;50;50]
          ++ [32;124;32;104;105]).
Proof. vm_compute. reflexivity. Qed.
