(* HostKey_Proofs.v — in strict mode no transport offers a credential to a server whose key is
   missing from / different to the known_hosts entry, for ALL scenarios; the system transport's
   argv always yields StrictHostKeyChecking=yes to ssh's first-value-wins option parser. *)
From Verif Require Import Bytes HostKey.
From Coq Require Import Lia.

(* ---------- bytes equality ---------- *)
Lemma hk_beq_refl : forall a, beq a a = true.
Proof. induction a as [|x a IH]; cbn [beq]; [reflexivity|]. rewrite N.eqb_refl, IH. reflexivity. Qed.

Lemma hk_beq_eq : forall a b, beq a b = true -> a = b.
Proof.
  induction a as [|x a IH]; destruct b as [|y b]; cbn [beq]; intro H; try discriminate; [reflexivity|].
  apply andb_true_iff in H. destruct H as [H1 H2]. apply N.eqb_eq in H1. subst. f_equal. apply IH; assumption.
Qed.

Lemma hk_beq_neq : forall a b, a <> b -> beq a b = false.
Proof. intros a b H. destruct (beq a b) eqn:E; [|reflexivity]. exfalso. apply H, hk_beq_eq, E. Qed.

(* key_bad is exactly "the entry is missing or differs from the server key" *)
Lemma key_bad_spec : forall s,
  key_bad s = true <-> (entry s = None \/ exists k, entry s = Some k /\ k <> skey s).
Proof.
  intro s. unfold key_bad. destruct (entry s) as [k|]; split; intro H.
  - right. exists k. split; [reflexivity|]. intro E. subst. rewrite hk_beq_refl in H. discriminate.
  - destruct H as [H|[k' [H1 H2]]]; [discriminate|]. inversion H1; subst. rewrite hk_beq_neq; auto.
  - left; reflexivity.
  - reflexivity.
Qed.

(* ---------- paramiko / ssh2 ---------- *)
Definition sock_lib (l : lib) : Prop := l = Paramiko \/ l = Ssh2.

Theorem no_offer_before_verify_sock : forall l s,
  sock_lib l -> strict s = true -> key_bad s = true ->
  no_offer (open_trace true l s) = true /\
  (handshake_ok s = true -> ends_with AuthenticationFailed (open_trace true l s) = true).
Proof.
  intros l s Hl Hs Hb.
  assert (open_trace true l s = open_sock l s) as -> by (destruct Hl; subst; reflexivity).
  unfold open_sock, verify_key, key_bad in *. rewrite Hs.
  destruct (handshake_ok s); cbn [negb].
  - destruct (entry s) as [k|].
    + destruct (beq k (skey s)); [discriminate|]. split; [reflexivity|intros _; reflexivity].
    + split; [reflexivity|intros _; reflexivity].
  - split; [reflexivity|discriminate].
Qed.

(* the [pass_kh] flag plays no role for these two transports: the pinned code is the same *)
Lemma open_trace_sock_pass : forall b l s, sock_lib l -> open_trace b l s = open_trace true l s.
Proof. intros b l s [H|H]; subst; reflexivity. Qed.

(* ---------- asyncssh ---------- *)
(* what the theorems need from asyncssh's own known_hosts matcher, for this scenario: when
   scrapli's lookup finds an entry, asyncssh trusts the server key only if it is that entry's *)
Definition agrees (s : scen) : Prop :=
  forall k, entry s = Some k -> libv s = Trusted -> k = skey s.

Theorem no_offer_before_verify_async : forall s,
  strict s = true -> key_bad s = true -> agrees s ->
  no_offer (open_trace true Asyncssh s) = true /\
  ends_with AuthenticationFailed (open_trace true Asyncssh s) = true.
Proof.
  intros s Hs Hb Ha. cbn [open_trace]. unfold open_async, connect_async. rewrite Hs. cbn [andb].
  unfold key_bad in Hb. destruct (entry s) as [k|] eqn:He; [|split; reflexivity].
  destruct (beq k (skey s)) eqn:Hk; [discriminate|].
  assert (libv s <> Trusted) as Hv.
  { intro Hv. specialize (Ha k He Hv). subst k. rewrite hk_beq_refl in Hk. discriminate. }
  destruct (handshake_ok s); cbn [negb]; [|split; reflexivity].
  destruct (libv s); [contradiction Hv; reflexivity| |]; split; reflexivity.
Qed.

(* the pinned commit (known_hosts=None): full statement, refutation, strongest partial *)
Definition async_pinned_full : Prop :=
  forall s, strict s = true -> key_bad s = true -> no_offer (open_trace false Asyncssh s) = true.

Definition pinned_witness : scen :=
  mkS true (Some [65;65;65;65]) [66;66;66;66] Untrusted true false true true false true false.

Theorem async_pinned_refuted : ~ async_pinned_full.
Proof. intro H. specialize (H pinned_witness eq_refl eq_refl). vm_compute in H. discriminate. Qed.

(* ... and what the witness looks like: the password goes out, then the value check fails *)
Example pinned_witness_trace :
  open_trace false Asyncssh pinned_witness =
  [CheckPresent; KeyExchange; Offer Password; CheckPresent; CheckValue; Fail AuthenticationFailed].
Proof. reflexivity. Qed.

Example pinned_witness_repaired :
  open_trace true Asyncssh pinned_witness = [CheckPresent; KeyExchange; LibVerify; Fail AuthenticationFailed].
Proof. reflexivity. Qed.

Theorem async_pinned_partial : forall s,
  strict s = true -> entry s = None ->
  no_offer (open_trace false Asyncssh s) = true /\
  ends_with AuthenticationFailed (open_trace false Asyncssh s) = true.
Proof. intros s Hs He. cbn [open_trace]. unfold open_async. rewrite Hs, He. split; reflexivity. Qed.

(* ---------- all three transports at once ---------- *)
Theorem no_offer_before_verify : forall l s,
  strict s = true -> key_bad s = true -> (l = Asyncssh -> agrees s) ->
  no_offer (open_trace true l s) = true /\
  (handshake_ok s = true -> ends_with AuthenticationFailed (open_trace true l s) = true).
Proof.
  intros l s Hs Hb Ha. destruct l.
  - apply no_offer_before_verify_sock; [left; reflexivity|assumption|assumption].
  - apply no_offer_before_verify_sock; [right; reflexivity|assumption|assumption].
  - destruct (no_offer_before_verify_async s Hs Hb (Ha eq_refl)) as [H1 H2]. split; [exact H1|intros _; exact H2].
Qed.

(* contrapositive: in strict mode a credential on the wire means the entry IS the server's key *)
Corollary offer_implies_key_matches : forall l s,
  strict s = true -> (l = Asyncssh -> agrees s) ->
  no_offer (open_trace true l s) = false -> entry s = Some (skey s).
Proof.
  intros l s Hs Ha Ho. destruct (key_bad s) eqn:Hb.
  - destruct (no_offer_before_verify l s Hs Hb Ha) as [H _]. rewrite H in Ho. discriminate.
  - unfold key_bad in Hb. destruct (entry s) as [k|]; [|discriminate].
    apply negb_false_iff, hk_beq_eq in Hb. subst. reflexivity.
Qed.

(* ordering proper: in strict mode the first Offer comes after a value check (scrapli's own for
   paramiko/ssh2, asyncssh's for asyncssh) — with no assumption on the library at all *)
Theorem verify_precedes_offer : forall l s,
  strict s = true -> verified_before_offer false (open_trace true l s) = true.
Proof.
  intros l s Hs. destruct l; cbn [open_trace].
  1,2: unfold open_sock, verify_key, authenticate, pw_phase; rewrite Hs;
       destruct (handshake_ok s); cbn [negb]; [|reflexivity];
       destruct (entry s) as [k|]; [|reflexivity];
       destruct (beq k (skey s)); [|reflexivity];
       destruct (has_key s), (key_ok s), (has_pw s), (has_user s), (pw_ok s), (kbd_ok s); reflexivity.
  unfold open_async, connect_async, lib_auth, verify_value_async. rewrite Hs. cbn [andb].
  destruct (entry s) as [k|]; [|reflexivity].
  destruct (handshake_ok s); cbn [negb]; [|reflexivity].
  destruct (libv s); [|reflexivity|reflexivity].
  destruct (has_key s), (key_ok s), (has_pw s), (pw_ok s), (beq k (skey s)); reflexivity.
Qed.

(* what the boolean observation means on the list *)
Lemma verified_before_offer_spec : forall t seen,
  verified_before_offer seen t = true ->
  forall t1 c t2, t = t1 ++ Offer c :: t2 -> no_offer t1 = true ->
  seen = true \/ In CheckValue t1 \/ In LibVerify t1.
Proof.
  induction t as [|e t IH]; intros seen H t1 c t2 E Hn.
  - destruct t1; discriminate.
  - destruct t1 as [|e1 t1].
    + cbn [app] in E. inversion E; subst. cbn [verified_before_offer] in H. left; exact H.
    + cbn [app] in E. inversion E; subst e1 t.
      assert (no_offer t1 = true) as Hn1.
      { unfold no_offer in *. cbn [existsb] in Hn. apply negb_true_iff in Hn. apply orb_false_iff in Hn.
        apply negb_true_iff. tauto. }
      destruct e; cbn [verified_before_offer] in H;
        try (destruct (IH _ H t1 c t2 eq_refl Hn1) as [X|[X|X]];
             [left; exact X|right; left; right; exact X|right; right; right; exact X]).
      * right; left; left; reflexivity.
      * right; right; left; reflexivity.
      * unfold no_offer in Hn. cbn [existsb is_offer orb negb] in Hn. discriminate.
Qed.

Corollary verify_precedes_offer_list : forall l s t1 c t2,
  strict s = true -> open_trace true l s = t1 ++ Offer c :: t2 -> no_offer t1 = true ->
  In CheckValue t1 \/ In LibVerify t1.
Proof.
  intros l s t1 c t2 Hs E Hn.
  destruct (verified_before_offer_spec _ _ (verify_precedes_offer l s Hs) t1 c t2 E Hn) as [X|X]; [discriminate|exact X].
Qed.

(* explicitly turned off means off: no lookup, no value check, the library is given nothing *)
Theorem nonstrict_skips_checks : forall l s,
  strict s = false -> existsb is_check (open_trace true l s) = false.
Proof.
  intros l s Hs. destruct l; cbn [open_trace].
  1,2: unfold open_sock, authenticate, pw_phase; rewrite Hs;
       destruct (handshake_ok s), (has_key s), (key_ok s), (has_pw s), (has_user s), (pw_ok s), (kbd_ok s); reflexivity.
  unfold open_async, connect_async, lib_auth. rewrite Hs. cbn [andb].
  destruct (handshake_ok s), (has_key s), (key_ok s), (has_pw s), (pw_ok s); reflexivity.
Qed.

(* not vacuous: with the right key (and a library that trusts it) the credentials do go out *)
Theorem right_key_offers : forall l s,
  strict s = true -> entry s = Some (skey s) -> libv s = Trusted -> handshake_ok s = true ->
  has_key s || has_pw s = true ->
  no_offer (open_trace true l s) = false.
Proof.
  intros l s Hs He Hv Hh Hc. destruct l; cbn [open_trace].
  1,2: unfold open_sock, verify_key, authenticate, pw_phase; rewrite Hs, Hh, He, hk_beq_refl; cbn [negb];
       destruct (has_key s), (key_ok s), (has_pw s), (has_user s), (pw_ok s), (kbd_ok s); reflexivity.
  unfold open_async, connect_async, lib_auth, verify_value_async. rewrite Hs, Hh, He, Hv, hk_beq_refl. cbn [andb negb].
  destruct (has_key s), (key_ok s), (has_pw s), (pw_ok s); try discriminate; reflexivity.
Qed.

(* premises are satisfiable by non-trivial scenarios *)
Example bad_key_scenario :
  let s := mkS true (Some [65;66]) [65;67] Untrusted true true true true true true true in
  strict s = true /\ key_bad s = true /\ agrees s /\ handshake_ok s = true /\
  open_trace true Paramiko s = [KeyExchange; CheckPresent; CheckValue; Fail AuthenticationFailed] /\
  open_trace true Asyncssh s = [CheckPresent; KeyExchange; LibVerify; Fail AuthenticationFailed].
Proof. cbv zeta. repeat split. intros k H1 H2. discriminate. Qed.

Example right_key_scenario :
  let s := mkS true (Some [65;66]) [65;66] Trusted true true true true false true false in
  open_trace true Ssh2 s = [KeyExchange; CheckPresent; CheckValue; Offer PrivateKey; Offer Password; Opened] /\
  open_trace true Asyncssh s =
    [CheckPresent; KeyExchange; LibVerify; Offer PrivateKey; Offer Password; CheckPresent; CheckValue; Opened].
Proof. split; reflexivity. Qed.

(* ---------- with SSHKnownHosts.lookup and asyncssh's matcher as section variables ---------- *)
Section WithLookup.
  Variables khfile host : Type.
  (* SSHKnownHosts(file).lookup(host): None for {}, Some public_key otherwise (KnownHosts.v, C16) *)
  Variable lookup : khfile -> host -> option bytes.
  (* asyncssh's decision for (file, host, server key) when it is handed the file *)
  Variable lib_verdict : khfile -> host -> bytes -> verdict.
  (* when scrapli's lookup finds an entry, asyncssh trusts at most that entry's key *)
  Hypothesis lib_agrees : forall f h k sk, lookup f h = Some k -> lib_verdict f h sk = Trusted -> k = sk.

  (* everything else of a scenario *)
  Record conf := mkC { c_strict : bool; c_handshake : bool; c_has_key : bool; c_has_pw : bool;
                       c_has_user : bool; c_key_ok : bool; c_pw_ok : bool; c_kbd_ok : bool }.

  Definition scen_of (f : khfile) (h : host) (sk : bytes) (c : conf) : scen :=
    mkS (c_strict c) (lookup f h) sk (lib_verdict f h sk) (c_handshake c) (c_has_key c) (c_has_pw c)
        (c_has_user c) (c_key_ok c) (c_pw_ok c) (c_kbd_ok c).

  Theorem strict_protects_credentials : forall l f h sk c,
    c_strict c = true ->
    (lookup f h = None \/ exists k, lookup f h = Some k /\ k <> sk) ->
    no_offer (open_trace true l (scen_of f h sk c)) = true /\
    (c_handshake c = true -> ends_with AuthenticationFailed (open_trace true l (scen_of f h sk c)) = true).
  Proof.
    intros l f h sk c Hs Hk. apply no_offer_before_verify.
    - exact Hs.
    - apply key_bad_spec. exact Hk.
    - intros _ k H1 H2. cbn [scen_of entry libv skey] in *. eapply lib_agrees; eassumption.
  Qed.

  Theorem strict_offer_only_to_known_key : forall l f h sk c,
    c_strict c = true -> no_offer (open_trace true l (scen_of f h sk c)) = false -> lookup f h = Some sk.
  Proof.
    intros l f h sk c Hs Ho.
    apply (offer_implies_key_matches l (scen_of f h sk c) Hs); [|exact Ho].
    intros _ k H1 H2. cbn [scen_of entry libv skey] in *. eapply lib_agrees; eassumption.
  Qed.
End WithLookup.

(* ------------------------------------------------------------------------------------------ *)
(* system transport                                                                            *)
(* ------------------------------------------------------------------------------------------ *)
Lemma first_o_operand : forall kw h r, host_ok h = true -> first_o kw false (h :: r) = first_o kw true r.
Proof.
  intros kw h r Hh. destruct h as [|c0 h]; [discriminate|]. cbn [host_ok] in Hh.
  cbn [first_o]. destruct h as [|c h]; [reflexivity|]. rewrite Hh. reflexivity.
Qed.

(* "-f" followed by its argument, f a flag that takes one and is not 'o' *)
Lemma first_o_flag_arg : forall kw dest f arg r,
  mem f flags_with_arg = true -> (f =? 111) = false -> (f =? 45) = false ->
  first_o kw dest ([45; f] :: arg :: r) = first_o kw dest r.
Proof.
  intros kw dest f arg r Hm Ho Hd. cbn [first_o]. change (45 =? 45) with true. cbn [negb].
  rewrite Hd. cbn [andb]. cbn [cluster]. rewrite Hm, Ho. reflexivity.
Qed.

Lemma first_o_o : forall kw dest arg r,
  first_o kw dest (s_o :: arg :: r) =
  match assigns kw arg with Some v => Some v | None => first_o kw dest r end.
Proof. intros. reflexivity. Qed.

Lemma first_o_p kw dest arg r : first_o kw dest (s_p :: arg :: r) = first_o kw dest r.
Proof. apply first_o_flag_arg; reflexivity. Qed.
Lemma first_o_i kw dest arg r : first_o kw dest (s_i :: arg :: r) = first_o kw dest r.
Proof. apply first_o_flag_arg; reflexivity. Qed.
Lemma first_o_l kw dest arg r : first_o kw dest (s_l :: arg :: r) = first_o kw dest r.
Proof. apply first_o_flag_arg; reflexivity. Qed.

Lemma assigns_strict_ct x : assigns kw_strict (s_ConnectTimeout ++ x) = None.
Proof. reflexivity. Qed.
Lemma assigns_strict_sa x : assigns kw_strict (s_ServerAlive ++ x) = None.
Proof. reflexivity. Qed.
Lemma assigns_ukhf_ct x : assigns kw_ukhf (s_ConnectTimeout ++ x) = None.
Proof. reflexivity. Qed.
Lemma assigns_ukhf_sa x : assigns kw_ukhf (s_ServerAlive ++ x) = None.
Proof. reflexivity. Qed.
Lemma assigns_strict_yes : assigns kw_strict (s_Strict ++ s_yes) = Some s_yes.
Proof. reflexivity. Qed.
Lemma assigns_strict_no : assigns kw_strict (s_Strict ++ s_no) = Some s_no.
Proof. reflexivity. Qed.
Lemma assigns_ukhf_strict x : assigns kw_ukhf (s_Strict ++ x) = None.
Proof. reflexivity. Qed.
Lemma assigns_ukhf_path p : path_ok p = true -> assigns kw_ukhf (s_UKHF ++ p) = Some p.
Proof.
  intro H. destruct p as [|c p]; [discriminate|]. cbn [path_ok] in H. apply negb_true_iff in H.
  change (assigns kw_ukhf (s_UKHF ++ c :: p)) with (Some (lstrip_sep (c :: p))).
  cbn [lstrip_sep]. rewrite H. reflexivity.
Qed.

(* the words before the host-key options never set [kw], whatever host, port, key, user are *)
Lemma head_skipped : forall kw a rest,
  host_ok (a_host a) = true ->
  (forall x, assigns kw (s_ConnectTimeout ++ x) = None) ->
  (forall x, assigns kw (s_ServerAlive ++ x) = None) ->
  first_o kw false (tl (argv_head a ++ rest)) = first_o kw true rest.
Proof.
  intros kw a rest Hh H1 H2. unfold argv_head. cbn [app tl].
  rewrite first_o_operand by exact Hh.
  rewrite first_o_p, first_o_o, H1, first_o_o, H2.
  destruct (nonempty_s (a_key a)); destruct (nonempty_s (a_user a)); cbn [app];
    rewrite ?first_o_i, ?first_o_l; reflexivity.
Qed.

(* strict (anything but an explicit False): ssh uses StrictHostKeyChecking=yes, whatever the
   user's extra open_cmd words, the key path, the user name, the config file are *)
Theorem system_strict_effective : forall a,
  a_strict a = true -> host_ok (a_host a) = true ->
  effective kw_strict (build_open_cmd a) = Some s_yes.
Proof.
  intros a Hs Hh. unfold effective, build_open_cmd.
  rewrite head_skipped; [|exact Hh|exact assigns_strict_ct|exact assigns_strict_sa].
  unfold argv_hostkey. rewrite Hs. cbn [negb app]. rewrite first_o_o, assigns_strict_yes. reflexivity.
Qed.

(* ... and the known-hosts file ssh uses is the one scrapli resolved *)
Theorem system_known_hosts_effective : forall a p,
  a_strict a = true -> host_ok (a_host a) = true -> a_known a = FPath p -> path_ok p = true ->
  effective kw_ukhf (build_open_cmd a) = Some p.
Proof.
  intros a p Hs Hh Hk Hp. unfold effective, build_open_cmd.
  rewrite head_skipped; [|exact Hh|exact assigns_ukhf_ct|exact assigns_ukhf_sa].
  unfold argv_hostkey. rewrite Hs, Hk. cbn [negb app].
  rewrite first_o_o, assigns_ukhf_strict, first_o_o, assigns_ukhf_path by exact Hp. reflexivity.
Qed.

(* explicitly off: that is what ssh is told *)
Theorem system_off_effective : forall a,
  a_strict a = false -> host_ok (a_host a) = true ->
  effective kw_strict (build_open_cmd a) = Some s_no.
Proof.
  intros a Hs Hh. unfold effective, build_open_cmd.
  rewrite head_skipped; [|exact Hh|exact assigns_strict_ct|exact assigns_strict_sa].
  unfold argv_hostkey. rewrite Hs. cbn [negb app]. rewrite first_o_o, assigns_strict_no. reflexivity.
Qed.

(* checking is off for ssh only if it was explicitly turned off *)
Corollary system_no_only_when_false : forall a,
  host_ok (a_host a) = true -> effective kw_strict (build_open_cmd a) <> Some s_yes -> a_strict a = false.
Proof.
  intros a Hh H. destruct (a_strict a) eqn:Hs; [|reflexivity].
  exfalso. apply H. apply system_strict_effective; assumption.
Qed.

(* a user open_cmd that tries to switch checking off comes too late *)
Example user_option_does_not_override :
  let a := mkA [114;49] [50;50] [49;53] [51;48] [] [117] true (FPath [47;107;104]) FNone
               [s_o; s_Strict ++ s_no; s_o; s_UKHF ++ s_devnull] in
  host_ok (a_host a) = true /\
  effective kw_strict (build_open_cmd a) = Some s_yes /\ effective kw_ukhf (build_open_cmd a) = Some [47;107;104].
Proof. cbv zeta. repeat split. Qed.

(* why host_ok is a premise: a "host" that starts with '-' is read by ssh as an option (and ssh
   then has no destination at all) — C17's region *)
Example dash_host_is_an_option :
  effective kw_strict (build_open_cmd (mkA (s_o ++ s_Strict ++ s_no) [50;50] [49;53] [51;48] [] [] true FNone FNone []))
  = Some s_no.
Proof. reflexivity. Qed.

(* ------------------------------------------------------------------------------------------ *)
(* one transport object over time (open, close, open again ...)                                *)
(* ------------------------------------------------------------------------------------------ *)
(* invariant: whatever state the object is in, an open() of the transports as written produces the
   events of a first open in the same scenario — nothing remembered from an earlier handshake
   takes part in the check *)
Lemma run_history_in : forall b l h st s tr,
  In (s, tr) (run_history (step_open b l) st h) -> tr = open_trace b l s /\ In (HOpen s) h.
Proof.
  induction h as [|x h IH]; intros st s tr H; [contradiction|].
  destruct x as [s0|]; cbn [run_history step_open] in H.
  - destruct H as [H|H].
    + inversion H; subst. split; [reflexivity|left; reflexivity].
    + destruct (IH _ _ _ H) as [H1 H2]. split; [exact H1|right; exact H2].
  - destruct (IH _ _ _ H) as [H1 H2]. split; [exact H1|right; exact H2].
Qed.

Theorem history_independent : forall b l h st,
  run_history (step_open b l) st h = map (fun s => (s, open_trace b l s)) (opens h).
Proof.
  induction h as [|x h IH]; intro st; [reflexivity|].
  destruct x as [s0|]; cbn [run_history step_open opens map]; [f_equal|]; apply IH.
Qed.

(* the per-open guarantee, for every history and every state the object starts in: an open in
   strict mode whose presented key is missing from / different to the entry as it is at that
   open offers nothing and (after a key exchange) ends in ScrapliAuthenticationFailed *)
Theorem history_protects : forall l h st s tr,
  In (s, tr) (run_history (step_open true l) st h) ->
  strict s = true -> key_bad s = true -> (l = Asyncssh -> agrees s) ->
  no_offer tr = true /\ (handshake_ok s = true -> ends_with AuthenticationFailed tr = true).
Proof.
  intros l h st s tr H Hs Hb Ha. destruct (run_history_in _ _ _ _ _ _ H) as [-> _].
  apply no_offer_before_verify; assumption.
Qed.

(* ... and whenever something is offered in strict mode, the entry at that open is the key
   presented at that open *)
Corollary history_offer_only_to_known_key : forall l h st s tr,
  In (s, tr) (run_history (step_open true l) st h) ->
  strict s = true -> (l = Asyncssh -> agrees s) -> no_offer tr = false -> entry s = Some (skey s).
Proof.
  intros l h st s tr H Hs Ha Ho. destruct (run_history_in _ _ _ _ _ _ H) as [-> _].
  eapply offer_implies_key_matches; eassumption.
Qed.

(* the statement is about histories, not about single opens: it is false of a transport that keeps
   the server key on the object.  genuine server, close, another server at the same address *)
Definition hist_full (f : stepfn) : Prop :=
  forall h s tr, In (s, tr) (run_history f t_init h) -> strict s = true -> key_bad s = true -> libv s <> Trusted ->
                 no_offer tr = true.

Definition swap_good : scen := mkS true (Some [65;65;65;65]) [65;65;65;65] Trusted true false true true false true false.
Definition swap_bad : scen := mkS true (Some [65;65;65;65]) [66;66;66;66] Untrusted true false true true false true false.
Definition swap_history : list hstep := [HOpen swap_good; HClose; HOpen swap_bad].

Theorem first_seen_refuted : ~ hist_full (step_open_first_seen Paramiko).
Proof.
  intro H.
  specialize (H swap_history swap_bad
    [KeyExchange; CheckPresent; CheckValue; Offer Password; Opened]).
  assert (X : no_offer [KeyExchange; CheckPresent; CheckValue; Offer Password; Opened] = true).
  { apply H; [right; left; reflexivity|reflexivity|reflexivity|discriminate]. }
  discriminate X.
Qed.

Theorem prev_seen_refuted : ~ hist_full (step_open_prev_seen Paramiko).
Proof.
  intro H.
  specialize (H swap_history swap_bad
    [KeyExchange; CheckPresent; CheckValue; Offer Password; Opened]).
  assert (X : no_offer [KeyExchange; CheckPresent; CheckValue; Offer Password; Opened] = true).
  { apply H; [right; left; reflexivity|reflexivity|reflexivity|discriminate]. }
  discriminate X.
Qed.

(* the same history on the transports as written: the second open stops at the value check *)
Example swap_history_as_written :
  map snd (run_history (step_open true Paramiko) t_init swap_history) =
  [[KeyExchange; CheckPresent; CheckValue; Offer Password; Opened];
   [KeyExchange; CheckPresent; CheckValue; Fail AuthenticationFailed]] /\
  map snd (run_history (step_open true Asyncssh) t_init swap_history) =
  [[CheckPresent; KeyExchange; LibVerify; Offer Password; CheckPresent; CheckValue; Opened];
   [CheckPresent; KeyExchange; LibVerify; Fail AuthenticationFailed]].
Proof. split; reflexivity. Qed.

Theorem hist_full_as_written : forall l, hist_full (step_open true l).
Proof.
  intros l h s tr H Hs Hb Hv. eapply history_protects; try eassumption.
  intros _ k _ Ht. contradiction.
Qed.

(* with SSHKnownHosts.lookup and asyncssh's matcher as parameters: a history of (known_hosts file as
   it is at that open, key presented at that open, rest of the scenario) *)
Section HistoryWithLookup.
  Variables khfile host : Type.
  Variable lookup : khfile -> host -> option bytes.
  Variable lib_verdict : khfile -> host -> bytes -> verdict.
  Hypothesis lib_agrees : forall f h k sk, lookup f h = Some k -> lib_verdict f h sk = Trusted -> k = sk.

  Definition hist_of (h : host) (w : list (khfile * bytes * conf)) : list hstep :=
    flat_map (fun x => let '(f, sk, c) := x in [HOpen (scen_of khfile host lookup lib_verdict f h sk c); HClose]) w.

  Lemma hist_of_in : forall h w s, In (HOpen s) (hist_of h w) ->
    exists f sk c, In (f, sk, c) w /\ s = scen_of khfile host lookup lib_verdict f h sk c.
  Proof.
    induction w as [|[[f sk] c] w IH]; intros s H; [contradiction|].
    cbn [hist_of flat_map app] in H. destruct H as [H|[H|H]].
    - inversion H. exists f, sk, c. split; [left; reflexivity|reflexivity].
    - discriminate.
    - destruct (IH s H) as [f' [sk' [c' [H1 H2]]]]. exists f', sk', c'. split; [right; exact H1|exact H2].
  Qed.

  Theorem history_strict_protects_credentials : forall l h w st s tr,
    In (s, tr) (run_history (step_open true l) st (hist_of h w)) ->
    exists f sk c, In (f, sk, c) w /\ s = scen_of khfile host lookup lib_verdict f h sk c /\
      (c_strict c = true ->
       (lookup f h = None \/ exists k, lookup f h = Some k /\ k <> sk) ->
       no_offer tr = true /\ (c_handshake c = true -> ends_with AuthenticationFailed tr = true)).
  Proof.
    intros l h w st s tr H. destruct (run_history_in _ _ _ _ _ _ H) as [Htr Hin].
    destruct (hist_of_in _ _ _ Hin) as [f [sk [c [H1 H2]]]]. exists f, sk, c.
    split; [exact H1|split; [exact H2|]]. intros Hs Hk. subst s tr.
    apply (strict_protects_credentials khfile host lookup lib_verdict lib_agrees); assumption.
  Qed.
End HistoryWithLookup.

(* ---------- system transport: every open of one object ---------- *)
Lemma build_open_cmd_not_nil : forall a, is_nil (build_open_cmd a) = false.
Proof. intro a. reflexivity. Qed.

Lemma sys_history_same : forall a n cache,
  cache = [] \/ cache = build_open_cmd a ->
  forall argv, In argv (sys_history cache a n) -> argv = build_open_cmd a.
Proof.
  induction n as [|n IH]; intros cache Hc argv H; [contradiction|].
  cbn [sys_history] in H.
  assert (sys_open cache a = build_open_cmd a) as E.
  { unfold sys_open. destruct Hc as [->| ->]; [reflexivity|]. rewrite build_open_cmd_not_nil. reflexivity. }
  rewrite E in H. destruct H as [H|H]; [symmetry; exact H|].
  apply (IH (build_open_cmd a)); [right; reflexivity|exact H].
Qed.

Theorem sys_history_strict : forall a n argv,
  a_strict a = true -> host_ok (a_host a) = true -> In argv (sys_history [] a n) ->
  effective kw_strict argv = Some s_yes.
Proof.
  intros a n argv Hs Hh H. rewrite (sys_history_same a n [] (or_introl eq_refl) argv H).
  apply system_strict_effective; assumption.
Qed.

Theorem sys_history_known_hosts : forall a n argv p,
  a_strict a = true -> host_ok (a_host a) = true -> a_known a = FPath p -> path_ok p = true ->
  In argv (sys_history [] a n) -> effective kw_ukhf argv = Some p.
Proof.
  intros a n argv p Hs Hh Hk Hp H. rewrite (sys_history_same a n [] (or_introl eq_refl) argv H).
  apply system_known_hosts_effective; assumption.
Qed.

(* ---------- the known_hosts file over time: a memo of an earlier read ---------- *)
(* a memo is sound when what it holds is what the content it was read from gives *)
Definition memo_sound (lookup_text : bytes -> option bytes) (m : kmemo) : Prop :=
  match m with None => True | Some (v0, e0) => e0 = lookup_text (v_text v0) end.

(* the events of every open are those of the entry that the content AT THAT OPEN gives *)
Definition memo_spec (lookup_text : bytes -> option bytes) (l : lib) (h : list (khver * scen)) : list (scen * list event) :=
  map (fun x => (with_entry (snd x) (lookup_text (v_text (fst x))),
                 open_trace true l (with_entry (snd x) (lookup_text (v_text (fst x)))))) h.

Lemma memo_lookup_sound : forall lookup_text reuse,
  (forall a b, reuse a b = true -> v_text a = v_text b) ->
  forall m v, memo_sound lookup_text m ->
    fst (memo_lookup lookup_text reuse m v) = lookup_text (v_text v) /\
    memo_sound lookup_text (snd (memo_lookup lookup_text reuse m v)).
Proof.
  intros lookup_text reuse Hk m v Hm. unfold memo_lookup.
  destruct m as [[v0 e0]|]; [|split; reflexivity].
  destruct (reuse v0 v) eqn:Hr; [|split; reflexivity].
  cbn [fst snd]. cbn [memo_sound] in Hm. split; [|exact Hm].
  rewrite Hm, (Hk _ _ Hr). reflexivity.
Qed.

(* transparency: a memo that is reused only for the same CONTENT cannot be told from reading the file
   at every open — from any sound memo state, for every history of versions and scenarios *)
Theorem memo_transparent : forall lookup_text reuse,
  (forall a b, reuse a b = true -> v_text a = v_text b) ->
  forall l h m, memo_sound lookup_text m ->
    run_memo lookup_text reuse l m h = memo_spec lookup_text l h.
Proof.
  intros lookup_text reuse Hk l. induction h as [|[v s] h IH]; intros m Hm; [reflexivity|].
  cbn [run_memo memo_spec map fst snd].
  destruct (memo_lookup_sound lookup_text reuse Hk m v Hm) as [H1 H2].
  rewrite H1. f_equal. apply IH. exact H2.
Qed.

Lemma reuse_never_content : forall a b, reuse_never a b = true -> v_text a = v_text b.
Proof. intros a b H. discriminate H. Qed.

Lemma reuse_same_text_content : forall a b, reuse_same_text a b = true -> v_text a = v_text b.
Proof. intros a b H. apply hk_beq_eq. exact H. Qed.

(* hence the per-open guarantee with the content of that open deciding *)
Theorem memo_history_protects : forall lookup_text reuse,
  (forall a b, reuse a b = true -> v_text a = v_text b) ->
  forall l h m s tr, memo_sound lookup_text m ->
    In (s, tr) (run_memo lookup_text reuse l m h) ->
    strict s = true -> key_bad s = true -> (l = Asyncssh -> agrees s) ->
    no_offer tr = true /\ (handshake_ok s = true -> ends_with AuthenticationFailed tr = true).
Proof.
  intros lookup_text reuse Hk l h m s tr Hm Hin Hs Hb Ha.
  rewrite (memo_transparent lookup_text reuse Hk l h m Hm) in Hin. unfold memo_spec in Hin.
  apply in_map_iff in Hin. destruct Hin as [[v s0] [E _]]. cbn [fst snd] in E. inversion E; subst.
  apply no_offer_before_verify; assumption.
Qed.

(* the full statement for a reader with reuse test [reuse], starting with no memo *)
Definition memo_full (reuse : khver -> khver -> bool) : Prop :=
  forall lookup_text l h s tr,
    In (s, tr) (run_memo lookup_text reuse l None h) ->
    strict s = true -> key_bad s = true -> libv s <> Trusted -> no_offer tr = true.

Theorem memo_full_never : memo_full reuse_never.
Proof.
  intros lookup_text l h s tr Hin Hs Hb Hv.
  eapply (memo_history_protects lookup_text reuse_never reuse_never_content l h None s tr I Hin Hs Hb).
  intros _ k _ Ht. contradiction.
Qed.

Theorem memo_full_same_text : memo_full reuse_same_text.
Proof.
  intros lookup_text l h s tr Hin Hs Hb Hv.
  eapply (memo_history_protects lookup_text reuse_same_text reuse_same_text_content l h None s tr I Hin Hs Hb).
  intros _ k _ Ht. contradiction.
Qed.

(* refuted when the memo is revalidated by the modification time (and the size): the entry is
   replaced by a key of the same length while the time stays; the server still presents the old key *)
Definition memo_rest : scen := mkS true None [65;65;65;65] Untrusted true false true true false true false.
Definition memo_edit : list (khver * scen) := [(mkV 7 [65;65;65;65], memo_rest); (mkV 7 [66;66;66;66], memo_rest)].

Theorem memo_same_stamp_refuted : ~ memo_full reuse_same_stamp /\ ~ memo_full reuse_same_stamp_size.
Proof.
  split; intro H;
    specialize (H (fun t => Some t) Paramiko memo_edit (with_entry memo_rest (Some [66;66;66;66]))
                  [KeyExchange; CheckPresent; CheckValue; Offer Password; Opened]);
    assert (X : no_offer [KeyExchange; CheckPresent; CheckValue; Offer Password; Opened] = true)
      by (apply H; [right; left; reflexivity|reflexivity|reflexivity|discriminate]);
    discriminate X.
Qed.

(* the same edit read at every open / under a content test: the second open stops at the value check *)
Example memo_edit_as_written :
  map snd (run_memo (fun t => Some t) reuse_never Paramiko None memo_edit) =
  [[KeyExchange; CheckPresent; CheckValue; Offer Password; Opened];
   [KeyExchange; CheckPresent; CheckValue; Fail AuthenticationFailed]] /\
  map snd (run_memo (fun t => Some t) reuse_same_text Paramiko None memo_edit) =
  map snd (run_memo (fun t => Some t) reuse_never Paramiko None memo_edit) /\
  map snd (run_memo (fun t => Some t) reuse_same_stamp Paramiko None memo_edit) =
  [[KeyExchange; CheckPresent; CheckValue; Offer Password; Opened];
   [KeyExchange; CheckPresent; CheckValue; Offer Password; Opened]].
Proof. repeat split; reflexivity. Qed.

(* ---------- asyncssh without the hypothesis on its matcher ---------- *)
(* the statement for the asyncssh transport with NO assumption on what asyncssh trusts is false: asyncssh
   matches entries by the dialled name OR the peer address, so with another key under the name and the
   server's key under the address it reports Trusted, authenticates inside connect(), and scrapli's
   comparison with the name's entry comes afterwards (listed finding c10-asyncssh-peer-address-entry).
   The strongest true statement is no_offer_before_verify_async, whose extra hypothesis [agrees] is
   exactly the negation of that region. *)
Definition async_unconditional_full : Prop :=
  forall s, strict s = true -> key_bad s = true -> no_offer (open_trace true Asyncssh s) = true.

Definition peer_address_witness : scen :=
  mkS true (Some [66;66;66;66]) [65;65;65;65] Trusted true false true true false true false.

Theorem async_unconditional_refuted : ~ async_unconditional_full.
Proof.
  intro H. specialize (H peer_address_witness eq_refl eq_refl). discriminate H.
Qed.

Example peer_address_witness_trace :
  open_trace true Asyncssh peer_address_witness =
  [CheckPresent; KeyExchange; LibVerify; Offer Password; CheckPresent; CheckValue; Fail AuthenticationFailed] /\
  ~ agrees peer_address_witness.
Proof.
  split; [reflexivity|]. intro H. specialize (H [66;66;66;66] eq_refl eq_refl). discriminate H.
Qed.

(* ---------- known_hosts MARKER lines: never a trust entry ---------- *)
Lemma lookup_lines_in : forall rd first ls k,
  lookup_lines rd first ls = Some k ->
  exists l, In l ls /\ selected rd l = true /\ l_hit l = true /\ l_key l = k.
Proof.
  intros rd first ls k H. unfold lookup_lines in H.
  assert (exists l, In l (hits rd ls) /\ l_key l = k) as [l [Hin Hk]].
  { destruct first.
    - destruct (hits rd ls) as [|l r]; [discriminate|]. inversion H. exists l. split; [left; reflexivity|reflexivity].
    - destruct (rev (hits rd ls)) as [|l r] eqn:E; [discriminate|]. inversion H. exists l.
      split; [|reflexivity]. apply in_rev. rewrite E. left. reflexivity. }
  unfold hits in Hin. apply filter_In in Hin. destruct Hin as [Hin Hs].
  apply andb_true_iff in Hs. destruct Hs as [Hs Hh]. exists l. repeat split; assumption.
Qed.

(* a reader that does not strip markers never returns a key that only marker lines (or lines of other hosts)
   carry: the lookup result is missing or another key *)
Theorem marker_lines_never_the_entry : forall rd first ls sk,
  r_marker_blind rd = false -> plain_entry_has ls sk = false ->
  lookup_lines rd first ls = None \/ exists k, lookup_lines rd first ls = Some k /\ k <> sk.
Proof.
  intros rd first ls sk Hb Hp. destruct (lookup_lines rd first ls) as [k|] eqn:E; [|left; reflexivity].
  right. exists k. split; [reflexivity|]. intro Hk. subst k.
  destruct (lookup_lines_in _ _ _ _ E) as [l [Hin [Hs [Hh Hk]]]].
  unfold selected in Hs. rewrite Hb in Hs. cbn [orb] in Hs. apply andb_true_iff in Hs. destruct Hs as [Hm _].
  assert (plain_entry_has ls sk = true) as C.
  { unfold plain_entry_has. apply existsb_exists. exists l. split; [exact Hin|].
    rewrite Hm, Hh, Hk, hk_beq_refl. reflexivity. }
  rewrite C in Hp. discriminate.
Qed.

(* hence: strict mode, the presented key is on no NON-marker line for the host (revoked for it, a certificate
   authority for it, listed for other hosts only, or nowhere) => nothing is offered *)
Theorem marker_protects_credentials : forall rd first ls l s,
  r_marker_blind rd = false -> strict s = true -> entry s = lookup_lines rd first ls ->
  plain_entry_has ls (skey s) = false -> (l = Asyncssh -> agrees s) ->
  no_offer (open_trace true l s) = true /\
  (handshake_ok s = true -> ends_with AuthenticationFailed (open_trace true l s) = true).
Proof.
  intros rd first ls l s Hb Hs He Hp Ha. apply no_offer_before_verify; [exact Hs| |exact Ha].
  apply key_bad_spec. rewrite He. apply marker_lines_never_the_entry; assumption.
Qed.

(* the statement for a reader [rd] (paramiko; no library matcher involved) *)
Definition marker_full (rd : reader) : Prop :=
  forall first ls s, strict s = true -> entry s = lookup_lines rd first ls ->
    plain_entry_has ls (skey s) = false -> no_offer (open_trace true Paramiko s) = true.

Theorem marker_full_as_written : marker_full reader_as_written /\ marker_full (mkR false true).
Proof.
  split; intros first ls s Hs He Hp.
  - apply (marker_protects_credentials reader_as_written first ls Paramiko s eq_refl Hs He Hp); intro H; discriminate H.
  - apply (marker_protects_credentials (mkR false true) first ls Paramiko s eq_refl Hs He Hp); intro H; discriminate H.
Qed.

(* refuted for a reader that strips the marker and files the rest as an entry: "@revoked host K", the server
   presents K, the password goes out *)
Definition revoked_witness_lines : list khline := [mkL MRevoked false true [75;75;75;75]].
Definition revoked_witness (rd : reader) : scen :=
  mkS true (lookup_lines rd false revoked_witness_lines) [75;75;75;75] Untrusted true false true true false true false.

Theorem marker_blind_refuted : ~ marker_full (mkR true false) /\ ~ marker_full (mkR true true).
Proof.
  split; intro H.
  - specialize (H false revoked_witness_lines (revoked_witness (mkR true false)) eq_refl eq_refl eq_refl). discriminate H.
  - specialize (H false revoked_witness_lines (revoked_witness (mkR true true)) eq_refl eq_refl eq_refl). discriminate H.
Qed.

(* the premises are satisfiable by non-trivial files: key rotation (new key trusted, old key revoked), the server
   presents the OLD key / the NEW key *)
Example rotation_old_key :
  let ls := [mkL MPlain false true [78;78]; mkL MRevoked false true [79;79]; mkL MCertAuthority true true [79;79];
             mkL MPlain false false [79;79]] in
  plain_entry_has ls [79;79] = false /\ lookup_lines reader_as_written false ls = Some [78;78] /\
  lookup_lines (mkR true false) false ls = Some [79;79] /\ lookup_lines (mkR true true) false ls = Some [79;79] /\
  plain_entry_has ls [78;78] = true /\
  open_trace true Paramiko (mkS true (lookup_lines reader_as_written false ls) [79;79] Untrusted true false true true false true false)
    = [KeyExchange; CheckPresent; CheckValue; Fail AuthenticationFailed] /\
  open_trace true Paramiko (mkS true (lookup_lines (mkR true false) false ls) [79;79] Untrusted true false true true false true false)
    = [KeyExchange; CheckPresent; CheckValue; Offer Password; Opened].
Proof. cbv zeta. repeat split. Qed.
