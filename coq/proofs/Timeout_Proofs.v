(* Timeout_Proofs.v — theorems about model/Timeout.v (C07). *)
From Verif Require Import Bytes Timeout.
From Coq Require Import Lia.

Ltac nb :=
  repeat match goal with
  | H : (_ <? _) = true |- _ => apply N.ltb_lt in H
  | H : (_ <? _) = false |- _ => apply N.ltb_ge in H
  | H : (_ <=? _) = true |- _ => apply N.leb_le in H
  | H : (_ <=? _) = false |- _ => apply N.leb_gt in H
  | H : (_ =? _) = true |- _ => apply N.eqb_eq in H
  | H : (_ =? _) = false |- _ => apply N.eqb_neq in H
  end.

Lemma ltb_t a b : a < b -> (a <? b) = true. Proof. intro; apply N.ltb_lt; lia. Qed.
Lemma ltb_f a b : b <= a -> (a <? b) = false. Proof. intro; apply N.ltb_ge; lia. Qed.
Lemma leb_t a b : a <= b -> (a <=? b) = true. Proof. intro; apply N.leb_le; lia. Qed.
Lemma leb_f a b : b < a -> (a <=? b) = false. Proof. intro; apply N.leb_gt; lia. Qed.
Lemma eqb_f a b : a <> b -> (a =? b) = false. Proof. intro; apply N.eqb_neq; lia. Qed.

(* ---------------- mechanism selection ---------------- *)
Lemma select_mech_coroutine tc cls w mt : select_mech tc true cls w mt = MAsync.
Proof. reflexivity. Qed.

Lemma select_mech_signal_iff tc cls w mt :
  select_mech tc false cls w mt = MSignal <->
  (existsb (beq cls) tc = false /\ w = false /\ mt = true).
Proof.
  unfold select_mech. destruct (existsb (beq cls) tc), w, mt; cbn; split; intros H;
    try discriminate; try (destruct H as (A & B & C); discriminate); auto.
Qed.

Lemma select_mech_sync_not_async tc cls w mt : select_mech tc false cls w mt <> MAsync.
Proof. unfold select_mech. destruct (existsb (beq cls) tc || w || negb mt); discriminate. Qed.

(* the decorated transport read inside a decorated channel operation gets the same mechanism *)
Lemma inner_same_mech tc coro cls w mt :
  let m := select_mech tc coro cls w mt in
  select_mech tc coro cls w (inner_main_thread m mt) = m.
Proof.
  unfold select_mech, inner_main_thread. destruct coro; [reflexivity|].
  destruct (existsb (beq cls) tc), w, mt; reflexivity.
Qed.

(* ---------------- the message map ---------------- *)
Lemma timeout_message_hit m d k v : lookup m k = Some v -> timeout_message m d k = v.
Proof. unfold timeout_message. intros ->. reflexivity. Qed.
Lemma timeout_message_miss m d k : lookup m k = None -> timeout_message m d k = d.
Proof. unfold timeout_message. intros ->. reflexivity. Qed.

(* ---------------- no limit: the body runs as it is ---------------- *)
Lemma plain_seq_no_timeout ls : forall s v msg, out (plain_seq ls s v) <> Raised (ETimeout msg).
Proof.
  induction ls as [|l r IH]; intros s v msg; cbn [plain_seq]; [discriminate|].
  destruct (negb (topen s)); [discriminate|].
  destruct l; cbn [leaf_fin]; try discriminate; try apply IH.
Qed.

Lemma plain_seq_stall pre l post s v :
  all_ret pre = true -> is_stall l = true -> topen s = true ->
  out (plain_seq (pre ++ l :: post) s v) = Hang.
Proof.
  revert s v. induction pre as [|p pre IH]; intros s v Hp Hl Ho; cbn [app plain_seq].
  - rewrite Ho. cbn. destruct l; try discriminate; reflexivity.
  - rewrite Ho. cbn [negb]. destruct p; try discriminate. cbn [leaf_fin]. apply IH; auto.
Qed.

Lemma alarm_set_now t s : alarm (set_now t s) = alarm s.
Proof. reflexivity. Qed.

Lemma sig_seq_plain nt ls : forall s v,
  alarm s = None ->
  out (sig_seq (sig_leaf nt) ls s v) = out (plain_seq ls s v) /\
  (out (plain_seq ls s v) <> Hang -> rst (sig_seq (sig_leaf nt) ls s v) = rst (plain_seq ls s v)).
Proof.
  induction ls as [|l r IH]; intros s v Ha; cbn [sig_seq plain_seq]; [split; reflexivity|].
  unfold sig_leaf. rewrite Ha. destruct (negb (topen s)); cbn [out rst]; [split; reflexivity|].
  destruct (leaf_fin l (now s) None) as [[f o]|]; cbn [out rst]; [|split; [reflexivity|congruence]].
  destruct o; cbn [out rst]; try (split; reflexivity).
  apply IH. rewrite alarm_set_now. exact Ha.
Qed.

Lemma sig_seq_ext f g ls : (forall l s, f l s = g l s) -> forall s v, sig_seq f ls s v = sig_seq g ls s v.
Proof.
  intros E. induction ls as [|l r IH]; intros s v; cbn [sig_seq]; [reflexivity|].
  rewrite E. destruct (out (g l s)); auto.
Qed.

Definition zero_spec (r : result) (ls : list leaf) (s : pstate) : Prop :=
  out r = out (plain_seq ls s 0) /\ (out (plain_seq ls s 0) <> Hang -> rst r = rst (plain_seq ls s 0)).

Lemma set_now_id s : set_now (now s) s = s.
Proof. destruct s; reflexivity. Qed.
Lemma set_open_id s : set_open (topen s) s = s.
Proof. destruct s; reflexivity. Qed.

Lemma sig_wrap_zero rearm nt m body s : sig_wrap rearm nt 0 m body s = body s.
Proof. reflexivity. Qed.

Lemma sig_op_zero rearm nt mo wrapped Ti mi locked ls s :
  (wrapped = false \/ Ti = 0) -> alarm s = None ->
  zero_spec (sig_op rearm nt 0 mo wrapped Ti mi locked ls s) ls s.
Proof.
  intros Hw Ha. unfold sig_op, zero_spec.
  rewrite !sig_wrap_zero.
  assert (Hs : forall l s', (if wrapped then sig_wrap rearm nt Ti mi (sig_leaf nt l) s' else sig_leaf nt l s')
                            = sig_leaf nt l s').
  { intros l s'. destruct Hw as [-> | ->]; [reflexivity|]. destruct wrapped; reflexivity. }
  rewrite !(sig_seq_ext _ (sig_leaf nt) ls Hs).
  destruct (sig_seq_plain nt ls s 0 Ha) as [E1 E2].
  destruct (out (sig_seq (sig_leaf nt) ls s 0)) eqn:Eo; cbn [out rst];
    (split; [congruence | intros H; try (apply E2; exact H); exfalso; apply H; congruence]).
Qed.

Lemma thr_body_plain nt wrapped Ti mi ls : (wrapped = false \/ Ti = 0) -> forall s v,
  match thr_body nt wrapped Ti mi (if topen s then None else Some 0) ls (now s) v with
  | None => out (plain_seq ls s v) = Hang
  | Some (f, o, c) => c = false /\ out (plain_seq ls s v) = o /\ rst (plain_seq ls s v) = set_now f s
  end.
Proof.
  intros Hw. induction ls as [|l r IH]; intros s v; cbn [thr_body plain_seq].
  - rewrite set_now_id. auto.
  - destruct (topen s) eqn:Ho; cbn [reached negb].
    + assert (E : (if wrapped then thr_leaf nt Ti mi l (now s) None
                   else match leaf_fin l (now s) None with Some (f, o) => Some (f, o, false) | None => None end)
                  = match leaf_fin l (now s) None with Some (f, o) => Some (f, o, false) | None => None end).
      { destruct Hw as [-> | ->]; [reflexivity|]. destruct wrapped; reflexivity. }
      rewrite E. clear E.
      destruct (leaf_fin l (now s) None) as [[f o]|]; [|reflexivity].
      destruct o; cbn [out rst]; auto.
      specialize (IH (set_now f s) v0). cbn [topen set_now now] in IH. rewrite Ho in IH.
      destruct (thr_body nt wrapped Ti mi None r f v0) as [[[f' o'] c']|]; auto.
    + rewrite (leb_t 0 (now s)) by lia. cbn. rewrite set_now_id. auto.
Qed.

Lemma thr_op_zero nt mo wrapped Ti mi locked ls s :
  (wrapped = false \/ Ti = 0) ->
  zero_spec (thr_op nt 0 mo wrapped Ti mi locked ls s) ls s.
Proof.
  intros Hw. unfold thr_op, zero_spec. cbn [N.eqb].
  pose proof (thr_body_plain nt wrapped Ti mi ls Hw s 0) as H.
  destruct (thr_body nt wrapped Ti mi (if topen s then None else Some 0) ls (now s) 0) as [[[f o] c]|].
  - destruct H as (-> & E1 & E2). cbn [out rst negb]. rewrite E1, E2, Bool.andb_true_r.
    split; [reflexivity|]. intros _. destruct s; reflexivity.
  - cbn [out]. rewrite H. split; [reflexivity|congruence].
Qed.

Lemma asy_body_plain nt wrapped Ti mi poll ls :
  wrapped && negb (Ti =? 0) && ((poll =? 0) || (Ti <? poll)) = false -> forall s v,
  match asy_body nt wrapped Ti mi poll None ls (now s) v (topen s) with
  | BFin t o c => c = false /\ out (plain_seq ls s v) = o /\ rst (plain_seq ls s v) = set_now t s
  | BCancelled _ => False
  | BHang => out (plain_seq ls s v) = Hang
  end.
Proof.
  intros Hw. induction ls as [|l r IH]; intros s v; cbn [asy_body plain_seq reached].
  - rewrite set_now_id. auto.
  - destruct (topen s) eqn:Ho; cbn [negb].
    + unfold inner_deadline. rewrite Hw. cbn [omin before].
      destruct (leaf_fin l (now s) None) as [[f o]|]; [|reflexivity].
      destruct o; cbn [out rst]; auto.
      specialize (IH (set_now f s) v0). cbn [topen set_now now] in IH. rewrite Ho in IH. exact IH.
    + cbn. rewrite set_now_id. auto.
Qed.

Lemma asy_op_zero cancel nt mo wrapped Ti mi poll locked ls s :
  wrapped && negb (Ti =? 0) && ((poll =? 0) || (Ti <? poll)) = false ->
  zero_spec (asy_op cancel nt 0 mo wrapped Ti mi poll locked ls s) ls s.
Proof.
  intros Hw. unfold asy_op, zero_spec. cbn [N.eqb].
  pose proof (asy_body_plain nt wrapped Ti mi poll ls Hw s 0) as H.
  destruct (asy_body nt wrapped Ti mi poll None ls (now s) 0 (topen s)) as [t o c|inr|].
  - destruct H as (-> & E1 & E2). cbn [out rst negb]. rewrite E1, E2, Bool.andb_true_r.
    split; [reflexivity|]. intros _. destruct s; reflexivity.
  - contradiction.
  - cbn [out]. rewrite H. split; [reflexivity|congruence].
Qed.

(* a timeout of 0 disables the limit, whichever mechanism: the decorated operation is its body *)
Theorem timeout_zero_disables m c ls s :
  c_To c = 0 -> inner_eff m c = false -> alarm s = None ->
  zero_spec (run_op m c ls s) ls s.
Proof.
  intros HT Hi Ha. unfold run_op. rewrite HT. unfold inner_eff in Hi.
  destruct m.
  - apply sig_op_zero; auto. rewrite Bool.andb_true_r in Hi.
    destruct (c_wrapped c); [right|left; reflexivity]. cbn in Hi.
    destruct (c_Ti c =? 0) eqn:E; [nb; auto|discriminate].
  - apply thr_op_zero. rewrite Bool.andb_true_r in Hi.
    destruct (c_wrapped c); [right|left; reflexivity]. cbn in Hi.
    destruct (c_Ti c =? 0) eqn:E; [nb; auto|discriminate].
  - apply asy_op_zero. exact Hi.
Qed.

Corollary timeout_zero_never_times_out m c ls s msg :
  c_To c = 0 -> inner_eff m c = false -> alarm s = None ->
  out (run_op m c ls s) <> Raised (ETimeout msg).
Proof.
  intros A B C. destruct (timeout_zero_disables m c ls s A B C) as [E _]. rewrite E.
  apply plain_seq_no_timeout.
Qed.

Corollary timeout_zero_stall_hangs m c pre l post s :
  c_To c = 0 -> inner_eff m c = false -> alarm s = None ->
  all_ret pre = true -> is_stall l = true -> topen s = true ->
  out (run_op m c (pre ++ l :: post) s) = Hang.
Proof.
  intros A B C D E F. destruct (timeout_zero_disables m c (pre ++ l :: post) s A B C) as [E1 _].
  rewrite E1. apply plain_seq_stall; auto.
Qed.

(* ---------------- a stalled call under a limit ---------------- *)
Definition inner_first (m : mech) (c : opcfg) (pre : list leaf) : bool :=
  inner_eff m c && (dur pre + c_Ti c <? c_To c).
Definition fire_msg (m : mech) (c : opcfg) (pre : list leaf) : bytes :=
  if inner_first m c pre then c_mi c else c_mo c.
Definition fire_at (m : mech) (c : opcfg) (pre : list leaf) : N :=
  if inner_first m c pre then dur pre + c_Ti c else c_To c.

(* ScrapliTimeout, no later than the limit, transport closed unless NO_TERMINATE, process state put back *)
Definition fires (m : mech) (c : opcfg) (pre : list leaf) (s : pstate) (r : result) : Prop :=
  out r = Raised (ETimeout (fire_msg m c pre)) /\
  now (rst r) = now s + fire_at m c pre /\
  topen (rst r) = c_nt c /\
  restored m s (rst r).

Definition stall_premises (m : mech) (c : opcfg) (pre : list leaf) (l : leaf) (s : pstate) : Prop :=
  0 < c_To c /\ all_ret pre = true /\ is_stall l = true /\ dur pre < c_To c /\
  (inner_eff m c = true -> each_lt (c_Ti c) pre = true) /\
  topen s = true /\ user_handler s = true.

Lemma fire_at_le m c pre : dur pre < c_To c -> fire_at m c pre <= c_To c.
Proof.
  intros H. unfold fire_at, inner_first. destruct (inner_eff m c); cbn [andb]; [|lia].
  destruct (dur pre + c_Ti c <? c_To c) eqn:E; nb; lia.
Qed.

(* ======== signal ======== *)
Definition sig_st (s : pstate) (mo : bytes) (Do t : N) : pstate :=
  mkP t (HScrapli mo) Do 0 (workers s) true (lock s) (tasks s).

Definition sig_step (nt wrapped : bool) (Ti : N) (mi : bytes) (l : leaf) (s' : pstate) : result :=
  if wrapped then sig_wrap true nt Ti mi (sig_leaf nt l) s' else sig_leaf nt l s'.

Lemma sig_step_ret nt wrapped Ti mi s mo Do t d v :
  t + d < Do -> (wrapped && negb (Ti =? 0) = true -> d < Ti) ->
  sig_step nt wrapped Ti mi (Ret d v) (sig_st s mo Do t) = mkR (Returned v) (sig_st s mo Do (t + d)).
Proof.
  intros H1 H2. unfold sig_step.
  assert (Hplain : sig_leaf nt (Ret d v) (sig_st s mo Do t) = mkR (Returned v) (sig_st s mo Do (t + d))).
  { unfold sig_leaf, alarm, sig_st. cbn [topen negb now handler deadline leaf_fin].
    rewrite (eqb_f Do 0) by lia. rewrite N.max_l by lia. rewrite (ltb_t (t + d) Do) by lia. reflexivity. }
  destruct wrapped; [|exact Hplain].
  unfold sig_wrap. destruct (Ti =? 0) eqn:ET; [exact Hplain|]. nb.
  assert (d < Ti) by (apply H2; reflexivity).
  unfold sig_leaf, alarm, sig_st, set_alarm. cbn [topen negb now handler deadline leaf_fin interval workers lock tasks].
  rewrite (eqb_f (t + Ti) 0) by lia. rewrite N.max_l by lia. rewrite (ltb_t (t + d) (t + Ti)) by lia.
  cbn [out rst set_now now handler deadline interval workers topen lock tasks].
  rewrite (eqb_f Do 0) by lia. rewrite (leb_f Do (t + d)) by lia. reflexivity.
Qed.

Lemma sig_prefix nt wrapped Ti mi s mo Do pre rest : forall t v,
  all_ret pre = true -> t + dur pre < Do ->
  (wrapped && negb (Ti =? 0) = true -> each_lt Ti pre = true) ->
  sig_seq (sig_step nt wrapped Ti mi) (pre ++ rest) (sig_st s mo Do t) v
  = sig_seq (sig_step nt wrapped Ti mi) rest (sig_st s mo Do (t + dur pre)) (last_val pre v).
Proof.
  induction pre as [|p pre IH]; intros t v Ha Hd He; cbn [app dur last_val].
  - rewrite N.add_0_r. reflexivity.
  - destruct p; try discriminate. cbn [all_ret dur each_lt last_val] in *.
    cbn [sig_seq]. rewrite sig_step_ret.
    + cbn [out rst]. rewrite IH; auto; try lia.
      * rewrite N.add_assoc. reflexivity.
      * intros W. specialize (He W). apply Bool.andb_true_iff in He. tauto.
    + lia.
    + intros W. specialize (He W). apply Bool.andb_true_iff in He. destruct He as [He _]. nb. exact He.
Qed.

Lemma sig_step_stall_inner nt Ti mi s mo Do t l :
  is_stall l = true -> 0 < Ti -> t + Ti < Do ->
  sig_step nt true Ti mi l (sig_st s mo Do t)
  = mkR (Raised (ETimeout mi)) (close_unless nt (sig_st s mo Do (t + Ti))).
Proof.
  intros Hl HT Hd. unfold sig_step, sig_wrap. rewrite (eqb_f Ti 0) by lia.
  assert (Hf : leaf_fin l t None = None) by (destruct l; try discriminate; reflexivity).
  unfold sig_leaf, alarm, sig_st, set_alarm. cbn [topen negb now handler deadline interval workers lock tasks].
  rewrite Hf. rewrite (eqb_f (t + Ti) 0) by lia. rewrite N.max_l by lia.
  destruct nt; cbn [close_unless out rst set_now set_open now handler deadline interval workers topen lock tasks];
    rewrite (eqb_f Do 0) by lia; rewrite (leb_f Do (t + Ti)) by lia; reflexivity.
Qed.

Lemma sig_step_stall_outer nt wrapped Ti mi s mo Do t l :
  is_stall l = true -> t < Do -> wrapped && negb (Ti =? 0) = false ->
  sig_step nt wrapped Ti mi l (sig_st s mo Do t)
  = mkR (Raised (ETimeout mo)) (close_unless nt (mkP Do (HScrapli mo) 0 0 (workers s) true (lock s) (tasks s))).
Proof.
  intros Hl Hd Hw. unfold sig_step.
  assert (Hf : leaf_fin l t None = None) by (destruct l; try discriminate; reflexivity).
  assert (Hplain : sig_leaf nt l (sig_st s mo Do t)
                   = mkR (Raised (ETimeout mo)) (close_unless nt (mkP Do (HScrapli mo) 0 0 (workers s) true (lock s) (tasks s)))).
  { unfold sig_leaf, alarm, sig_st. cbn [topen negb now handler deadline]. rewrite Hf.
    rewrite (eqb_f Do 0) by lia. rewrite N.max_l by lia. reflexivity. }
  destruct wrapped; [|exact Hplain]. cbn in Hw. unfold sig_wrap.
  destruct (Ti =? 0); [exact Hplain|discriminate].
Qed.

(* the finally of the outermost decorated call: handler and timer of the caller come back *)
Lemma sig_exit_restored (s s2 : pstate) (o : outcome) nt T m body :
  0 < T -> user_handler s = true -> o <> Hang ->
  body (set_alarm (HScrapli m) (now s + T) 0 s) = mkR o s2 ->
  workers s2 = workers s -> lock s2 = lock s -> tasks s2 = tasks s ->
  let r := sig_wrap true nt T m body s in
  out r = o /\ now (rst r) = now s2 /\ topen (rst r) = topen s2 /\ restored MSignal s (rst r).
Proof.
  intros HT Hu Ho Hb Hw Hl Hk r. subst r. unfold sig_wrap. rewrite (eqb_f T 0) by lia. rewrite Hb.
  cbn [out rst]. unfold restored, timer_back.
  destruct o; try congruence.
  - destruct (deadline s =? 0) eqn:E0; [nb; cbn; repeat split; auto|].
    destruct (deadline s <=? now s2) eqn:E1; nb.
    + unfold user_handler in Hu. destruct (handler s) eqn:Eh; try discriminate;
        cbn; rewrite ?Eh; repeat split; auto; right; repeat split; auto.
    + cbn. repeat split; auto.
  - destruct (deadline s =? 0) eqn:E0; [nb; cbn; repeat split; auto|].
    destruct (deadline s <=? now s2) eqn:E1; nb.
    + unfold user_handler in Hu. destruct (handler s) eqn:Eh; try discriminate;
        cbn; rewrite ?Eh; repeat split; auto; right; repeat split; auto.
    + cbn. repeat split; auto.
Qed.

Lemma set_alarm_sig_st s mo D : topen s = true -> set_alarm (HScrapli mo) D 0 s = sig_st s mo D (now s).
Proof. destruct s; cbn; intros ->; reflexivity. Qed.

Lemma close_unless_now nt s : now (close_unless nt s) = now s.
Proof. destruct nt; reflexivity. Qed.
Lemma close_unless_open nt s : topen s = true -> topen (close_unless nt s) = nt.
Proof. destruct nt; cbn; auto. Qed.
Lemma close_unless_workers nt s : workers (close_unless nt s) = workers s.
Proof. destruct nt; reflexivity. Qed.
Lemma close_unless_lock nt s : lock (close_unless nt s) = lock s.
Proof. destruct nt; reflexivity. Qed.
Lemma close_unless_tasks nt s : tasks (close_unless nt s) = tasks s.
Proof. destruct nt; reflexivity. Qed.

Lemma inner_eff_sig c : inner_eff MSignal c = c_wrapped c && negb (c_Ti c =? 0).
Proof. unfold inner_eff. apply Bool.andb_true_r. Qed.
Lemma inner_eff_thr c : inner_eff MThread c = c_wrapped c && negb (c_Ti c =? 0).
Proof. unfold inner_eff. apply Bool.andb_true_r. Qed.

Lemma sig_stall_fires c pre l post s :
  c_rearm c = true -> stall_premises MSignal c pre l s ->
  (inner_eff MSignal c = true -> dur pre + c_Ti c < c_To c) ->
  fires MSignal c pre s (run_op MSignal c (pre ++ l :: post) s).
Proof.
  intros Hr (HT & Ha & Hl & Hd & He & Ho & Hu) Hin.
  unfold run_op, sig_op. rewrite Hr.
  change (fun (l0 : leaf) (s' : pstate) =>
            if c_wrapped c then sig_wrap true (c_nt c) (c_Ti c) (c_mi c) (sig_leaf (c_nt c) l0) s'
            else sig_leaf (c_nt c) l0 s')
    with (sig_step (c_nt c) (c_wrapped c) (c_Ti c) (c_mi c)).
  set (body := fun s' : pstate =>
                 sig_seq (sig_step (c_nt c) (c_wrapped c) (c_Ti c) (c_mi c)) (pre ++ l :: post) s' 0).
  rewrite inner_eff_sig in He, Hin.
  assert (Hb0 : body (set_alarm (HScrapli (c_mo c)) (now s + c_To c) 0 s)
                = sig_seq (sig_step (c_nt c) (c_wrapped c) (c_Ti c) (c_mi c)) (l :: post)
                          (sig_st s (c_mo c) (now s + c_To c) (now s + dur pre)) (last_val pre 0)).
  { unfold body. rewrite set_alarm_sig_st by exact Ho. apply sig_prefix; auto. lia. }
  unfold fires, fire_msg, fire_at, inner_first. rewrite inner_eff_sig.
  destruct (c_wrapped c && negb (c_Ti c =? 0)) eqn:Ew.
  - (* the transport timeout of the stalled read fires first *)
    specialize (Hin eq_refl). apply Bool.andb_true_iff in Ew. destruct Ew as [Ew1 Ew2].
    assert (HTi : 0 < c_Ti c) by (destruct (c_Ti c =? 0) eqn:E; [discriminate|nb; lia]).
    rewrite Ew1 in *. cbn [sig_seq] in Hb0. rewrite sig_step_stall_inner in Hb0; auto; try lia.
    cbn [out] in Hb0.
    assert (Hnh : Raised (ETimeout (c_mi c)) <> Hang) by discriminate.
    pose proof (sig_exit_restored s _ _ (c_nt c) (c_To c) (c_mo c) body HT Hu Hnh Hb0) as R.
    rewrite close_unless_workers, close_unless_lock, close_unless_tasks, close_unless_now in R.
    rewrite close_unless_open in R by reflexivity.
    specialize (R eq_refl eq_refl eq_refl). cbn zeta in R. destruct R as (R1 & R2 & R3 & R4).
    rewrite R1. cbn [andb]. rewrite (ltb_t (dur pre + c_Ti c) (c_To c)) by lia.
    repeat split; auto; try apply R4. rewrite R2. cbn. lia.
  - (* only the limit of the operation applies *)
    cbn [sig_seq] in Hb0. rewrite sig_step_stall_outer in Hb0; auto; try lia.
    cbn [out] in Hb0.
    assert (Hnh : Raised (ETimeout (c_mo c)) <> Hang) by discriminate.
    pose proof (sig_exit_restored s _ _ (c_nt c) (c_To c) (c_mo c) body HT Hu Hnh Hb0) as R.
    rewrite close_unless_workers, close_unless_lock, close_unless_tasks, close_unless_now in R.
    rewrite close_unless_open in R by reflexivity.
    specialize (R eq_refl eq_refl eq_refl). cbn zeta in R. destruct R as (R1 & R2 & R3 & R4).
    rewrite R1. cbn [andb].
    repeat split; auto; apply R4.
Qed.

(* ======== worker thread ======== *)
Lemma thr_prefix nt wrapped Ti mi oc pre rest : forall t v,
  all_ret pre = true -> (forall D, oc = Some D -> t + dur pre < D) ->
  (wrapped && negb (Ti =? 0) = true -> each_lt Ti pre = true) ->
  thr_body nt wrapped Ti mi oc (pre ++ rest) t v
  = thr_body nt wrapped Ti mi oc rest (t + dur pre) (last_val pre v).
Proof.
  induction pre as [|p pre IH]; intros t v Ha Hd He; cbn [app dur last_val].
  - rewrite N.add_0_r. reflexivity.
  - destruct p; try discriminate. cbn [all_ret dur each_lt last_val] in *.
    cbn [thr_body].
    assert (Hr : reached oc t = false).
    { destruct oc as [D|]; [|reflexivity]. cbn. apply leb_f. specialize (Hd D eq_refl). lia. }
    rewrite Hr.
    assert (Hs : (if wrapped then thr_leaf nt Ti mi (Ret d v0) t oc
                  else match leaf_fin (Ret d v0) t oc with Some (f, o) => Some (f, o, false) | None => None end)
                 = Some (t + d, Returned v0, false)).
    { destruct wrapped; [|reflexivity]. unfold thr_leaf. destruct (Ti =? 0) eqn:ET; [reflexivity|].
      cbn [leaf_fin]. specialize (He eq_refl). apply Bool.andb_true_iff in He. destruct He as [He _]. nb.
      rewrite (ltb_t (t + d) (t + Ti)) by lia. reflexivity. }
    rewrite Hs. rewrite IH; auto.
    + rewrite N.add_assoc. reflexivity.
    + intros D HD. specialize (Hd D HD). lia.
    + intros W. specialize (He W). apply Bool.andb_true_iff in He. tauto.
Qed.

Lemma thr_stall_fires c pre l post s :
  stall_premises MThread c pre l s -> c_nt c = false -> l = StallClosed ->
  fires MThread c pre s (run_op MThread c (pre ++ l :: post) s).
Proof.
  intros (HT & Ha & Hl & Hd & He & Ho & Hu) Hnt ->.
  unfold run_op, thr_op. rewrite Hnt, Ho, (eqb_f (c_To c) 0) by lia.
  rewrite inner_eff_thr in He.
  rewrite thr_prefix; auto.
  2:{ intros D HD. inversion HD; subst. lia. }
  set (t := now s + dur pre). set (Do := now s + c_To c).
  assert (Htd : t < Do) by (unfold t, Do; lia).
  unfold fires, fire_msg, fire_at, inner_first. rewrite inner_eff_thr.
  cbn [thr_body reached]. rewrite (leb_f Do t) by lia.
  destruct (c_wrapped c && negb (c_Ti c =? 0)) eqn:Ew.
  - apply Bool.andb_true_iff in Ew. destruct Ew as [Ew1 Ew2]. rewrite Ew1.
    assert (HTi : 0 < c_Ti c) by (destruct (c_Ti c =? 0) eqn:E; [discriminate|nb; lia]).
    unfold thr_leaf. rewrite (eqb_f (c_Ti c) 0) by lia. cbn [omin leaf_fin andb].
    destruct (dur pre + c_Ti c <? c_To c) eqn:Ec; nb.
    + (* inner first *)
      rewrite (N.min_l (t + c_Ti c) Do) by (unfold t, Do; lia).
      rewrite N.max_l by lia. rewrite (ltb_f (t + c_Ti c) (t + c_Ti c)) by lia.
      rewrite N.max_id. rewrite (ltb_t (t + c_Ti c) Do) by (unfold t, Do; lia).
      cbn [out rst negb set_open set_now now topen handler deadline interval workers lock tasks].
      rewrite ?Bool.andb_false_r, ?Hnt. unfold restored, timer_back.
      repeat split; auto. unfold t. lia.
    + (* outer first (or a tie) *)
      rewrite (N.min_r (t + c_Ti c) Do) by (unfold t, Do; lia).
      rewrite (N.max_l Do t) by lia.
      destruct (Do <? t + c_Ti c) eqn:E2.
      * rewrite (ltb_f Do Do) by lia. rewrite N.max_id.
        cbn [out rst negb set_open set_now now topen handler deadline interval workers lock tasks].
        rewrite ?Bool.andb_false_r, ?Hnt. unfold restored, timer_back. repeat split; auto.
      * nb. assert (Do = t + c_Ti c) by (unfold t, Do in *; lia).
        rewrite N.max_r by lia. rewrite (ltb_f Do Do) by lia. rewrite N.max_id.
        cbn [out rst negb set_open set_now now topen handler deadline interval workers lock tasks].
        rewrite ?Bool.andb_false_r, ?Hnt. unfold restored, timer_back. repeat split; auto.
  - assert (Hs : (if c_wrapped c then thr_leaf false (c_Ti c) (c_mi c) StallClosed t (Some Do)
                  else match leaf_fin StallClosed t (Some Do) with Some (f, o) => Some (f, o, false) | None => None end)
                 = Some (Do, Raised EConn, false)).
    { cbn [leaf_fin]. rewrite (N.max_l Do t) by lia.
      destruct (c_wrapped c); [|reflexivity]. cbn in Ew. unfold thr_leaf.
      destruct (c_Ti c =? 0); [|discriminate]. cbn [leaf_fin]. rewrite (N.max_l Do t) by lia. reflexivity. }
    rewrite Hs. rewrite (ltb_f Do Do) by lia. rewrite N.max_id. cbn [andb].
    cbn [out rst negb set_open set_now now topen handler deadline interval workers lock tasks].
    rewrite ?Bool.andb_false_r, ?Hnt. unfold restored, timer_back. repeat split; auto.
Qed.

(* ======== asyncio ======== *)
Lemma asy_prefix nt wrapped Ti mi poll D pre rest : forall t v,
  all_ret pre = true -> t + dur pre < D ->
  (wrapped && negb (Ti =? 0) && ((poll =? 0) || (Ti <? poll)) = true -> each_lt Ti pre = true) ->
  asy_body nt wrapped Ti mi poll (Some D) (pre ++ rest) t v true
  = asy_body nt wrapped Ti mi poll (Some D) rest (t + dur pre) (last_val pre v) true.
Proof.
  induction pre as [|p pre IH]; intros t v Ha Hd He; cbn [app dur last_val].
  - rewrite N.add_0_r. reflexivity.
  - destruct p; try discriminate. cbn [all_ret dur each_lt last_val] in *.
    cbn [asy_body reached negb leaf_fin]. rewrite (leb_f D t) by lia.
    assert (Hb : before (t + d) (omin (inner_deadline wrapped Ti poll t) (Some D)) = true).
    { unfold inner_deadline. destruct (wrapped && negb (Ti =? 0) && ((poll =? 0) || (Ti <? poll))) eqn:E.
      - specialize (He eq_refl). apply Bool.andb_true_iff in He. destruct He as [He _]. nb.
        cbn [omin before]. apply ltb_t. apply N.min_glb_lt; lia.
      - cbn [omin before]. apply ltb_t. lia. }
    rewrite Hb. rewrite IH; auto.
    + rewrite N.add_assoc. reflexivity.
    + lia.
    + intros W. specialize (He W). apply Bool.andb_true_iff in He. tauto.
Qed.

Lemma orphaned_0 s : orphaned 0 s = s.
Proof. destruct s; unfold orphaned; cbn. rewrite Nat.add_0_r. reflexivity. Qed.

Lemma asy_stall_fires c pre l post s :
  c_cancel c = true -> stall_premises MAsync c pre l s ->
  fires MAsync c pre s (run_op MAsync c (pre ++ l :: post) s).
Proof.
  intros Hc (HT & Ha & Hl & Hd & He & Ho & Hu).
  unfold run_op, asy_op. rewrite Hc, orphaned_0, Ho, (eqb_f (c_To c) 0) by lia.
  unfold inner_eff in He.
  rewrite asy_prefix; auto; try lia.
  set (t := now s + dur pre). set (Do := now s + c_To c).
  assert (Htd : t < Do) by (unfold t, Do; lia).
  assert (Hf : leaf_fin l t None = None) by (destruct l; try discriminate; reflexivity).
  unfold fires, fire_msg, fire_at, inner_first, inner_eff.
  cbn [asy_body reached negb]. rewrite (leb_f Do t) by lia. rewrite Hf.
  unfold inner_deadline.
  destruct (c_wrapped c && negb (c_Ti c =? 0) && ((c_poll c =? 0) || (c_Ti c <? c_poll c))) eqn:Ew.
  - cbn [andb]. destruct (dur pre + c_Ti c <? c_To c) eqn:Ec; nb.
    + rewrite (ltb_t (t + c_Ti c) Do) by (unfold t, Do; lia).
      cbn [out rst set_open set_now now topen handler deadline interval workers lock tasks].
      rewrite Bool.negb_involutive. unfold restored, timer_back. repeat split; auto. unfold t. lia.
    + rewrite (ltb_f (t + c_Ti c) Do) by (unfold t, Do; lia).
      cbn [out rst]. rewrite close_unless_now, close_unless_open by (cbn; exact Ho).
      unfold restored, timer_back. destruct (c_nt c); cbn; repeat split; auto.
  - cbn [andb out rst]. rewrite close_unless_now, close_unless_open by (cbn; exact Ho).
    unfold restored, timer_back. destruct (c_nt c); cbn; repeat split; auto.
Qed.

(* a decorator that does not pass its own cancellation on to the wrapped call (c_cancel = false): whenever the
   operation's limit falls due inside a decorated transport read whose own limit is on, that read stays behind *)
Lemma asy_uncancelled_leaves_task c pre l post s :
  c_cancel c = false -> stall_premises MAsync c pre l s ->
  c_wrapped c = true -> 0 < c_Ti c -> inner_first MAsync c pre = false ->
  (l = StallClosed -> c_nt c = true) ->
  let r := run_op MAsync c (pre ++ l :: post) s in
  out r = Raised (ETimeout (c_mo c)) /\ tasks (rst r) = S (tasks s) /\ ~ restored MAsync s (rst r).
Proof.
  intros Hc (HT & Ha & Hl & Hd & He & Ho & Hu) Hw HTi Hif Hsc r.
  assert (G : out r = Raised (ETimeout (c_mo c)) /\ tasks (rst r) = S (tasks s)).
  { subst r. unfold run_op, asy_op. rewrite Hc, Ho, (eqb_f (c_To c) 0) by lia.
    unfold inner_eff in He.
    rewrite asy_prefix; auto; try lia.
    set (t := now s + dur pre). set (Do := now s + c_To c).
    assert (Htd : t < Do) by (unfold t, Do; lia).
    assert (Hf : leaf_fin l t None = None) by (destruct l; try discriminate; reflexivity).
    assert (Hlive : inner_live (c_wrapped c) (c_Ti c) (c_nt c) l = true).
    { unfold inner_live. rewrite Hw, (eqb_f (c_Ti c) 0) by lia. cbn [andb negb].
      destruct l; try reflexivity. apply Hsc. reflexivity. }
    unfold inner_first, inner_eff in Hif.
    cbn [asy_body reached negb]. rewrite (leb_f Do t) by lia. rewrite Hf, Hlive.
    unfold inner_deadline.
    destruct (c_wrapped c && negb (c_Ti c =? 0) && ((c_poll c =? 0) || (c_Ti c <? c_poll c))) eqn:Ew.
    - cbn [andb] in Hif. nb. rewrite (ltb_f (t + c_Ti c) Do) by (unfold t, Do; lia).
      cbn [out rst]. split; [reflexivity|]. unfold orphaned. cbn [tasks]. rewrite close_unless_tasks. cbn [set_now tasks]. lia.
    - cbn [out rst]. split; [reflexivity|]. unfold orphaned. cbn [tasks]. rewrite close_unless_tasks. cbn [set_now tasks]. lia. }
  destruct G as [G1 G2]. repeat split; auto.
  intros (_ & _ & _ & _ & K). rewrite G2 in K. lia.
Qed.

(* ======== the property, for all three mechanisms ======== *)
(* full strength: whatever the mechanism, NO_TERMINATE setting, kind of stall and pair of timeouts *)
Definition timeout_fires_full : Prop :=
  forall m c pre l post s,
    c_rearm c = true -> c_cancel c = true -> stall_premises m c pre l s ->
    fires m c pre s (run_op m c (pre ++ l :: post) s).

(* what holds of the code as it is: the extra hypotheses are exactly the regions of the known findings
   (thread mechanism: NO_TERMINATE off and a read that ends when the transport is closed;
    signal mechanism nested over a decorated read: the transport timeout fires before the operation's) *)
Theorem timeout_fires_partial m c pre l post s :
  c_rearm c = true -> c_cancel c = true -> stall_premises m c pre l s ->
  (m = MThread -> c_nt c = false /\ l = StallClosed) ->
  (m = MSignal -> inner_eff m c = true -> dur pre + c_Ti c < c_To c) ->
  fires m c pre s (run_op m c (pre ++ l :: post) s).
Proof.
  intros Hr Hc Hp Ht Hs. destruct m.
  - apply sig_stall_fires; auto.
  - destruct (Ht eq_refl). apply thr_stall_fires; auto.
  - apply asy_stall_fires; auto.
Qed.

Corollary timeout_fires_within_limit m c pre l post s :
  c_rearm c = true -> c_cancel c = true -> stall_premises m c pre l s ->
  (m = MThread -> c_nt c = false /\ l = StallClosed) ->
  (m = MSignal -> inner_eff m c = true -> dur pre + c_Ti c < c_To c) ->
  exists msg, out (run_op m c (pre ++ l :: post) s) = Raised (ETimeout msg) /\
              now (rst (run_op m c (pre ++ l :: post) s)) <= now s + c_To c.
Proof.
  intros A A' B C D. destruct (timeout_fires_partial m c pre l post s A A' B C D) as (E1 & E2 & _).
  eexists; split; [exact E1|]. rewrite E2. destruct B as (_ & _ & _ & Hd & _).
  pose proof (fire_at_le m c pre Hd). lia.
Qed.

(* one decorated call (a transport read, a decorated method) *)
Corollary timeout_fires_single m nt T msg l s :
  0 < T -> is_stall l = true -> topen s = true -> user_handler s = true ->
  (m = MThread -> nt = false /\ l = StallClosed) ->
  let r := run_wrapped m true nt T msg l s in
  out r = Raised (ETimeout msg) /\ now (rst r) = now s + T /\ topen (rst r) = nt /\ restored m s (rst r).
Proof.
  intros HT Hl Ho Hu Ht r. subst r. unfold run_wrapped.
  pose proof (timeout_fires_partial m (mkC true nt T msg false 0 [] 0 false true) [] l [] s) as H.
  cbn [app] in H. apply H; auto.
  - unfold stall_premises. cbn. repeat split; auto.
Qed.

(* ---- the regions where the full statement fails ---- *)
Lemma thread_noterm_hangs rearm T msg l s :
  0 < T -> is_stall l = true -> topen s = true ->
  out (run_wrapped MThread rearm true T msg l s) = Hang.
Proof.
  intros HT Hl Ho. unfold run_wrapped, run_op, thr_op. cbn [c_nt c_To c_wrapped c_Ti c_mi c_mo c_locked].
  rewrite Ho, (eqb_f T 0) by lia. cbn [thr_body reached].
  destruct l; try discriminate; reflexivity.
Qed.

Lemma thread_unclosable_hangs rearm nt T msg s :
  0 < T -> topen s = true ->
  out (run_wrapped MThread rearm nt T msg Stall s) = Hang.
Proof.
  intros HT Ho. unfold run_wrapped, run_op, thr_op. cbn [c_nt c_To c_wrapped c_Ti c_mi c_mo c_locked].
  rewrite Ho, (eqb_f T 0) by lia.
  destruct nt; cbn [thr_body reached]; rewrite ?(leb_f (now s + T) (now s)) by lia; reflexivity.
Qed.

Definition s0 : pstate := mkP 1000 (HUser 7) 51000 0 0 true false 0.

Example s0_premises : stall_premises MThread (mkC true true 200 [1] false 0 [] 0 false true) [] StallClosed s0.
Proof. unfold stall_premises. cbn. repeat split; auto; discriminate. Qed.

Theorem timeout_fires_full_refuted : ~ timeout_fires_full.
Proof.
  intros F.
  destruct (F MThread (mkC true true 200 [1] false 0 [] 0 false true) [] StallClosed [] s0 eq_refl eq_refl s0_premises)
    as [E _].
  vm_compute in E. discriminate.
Qed.

(* signal over signal, timeout_ops 200 < timeout_transport 1600: ScrapliTimeout only at 1600 *)
Lemma signal_nested_overshoot :
  let c := mkC true false 200 [1] true 1600 [2] 0 false true in
  stall_premises MSignal c [Ret 0 0] Stall s0 /\
  now (rst (run_op MSignal c [Ret 0 0; Stall] s0)) = now s0 + 1600.
Proof. split; [unfold stall_premises; cbn; repeat split; auto; discriminate | vm_compute; reflexivity]. Qed.

(* the pinned commit: the signal mechanism zeroes the timer that was pending *)
Lemma legacy_signal_zeroes_timer nt T msg l s :
  0 < T -> is_stall l = true -> topen s = true -> user_handler s = true ->
  deadline (rst (run_wrapped MSignal false nt T msg l s)) = 0.
Proof.
  intros HT Hl Ho Hu. unfold run_wrapped, run_op, sig_op, sig_wrap.
  cbn [c_rearm c_nt c_To c_wrapped c_Ti c_mi c_mo c_locked].
  rewrite (eqb_f T 0) by lia. cbn [sig_seq].
  assert (Hf : forall t, leaf_fin l t None = None) by (intros; destruct l; try discriminate; reflexivity).
  unfold sig_leaf, alarm. cbn [set_alarm topen now handler deadline]. rewrite Ho. cbn [negb].
  rewrite Hf. rewrite (eqb_f (now s + T) 0) by lia.
  destruct nt; reflexivity.
Qed.

Theorem legacy_timer_restored_refuted :
  exists nt T msg l s, 0 < T /\ is_stall l = true /\ topen s = true /\ user_handler s = true /\
    ~ restored MSignal s (rst (run_wrapped MSignal false nt T msg l s)).
Proof.
  exists false, 200, [1], Stall, s0. repeat split; auto; try reflexivity.
  intros (_ & (_ & [H | (_ & _ & _ & H)]) & _); vm_compute in H; discriminate.
Qed.

Example partial_premises_signal :
  stall_premises MSignal (mkC true false 1500 [1] true 200 [2] 0 true true) [Ret 5 1; Ret 7 2] Stall s0
  /\ inner_eff MSignal (mkC true false 1500 [1] true 200 [2] 0 true true) = true /\ 12 + 200 < 1500.
Proof. unfold stall_premises. cbn. repeat split; auto; try discriminate; lia. Qed.

Example partial_premises_thread :
  stall_premises MThread (mkC true false 200 [1] true 1500 [2] 0 true true) [Ret 5 1] StallClosed s0.
Proof. unfold stall_premises. cbn. repeat split; auto; discriminate. Qed.

Example partial_premises_async :
  stall_premises MAsync (mkC true true 200 [1] true 150 [2] 1000 false true) [Ret 5 1] Stall s0.
Proof. unfold stall_premises. cbn. repeat split; auto; discriminate. Qed.

Example uncancelled_premises :
  let c := mkC true true 200 [1] true 1500 [2] 0 true false in
  stall_premises MAsync c [Ret 5 1] Stall s0 /\ inner_first MAsync c [Ret 5 1] = false.
Proof. unfold stall_premises. cbn. repeat split; auto; discriminate. Qed.

(* ======== asyncio, the transport limit alone (timeout_ops = 0: the operation has no limit of its own) ======== *)
Lemma asy_prefix_nolimit nt wrapped Ti mi poll pre rest : forall t v,
  all_ret pre = true ->
  (wrapped && negb (Ti =? 0) && ((poll =? 0) || (Ti <? poll)) = true -> each_lt Ti pre = true) ->
  asy_body nt wrapped Ti mi poll None (pre ++ rest) t v true
  = asy_body nt wrapped Ti mi poll None rest (t + dur pre) (last_val pre v) true.
Proof.
  induction pre as [|p pre IH]; intros t v Ha He; cbn [app dur last_val].
  - rewrite N.add_0_r. reflexivity.
  - destruct p; try discriminate. cbn [all_ret dur each_lt last_val] in *.
    cbn [asy_body reached negb leaf_fin].
    assert (Hb : before (t + d) (omin (inner_deadline wrapped Ti poll t) None) = true).
    { unfold inner_deadline. destruct (wrapped && negb (Ti =? 0) && ((poll =? 0) || (Ti <? poll))) eqn:E.
      - specialize (He eq_refl). apply Bool.andb_true_iff in He. destruct He as [He _]. nb.
        cbn [omin before]. apply ltb_t. lia.
      - reflexivity. }
    rewrite Hb. rewrite IH; auto.
    + rewrite N.add_assoc. reflexivity.
    + intros W. specialize (He W). apply Bool.andb_true_iff in He. tauto.
Qed.

(* a read that stalls inside an operation WITHOUT a limit of its own is still ended by the transport's limit, counted
   from the start of that read (whatever the enclosing operation does or does not set up) *)
Theorem asy_inner_alone_fires c pre l post s :
  c_To c = 0 -> inner_eff MAsync c = true -> all_ret pre = true -> is_stall l = true ->
  each_lt (c_Ti c) pre = true -> topen s = true ->
  let r := run_op MAsync c (pre ++ l :: post) s in
  out r = Raised (ETimeout (c_mi c)) /\ now (rst r) = now s + dur pre + c_Ti c /\
  topen (rst r) = c_nt c /\ restored MAsync s (rst r).
Proof.
  intros HT Hi Ha Hl He Ho r. subst r.
  unfold run_op, asy_op. rewrite HT, Ho. cbn [N.eqb].
  unfold inner_eff in Hi.
  rewrite asy_prefix_nolimit; auto.
  assert (Hf : forall t, leaf_fin l t None = None) by (intro; destruct l; try discriminate; reflexivity).
  cbn [asy_body reached negb]. rewrite Hf.
  unfold inner_deadline. rewrite Hi.
  cbn [out rst set_open set_now now topen handler deadline interval workers lock tasks].
  rewrite Bool.negb_involutive. unfold restored, timer_back. repeat split; auto.
Qed.

Example inner_alone_premises :
  let c := mkC true true 0 [1] true 150 [2] 1000 false true in
  c_To c = 0 /\ inner_eff MAsync c = true /\ all_ret [Ret 5 1; Ret 7 2] = true /\ is_stall Stall = true
  /\ each_lt (c_Ti c) [Ret 5 1; Ret 7 2] = true /\ topen s0 = true.
Proof. cbn. repeat split; reflexivity. Qed.

(* ---- an operation that the device answers in time is not disturbed ---- *)
Theorem completes_in_time m c ls s :
  c_rearm c = true -> 0 < c_To c -> all_ret ls = true -> dur ls < c_To c ->
  (inner_eff m c = true -> each_lt (c_Ti c) ls = true) -> topen s = true -> user_handler s = true ->
  let r := run_op m c ls s in
  out r = Returned (last_val ls 0) /\ now (rst r) = now s + dur ls /\ topen (rst r) = true
  /\ restored m s (rst r).
Proof.
  intros Hr HT Ha Hd He Ho Hu r. subst r.
  assert (E : run_op m c ls s = run_op m c (ls ++ []) s) by (rewrite app_nil_r; reflexivity).
  rewrite E. clear E.
  destruct m; unfold run_op.
  - unfold sig_op. rewrite Hr.
    change (fun (l0 : leaf) (s' : pstate) =>
              if c_wrapped c then sig_wrap true (c_nt c) (c_Ti c) (c_mi c) (sig_leaf (c_nt c) l0) s'
              else sig_leaf (c_nt c) l0 s')
      with (sig_step (c_nt c) (c_wrapped c) (c_Ti c) (c_mi c)).
    set (body := fun s' : pstate =>
                   sig_seq (sig_step (c_nt c) (c_wrapped c) (c_Ti c) (c_mi c)) (ls ++ []) s' 0).
    rewrite inner_eff_sig in He.
    assert (Hb0 : body (set_alarm (HScrapli (c_mo c)) (now s + c_To c) 0 s)
                  = mkR (Returned (last_val ls 0)) (sig_st s (c_mo c) (now s + c_To c) (now s + dur ls))).
    { unfold body. rewrite set_alarm_sig_st by exact Ho. rewrite sig_prefix; auto. lia. }
    assert (Hnh : Returned (last_val ls 0) <> Hang) by discriminate.
    pose proof (sig_exit_restored s _ _ (c_nt c) (c_To c) (c_mo c) body HT Hu Hnh Hb0 eq_refl eq_refl eq_refl) as R.
    cbn zeta in R. destruct R as (R1 & R2 & R3 & R4). rewrite R1. repeat split; auto; apply R4.
  - unfold thr_op. rewrite Ho, (eqb_f (c_To c) 0) by lia. rewrite inner_eff_thr in He.
    rewrite thr_prefix; auto.
    2:{ intros D HD. destruct (c_nt c); inversion HD; subst. lia. }
    cbn [thr_body]. rewrite (ltb_t (now s + dur ls) (now s + c_To c)) by lia.
    cbn [out rst negb andb set_open set_now now topen handler deadline interval workers lock tasks].
    unfold restored, timer_back. repeat split; auto.
  - unfold asy_op. rewrite Ho, (eqb_f (c_To c) 0) by lia. unfold inner_eff in He.
    rewrite asy_prefix; auto; try lia.
    cbn [asy_body out rst negb andb set_open set_now now topen handler deadline interval workers lock tasks].
    unfold restored, timer_back. repeat split; auto.
Qed.

(* the wrapped call's own exception is not turned into a timeout and does not close the transport *)
Theorem own_exception_propagates m nt T msg d e s :
  0 < T -> d < T -> topen s = true -> user_handler s = true ->
  let r := run_wrapped m true nt T msg (Exc d e) s in
  out r = Raised (EOther e) /\ now (rst r) = now s + d /\ topen (rst r) = true /\ restored m s (rst r).
Proof.
  intros HT Hd Ho Hu r. subst r. unfold run_wrapped, run_op.
  cbn [c_rearm c_nt c_To c_wrapped c_Ti c_mi c_mo c_locked c_poll].
  destruct m.
  - unfold sig_op.
    set (body := fun s' : pstate => sig_seq (fun l s'0 => sig_leaf nt l s'0) [Exc d e] s' 0).
    assert (Hb0 : body (set_alarm (HScrapli msg) (now s + T) 0 s)
                  = mkR (Raised (EOther e)) (sig_st s msg (now s + T) (now s + d))).
    { unfold body. rewrite set_alarm_sig_st by exact Ho. cbn [sig_seq].
      unfold sig_leaf, alarm, sig_st. cbn [topen negb now handler deadline leaf_fin].
      rewrite (eqb_f (now s + T) 0) by lia. rewrite N.max_l by lia.
      rewrite (ltb_t (now s + d) (now s + T)) by lia. reflexivity. }
    assert (Hnh : Raised (EOther e) <> Hang) by discriminate.
    pose proof (sig_exit_restored s _ _ nt T msg body HT Hu Hnh Hb0 eq_refl eq_refl eq_refl) as R.
    cbn zeta in R. destruct R as (R1 & R2 & R3 & R4). cbn [andb] in *. rewrite R1. repeat split; auto; apply R4.
  - unfold thr_op. rewrite Ho, (eqb_f T 0) by lia.
    assert (E : thr_body nt false 0 [] (if nt then None else Some (now s + T)) [Exc d e] (now s) 0
                = Some (now s + d, Raised (EOther e), false)).
    { cbn [thr_body]. destruct nt; cbn [reached leaf_fin]; rewrite ?(leb_f (now s + T) (now s)) by lia; reflexivity. }
    rewrite E. rewrite (ltb_t (now s + d) (now s + T)) by lia.
    cbn [out rst negb andb set_open set_now now topen handler deadline interval workers lock tasks].
    unfold restored, timer_back. repeat split; auto.
  - unfold asy_op. rewrite Ho, (eqb_f T 0) by lia.
    cbn [asy_body reached negb leaf_fin inner_deadline andb omin before].
    rewrite (leb_f (now s + T) (now s)) by lia. rewrite (ltb_t (now s + d) (now s + T)) by lia.
    cbn [out rst negb andb set_open set_now now topen handler deadline interval workers lock tasks].
    unfold restored, timer_back. repeat split; auto.
Qed.

(* ---------------- histories: several decorated calls on one connection object ---------------- *)
Lemma user_handler_alarm s : user_handler s = true -> alarm s = None.
Proof. unfold user_handler, alarm. destruct (handler s); auto; discriminate. Qed.

Lemma restored_set_now m s t : restored m s (set_now t s).
Proof. unfold restored, timer_back. destruct s; cbn. repeat split; auto. Qed.

Lemma restored_keeps m s s' : restored m s s' -> keeps s s'.
Proof. unfold restored, timer_back, keeps. intros (A & (B & _) & C & D & E). repeat split; auto. Qed.

Lemma want_out_not_hang c : want_out c <> Hang.
Proof. unfold want_out. destruct (h_leaf c); discriminate. Qed.

(* a call with no limit whose one read the device answers: the call is its body *)
Lemma zero_call m nt msg l s f o :
  topen s = true -> user_handler s = true -> leaf_fin l (now s) None = Some (f, o) -> o <> Hang ->
  let r := run_wrapped m true nt 0 msg l s in
  out r = o /\ rst r = set_now f s.
Proof.
  intros Ho Hu Hf Hn r. subst r. unfold run_wrapped.
  destruct (timeout_zero_disables m (mkC true nt 0 msg false 0 [] 0 false true) [l] s eq_refl eq_refl
              (user_handler_alarm s Hu)) as [E1 E2].
  assert (P : plain_seq [l] s 0 = mkR o (set_now f s)).
  { cbn [plain_seq]. rewrite Ho. cbn [negb]. rewrite Hf. destruct o; reflexivity. }
  rewrite P in E1, E2. cbn [out rst] in E1, E2. split; [exact E1 | apply E2; exact Hn].
Qed.

(* what ONE call does, from the call alone and the state it starts in *)
Lemma call_spec m c s :
  call_ok m c -> topen s = true -> user_handler s = true ->
  let r := run_call m c s in
  out r = want_out c /\ now (rst r) = now s + want_dur c /\ topen (rst r) = want_open c /\
  restored m s (rst r).
Proof.
  destruct c as [w mt nt T msg l]. unfold call_ok, run_call, want_out, want_dur, want_open.
  cbn [h_leaf h_T h_nt h_msg]. intros Hk Ho Hu.
  destruct l as [d v | d e | | ].
  - destruct Hk as [-> | Hd].
    + destruct (zero_call m nt msg (Ret d v) s (now s + d) (Returned v) Ho Hu eq_refl) as [E1 E2];
        [discriminate |]. cbn zeta. rewrite E1, E2. repeat split; auto.
    + pose proof (completes_in_time m (mkC true nt T msg false 0 [] 0 false true) [Ret d v] s) as H.
      cbn [c_rearm c_To c_Ti all_ret dur last_val] in H. rewrite N.add_0_r in H.
      unfold run_wrapped. apply H; auto; try lia. unfold inner_eff. cbn. discriminate.
  - destruct Hk as [-> | Hd].
    + destruct (zero_call m nt msg (Exc d e) s (now s + d) (Raised (EOther e)) Ho Hu eq_refl) as [E1 E2];
        [discriminate |]. cbn zeta. rewrite E1, E2. repeat split; auto.
    + apply own_exception_propagates; auto; lia.
  - destruct Hk as [HT Hm]. apply timeout_fires_single; auto.
  - destruct Hk as [HT Hm]. apply timeout_fires_single; auto.
Qed.

(* the history theorem: on one connection object, whatever was run before -
   (1) the mechanism of call n is select_mech of call n's own context,
   (2) outcome, duration and the transport's state after call n are those the call alone prescribes (a call that
       cannot complete raises ScrapliTimeout exactly at its own limit; one the device answers is left alone),
   (3) handler, timer interval, workers, lock and tasks are after every call what they were before the first. *)
Theorem hist_independent tc coro cls : forall calls s,
  user_handler s = true ->
  Forall (fun c => call_ok (call_mech tc coro cls c) c) calls ->
  let rs := run_hist tc coro cls calls s in
  map fst rs = map (call_mech tc coro cls) calls /\
  map seen rs = want_hist calls (now s) /\
  Forall (fun x => keeps s (rst (snd x))) rs.
Proof.
  induction calls as [|c r IH]; intros s Hu Hf; cbn zeta.
  - cbn. repeat split; constructor.
  - inversion Hf as [|c' r' Hc Hr]; subst. cbn [run_hist].
    set (s1 := set_open true s).
    assert (Ho1 : topen s1 = true) by reflexivity.
    assert (Hu1 : user_handler s1 = true) by (unfold user_handler in *; destruct s; exact Hu).
    assert (Hn1 : now s1 = now s) by reflexivity.
    assert (K1 : keeps s s1) by (unfold keeps; destruct s; cbn; repeat split; reflexivity).
    destruct (call_spec _ c s1 Hc Ho1 Hu1) as (E1 & E2 & E3 & E4). cbn zeta in *.
    set (x := run_call (call_mech tc coro cls c) c s1) in *.
    apply restored_keeps in E4.
    assert (K : keeps s (rst x)).
    { destruct K1 as (a1 & a2 & a3 & a4 & a5), E4 as (b1 & b2 & b3 & b4 & b5).
      unfold keeps. repeat split; congruence. }
    assert (Hm : match out x with Hang => [] | _ => run_hist tc coro cls r (rst x) end
                 = run_hist tc coro cls r (rst x)).
    { pose proof (want_out_not_hang c) as W. rewrite <- E1 in W. destruct (out x); congruence || reflexivity. }
    rewrite Hm.
    assert (Hux : user_handler (rst x) = true).
    { destruct K as (a1 & _). unfold user_handler in *. rewrite a1. exact Hu. }
    destruct (IH (rst x) Hux Hr) as (I1 & I2 & I3). cbn zeta in *.
    cbn [map fst snd want_hist]. repeat split.
    + rewrite I1. reflexivity.
    + unfold seen at 1. cbn [snd]. rewrite E1, E2, E3, Hn1, I2, E2, Hn1. reflexivity.
    + constructor; [exact K|].
      eapply Forall_impl; [|exact I3]. intros y (b1 & b2 & b3 & b4 & b5).
      destruct K as (a1 & a2 & a3 & a4 & a5). unfold keeps. repeat split; congruence.
Qed.

(* the premises are satisfiable by a history that changes thread between the calls, both ways, on a class name
   on the signal side of the split, with a stall in the worker thread and one in the main thread *)
Ltac ok_call :=
  cbn; first [ right; lia | left; reflexivity
             | split; [lia | intro; first [discriminate | split; reflexivity]] ].
Definition hist_example : list hcall :=
  [mkH false true false 100 [1] (Ret 5 1); mkH false false false 100 [1] StallClosed;
   mkH false true true 50 [2] Stall; mkH false false false 0 [1] (Exc 3 4)].
Example hist_premises :
  user_handler s0 = true /\ Forall (fun c => call_ok (call_mech [[83]] false [80] c) c) hist_example
  /\ map fst (run_hist [[83]] false [80] hist_example s0) = [MSignal; MThread; MSignal; MThread].
Proof.
  split; [reflexivity|]. split; [|vm_compute; reflexivity].
  unfold hist_example. repeat (constructor; [ok_call|]). constructor.
Qed.

(* a selection kept on the object (worked out at the first call that has a limit) is NOT per call: main thread
   first, then a worker thread - the second call runs under the signal mechanism, which select_mech does not
   prescribe for a call issued outside the main thread *)
Theorem cached_selection_differs :
  exists tc cls calls s,
    user_handler s = true /\ Forall (fun c => call_ok (call_mech tc false cls c) c) calls /\
    map fst (run_hist_cached tc false cls None calls s) <> map (call_mech tc false cls) calls.
Proof.
  exists [[83]], [80], [mkH false true false 100 [1] (Ret 5 1); mkH false false false 100 [1] StallClosed], s0.
  split; [reflexivity|]. split.
  - repeat (constructor; [ok_call|]). constructor.
  - vm_compute. discriminate.
Qed.
