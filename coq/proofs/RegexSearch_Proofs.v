(* RegexSearch_Proofs.v — soundness of the one-pass emptiness search [decide1]. *)
From Coq Require Import FMapPositive Lia.
From Verif Require Import Bytes Regex RegexDeriv RegexDecide Regex_Proofs RegexSearch.

Definition inm (m : wmap) (q : state) : Prop := exists i, wfind m i = Some q.
Definition bounded (m : wmap) (next : positive) : Prop := forall i q, wfind m i = Some q -> (i < next)%positive.
Definition ext (m m' : wmap) : Prop := forall i q, wfind m i = Some q -> wfind m' i = Some q.
Definition good (atoms : list atom) (m : wmap) (q : state) : Prop :=
  accepting q = false /\ forall a, In a atoms -> inm m (step q (fst a)).

Lemma ext_refl m : ext m m. Proof. intros i q H; exact H. Qed.
Lemma ext_trans a b c : ext a b -> ext b c -> ext a c.
Proof. intros H1 H2 i q H. apply H2, H1, H. Qed.
Lemma inm_ext m m' q : ext m m' -> inm m q -> inm m' q.
Proof. intros He [i Hi]. exists i. apply He. exact Hi. Qed.
Lemma good_ext atoms m m' q : ext m m' -> good atoms m q -> good atoms m' q.
Proof. intros He [Ha Hs]. split; [exact Ha|]. intros a Hin. eapply inm_ext; [exact He|apply Hs; exact Hin]. Qed.

Lemma add_fresh m next q' :
  bounded m next ->
  ext m (PositiveMap.add next q' m) /\ bounded (PositiveMap.add next q' m) (Pos.succ next) /\
  wfind (PositiveMap.add next q' m) next = Some q' /\
  (forall i q, wfind (PositiveMap.add next q' m) i = Some q -> wfind m i = Some q \/ q = q').
Proof.
  intros Hb. unfold ext, bounded, wfind in *. repeat split.
  - intros i q H. specialize (Hb i q H). rewrite PositiveMap.gso by lia. exact H.
  - intros i q H. destruct (Pos.eq_dec i next) as [E|E]; [subst; lia|].
    rewrite PositiveMap.gso in H by exact E. specialize (Hb i q H). lia.
  - apply PositiveMap.gss.
  - intros i q H. destruct (Pos.eq_dec i next) as [E|E].
    + subst. rewrite PositiveMap.gss in H. inversion H. right. reflexivity.
    + rewrite PositiveMap.gso in H by exact E. left. exact H.
Qed.

Lemma vknown_sound q' tree m i : vknown q' tree m = Some i -> wfind m i = Some q'.
Proof.
  unfold vknown. destruct (bst_find q' tree) as [j|]; [|discriminate].
  destruct (wfind m j) as [q''|] eqn:E; [|discriminate].
  destruct (state_eqb q' q'') eqn:Eq; [|discriminate].
  intros H. inversion H. subst. apply state_eqb_eq in Eq. subst. exact E.
Qed.

Definition memo_ok (q : state) (m : wmap) (memo : list (list bool * positive)) : Prop :=
  forall sg j, In (sg, j) memo -> exists c0, csig (qfront q c0) c0 = sg /\ wfind m j = Some (step q c0).

Lemma memo_ok_ext q m m' memo : ext m m' -> memo_ok q m memo -> memo_ok q m' memo.
Proof. intros He H sg j Hin. destruct (H sg j Hin) as [c0 [H1 H2]]. exists c0. split; [exact H1|apply He; exact H2]. Qed.

Lemma vexpand_spec : forall atoms q tree m next newq memo tree' m' next' out,
  vexpand atoms q tree m next newq memo = (tree', m', next', out) ->
  bounded m next -> memo_ok q m memo -> (forall q1, In q1 newq -> inm m q1) ->
  ext m m' /\ bounded m' next' /\
  (forall a, In a atoms -> inm m' (step q (fst a))) /\
  (forall q1, In q1 out -> inm m' q1) /\
  (forall i q1, wfind m' i = Some q1 -> wfind m i = Some q1 \/ In q1 out) /\
  (forall q1, In q1 newq -> In q1 out).
Proof.
  induction atoms as [|a atoms IH]; intros q tree m next newq memo tree' m' next' out H Hb Hmemo Hnew.
  - cbn in H. inversion H. subst. repeat split.
    + apply ext_refl.
    + exact Hb.
    + intros a [].
    + intros q1 Hq. apply Hnew. apply in_rev. exact Hq.
    + intros i q1 Hi. left. exact Hi.
    + intros q1 Hq. apply -> in_rev. exact Hq.
  - cbn [vexpand] in H.
    destruct (assoc_sig (csig (qfront q (fst a)) (fst a)) memo) as [j|] eqn:Ea.
    + (* same signature as an earlier atom *)
      destruct (IH _ _ _ _ _ _ _ _ _ _ H Hb Hmemo Hnew) as (He & Hb' & Hall & Hout & Hnewent & Hsub).
      repeat split; try assumption.
      intros a' [E|Hin]; [|apply Hall; exact Hin]. subst a'.
      apply assoc_sig_In in Ea. destruct (Hmemo _ _ Ea) as [c0 [Hsig Hf]].
      exists j. apply He. rewrite Hf. f_equal. apply csig_step. exact Hsig.
    + destruct (vknown (step q (fst a)) tree m) as [i|] eqn:Ek.
      * apply vknown_sound in Ek.
        assert (Hmemo' : memo_ok q m ((csig (qfront q (fst a)) (fst a), i) :: memo)).
        { intros sg j [E|Hin]; [inversion E; subst; exists (fst a); split; [reflexivity|exact Ek]|exact (Hmemo sg j Hin)]. }
        destruct (IH _ _ _ _ _ _ _ _ _ _ H Hb Hmemo' Hnew) as (He & Hb' & Hall & Hout & Hnewent & Hsub).
        repeat split; try assumption.
        intros a' [E|Hin]; [|apply Hall; exact Hin]. subst a'. exists i. apply He. exact Ek.
      * unfold vadd in H.
        destruct (add_fresh m next (step q (fst a)) Hb) as (He0 & Hb0 & Hf0 & Hnew0).
        assert (Hmemo' : memo_ok q (PositiveMap.add next (step q (fst a)) m) ((csig (qfront q (fst a)) (fst a), next) :: memo)).
        { intros sg j [E|Hin].
          - inversion E. subst. exists (fst a). split; [reflexivity|exact Hf0].
          - exact (memo_ok_ext _ _ _ _ He0 Hmemo sg j Hin). }
        assert (Hnew' : forall q1, In q1 (step q (fst a) :: newq) -> inm (PositiveMap.add next (step q (fst a)) m) q1).
        { intros q1 [E|Hin]; [subst; exists next; exact Hf0|eapply inm_ext; [exact He0|apply Hnew; exact Hin]]. }
        destruct (IH _ _ _ _ _ _ _ _ _ _ H Hb0 Hmemo' Hnew') as (He & Hb' & Hall & Hout & Hnewent & Hsub).
        repeat split; try assumption.
        -- eapply ext_trans; [exact He0|exact He].
        -- intros a' [E|Hin]; [|apply Hall; exact Hin]. subst a'. exists next. apply He. exact Hf0.
        -- intros i q1 Hi. destruct (Hnewent i q1 Hi) as [Hold|Hin]; [|right; exact Hin].
           destruct (Hnew0 i q1 Hold) as [Hm|E]; [left; exact Hm|]. right. subst. apply Hsub. left. reflexivity.
        -- intros q1 Hin. apply Hsub. right. exact Hin.
Qed.

Section Closure.
  Variables (CL : list cset) (atoms : list atom) (m : wmap).
  Hypothesis Hat : atoms_ok CL atoms = true.
  Hypothesis Hall : forall i q, wfind m i = Some q -> good atoms m q.

  Lemma step_inm q c : inm m q -> incl (top_classes (snd q)) CL -> is_byte c = true ->
    inm m (step q c) /\ accepting q = false /\ incl (top_classes (snd (step q c))) CL.
  Proof.
    intros [i Hi] Hcls Hc. destruct (Hall i q Hi) as [Hacc Hsucc].
    split; [|split; [exact Hacc|unfold step; cbn [snd]; intros z Hz; apply Hcls; eapply td_classes; exact Hz]].
    pose proof Hat as Hat'. unfold atoms_ok in Hat'. apply andb_prop in Hat' as [Hind Hcov].
    rewrite forallb_forall in Hcov. specialize (Hcov c (all256_spec c Hc)).
    apply existsb_exists in Hcov as [a [Ha Hm]]. apply mem_In in Hm.
    rewrite forallb_forall in Hind. specialize (Hind a Ha). rewrite forallb_forall in Hind.
    specialize (Hind c Hm). apply indist_spec in Hind as [Hk Hsame].
    assert (Es : step q c = step q (fst a)).
    { unfold step. rewrite <- Hk. f_equal. symmetry. apply td_indist; [exact Hk|].
      intros s Hs. apply Hsame. apply Hcls. exact Hs. }
    rewrite Es. apply Hsucc. exact Ha.
  Qed.

  Lemma closure_sound : forall s q, inm m q -> incl (top_classes (snd q)) CL ->
    all_bytes s = true -> trun (fst q) (snd q) s = false.
  Proof.
    induction s as [|c s IH]; intros q Hq Hcls Hs.
    - cbn. destruct (step_inm q 0 Hq Hcls eq_refl) as (_ & Hacc & _). exact Hacc.
    - cbn in Hs. apply andb_prop in Hs as [Hc Hs]. cbn [trun].
      destruct (step_inm q c Hq Hcls Hc) as (Hin & _ & Hcls').
      exact (IH (step q c) Hin Hcls' Hs).
  Qed.
End Closure.

Definition vinv (atoms : list atom) (x : vs) : Prop :=
  bounded (v_map x) (v_next x) /\
  (forall q, In q (v_queue x) -> inm (v_map x) q) /\
  (forall i q, wfind (v_map x) i = Some q -> In q (v_queue x) \/ good atoms (v_map x) q).

Lemma vloop_sound atoms : forall fuel x,
  vinv atoms x -> vloop fuel atoms x = true ->
  exists m', ext (v_map x) m' /\ forall i q, wfind m' i = Some q -> good atoms m' q.
Proof.
  induction fuel as [|f IH]; intros x (Hb & Hq & Hg) H; [discriminate|].
  cbn [vloop] in H. destruct (v_queue x) as [|q rest] eqn:Eq.
  - exists (v_map x). split; [apply ext_refl|]. intros i q Hi. destruct (Hg i q Hi) as [[]|G]. exact G.
  - destruct (accepting q) eqn:Eacc; [discriminate|].
    destruct (vexpand atoms q (v_tree x) (v_map x) (v_next x) [] []) as [[[tree m] next] newq] eqn:Ex.
    destruct (vexpand_spec _ _ _ _ _ _ _ _ _ _ _ Ex Hb (fun sg j (F : In (sg, j) []) => match F with end)
                (fun q1 (F : In q1 []) => match F with end)) as (He & Hb' & Hall & Hout & Hnewent & _).
    assert (Hinv' : vinv atoms (mkV tree m next (rest ++ newq))).
    { cbn [v_map v_next v_queue vinv]. unfold vinv. cbn [v_map v_next v_queue]. repeat split.
      - exact Hb'.
      - intros q1 Hin. apply in_app_or in Hin as [Hin|Hin]; [eapply inm_ext; [exact He|apply Hq; right; exact Hin]|apply Hout; exact Hin].
      - intros i q1 Hi. destruct (Hnewent i q1 Hi) as [Hold|Hin]; [|left; apply in_or_app; right; exact Hin].
        destruct (Hg i q1 Hold) as [[E|Hin]|G].
        + subst q1. right. split; [exact Eacc|exact Hall].
        + left. apply in_or_app. left. exact Hin.
        + right. eapply good_ext; [exact He|exact G]. }
    destruct (IH _ Hinv' H) as [m' [He' Hall']]. cbn [v_map] in He'.
    exists m'. split; [eapply ext_trans; [exact He|exact He']|exact Hall'].
Qed.

Theorem decide1_sound CL atoms fuel t0 :
  decide1 CL atoms fuel t0 = true ->
  forall s, all_bytes s = true -> accepts t0 s = false.
Proof.
  unfold decide1. intros H s Hs. apply andb_prop in H as [H Hloop]. apply andb_prop in H as [Hat Hcl].
  assert (Hinv : vinv atoms (vinit t0)).
  { unfold vinit, vinv. cbn [v_map v_next v_queue]. repeat split.
    - intros i q Hi. unfold wfind in Hi. destruct (Pos.eq_dec i 1) as [E|E]; [subst; lia|].
      rewrite PositiveMap.gso in Hi by exact E. rewrite PositiveMap.gempty in Hi. discriminate.
    - intros q [E|[]]. subst. exists 1%positive. unfold wfind. apply PositiveMap.gss.
    - intros i q Hi. unfold wfind in Hi. destruct (Pos.eq_dec i 1) as [E|E].
      + subst. rewrite PositiveMap.gss in Hi. inversion Hi. left. left. reflexivity.
      + rewrite PositiveMap.gso in Hi by exact E. rewrite PositiveMap.gempty in Hi. discriminate. }
  destruct (vloop_sound atoms fuel _ Hinv Hloop) as [m' [He Hall]].
  assert (Hq0 : inm m' (true, t0)).
  { exists 1%positive. apply He. unfold vinit. cbn [v_map]. unfold wfind. apply PositiveMap.gss. }
  assert (Hcls : incl (top_classes (snd (true, t0))) CL).
  { cbn [snd]. intros z Hz. eapply classes_in_spec; [exact Hcl|exact Hz]. }
  exact (closure_sound CL atoms m' Hat Hall s (true, t0) Hq0 Hcls Hs).
Qed.
