(* Send_Proofs.v — delivery, stop-on-failure, send_config = send_configs . splitlines, from-file,
   abort inside the failed session (model/Send.v). *)
From Coq Require Import Strings.String.
From Verif Require Import Bytes Response Send Response_Proofs.
From Coq Require Import Lia.

(* ------------------------------------------------------------------------------------------ *)
(* specification side                                                                           *)
(* ------------------------------------------------------------------------------------------ *)
(* the events a list of lines must produce: each line once, in order, then one return *)
Definition lines_events (ls : list bytes) : list ev := flat_map send_input ls.

Lemma lines_events_app : forall a b, lines_events (a ++ b) = lines_events a ++ lines_events b.
Proof. intros. unfold lines_events. apply flat_map_app. Qed.

Lemma written_app : forall a b, written (a ++ b) = written a ++ written b.
Proof.
  induction a as [|e a IH]; intros; [reflexivity|].
  destruct e; cbn [written app]; rewrite IH; [rewrite app_assoc|]; reflexivity.
Qed.

(* byte for byte: what is written outside navigation is the wire image of the lines *)
Lemma written_lines_events : forall ls, written (lines_events ls) = wire ls.
Proof.
  induction ls as [|l ls IH]; [reflexivity|].
  unfold lines_events, wire in *. cbn [flat_map send_input app written].
  rewrite IH. rewrite <- app_assoc. reflexivity.
Qed.

Section P.
Variable dev : nat -> bytes -> bytes.

(* the response the i-th of n lines must get, and whether it counts as failed *)
Definition spec_resp (f : fwc) (eager : bool) (n i : nat) (l : bytes) : response :=
  record_response (new_response l f) (result_of dev eager n i l).
Definition spec_fails (f : fwc) (eager : bool) (n i : nat) (l : bytes) : bool :=
  contains_any (markers_of f) (result_of dev eager n i l).
Fixpoint spec_resps (f : fwc) (eager : bool) (n i : nat) (ls : list bytes) : list response :=
  match ls with [] => [] | l :: r => spec_resp f eager n i l :: spec_resps f eager n (S i) r end.

Lemma spec_resp_failed : forall f eager n i l,
  r_failed (spec_resp f eager n i l) = spec_fails f eager n i l.
Proof. intros. apply record_failed. Qed.

Lemma spec_resps_app : forall f eager n a i b,
  spec_resps f eager n i (a ++ b) = spec_resps f eager n i a ++ spec_resps f eager n (length a + i) b.
Proof.
  induction a as [|x a IH]; intros; [reflexivity|].
  cbn [app spec_resps length]. rewrite IH. replace (length a + S i)%nat with (S (length a) + i)%nat by lia. reflexivity.
Qed.

Lemma spec_resps_inputs : forall f eager n ls i, map r_input (spec_resps f eager n i ls) = ls.
Proof. induction ls as [|l ls IH]; intros; [reflexivity|]. cbn. rewrite IH. reflexivity. Qed.

Lemma spec_resps_length : forall f eager n ls i, length (spec_resps f eager n i ls) = length ls.
Proof. induction ls as [|l ls IH]; intros; [reflexivity|]. cbn. rewrite IH. reflexivity. Qed.

Lemma send_command_inner : forall f eager n i l, (S i < n)%nat ->
  send_command dev f eager i l = (send_input l, spec_resp f eager n i l).
Proof.
  intros. unfold send_command, spec_resp, result_of.
  assert (E : Nat.ltb (S i) n = true) by (apply Nat.ltb_lt; lia).
  rewrite E, Bool.andb_true_r. reflexivity.
Qed.

Lemma send_command_last : forall f eager n i l, n = S i ->
  send_command dev f false i l = (send_input l, spec_resp f eager n i l).
Proof.
  intros. unfold send_command, spec_resp, result_of.
  assert (E : Nat.ltb (S i) n = false) by (apply Nat.ltb_ge; lia).
  rewrite E, Bool.andb_false_r. reflexivity.
Qed.

(* the all-but-last loop when it does not break *)
Lemma loop_all : forall f stop eager n init i,
  (i + length init < n)%nat ->
  (stop = false \/ forall j l, nth_error init j = Some l -> spec_fails f eager n (i + j) l = false) ->
  loop dev f stop eager i init = (lines_events init, spec_resps f eager n i init, false).
Proof.
  induction init as [|l init IH]; intros i Hn Hf; [reflexivity|].
  cbn [loop]. cbn [length] in Hn. rewrite (send_command_inner f eager n i l) by lia.
  assert (Hb : stop && r_failed (spec_resp f eager n i l) = false).
  { destruct Hf as [-> | Hf]; [reflexivity|].
    rewrite spec_resp_failed. specialize (Hf O l eq_refl). rewrite Nat.add_0_r in Hf.
    rewrite Hf. apply Bool.andb_false_r. }
  rewrite Hb. rewrite (IH (S i)).
  - reflexivity.
  - lia.
  - destruct Hf as [-> | Hf]; [left; reflexivity | right].
    intros j l' Hj. specialize (Hf (S j) l' Hj). replace (S i + j)%nat with (i + S j)%nat by lia. exact Hf.
Qed.

(* the loop when the first failing line is at position k: it breaks right after it *)
Lemma loop_break : forall f eager n init i k l,
  (i + length init < n)%nat ->
  nth_error init k = Some l ->
  (forall j l', (j < k)%nat -> nth_error init j = Some l' -> spec_fails f eager n (i + j) l' = false) ->
  spec_fails f eager n (i + k) l = true ->
  loop dev f true eager i init =
    (lines_events (firstn (S k) init), spec_resps f eager n i (firstn (S k) init), true).
Proof.
  induction init as [|x init IH]; intros i k l Hn Hk Hlt Hf.
  - destruct k; discriminate.
  - cbn [loop]. cbn [length] in Hn. rewrite (send_command_inner f eager n i x) by lia.
    rewrite spec_resp_failed. destruct k as [|k].
    + cbn in Hk. injection Hk as ->. rewrite Nat.add_0_r in Hf. rewrite Hf. cbn [andb].
      cbn [firstn lines_events flat_map spec_resps]. rewrite app_nil_r. reflexivity.
    + assert (E : spec_fails f eager n i x = false).
      { specialize (Hlt O x (Nat.lt_0_succ k) eq_refl). rewrite Nat.add_0_r in Hlt. exact Hlt. }
      rewrite E. cbn [andb]. cbn in Hk.
      rewrite (IH (S i) k l); [reflexivity | lia | exact Hk | | ].
      * intros j l' Hj Hn'. specialize (Hlt (S j) l' (proj1 (Nat.succ_lt_mono j k) Hj) Hn').
        replace (S i + j)%nat with (i + S j)%nat by lia. exact Hlt.
      * replace (S i + k)%nat with (i + S k)%nat by lia. exact Hf.
Qed.

Lemma send_commands_snoc : forall guard f stop eager init lst,
  send_commands dev guard f stop eager (init ++ [lst]) =
    let '(es, rs, broke) := loop dev f stop eager 0 init in
    if broke then (es, Ok rs)
    else let (e, r) := send_command dev f false (length init) lst in
         (es ++ e, Ok (rs ++ [r])).
Proof.
  intros. unfold send_commands.
  destruct (init ++ [lst]) as [|y ys] eqn:E; [destruct init; discriminate|].
  rewrite <- E. rewrite removelast_last, last_last, app_length. cbn [length].
  rewrite Nat.add_1_r. cbn [Nat.sub]. rewrite Nat.sub_0_r. reflexivity.
Qed.

Lemma snoc_length : forall (init : list bytes) lst, length (init ++ [lst]) = S (length init).
Proof. intros. rewrite app_length. apply Nat.add_1_r. Qed.

(* ---- delivery_exact: without a stop, every line is delivered, once, in order, byte for byte *)
Theorem send_commands_all : forall guard f stop eager ls,
  (ls <> [] \/ guard = true) ->
  (stop = false \/
   forall j l, (S j < length ls)%nat -> nth_error ls j = Some l -> spec_fails f eager (length ls) j l = false) ->
  send_commands dev guard f stop eager ls =
    (lines_events ls, Ok (spec_resps f eager (length ls) 0 ls)).
Proof.
  intros guard f stop eager ls Hne Hf.
  destruct ls as [|x0 ls0].
  - destruct Hne as [Hne | ->]; [congruence | reflexivity].
  - remember (x0 :: ls0) as ls eqn:Els.
    assert (Hnn : ls <> []) by (rewrite Els; discriminate). clear Els x0 ls0 Hne.
    destruct (exists_last Hnn) as [init [lst E]]. subst ls.
    rewrite send_commands_snoc.
    pose proof (snoc_length init lst) as Hlen.
    rewrite (loop_all f stop eager (length (init ++ [lst])) init 0).
    + rewrite (send_command_last f eager (length (init ++ [lst])) (length init) lst Hlen).
      rewrite lines_events_app, spec_resps_app. cbn [lines_events flat_map spec_resps].
      rewrite app_nil_r, Nat.add_0_r. reflexivity.
    + rewrite Hlen. cbn [Nat.add]. apply Nat.lt_succ_diag_r.
    + destruct Hf as [-> | Hf]; [left; reflexivity | right].
      intros j l Hj. cbn [Nat.add].
      assert (Hjl : (j < length init)%nat) by (apply nth_error_Some; congruence).
      apply Hf.
      * rewrite Hlen. apply -> Nat.succ_lt_mono. exact Hjl.
      * rewrite nth_error_app1 by exact Hjl. exact Hj.
Qed.

(* ---- stop_on_failed_prefix: first failing line at position k => exactly lines 0..k ---- *)
Theorem stop_on_failed_prefix : forall guard f eager ls k l,
  nth_error ls k = Some l ->
  (forall j l', (j < k)%nat -> nth_error ls j = Some l' -> spec_fails f eager (length ls) j l' = false) ->
  spec_fails f eager (length ls) k l = true ->
  send_commands dev guard f true eager ls =
    (lines_events (firstn (S k) ls), Ok (spec_resps f eager (length ls) 0 (firstn (S k) ls))).
Proof.
  intros guard f eager ls k l Hk Hlt Hf.
  assert (Hnn : ls <> []) by (destruct ls; [destruct k; discriminate | discriminate]).
  destruct (exists_last Hnn) as [init [lst E]]. subst ls.
  pose proof (snoc_length init lst) as Hlen.
  assert (Hkl : (k < S (length init))%nat) by (rewrite <- Hlen; apply nth_error_Some; congruence).
  destruct (Nat.eq_dec k (length init)) as [Hlast | Hnl].
  - (* the failing line is the last one: everything is sent *)
    rewrite firstn_all2 by (rewrite Hlen, Hlast; apply le_n).
    apply send_commands_all; [left; exact Hnn | right].
    intros j l' Hj Hn. apply (Hlt j l'); [rewrite Hlen in Hj; lia | exact Hn].
  - rewrite send_commands_snoc.
    assert (Hki : (k < length init)%nat) by lia.
    assert (Hk' : nth_error init k = Some l) by (rewrite nth_error_app1 in Hk by exact Hki; exact Hk).
    rewrite (loop_break f eager (length (init ++ [lst])) init 0 k l);
      [| rewrite Hlen; cbn [Nat.add]; apply Nat.lt_succ_diag_r | exact Hk' | | exact Hf].
    + rewrite firstn_app. replace (S k - length init)%nat with O by lia.
      cbn [firstn]. rewrite app_nil_r. reflexivity.
    + intros j l' Hj Hn. cbn [Nat.add]. apply (Hlt j l' Hj).
      rewrite nth_error_app1; [exact Hn | apply nth_error_Some; congruence].
Qed.

Lemma spec_resps_in : forall f eager n ls i k l, nth_error ls k = Some l ->
  In (spec_resp f eager n (i + k) l) (spec_resps f eager n i (firstn (S k) ls)).
Proof.
  induction ls as [|x ls IH]; intros i k l Hk; [destruct k; discriminate|].
  destruct k as [|k]; cbn in Hk.
  - injection Hk as ->. rewrite Nat.add_0_r. left. reflexivity.
  - right. replace (i + S k)%nat with (S i + k)%nat by lia. apply IH. exact Hk.
Qed.

(* the run is then marked failed *)
Corollary stop_on_failed_marks_failed : forall f eager ls k l,
  nth_error ls k = Some l -> spec_fails f eager (length ls) k l = true ->
  multi_failed (spec_resps f eager (length ls) 0 (firstn (S k) ls)) = true.
Proof.
  intros f eager ls k l Hk Hf. apply multi_failed_iff_any.
  exists (spec_resp f eager (length ls) k l). split; [| rewrite spec_resp_failed; exact Hf].
  apply (spec_resps_in f eager (length ls) ls O k l Hk).
Qed.

(* ------------------------------------------------------------------------------------------ *)
(* network drivers                                                                              *)
(* ------------------------------------------------------------------------------------------ *)
Definition nav (cur lvl : bytes) : list ev := if beq cur lvl then [] else [ENav lvl].

Lemma acquire_nav : forall cur lvl, acquire cur lvl = (nav cur lvl, lvl) \/ (beq cur lvl = true /\ acquire cur lvl = ([], cur)).
Proof. intros. unfold acquire, nav. destruct (beq cur lvl) eqn:E; [right; auto | left; reflexivity]. Qed.

Lemma beq_refl : forall a, beq a a = true.
Proof. induction a as [|x a IH]; [reflexivity|]. cbn. rewrite N.eqb_refl, IH. reflexivity. Qed.

Lemma beq_eq : forall a b, beq a b = true -> a = b.
Proof.
  induction a as [|x a IH]; destruct b as [|y b]; cbn; try discriminate; [reflexivity|].
  intros H. apply Bool.andb_true_iff in H as [H1 H2]. apply N.eqb_eq in H1. rewrite H1, (IH b H2). reflexivity.
Qed.

Lemma acquire_spec : forall cur lvl, acquire cur lvl = (nav cur lvl, lvl).
Proof.
  intros. unfold acquire, nav. destruct (beq cur lvl) eqn:E; [|reflexivity].
  rewrite (beq_eq _ _ E). reflexivity.
Qed.

(* send_commands of the network driver: navigation to the default level, then the lines *)
Theorem net_send_commands_all : forall d cur f stop eager ls,
  let f' := net_fwc (d_markers d) f in
  (stop = false \/
   forall j l, (S j < length ls)%nat -> nth_error ls j = Some l -> spec_fails f' eager (length ls) j l = false) ->
  net_send_commands dev v_now d cur f stop eager ls =
    (nav cur (d_default_priv d) ++ lines_events ls, Ok (spec_resps f' eager (length ls) 0 ls), d_default_priv d).
Proof.
  intros. subst f'. unfold net_send_commands. rewrite acquire_spec. cbn [v_guard_cmds v_now].
  rewrite (send_commands_all true _ stop eager ls); [reflexivity | right; reflexivity | exact H].
Qed.

(* send_configs without a failed run: [navigation] ++ the lines, nothing else *)
Theorem send_configs_all : forall d cur f stop eager priv lvl ls,
  let f' := net_fwc (d_markers d) f in
  resolve_level d priv = Ok lvl ->
  (stop = false \/
   forall j l, nth_error ls j = Some l -> spec_fails f' eager (length ls) j l = false) ->
  send_configs dev v_now d cur f stop eager priv ls =
    (nav cur lvl ++ lines_events ls, Ok (spec_resps f' eager (length ls) 0 ls), lvl).
Proof.
  intros d cur f stop eager priv lvl ls f' Hr Hf.
  unfold send_configs, send_configs_core. rewrite Hr, acquire_spec. cbn [v_guard_cmds v_now]. fold f'.
  rewrite (send_commands_all true f' stop eager ls); [| right; reflexivity |].
  - destruct Hf as [-> | Hf]; [reflexivity|].
    assert (E : multi_failed (spec_resps f' eager (length ls) 0 ls) = false).
    { destruct (multi_failed _) eqn:E; [|reflexivity]. exfalso.
      apply multi_failed_iff_any in E as [r [Hin Hr']].
      assert (G : forall ls0 i, In r (spec_resps f' eager (length ls) i ls0) ->
                  exists j l, nth_error ls0 j = Some l /\ r = spec_resp f' eager (length ls) (i + j) l).
      { clear. induction ls0 as [|x ls0 IH]; intros i Hin; [destruct Hin|].
        destruct Hin as [<- | Hin].
        - exists O, x. rewrite Nat.add_0_r. split; reflexivity.
        - destruct (IH (S i) Hin) as [j [l [Hj ->]]]. exists (S j), l. split; [exact Hj|].
          f_equal. lia. }
      destruct (G ls O Hin) as [j [l [Hj ->]]]. rewrite spec_resp_failed in Hr'. cbn [Nat.add] in Hr'.
      rewrite (Hf j l Hj) in Hr'. discriminate. }
    rewrite E, Bool.andb_false_r. reflexivity.
  - destruct Hf as [-> | Hf]; [left; reflexivity | right]. intros j l _ Hj. apply Hf. exact Hj.
Qed.

(* the abort step of a shape that stays in the session (direct send_input, or send_configs given
   the current level): the abort lines, without any navigation, believed level updated *)
Definition keeps_session (a : abort_shape) : bool := negb (a_via_configs a) || a_keep_level a.

Definition abort_lines (d : drv) (lvl : bytes) : list bytes :=
  if a_guard (d_abort d) && negb (is_session d lvl) then [] else a_lines (d_abort d).
Definition abort_after (d : drv) (lvl : bytes) : bytes :=
  if a_guard (d_abort d) && negb (is_session d lvl) then lvl
  else match a_after (d_abort d) with Some x => x | None => lvl end.

Lemma abort_spec : forall d lvl,
  keeps_session (d_abort d) = true -> lvl <> [] -> has_level d lvl = true ->
  abort dev v_now d lvl = (lines_events (abort_lines d lvl), None, abort_after d lvl).
Proof.
  intros d lvl Hk Hne Hl. unfold abort, abort_lines, abort_after.
  destruct (a_guard (d_abort d) && negb (is_session d lvl)); [reflexivity|].
  unfold keeps_session in Hk. destruct (a_via_configs (d_abort d)) eqn:Ev.
  - cbn in Hk. rewrite Hk. unfold send_configs_core.
    assert (Er : resolve_level d lvl = Ok lvl).
    { unfold resolve_level. destruct lvl; [congruence|]. rewrite Hl. reflexivity. }
    rewrite Er. unfold acquire. rewrite beq_refl. cbn [v_guard_cmds v_now].
    rewrite (send_commands_all true _ false false (a_lines (d_abort d))); [reflexivity | right; reflexivity | left; reflexivity].
  - reflexivity.
Qed.

(* ---- abort_in_session: a failed run with stop_on_failed =
        [navigation] ++ lines 0..k ++ the abort step, with no navigation after the first line ---- *)
Theorem send_configs_failed_run : forall d cur f eager priv lvl ls k l,
  let f' := net_fwc (d_markers d) f in
  keeps_session (d_abort d) = true -> has_level d lvl = true ->
  resolve_level d priv = Ok lvl ->
  nth_error ls k = Some l ->
  (forall j l', (j < k)%nat -> nth_error ls j = Some l' -> spec_fails f' eager (length ls) j l' = false) ->
  spec_fails f' eager (length ls) k l = true ->
  send_configs dev v_now d cur f true eager priv ls =
    (nav cur lvl ++ lines_events (firstn (S k) ls) ++ lines_events (abort_lines d lvl),
     Ok (spec_resps f' eager (length ls) 0 (firstn (S k) ls)),
     abort_after d lvl).
Proof.
  intros d cur f eager priv lvl ls k l f' Hks Hl Hr Hk Hlt Hf.
  assert (Hne : lvl <> []).
  { unfold resolve_level in Hr. destruct priv.
    - injection Hr as <-. discriminate.
    - destruct (has_level d (n :: priv)); [injection Hr as <-; discriminate | discriminate]. }
  unfold send_configs, send_configs_core. rewrite Hr, acquire_spec. cbn [v_guard_cmds v_now]. fold f'.
  rewrite (stop_on_failed_prefix true f' eager ls k l Hk Hlt Hf).
  rewrite (stop_on_failed_marks_failed f' eager ls k l Hk Hf). cbn [andb].
  rewrite (abort_spec d lvl Hks Hne Hl). rewrite <- app_assoc. reflexivity.
Qed.

End P.

(* ------------------------------------------------------------------------------------------ *)
(* device side: a line-oriented device whose mode only the navigation changes                   *)
(* ------------------------------------------------------------------------------------------ *)
Definition no_lf (l : bytes) : Prop := ~ In 10 l.

Lemma feed_no_lf : forall mode l acc, no_lf l -> feed mode acc l = ([], rev l ++ acc).
Proof.
  induction l as [|c l IH]; intros acc H; [reflexivity|].
  cbn [feed]. destruct (c =? 10) eqn:E.
  - apply N.eqb_eq in E. exfalso. apply H. left. exact E.
  - rewrite IH by (intros Hin; apply H; right; exact Hin). cbn [rev]. rewrite <- app_assoc. reflexivity.
Qed.

Lemma dlog_lines : forall mode ls rest, Forall no_lf ls ->
  dlog mode [] (lines_events ls ++ rest) = map (fun l => (mode, l)) ls ++ dlog mode [] rest.
Proof.
  induction ls as [|l ls IH]; intros rest H; [reflexivity|].
  inversion H as [|? ? Hl Hls]; subst.
  unfold lines_events. cbn [flat_map send_input app dlog].
  rewrite (feed_no_lf mode l [] Hl). rewrite app_nil_r. cbn [app dlog RET feed].
  rewrite N.eqb_refl. cbn [feed app]. rewrite rev_involutive.
  fold (lines_events ls). rewrite IH by exact Hls. reflexivity.
Qed.

Lemma dlog_nav : forall cur lvl rest, dlog cur [] (nav cur lvl ++ rest) = dlog lvl [] rest.
Proof.
  intros. unfold nav. destruct (beq cur lvl) eqn:E; [|reflexivity].
  rewrite (beq_eq _ _ E). reflexivity.
Qed.

(* delivery as the device sees it (its mode is the level the driver believes in, C03): the log of
   a run without failure is exactly the given lines, each once, in order, in the target level *)
Theorem delivery_device : forall dev d cur f stop eager priv lvl ls,
  let f' := net_fwc (d_markers d) f in
  resolve_level d priv = Ok lvl -> Forall no_lf ls ->
  (stop = false \/ forall j l, nth_error ls j = Some l -> spec_fails dev f' eager (length ls) j l = false) ->
  dlog cur [] (fst (fst (send_configs dev v_now d cur f stop eager priv ls))) = map (fun l => (lvl, l)) ls.
Proof.
  intros. rewrite (send_configs_all dev d cur f stop eager priv lvl ls) by assumption.
  cbn [fst]. rewrite dlog_nav. rewrite <- (app_nil_r (lines_events ls)).
  rewrite dlog_lines by assumption. cbn [dlog]. apply app_nil_r.
Qed.

(* abort_in_session, device side: lines 0..k and then the abort / rollback lines, all of them
   executed in the level of the session that failed *)
Theorem abort_in_session : forall dev d cur f eager priv lvl ls k l,
  let f' := net_fwc (d_markers d) f in
  keeps_session (d_abort d) = true -> has_level d lvl = true ->
  resolve_level d priv = Ok lvl -> Forall no_lf ls -> Forall no_lf (a_lines (d_abort d)) ->
  nth_error ls k = Some l ->
  (forall j l', (j < k)%nat -> nth_error ls j = Some l' -> spec_fails dev f' eager (length ls) j l' = false) ->
  spec_fails dev f' eager (length ls) k l = true ->
  dlog cur [] (fst (fst (send_configs dev v_now d cur f true eager priv ls))) =
    map (fun x => (lvl, x)) (firstn (S k) ls) ++ map (fun x => (lvl, x)) (abort_lines d lvl).
Proof.
  intros dev d cur f eager priv lvl ls k l f' Hks Hl Hr Hls Hab Hk Hlt Hf.
  rewrite (send_configs_failed_run dev d cur f eager priv lvl ls k l Hks Hl Hr Hk Hlt Hf).
  cbn [fst]. rewrite dlog_nav.
  assert (H1 : Forall no_lf (firstn (S k) ls)).
  { apply Forall_forall. intros x Hx. rewrite Forall_forall in Hls. apply Hls.
    rewrite <- (firstn_skipn (S k) ls). apply in_or_app. left. exact Hx. }
  rewrite dlog_lines by exact H1.
  assert (H2 : Forall no_lf (abort_lines d lvl)).
  { unfold abort_lines. destruct (a_guard (d_abort d) && negb (is_session d lvl)); [constructor | exact Hab]. }
  rewrite <- (app_nil_r (lines_events (abort_lines d lvl))).
  rewrite dlog_lines by exact H2. cbn [dlog]. rewrite app_nil_r. reflexivity.
Qed.

(* ------------------------------------------------------------------------------------------ *)
(* send_config = send_configs of its lines                                                      *)
(* ------------------------------------------------------------------------------------------ *)
Theorem send_config_eq_send_configs_splitlines : forall dev v d cur f stop eager priv cfg,
  let '(es, o, cur') := send_configs dev v d cur f stop eager priv (usplitlines cfg) in
  exists o', send_config dev v d cur f stop eager priv cfg = (es, o', cur') /\
    match o with
    | Raised e => o' = Raised e
    | Ok [] => o' = (if v_guard_cfg v then Ok (mkR cfg [] [] false) else Raised IndexError)
    | Ok (r0 :: rs) =>
        exists r, o' = Ok r /\ r_input r = cfg /\
                  r_failed r = multi_failed (r0 :: rs) /\
                  r_result r = join [10] (map r_result (r0 :: rs))
    end.
Proof.
  intros. unfold send_config.
  destruct (send_configs dev v d cur f stop eager priv (usplitlines cfg)) as [[es o] cur'].
  eexists. split; [reflexivity|].
  destruct o as [rs | e]; [| reflexivity].
  destruct rs as [|r0 rs]; [reflexivity|].
  eexists. split; [reflexivity|]. repeat split.
Qed.

(* ------------------------------------------------------------------------------------------ *)
(* from-file variants: the lines are the splitlines of the text                                 *)
(* ------------------------------------------------------------------------------------------ *)
(* no line boundary of str.splitlines starts anywhere in l *)
Fixpoint cleanb (l : bytes) : bool :=
  match l with
  | [] => true
  | c :: r =>
      negb (single_boundary c) && negb (c =? 13)
      && negb ((c =? 194) && match r with c2 :: _ => c2 =? 133 | [] => false end)
      && negb ((c =? 226) && match r with
                              | c2 :: c3 :: _ => (c2 =? 128) && ((c3 =? 168) || (c3 =? 169))
                              | _ => false end)
      && cleanb r
  end.

Lemma usl_line : forall l cur rest, cleanb l = true ->
  usl cur (l ++ 10 :: rest) = (rev cur ++ l) :: usl [] rest.
Proof.
  induction l as [|c l IH]; intros cur rest H.
  - cbn [app usl single_boundary]. cbn. rewrite app_nil_r. reflexivity.
  - cbn [cleanb] in H.
    repeat (apply Bool.andb_true_iff in H; destruct H as [H ?]).
    apply Bool.negb_true_iff in H. apply Bool.negb_true_iff in H3.
    apply Bool.negb_true_iff in H2. apply Bool.negb_true_iff in H1.
    assert (Hfin : usl (c :: cur) (l ++ 10 :: rest) = (rev cur ++ c :: l) :: usl [] rest).
    { rewrite IH by assumption. cbn [rev]. rewrite <- app_assoc. reflexivity. }
    cbn [app usl]. rewrite H, H3.
    destruct (c =? 194) eqn:E194.
    + destruct l as [|c2 l']; cbn [app].
      * cbn. exact Hfin.
      * cbn [andb] in H2. rewrite H2. exact Hfin.
    + destruct (c =? 226) eqn:E226; [| exact Hfin].
      destruct l as [|c2 l']; cbn [app].
      * cbn. exact Hfin.
      * destruct (c2 =? 128) eqn:E128; [| exact Hfin].
        destruct l' as [|c3 l'']; cbn [app].
        -- cbn. exact Hfin.
        -- cbn [andb] in H1. rewrite H1. exact Hfin.
Qed.

Theorem usplitlines_wire : forall ls, Forall (fun l => cleanb l = true) ls -> usplitlines (wire ls) = ls.
Proof.
  unfold usplitlines, wire, RET. induction ls as [|l ls IH]; intros H; [reflexivity|].
  inversion H; subst. cbn [flat_map]. rewrite <- app_assoc.
  cbn [app]. rewrite usl_line by assumption. cbn [rev app]. rewrite IH by assumption. reflexivity.
Qed.

(* a file (or config string) holding the lines, each terminated by a newline, delivers exactly them *)
Theorem from_file_delivers_lines : forall dev v d cur f stop eager priv ls,
  Forall (fun l => cleanb l = true) ls ->
  send_configs_from_file dev v d cur f stop eager priv (wire ls) = send_configs dev v d cur f stop eager priv ls /\
  net_send_commands_from_file dev v d cur f stop eager (wire ls) = net_send_commands dev v d cur f stop eager ls /\
  send_commands_from_file dev (v_guard_cmds v) f stop eager (wire ls) = send_commands dev (v_guard_cmds v) f stop eager ls.
Proof.
  intros. unfold send_configs_from_file, net_send_commands_from_file, send_commands_from_file.
  rewrite usplitlines_wire by assumption. repeat split.
Qed.

(* ------------------------------------------------------------------------------------------ *)
(* the pinned code, refuted                                                                     *)
(* ------------------------------------------------------------------------------------------ *)
Definition dev0 : nat -> bytes -> bytes := fun _ _ => [].

(* full statement "the empty list is delivered (nothing written, empty MultiResponse)" *)
Definition empty_list_ok (v : ver) : Prop :=
  forall dev f stop eager, send_commands dev (v_guard_cmds v) f stop eager [] = ([], Ok []).
Theorem empty_list_now : empty_list_ok v_now.
Proof. intros dev f stop eager. reflexivity. Qed.
Theorem empty_list_pinned_refuted : ~ empty_list_ok v_pinned.
Proof. intros H. specialize (H dev0 FNone false false). vm_compute in H. discriminate. Qed.

Definition d_plain : drv :=
  mkD (mkA false [] false false None) [(lv_configuration, false)] (bs "privilege_exec"%string) [].

Definition empty_config_ok (v : ver) : Prop :=
  forall dev d cur f stop eager,
    snd (fst (send_config dev v d cur f stop eager [] [])) = Ok (mkR [] [] [] false).
Theorem empty_config_now : empty_config_ok v_now.
Proof. intros dev d cur f stop eager. unfold send_config, send_configs, send_configs_core. cbn [resolve_level usplitlines usl].
  rewrite acquire_spec. cbn. rewrite Bool.andb_false_r. reflexivity. Qed.
Theorem empty_config_pinned_refuted : ~ empty_config_ok v_pinned /\ ~ empty_config_ok (mkV true false).
Proof.
  split; intros H; specialize (H dev0 d_plain lv_configuration FNone false false); vm_compute in H; discriminate.
Qed.

(* Junos at the pinned commit: _abort_config calls send_configs without the level *)
Definition lv_excl : bytes := bs "configuration_exclusive"%string.
Definition junos_shape (keep : bool) : abort_shape :=
  mkA false [bs "rollback 0"%string; bs "exit"%string] true keep (Some (bs "exec"%string)).
Definition d_junos (keep : bool) : drv :=
  mkD (junos_shape keep)
      [(bs "exec"%string, false); (lv_configuration, false); (lv_excl, false); (bs "configuration_private"%string, false)]
      (bs "exec"%string) [bs "syntax error"%string].
Definition dev_bad : nat -> bytes -> bytes := fun i _ => match i with 1%nat => bs "syntax error."%string | _ => [] end.

(* full statement for a driver: every abort line is logged in the level of the failed session *)
Definition abort_stays (d : drv) : Prop :=
  forall dev cur f eager priv lvl ls k l,
    resolve_level d priv = Ok lvl -> has_level d lvl = true -> Forall no_lf ls ->
    nth_error ls k = Some l ->
    (forall j l', (j < k)%nat -> nth_error ls j = Some l' ->
                  spec_fails dev (net_fwc (d_markers d) f) eager (length ls) j l' = false) ->
    spec_fails dev (net_fwc (d_markers d) f) eager (length ls) k l = true ->
    forall m x, In (m, x) (dlog cur [] (fst (fst (send_configs dev v_now d cur f true eager priv ls)))) -> m = lvl.

Theorem abort_stays_keeping : forall d,
  keeps_session (d_abort d) = true -> Forall no_lf (a_lines (d_abort d)) -> abort_stays d.
Proof.
  intros d Hks Hab dev cur f eager priv lvl ls k l Hr Hl Hls Hk Hlt Hf m x Hin.
  rewrite (abort_in_session dev d cur f eager priv lvl ls k l Hks Hl Hr Hls Hab Hk Hlt Hf) in Hin.
  apply in_app_or in Hin. destruct Hin as [Hin | Hin]; apply in_map_iff in Hin;
    destruct Hin as [y [Hy _]]; injection Hy as <- _; reflexivity.
Qed.

Theorem junos_abort_now : abort_stays (d_junos true).
Proof.
  apply abort_stays_keeping; [reflexivity|].
  repeat constructor; intros H; vm_compute in H; repeat (destruct H as [H | H]; [discriminate|]); exact H.
Qed.

Theorem junos_abort_pinned_refuted : ~ abort_stays (d_junos false).
Proof.
  intros H.
  specialize (H dev_bad (bs "exec"%string) FNone false lv_excl lv_excl [bs "set a"%string; bs "set bogus"%string; bs "set never"%string] 1%nat (bs "set bogus"%string)).
  assert (HF : Forall no_lf [bs "set a"%string; bs "set bogus"%string; bs "set never"%string]).
  { repeat constructor; intros X; vm_compute in X; repeat (destruct X as [X | X]; [discriminate|]); exact X. }
  assert (Hj : forall j l', (j < 1)%nat ->
             nth_error [bs "set a"%string; bs "set bogus"%string; bs "set never"%string] j = Some l' ->
             spec_fails dev_bad (net_fwc (d_markers (d_junos false)) FNone) false
               (length [bs "set a"%string; bs "set bogus"%string; bs "set never"%string]) j l' = false).
  { intros j l' Hj Hn. destruct j; [vm_compute; reflexivity | lia]. }
  assert (E := H eq_refl eq_refl HF eq_refl Hj eq_refl (bs "configuration"%string) (bs "rollback 0"%string)).
  assert (Hin : In (bs "configuration"%string, bs "rollback 0"%string)
     (dlog (bs "exec"%string) []
        (fst (fst (send_configs dev_bad v_now (d_junos false) (bs "exec"%string) FNone true false lv_excl
                [bs "set a"%string; bs "set bogus"%string; bs "set never"%string]))))).
  { vm_compute. right. right. left. reflexivity. }
  specialize (E Hin).
  vm_compute in E. discriminate.
Qed.

Example failed_run_premises_satisfiable :
  exists k l, nth_error [bs "set a"%string; bs "set bogus"%string; bs "set never"%string] k = Some l /\
    spec_fails dev_bad (net_fwc (d_markers (d_junos true)) FNone) false 3 k l = true /\
    fst (fst (send_configs dev_bad v_now (d_junos true) (bs "exec"%string) FNone true false lv_excl
                [bs "set a"%string; bs "set bogus"%string; bs "set never"%string])) =
    [ENav lv_excl; EW (bs "set a"%string); EW RET; EW (bs "set bogus"%string); EW RET;
     EW (bs "rollback 0"%string); EW RET; EW (bs "exit"%string); EW RET].
Proof. exists 1%nat, (bs "set bogus"%string). repeat split; vm_compute; reflexivity. Qed.

Example cleanb_nontrivial :
  cleanb (bs " set x "%string) = true /\ cleanb [194; 133] = false /\ cleanb [97; 226; 128; 168] = false /\
  cleanb [226; 130; 172; 195; 169] = true /\ usplitlines [97; 13; 10; 98; 226; 128; 169; 99; 194; 133] = [[97]; [98]; [99]].
Proof. repeat split; vm_compute; reflexivity. Qed.

(* ------------------------------------------------------------------------------------------ *)
(* decision helpers for the obligations over regenerated data (props/C13.v)                     *)
(* ------------------------------------------------------------------------------------------ *)
Definition no_lfb (ls : list bytes) : bool := forallb (fun l => negb (mem 10 l)) ls.

Lemma no_lfb_sound : forall ls, no_lfb ls = true -> Forall no_lf ls.
Proof.
  unfold no_lfb. intros ls H. apply Forall_forall. intros l Hl Hin.
  rewrite forallb_forall in H. specialize (H l Hl). apply Bool.negb_true_iff in H.
  assert (E : mem 10 l = true).
  { unfold mem. apply existsb_exists. exists 10. split; [exact Hin | apply N.eqb_refl]. }
  congruence.
Qed.

Definition shape_ok (d : drv) : bool := keeps_session (d_abort d) && no_lfb (a_lines (d_abort d)).

Theorem abort_stays_of_shape : forall d, shape_ok d = true -> abort_stays d.
Proof.
  intros d H. apply Bool.andb_true_iff in H as [H1 H2].
  apply abort_stays_keeping; [exact H1 | apply no_lfb_sound; exact H2].
Qed.

(* the merged response of send_config: failed iff some line's own output contains a marker *)
Theorem merged_failed_iff_some_line : forall dev f eager n cfg ls r,
  ls <> [] ->
  post_send_config true cfg (spec_resps dev f eager n 0 ls) = Ok r ->
  (r_failed r = true <->
   exists j l, nth_error ls j = Some l /\ contains_any (markers_of f) (result_of dev eager n j l) = true).
Proof.
  intros dev f eager n cfg ls r Hne H.
  assert (HF : r_failed r = multi_failed (spec_resps dev f eager n 0 ls)).
  { destruct ls as [|l0 ls]; [congruence|].
    remember (spec_resps dev f eager n 0 (l0 :: ls)) as rs eqn:E. destruct rs as [|r0 rs]; [discriminate E|].
    unfold post_send_config in H. injection H as <-. reflexivity. }
  rewrite HF. clear HF H.
  rewrite multi_failed_iff_any. split.
  - intros [r' [Hin Hr]].
    assert (G : forall ls0 i, In r' (spec_resps dev f eager n i ls0) ->
                exists j l, nth_error ls0 j = Some l /\ r' = spec_resp dev f eager n (i + j) l).
    { clear. induction ls0 as [|x ls0 IH]; intros i Hin; [destruct Hin|].
      destruct Hin as [<- | Hin].
      - exists O, x. rewrite Nat.add_0_r. split; reflexivity.
      - destruct (IH (S i) Hin) as [j [l [Hj ->]]]. exists (S j), l. split; [exact Hj|]. f_equal. lia. }
    destruct (G _ _ Hin) as [j [l [Hj ->]]]. exists j, l. split; [exact Hj|].
    rewrite spec_resp_failed in Hr. exact Hr.
  - intros [j [l [Hj Hc]]]. exists (spec_resp dev f eager n j l). split.
    + pose proof (spec_resps_in dev f eager n ls O j l Hj) as Hin. cbn [Nat.add] in Hin.
      assert (S : forall ls0 i k, incl (spec_resps dev f eager n i (firstn k ls0)) (spec_resps dev f eager n i ls0)).
      { clear. induction ls0 as [|x ls0 IH]; intros i k y Hy; destruct k; cbn in *; try contradiction.
        destruct Hy as [<- | Hy]; [left; reflexivity | right; apply (IH (S i) k y Hy)]. }
      apply (S _ _ _ _ Hin).
    + rewrite spec_resp_failed. exact Hc.
Qed.

(* full statement for the merged response: failed iff ITS (joined) output contains a marker *)
Definition merged_failed_iff_marker : Prop :=
  forall dev f eager n cfg ls r, ls <> [] ->
    post_send_config true cfg (spec_resps dev f eager n 0 ls) = Ok r ->
    (r_failed r = true <-> exists m, In m (markers_of f) /\ Infix m (r_result r)).

Theorem merged_failed_iff_marker_refuted : ~ merged_failed_iff_marker.
Proof.
  intros H.
  specialize (H (fun i _ => match i with O => bs "first"%string | _ => bs "second"%string end)
                (FStr (bs "first"%string ++ [10] ++ bs "second"%string)) false 2%nat [] [bs "a"%string; bs "b"%string] _
                ltac:(discriminate) eq_refl).
  destruct H as [_ H]. cbn [r_failed] in H.
  assert (E : true = true -> False); [| exact (E eq_refl)].
  intros _. assert (X : existsb r_failed
     (spec_resps (fun i _ => match i with O => bs "first"%string | _ => bs "second"%string end)
        (FStr (bs "first"%string ++ [10] ++ bs "second"%string)) false 2 0 [bs "a"%string; bs "b"%string]) = true).
  { apply H. exists (bs "first"%string ++ [10] ++ bs "second"%string). split; [left; reflexivity|].
    exists [], []. vm_compute. reflexivity. }
  vm_compute in X. discriminate.
Qed.

(* ---- the merged response and ITS output: true for markers without a newline ---- *)
Lemma infix_app_sep : forall (c : N) m a b, ~ In c m -> Infix m (a ++ c :: b) -> Infix m a \/ Infix m b.
Proof.
  intros c m a b Hc [x [y H]].
  apply app_eq_app in H as [l [[Ha Hm] | [Hx Hb]]].
  - (* a = x ++ l, m ++ y = l ++ c :: b *)
    apply app_eq_app in Hm as [l2 [[Hm Hy] | [Hl Hcb]]].
    + (* m = l ++ l2 /\ c :: b = l2 ++ y *)
      destruct l2 as [|c' l2].
      * left. exists x, []. rewrite app_nil_r in Hm. rewrite app_nil_r. subst. reflexivity.
      * cbn in Hy. injection Hy as -> _. exfalso. apply Hc. rewrite Hm. apply in_or_app. right. left. reflexivity.
    + (* l = m ++ l2 *) left. exists x, l2. subst. reflexivity.
  - (* x = a ++ l, c :: b = l ++ m ++ y *)
    destruct l as [|c' l].
    + cbn in Hb. destruct m as [|c2 m].
      * right. exists [], b. reflexivity.
      * cbn in Hb. injection Hb as -> _. exfalso. apply Hc. left. reflexivity.
    + cbn in Hb. injection Hb as _ ->. right. exists l, y. reflexivity.
Qed.

Lemma infix_join : forall m xs, ~ In 10 m -> xs <> [] ->
  (Infix m (join [10] xs) <-> exists x, In x xs /\ Infix m x).
Proof.
  intros m xs Hm. induction xs as [|x xs IH]; intros Hne; [congruence|].
  destruct xs as [|x2 xs].
  - cbn [join]. split; [intros H; exists x; split; [left; reflexivity | exact H] |
                        intros [y [[<- | []] H]]; exact H].
  - change (join [10] (x :: x2 :: xs)) with (x ++ [10] ++ join [10] (x2 :: xs)). cbn [app].
    split.
    + intros H. apply infix_app_sep in H; [| exact Hm]. destruct H as [H | H].
      * exists x. split; [left; reflexivity | exact H].
      * apply IH in H; [| discriminate]. destruct H as [y [Hy Hi]]. exists y. split; [right; exact Hy | exact Hi].
    + intros [y [[<- | Hy] [a [b Hi]]]].
      * exists a, (b ++ 10 :: join [10] (x2 :: xs)). rewrite Hi. repeat rewrite <- app_assoc. reflexivity.
      * assert (H : Infix m (join [10] (x2 :: xs))) by (apply IH; [discriminate | exists y; split; [exact Hy | exists a, b; exact Hi]]).
        destruct H as [a' [b' H]]. exists (x ++ 10 :: a'), b'. rewrite H. rewrite <- app_assoc. reflexivity.
Qed.

Lemma results_in : forall dev f eager n ls i x,
  In x (map r_result (spec_resps dev f eager n i ls)) <->
  exists j l, nth_error ls j = Some l /\ x = result_of dev eager n (i + j) l.
Proof.
  induction ls as [|l0 ls IH]; intros i x.
  - cbn. split; [intros [] | intros [j [l [H _]]]; destruct j; discriminate].
  - cbn [spec_resps map In]. rewrite IH. split.
    + intros [H | [j [l [Hj Hx]]]].
      * exists O, l0. rewrite Nat.add_0_r. split; [reflexivity | symmetry; exact H].
      * exists (S j), l. split; [exact Hj|]. rewrite Hx. f_equal. lia.
    + intros [j [l [Hj Hx]]]. destruct j as [|j].
      * left. cbn in Hj. injection Hj as ->. rewrite Nat.add_0_r in Hx. symmetry. exact Hx.
      * right. exists j, l. split; [exact Hj|]. rewrite Hx. f_equal. lia.
Qed.

(* strongest true form of "the merged response is failed iff ITS output contains a marker":
   markers without a newline *)
Theorem merged_failed_iff_marker_partial : forall dev f eager n cfg ls r,
  ls <> [] -> (forall m, In m (markers_of f) -> ~ In 10 m) ->
  post_send_config true cfg (spec_resps dev f eager n 0 ls) = Ok r ->
  (r_failed r = true <-> exists m, In m (markers_of f) /\ Infix m (r_result r)).
Proof.
  intros dev f eager n cfg ls r Hne Hm H.
  rewrite (merged_failed_iff_some_line dev f eager n cfg ls r Hne H).
  assert (HR : r_result r = join [10] (map r_result (spec_resps dev f eager n 0 ls))).
  { destruct ls as [|l0 ls]; [congruence|].
    remember (spec_resps dev f eager n 0 (l0 :: ls)) as rs eqn:E. destruct rs as [|r0 rs]; [discriminate E|].
    unfold post_send_config in H. injection H as <-. reflexivity. }
  assert (Hne' : map r_result (spec_resps dev f eager n 0 ls) <> []).
  { destruct ls; [congruence | discriminate]. }
  rewrite HR. split.
  - intros [j [l [Hj Hc]]]. apply contains_any_spec in Hc as [m [Hin Hi]].
    exists m. split; [exact Hin|]. apply infix_join; [apply Hm; exact Hin | exact Hne' |].
    exists (result_of dev eager n j l). split; [| exact Hi].
    apply results_in. exists j, l. split; [exact Hj | reflexivity].
  - intros [m [Hin Hi]]. apply infix_join in Hi; [| apply Hm; exact Hin | exact Hne'].
    destruct Hi as [x [Hx Hi]]. apply results_in in Hx as [j [l [Hj ->]]]. cbn [Nat.add] in Hi.
    exists j, l. split; [exact Hj|]. apply contains_any_spec. exists m. split; assumption.
Qed.

Example merged_partial_premises_satisfiable :
  exists r, post_send_config true [] (spec_resps (fun i _ => match i with O => bs "ok"%string | _ => bs "% Invalid input"%string end)
             (FList [bs "% Invalid"%string]) false 2 0 [bs "a"%string; bs "b"%string]) = Ok r /\ r_failed r = true /\
            r_result r = bs "ok"%string ++ [10] ++ bs "% Invalid input"%string.
Proof. eexists. repeat split. Qed.

(* ------------------------------------------------------------------------------------------ *)
(* levels that are no configuration session (the user's own privilege levels: a shell, ...)     *)
(* under a GUARDED abort shape (NX-OS / EOS): a failed stop_on_failed run writes the navigation *)
(* and lines 0..k and NOTHING else, and the believed level stays the level of the run           *)
(* ------------------------------------------------------------------------------------------ *)
Theorem failed_run_outside_session : forall dev d cur f eager priv lvl ls k l,
  let f' := net_fwc (d_markers d) f in
  a_guard (d_abort d) = true -> is_session d lvl = false ->
  keeps_session (d_abort d) = true -> has_level d lvl = true ->
  resolve_level d priv = Ok lvl ->
  nth_error ls k = Some l ->
  (forall j l', (j < k)%nat -> nth_error ls j = Some l' -> spec_fails dev f' eager (length ls) j l' = false) ->
  spec_fails dev f' eager (length ls) k l = true ->
  send_configs dev v_now d cur f true eager priv ls =
    (nav cur lvl ++ lines_events (firstn (S k) ls),
     Ok (spec_resps dev f' eager (length ls) 0 (firstn (S k) ls)),
     lvl).
Proof.
  intros dev d cur f eager priv lvl ls k l f' Hg Hs Hks Hl Hr Hk Hlt Hf.
  rewrite (send_configs_failed_run dev d cur f eager priv lvl ls k l Hks Hl Hr Hk Hlt Hf).
  unfold abort_lines, abort_after. rewrite Hg, Hs. cbn [negb andb].
  unfold lines_events at 2. cbn [flat_map]. rewrite app_nil_r. reflexivity.
Qed.

(* a driver constructed with extra levels of the user's (name, "pattern contains config\-s") *)
Definition with_levels (d : drv) (extra : list (bytes * bool)) : drv :=
  mkD (d_abort d) (d_levels d ++ extra) (d_default_priv d) (d_markers d).

(* an unguarded shape (IOS-XR, Junos) types its abort lines at ANY level, the user's included *)
Lemma unguarded_abort_lines : forall d lvl, a_guard (d_abort d) = false -> abort_lines d lvl = a_lines (d_abort d).
Proof. intros d lvl H. unfold abort_lines. rewrite H. reflexivity. Qed.

Definition d_guarded : drv :=
  mkD (mkA true [bs "abort"%string] false false (Some (bs "privilege_exec"%string)))
      [(bs "privilege_exec"%string, false); (lv_configuration, false); (bs "sess1"%string, true)]
      (bs "privilege_exec"%string) [bs "% Invalid"%string].

Example failed_run_outside_session_premises_satisfiable :
  let d := with_levels d_guarded [(bs "bash"%string, false)] in
  let dev := fun (i : nat) (_ : bytes) => if Nat.eqb i 1 then bs "% Invalid input"%string else [] in
  let ls := [bs "ls /mnt"%string; bs "cat /nope"%string; bs "never"%string] in
  a_guard (d_abort d) = true /\ is_session d (bs "bash"%string) = false /\ is_session d (bs "sess1"%string) = true /\
  keeps_session (d_abort d) = true /\ has_level d (bs "bash"%string) = true /\
  spec_fails dev (net_fwc (d_markers d) FNone) false 3 1 (bs "cat /nope"%string) = true /\
  send_configs dev v_now d (bs "privilege_exec"%string) FNone true false (bs "bash"%string) ls =
    ([ENav (bs "bash"%string); EW (bs "ls /mnt"%string); EW RET; EW (bs "cat /nope"%string); EW RET],
     Ok (spec_resps dev (net_fwc (d_markers d) FNone) false 3 0 (firstn 2 ls)), bs "bash"%string) /\
  fst (fst (send_configs dev v_now d (bs "privilege_exec"%string) FNone true false (bs "sess1"%string) ls)) =
    [ENav (bs "sess1"%string); EW (bs "ls /mnt"%string); EW RET; EW (bs "cat /nope"%string); EW RET; EW (bs "abort"%string); EW RET].
Proof. repeat split; vm_compute; reflexivity. Qed.
