(* PromptCacheObjs_Proofs.v — the class-wide lru_cache is invisible on EVERY interleaved history of queries and table
   updates of ANY number of driver objects, provided the key contains the object and an update clears the cache;
   refuted when the key ignores the object (two objects, one prompt, two tables). *)
From Verif Require Import Bytes PromptCache PromptCacheObjs.
From Verif Require Import PromptCache_Proofs.

Section Proofs.
  Variables (T R : Type).
  Variable classify : T -> bytes -> option R.
  Variable cap : nat.

  Definition own (tbls : list T) (i : nat) (p : bytes) : option R :=
    match nth_error tbls i with Some t => classify t p | None => None end.

  (* every cached entry is some object's current answer, under that object's key *)
  Definition minv (s : mst T R) : Prop :=
    forall k v, In (k, v) (m_cache s) -> exists i p, k = N.of_nat i :: p /\ own (m_tbls s) i p = Some v.

  Lemma key_inj i p j q : N.of_nat i :: p = N.of_nat j :: q -> i = j /\ p = q.
  Proof. intros H. inversion H as [[Hi Hp]]. apply Nat2N.inj in Hi. auto. Qed.

  Lemma mstep_ok s o :
    minv s ->
    minv (fst (mstep classify true cap true s o)) /\
    snd (mstep classify true cap true s o) =
      match o with MQuery i p => Some (own (m_tbls s) i p) | MUpdate _ _ => None end /\
    m_tbls (fst (mstep classify true cap true s o)) =
      match o with MQuery _ _ => m_tbls s | MUpdate i t => set_nth i t (m_tbls s) end.
  Proof.
    intros Hinv. destruct o as [i p|i t]; cbn [mstep key].
    - destruct (lookup (N.of_nat i :: p) (m_cache s)) as [v|] eqn:El.
      + destruct (Hinv _ _ (lookup_In _ _ _ _ El)) as (j & q & Hk & Hown).
        apply key_inj in Hk as [-> ->]. cbn [fst snd m_tbls m_cache]. repeat split.
        * intros k w [E|Hin]; [inversion E; subst; exists j, q; auto|].
          apply Hinv. eapply remove_incl. exact Hin.
        * rewrite Hown. reflexivity.
      + unfold own. destruct (nth_error (m_tbls s) i) as [t|] eqn:En; [|cbn [fst snd]; repeat split; exact Hinv].
        destruct (classify t p) as [v|] eqn:Ec; cbn [fst snd m_tbls m_cache]; repeat split; try exact Hinv.
        intros k w Hin. apply firstn_incl in Hin. destruct Hin as [E|Hin].
        * inversion E; subst. exists i, p. split; [reflexivity|]. unfold own. cbn [m_tbls]. rewrite En. exact Ec.
        * apply Hinv. exact Hin.
    - cbn [fst snd m_tbls m_cache]. repeat split. intros k w [].
  Qed.

  Theorem objects_cache_transparent : forall ops s,
    minv s -> snd (mrun classify true cap true s ops) = mspec classify (m_tbls s) ops.
  Proof.
    induction ops as [|o ops IH]; intros s Hinv; [reflexivity|].
    cbn [mrun]. destruct (mstep classify true cap true s o) as [s' out] eqn:Es.
    pose proof (mstep_ok s o Hinv) as (Hinv' & Hout & Htbl). rewrite Es in Hinv', Hout, Htbl. cbn [fst snd] in *.
    specialize (IH s' Hinv'). destruct (mrun classify true cap true s' ops) as [s'' outs]. cbn [snd] in *.
    destruct o as [i p|i t]; cbn [mspec]; rewrite Hout, IH, Htbl; reflexivity.
  Qed.

  Corollary objects_cache_transparent_from_empty tbls ops :
    snd (mrun classify true cap true (mkM tbls []) ops) = mspec classify tbls ops.
  Proof. apply objects_cache_transparent. intros k v []. Qed.
End Proofs.

(* a cache whose key ignores the object: object 1 gets object 0's answer *)
Example shared_key_refuted :
  snd (mrun toy_classify false 64 true (mkM [0%nat; 1%nat] []) [MQuery 0 [1]; MQuery 1 [1]])
  <> mspec toy_classify [0%nat; 1%nat] [MQuery 0 [1]; MQuery 1 [1]].
Proof. vm_compute. discriminate. Qed.

(* premises satisfiable / the theorem is not vacuous: two objects, interleaved queries, an update in between *)
Example objects_history_example :
  snd (mrun toy_classify true 2 true (mkM [0%nat; 1%nat] [])
         [MQuery 0 [1]; MQuery 1 [1]; MQuery 0 [1]; MUpdate 0 5%nat; MQuery 0 [1]; MQuery 1 [1]; MQuery 2 [1]])
  = [Some (Some 0%nat); Some (Some 1%nat); Some (Some 0%nat); None; Some (Some 5%nat); Some (Some 1%nat); Some None].
Proof. vm_compute. reflexivity. Qed.
