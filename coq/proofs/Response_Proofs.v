(* Response_Proofs.v — the failed flag of Response / MultiResponse (model/Response.v). *)
From Verif Require Import Bytes Response.
From Coq Require Import Lia.

(* "m occurs in s" as a proposition *)
Definition Infix (m s : bytes) : Prop := exists a b, s = a ++ m ++ b.

Lemma prefixb_spec : forall p s, prefixb p s = true <-> exists t, s = p ++ t.
Proof.
  induction p as [|x p IH]; intros s; cbn [prefixb].
  - split; [intros _; exists s; reflexivity | reflexivity].
  - destruct s as [|y s].
    + split; [discriminate | intros [t H]; discriminate].
    + rewrite Bool.andb_true_iff, N.eqb_eq, IH. split.
      * intros [-> [t ->]]. exists t. reflexivity.
      * intros [t H]. cbn in H. injection H as -> ->. split; [reflexivity | exists t; reflexivity].
Qed.

Lemma infixb_spec : forall p s, infixb p s = true <-> Infix p s.
Proof.
  intros p s. induction s as [|y s IH].
  - cbn [infixb]. rewrite Bool.orb_false_r, prefixb_spec. split.
    + intros [t H]. exists [], t. exact H.
    + intros [a [b H]]. destruct a; [|discriminate]. exists b. exact H.
  - cbn [infixb]. rewrite Bool.orb_true_iff, prefixb_spec, IH. split.
    + intros [[t H] | [a [b H]]].
      * exists [], t. exact H.
      * exists (y :: a), b. rewrite H. reflexivity.
    + intros [a [b H]]. destruct a as [|z a].
      * left. exists b. exact H.
      * right. cbn in H. injection H as _ H. exists a, b. exact H.
Qed.

Lemma contains_any_spec : forall ms s,
  contains_any ms s = true <-> exists m, In m ms /\ Infix m s.
Proof.
  intros ms s. unfold contains_any. rewrite existsb_exists.
  split; intros [m [H1 H2]]; exists m; split; auto; apply infixb_spec; exact H2.
Qed.

Lemma forallb_negb_existsb : forall {A} (p : A -> bool) l,
  forallb (fun x => negb (p x)) l = negb (existsb p l).
Proof.
  induction l as [|x l IH]; cbn; [reflexivity|]. rewrite IH. destruct (p x); reflexivity.
Qed.

(* the flag computed by the code (initially True, cleared by record_response) is exactly
   "the output contains one of the markers" *)
Lemma record_failed : forall input f result,
  r_failed (record_response (new_response input f) result) = contains_any (markers_of f) result.
Proof.
  intros. unfold record_response, new_response, contains_any. cbn [r_markers r_failed].
  destruct (markers_of f) as [|m ms] eqn:E; [reflexivity|].
  rewrite forallb_negb_existsb. destruct (existsb _ (m :: ms)); reflexivity.
Qed.

Lemma record_fields : forall input f result,
  r_input (record_response (new_response input f) result) = input /\
  r_result (record_response (new_response input f) result) = result /\
  r_markers (record_response (new_response input f) result) = markers_of f.
Proof. intros. repeat split. Qed.

Theorem failed_iff_marker : forall input f result,
  r_failed (record_response (new_response input f) result) = true
  <-> exists m, In m (markers_of f) /\ Infix m result.
Proof. intros. rewrite record_failed. apply contains_any_spec. Qed.

(* None, [] : never failed;  a single string s behaves as [s] *)
Corollary no_markers_never_failed : forall input result,
  r_failed (record_response (new_response input FNone) result) = false /\
  r_failed (record_response (new_response input (FList [])) result) = false.
Proof. intros. split; reflexivity. Qed.

Corollary str_marker_is_singleton : forall input s result,
  record_response (new_response input (FStr s)) result =
  record_response (new_response input (FList [s])) result.
Proof. reflexivity. Qed.

Theorem multi_failed_iff_any : forall rs,
  multi_failed rs = true <-> exists r, In r rs /\ r_failed r = true.
Proof. intros. unfold multi_failed. apply existsb_exists. Qed.

Corollary empty_multi_not_failed : multi_failed [] = false.
Proof. reflexivity. Qed.

(* the network drivers' marker resolution: per-call value wins, None selects the driver default *)
Lemma net_fwc_markers : forall dflt f,
  markers_of (net_fwc dflt f) = match f with FNone => dflt | FStr s => [s] | FList l => l end.
Proof. intros. destruct f; reflexivity. Qed.

Example failed_iff_marker_nontrivial :
  r_failed (record_response (new_response [120] (FList [[69;82;82]; [37;32;73]])) [111;107;32;37;32;73;110]) = true /\
  r_failed (record_response (new_response [120] (FList [[69;82;82]; [37;32;73]])) [111;107]) = false.
Proof. split; vm_compute; reflexivity. Qed.

(* markers are literal text, never patterns: a marker made of regular-expression metacharacters is found
   exactly where it occurs literally.  "a.c" is in "xa.cx" but not in "abc"; "(" is in "f(x)" and not in "fx";
   "E|R" is in "xE|Ry" and not in "E"; "a*" is in "a*b" and not in "aaa"; the full IOS complaint
   "% Invalid input detected at '^' marker." is found in the output that carries it. *)
Definition ios_invalid : bytes :=
  [37;32;73;110;118;97;108;105;100;32;105;110;112;117;116;32;100;101;116;101;99;116;101;100;32;97;116;32;39;94;39;32;109;97;114;107;101;114;46].
Definition flag_of (f : fwc) (result : bytes) : bool := r_failed (record_response (new_response [120] f) result).
Example failed_iff_marker_metachar :
  flag_of (FStr [97;46;99]) [120;97;46;99;120] = true /\ flag_of (FStr [97;46;99]) [97;98;99] = false /\
  flag_of (FStr [40]) [102;40;120;41] = true /\ flag_of (FStr [40]) [102;120] = false /\
  flag_of (FList [[69;124;82]]) [120;69;124;82;121] = true /\ flag_of (FList [[69;124;82]]) [69] = false /\
  flag_of (FList [[97;42]; [40]]) [97;42;98] = true /\ flag_of (FList [[97;42]; [40]]) [97;97;97] = false /\
  flag_of (FStr ios_invalid) ([32;32;94;10] ++ ios_invalid ++ [10;120]) = true /\
  flag_of (FStr ios_invalid) [37;32;73;110;118;97;108;105;100;32;105;110;112;117;116] = false.
Proof. vm_compute. repeat split; reflexivity. Qed.

(* the flag is a function of literal containment alone (the form the correspondence run evaluates) *)
Lemma flag_of_literal : forall f result, flag_of f result = contains_any (markers_of f) result.
Proof. intros. apply record_failed. Qed.

