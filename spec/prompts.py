"""Prompt grammars — the SPECIFICATION side of C05 (hand-written from the vendors' prompt formats,
independent of scrapli's patterns except for the length bounds, which are the patterns' own limits so
that an edit of a bound lands on the boundary).  Case-sensitive regexes without anchors, matched as
whole strings.  `line` = the prompt as get_prompt returns it (stripped); `len` = further regexes the
whole prompt must also match (total-length bounds); `trail` = what the device prints after it.  `carve` = CASE-SENSITIVE regexes (scrapli compares not_contains entries case-sensitively); prompts matching one of them are EXCLUDED from the
grammar — each carve-out is either a vendor convention (another mode prints exactly that text) or the
region of a listed known finding (then `finding` names it)."""

HOST = r"[A-Za-z0-9][A-Za-z0-9_.\-]"          # followed by {0,n}
SUB = r"[a-z0-9][a-z0-9\-+_.]"                # configuration sub-mode name (config-sg-tacacs+, config-if-range, ...), followed by {0,n}
SUBXR = r"[a-z0-9][a-z0-9\-_.]"               # IOS-XR sub-mode names: no + in that platform's decoration class
HOSTU = r"[A-Za-z0-9][A-Za-z0-9_.\-]*"        # host name of any length (bounded by a `len` conjunct)
JUSER = r"[a-z][a-z0-9_\-]*"                  # Junos login name of any length


_ADD = [False]

# Tier.  thorough: host names are every string of HOST up to the patterns' own limit.  quick: the ADDITIVE form —
# every hyphen-free name up to the limit (so each length bound of a pattern is still hit exactly) or any name, hyphens
# included, of up to 24 characters (so the substring trackers of the not_contains / carve-out conjuncts, which only a
# hyphenated name can advance, are not multiplied by the full length counter).  NX-OS and EOS only; a smaller language,
# stated as such in the evidence.
HOST_NOHYPHEN = r"[A-Za-z0-9][A-Za-z0-9_.]"


def host(n, additive_ok=False):
    if additive_ok and _ADD[0] and n > 24:
        return "(" + HOST_NOHYPHEN + "{0,%d}|" % (n - 1) + HOST + "{0,23})"
    return HOST + "{0,%d}" % (n - 1)


def hosta(n):
    return host(n, True)


def platforms(additive=False):
    _ADD[0] = bool(additive)
    try:
        return _platforms()
    finally:
        _ADD[0] = False


def _platforms():
    return {
        "cisco_iosxe": {
            "trail": "",
            "modes": {
                "exec": {"line": host(63) + ">", "class": ["exec"]},
                "privilege_exec": {"line": host(63) + "#", "class": ["privilege_exec"]},
                "configuration": {"line": host(63) + r"\(config(-" + SUB + r"{0,24})?\)#", "class": ["configuration"],
                                  "carve": [(r"tcl\)", "vendor: (…tcl) is the tclsh prompt", None)]},
                "tclsh": {"line": "(" + host(40) + r"\(tcl\)#|\+>)", "class": ["tclsh"]},
            },
        },
        "cisco_iosxr": {
            "trail": "",
            "modes": {
                "privilege_exec": {"line": r"RP/0/RP[01]/CPU0:" + host(49) + "#", "class": ["privilege_exec"]},
                "configuration": {"line": r"RP/0/RP[01]/CPU0:" + host(49) + r"\(config(-" + SUBXR + r"{0,30})?\)#",
                                  "class": ["configuration", "configuration_exclusive"]},
            },
        },
        "cisco_nxos": {
            "trail": " ?",
            "modes": {
                "exec": {"line": hosta(63) + r"(\(maint-mode\))?>", "class": ["exec"]},
                "privilege_exec": {"line": hosta(63) + r"(\(maint-mode\))?#", "class": ["privilege_exec"],
                                   "carve": [(r"-tcl", "host name containing (lower-case) -tcl: excluded from privilege_exec by not_contains, matches no level", "C05-nxos-tcl-host"),
                                             (r"-[Tt][Cc][Ll]#", "host name ENDING in -tcl in any case: the case-insensitive tclsh pattern matches it too", "C05-nxos-tcl-host")]},
                "configuration": {"line": hosta(63) + r"(\(maint-mode\))?\(config(-" + SUB + r"{0,30})?\)#", "class": ["configuration"],
                                  "carve": [(r"\(.*config-tcl", "vendor: a decoration containing config-tcl is the tclsh-in-configuration prompt", None),
                                            (r"\(.*config-s\)", "vendor: a decoration ending in config-s) is the configuration-session prompt", None),
                                            (r"\(.*config-s-", "vendor: a decoration containing config-s- is a configuration-session sub-mode", None),
                                            (r"config-(s-|tcl).*\(config", "host name containing (lower-case) config-s- or config-tcl", "C05-nxos-config-s-host")]},
                "tclsh": {"line": "(" + hosta(59) + r"-tcl#|" + hosta(50) + r"\(config-tcl\)#|>|" + hosta(40) + r"\(maint-mode-tcl\)#|"
                                  + hosta(40) + r"\(maint-mode\)\(config-tcl\)#)", "class": ["tclsh"]},
            },
            "session": {"line": hosta(63) + r"(\(maint-mode\))?\(config-s(-" + SUB + r"{0,29})?\)#"},
        },
        "arista_eos": {
            "trail": "",
            "modes": {
                "exec": {"line": hosta(63) + ">", "class": ["exec"]},
                "privilege_exec": {"line": hosta(63) + "#", "class": ["privilege_exec"]},
                "configuration": {"line": hosta(63) + r"\(config(-[A-Za-z0-9][A-Za-z0-9\-]{0,61})?\)#", "class": ["configuration"],
                                  "carve": [(r"\(config-[sS]-", "vendor: (config-s-<name>) is the configuration-session prompt; no EOS sub-mode is called s-… or S-…", None)]},
            },
            # session NAME: the prompt shows its first 6 characters
            "session": {"line_fmt": hosta(63) + r"\(config-s-%s(-[A-Za-z0-9][A-Za-z0-9\-]{0,62})?\)#"},
        },
        "juniper_junos": {
            "trail": " ?",
            # user and host names of any length; `len` bounds the whole `user@host` text by the patterns' own limit (63)
            "modes": {
                "exec": {"line": r"(\{(master|backup|primary:node[01]|secondary:node[01])\}\n)?" + JUSER + "@" + HOSTU + ">",
                         "len": [r"([^\n]*\n)?[^\n]{1,63}>"], "class": ["exec"]},
                "configuration": {"line": r"(\{(master|backup|primary:node[01]|secondary:node[01])\}\[edit\]\n)?" + JUSER + "@" + HOSTU + "#",
                                  "len": [r"([^\n]*\n)?[^\n]{1,63}#"],
                                  "class": ["configuration", "configuration_exclusive", "configuration_private"],
                                  "carve": [(r"root@", "user name ending in root also reads as root_shell", "C05-junos-root-user")]},
                "shell": {"line": JUSER + "@" + HOSTU + r":[A-Za-z0-9_./~\-]+ ?[%$]", "class": ["shell"],
                          "carve": [(r"root", "the word root anywhere in a non-root shell prompt", "C05-junos-root-in-shell")]},
                # csh root prompt `root@host:~ # ` (blank before the #), sh root prompt `root@host%` / `root@%`
                "root_shell": {"line": r"root@(" + HOSTU + r")?(%|:[A-Za-z0-9_./~\-]+ [%#])", "class": ["root_shell"]},
            },
        },
    }


PLATFORMS = platforms(False)

# session names registered for the generated session-level obligations (EOS / NX-OS)
# (names whose 6th character — the cut point of the EOS prompt — is or follows a regex metacharacter included)
SESSION_NAMES = ["s1", "my-session", "tcl", "abcdefgh", "abcdefXY", "a.b", "cfg_1", "abcde-x", "a-bc-def"]
# quick tier: the session pattern of NX-OS does not depend on the name, that of EOS does
SESSION_NAMES_QUICK = {"cisco_nxos": ["s1"], "arista_eos": ["s1", "abcde-x"]}
