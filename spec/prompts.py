"""Prompt grammars — the SPECIFICATION side of C05 (hand-written from the vendors' prompt formats,
independent of scrapli's patterns except for the length bounds, which are the patterns' own limits so
that an edit of a bound lands on the boundary).  Case-sensitive regexes without anchors, matched as
whole strings.  `line` = the prompt as get_prompt returns it (stripped); `trail` = what the device
prints after it.  `carve` = case-insensitive regexes; prompts matching one of them are EXCLUDED from the
grammar — each carve-out is either a vendor convention (another mode prints exactly that text) or the
region of a listed known finding (then `finding` names it)."""

HOST = r"[A-Za-z0-9][A-Za-z0-9_.\-]"          # followed by {0,n}
SUB = r"[a-z0-9][a-z0-9\-]"                   # configuration sub-mode name, followed by {0,n}


def host(n):
    return HOST + "{0,%d}" % (n - 1)


PLATFORMS = {
    "cisco_iosxe": {
        "trail": "",
        "modes": {
            "exec": {"line": host(63) + ">", "class": ["exec"]},
            "privilege_exec": {"line": host(63) + "#", "class": ["privilege_exec"]},
            "configuration": {"line": host(63) + r"\(config(-" + SUB + r"{0,24})?\)#", "class": ["configuration"],
                              "carve": [(r"tcl\)", "vendor: (…tcl) is the tclsh prompt", None)]},
            "tclsh": {"line": "(" + host(40) + r"\(tcl\)#|\+>)", "class": ["tclsh"]},
        },
    },
    "cisco_iosxr": {
        "trail": "",
        "modes": {
            "privilege_exec": {"line": r"RP/0/RP[01]/CPU0:" + host(48) + "#", "class": ["privilege_exec"]},
            "configuration": {"line": r"RP/0/RP[01]/CPU0:" + host(48) + r"\(config(-" + SUB + r"{0,24})?\)#",
                              "class": ["configuration", "configuration_exclusive"]},
        },
    },
    "cisco_nxos": {
        "trail": " ?",
        "modes": {
            "exec": {"line": host(63) + r"(\(maint-mode\))?>", "class": ["exec"]},
            "privilege_exec": {"line": host(63) + r"(\(maint-mode\))?#", "class": ["privilege_exec"],
                               "carve": [(r"-tcl", "host name containing -tcl (any case) reads as the tclsh prompt", "C05-nxos-tcl-host")]},
            "configuration": {"line": host(63) + r"(\(maint-mode\))?\(config(-" + SUB + r"{0,24})?\)#", "class": ["configuration"],
                              "carve": [(r"config-tcl\)", "vendor: tclsh inside configuration", None),
                                        (r"config-s\)", "vendor: (config-s) is the configuration-session prompt", None),
                                        (r"config-s-", "vendor: (config-s-…) is a configuration-session sub-mode", None),
                                        (r"-tcl.*\(", "host name containing -tcl", "C05-nxos-tcl-host")]},
            "tclsh": {"line": "(" + host(59) + r"-tcl#|" + host(50) + r"\(config-tcl\)#|>|" + host(40) + r"\(maint-mode-tcl\)#|"
                              + host(40) + r"\(maint-mode\)\(config-tcl\)#)", "class": ["tclsh"],
                      "carve": [(r"-tcl.*-tcl", "host name containing -tcl", "C05-nxos-tcl-host"),
                                (r"-tcl.*\(", "host name containing -tcl", "C05-nxos-tcl-host")]},
        },
        "session": {"line": host(32) + r"\(config-s(-" + SUB + r"{0,24})?\)#",
                    "carve": [(r"-tcl", "host name containing -tcl", "C05-nxos-tcl-host")]},
    },
    "arista_eos": {
        "trail": "",
        "modes": {
            "exec": {"line": host(63) + ">", "class": ["exec"]},
            "privilege_exec": {"line": host(63) + "#", "class": ["privilege_exec"]},
            "configuration": {"line": host(63) + r"\(config(-[A-Za-z0-9][A-Za-z0-9\-]{0,55})?\)#", "class": ["configuration"],
                              "carve": [(r"\(config-s-", "vendor: (config-s-<name>) is the configuration-session prompt", None)]},
        },
        # session NAME: the prompt shows its first 6 characters
        "session": {"line_fmt": host(63) + r"\(config-s-%s(-[A-Za-z0-9][A-Za-z0-9\-]{0,40})?\)#"},
    },
    "juniper_junos": {
        "trail": " ?",
        "modes": {
            "exec": {"line": r"(\{(master|backup|primary:node[01]|secondary:node[01])\}\n)?" + r"[a-z][a-z0-9_\-]{0,15}@" + host(40) + ">",
                     "class": ["exec"]},
            "configuration": {"line": r"(\{(master|backup|primary:node[01]|secondary:node[01])\}\[edit\]\n)?" + r"[a-z][a-z0-9_\-]{0,15}@" + host(40) + "#",
                              "class": ["configuration", "configuration_exclusive", "configuration_private"],
                              "carve": [(r"root@", "user name ending in root also reads as root_shell", "C05-junos-root-user")]},
            "shell": {"line": r"[a-z][a-z0-9_\-]{0,15}@" + host(30) + r":[A-Za-z0-9_./~\-]{1,20} ?[%$]", "class": ["shell"],
                      "carve": [(r"root", "the word root anywhere in a non-root shell prompt", "C05-junos-root-in-shell")]},
            "root_shell": {"line": r"root@(" + host(30) + r")?(:[A-Za-z0-9_./~\-]{1,20} ?)?[%#]", "class": ["root_shell"]},
        },
    },
}

# session names registered for the generated session-level obligations (EOS / NX-OS)
SESSION_NAMES = ["s1", "my-session", "tcl", "abcdefgh", "abcdefXY", "a.b", "cfg_1"]
