#!/usr/bin/env python3
"""Evaluate one seeded change (/verif/seeded/<name>/{patch.diff,demo_test.py,meta.json}) against the checks.

  tools/seed_eval.py <name> [--checks C05,C03] [--tier quick] [--seed 0] [--no-confirm]

1. confirmation: the demonstration passes on the unchanged /repo and fails in a scratch worktree with the patch applied,
   and the unit test-suite does not fail more tests there than on /repo;
2. runs ./check <id> with VERIF_REPO pointing at the scratch worktree (nothing is ever applied to /repo itself);
3. writes seeded/<name>/result.json and removes the worktree."""
import argparse
import json
import os
import re
import shutil
import subprocess
import sys
import time

VERIF = os.path.dirname(os.path.dirname(os.path.abspath(__file__)))
REPO = "/repo"
PY = "/venv/bin/python"


def sh(cmd, cwd=None, env=None, timeout=3600):
    p = subprocess.run(cmd, shell=True, cwd=cwd, env=env, stdout=subprocess.PIPE, stderr=subprocess.STDOUT, text=True, timeout=timeout)
    return p.returncode, p.stdout


def failing_tests(repo):
    env = dict(os.environ, PYTHONPATH=repo, PYTHONDONTWRITEBYTECODE="1")
    rc, out = sh("%s -m pytest -q -p no:cacheprovider --timeout=900 -x --co -q tests/unit >/dev/null 2>&1; "
                 "%s -m pytest -q -p no:cacheprovider --timeout=900 tests/unit 2>&1 | tail -15" % (PY, PY), cwd=repo, env=env)
    return sorted(set(re.findall(r"FAILED (\S+)", out))), out[-600:]


def main():
    ap = argparse.ArgumentParser()
    ap.add_argument("name")
    ap.add_argument("--checks")
    ap.add_argument("--tier", default="quick")
    ap.add_argument("--seed", default="0")
    ap.add_argument("--no-confirm", action="store_true")
    a = ap.parse_args()
    d = os.path.join(VERIF, "seeded", a.name)
    meta = json.load(open(os.path.join(d, "meta.json")))
    checks = a.checks.split(",") if a.checks else meta.get("eval_checks", [meta["property"]])
    wt = "/tmp/e/%s" % a.name
    if os.path.exists(wt):
        sh("git -C %s worktree remove --force %s" % (REPO, wt))
        shutil.rmtree(wt, ignore_errors=True)
    os.makedirs("/tmp/e", exist_ok=True)
    rc, out = sh("git -C %s worktree add -q --detach %s HEAD" % (REPO, wt))
    if rc:
        print(out)
        return 2
    res = {"name": a.name, "property": meta["property"], "repo_head": sh("git -C %s rev-parse --short HEAD" % REPO)[1].strip()}
    if a.no_confirm and os.path.exists(os.path.join(d, "result.json")):     # keep the earlier confirmation of the demonstration
        old = json.load(open(os.path.join(d, "result.json")))
        for k in ("demo_unchanged", "demo_changed", "demo_confirms", "unit_failures_unchanged", "unit_failures_changed", "new_unit_failures"):
            if k in old:
                res[k] = old[k]
    try:
        rc, out = sh("git -C %s apply %s" % (wt, os.path.join(d, "patch.diff")))
        res["patch_applies"] = rc == 0
        if rc:
            # the repository moved on (fix: commits) since the change was written: keep the earlier evaluation, say so
            print("patch does not apply:", out)
            rp = os.path.join(d, "result.json")
            if os.path.exists(rp):
                old = json.load(open(rp))
                if old.get("checks"):
                    old["patch_applies_at_head"] = {"head": res["repo_head"], "applies": False, "error": out[-300:]}
                    res = old
                    return 2
            res["apply_error"] = out[-500:]
            return 2
        if not a.no_confirm:
            demo = os.path.join(d, "demo_test.py")
            env0 = dict(os.environ, PYTHONPATH=REPO, PYTHONDONTWRITEBYTECODE="1")
            env1 = dict(os.environ, PYTHONPATH=wt, PYTHONDONTWRITEBYTECODE="1")
            r0, o0 = sh("%s -m pytest -q -p no:cacheprovider --timeout=600 %s 2>&1 | tail -5" % (PY, demo), cwd=REPO, env=env0)
            r1, o1 = sh("%s -m pytest -q -p no:cacheprovider --timeout=600 %s 2>&1 | tail -5" % (PY, demo), cwd=wt, env=env1)
            res["demo_unchanged"] = o0.strip().split("\n")[-1]
            res["demo_changed"] = o1.strip().split("\n")[-1]
            res["demo_confirms"] = ("passed" in res["demo_unchanged"] and "failed" not in res["demo_unchanged"]
                                    and ("failed" in res["demo_changed"] or "error" in res["demo_changed"].lower()))
            f0, _ = failing_tests(REPO)
            f1, tail1 = failing_tests(wt)
            res["unit_failures_unchanged"] = len(f0)
            res["unit_failures_changed"] = len(f1)
            res["new_unit_failures"] = sorted(set(f1) - set(f0))
        res["checks"] = {}
        for c in checks:
            t0 = time.time()
            env = dict(os.environ, VERIF_REPO=wt, VERIF_SEED=a.seed)
            # the check rewrites evidence/<id>.json: keep the record of the UNCHANGED tree, put it back afterwards
            evp = os.path.join(VERIF, "evidence", c + ".json")
            saved = open(evp).read() if os.path.exists(evp) else None
            try:
                rc, out = sh("./check %s --tier %s" % (c, a.tier), cwd=VERIF, env=env, timeout=7200)
            finally:
                if saved is not None:
                    open(evp, "w").write(saved)
            lines = [ln for ln in out.split("\n") if ln.startswith(("VIOLATION", "  what:", "KNOWN-FINDING"))]
            viol = [ln for ln in lines if ln.startswith("VIOLATION")]
            what = [ln.strip()[:400] for ln in lines if ln.startswith("  what:")]
            res["checks"][c] = {"exit": rc, "violations": len(viol), "no_failing_input_found": sum("no-failing-input-found" in v for v in viol),
                                "what": what[:4], "wall_s": round(time.time() - t0, 1), "summary": out.strip().split("\n")[-1][:300]}
            # keep one replay as the witness
            m = re.search(r"replay=(\S+)", "\n".join(viol))
            if m and os.path.exists(m.group(1)):
                shutil.copy(m.group(1), os.path.join(d, "replay_%s.json" % c))
        res["caught"] = any(v["exit"] == 1 and v["violations"] > 0 for v in res["checks"].values())
        res["caught_with_input"] = any(v["exit"] == 1 and v["violations"] > v["no_failing_input_found"] for v in res["checks"].values())
    finally:
        sh("git -C %s worktree remove --force %s" % (REPO, wt))
        shutil.rmtree(wt, ignore_errors=True)
        # the evidence file of the check was rewritten against the changed tree: it is not evidence of the unchanged tree
        json.dump(res, open(os.path.join(d, "result.json"), "w"), indent=1)
    print(json.dumps(res, indent=1))
    return 0


if __name__ == "__main__":
    sys.exit(main())
