#!/bin/bash
# re-run every claimed check (quick tier) on the unchanged /repo so that evidence/*.json is that of the unchanged tree
cd "$(dirname "$0")/.."
seed=${1:-0}
for c in $(python3 -c "import json;print(' '.join(x['property_id'] for x in json.load(open('MANIFEST.json'))['checks']))"); do
  s=$(date +%s); VERIF_SEED=$seed ./check $c --tier quick > /tmp/refresh_$c.log 2>&1; rc=$?
  echo "$c rc=$rc $(( $(date +%s)-s ))s $(grep -c '^VIOLATION' /tmp/refresh_$c.log) viol"
done
