#!/usr/bin/env python3
"""Regenerates the data-driven appendices of DESIGN.md (between the BEGIN/END markers):
   G — findings (fixed / known) from known_findings.json + known_findings.d/*.json
   I — seeded changes and which checks catch them, from seeded/*/{meta,result}.json"""
import glob
import json
import os
import re
import subprocess

V = os.path.dirname(os.path.dirname(os.path.abspath(__file__)))


def esc(s):
    return str(s).replace("|", "\\|").replace("\n", " ")


def findings():
    rows = []
    paths = [os.path.join(V, "known_findings.json")] + sorted(glob.glob(os.path.join(V, "known_findings.d", "*.json")))
    for p in paths:
        if os.path.exists(p):
            rows += json.load(open(p))
    rows.sort(key=lambda r: (r.get("property", ""), r.get("kind", ""), r.get("id", "")))
    subj = {}
    try:
        out = subprocess.run(["git", "-C", "/repo", "log", "--format=%h %s"], capture_output=True, text=True).stdout
        for ln in out.split("\n"):
            if ln[8:].startswith("fix:"):
                subj[ln[:7]] = ln[8:]
    except Exception:
        pass
    out = ["| property | id | status | what |", "|---|---|---|---|"]
    for r in rows:
        what = re.sub(r"^(fixed|known): property=\S+ (\S+ )?", "", r.get("what", ""))
        st = "known finding" if r.get("kind") == "known" else "fixed in %s" % r.get("commit", "?")
        out.append("| %s | %s | %s | %s |" % (r.get("property"), r.get("id"), st, esc(what)[:420]))
    nfix = sum(1 for r in rows if r.get("kind") == "fixed")
    nknown = sum(1 for r in rows if r.get("kind") == "known")
    out.append("")
    out.append("%d fixed entries, %d known findings. `fix:` commits in /repo (oldest last): " % (nfix, nknown))
    for h, s in subj.items():
        out.append("* `%s` %s" % (h, esc(s)))
    return "\n".join(out)


def seeded():
    out = ["| seeded change | breaks | needs, in order to manifest | demo confirms | caught by (quick tier) | with a concrete failing input |", "|---|---|---|---|---|---|"]
    n = caught = withinp = 0
    for d in sorted(glob.glob(os.path.join(V, "seeded", "*"))):
        mp, rp = os.path.join(d, "meta.json"), os.path.join(d, "result.json")
        if not os.path.exists(mp):
            continue
        m = json.load(open(mp))
        r = json.load(open(rp)) if os.path.exists(rp) else {}
        n += 1
        by = [c for c, v in r.get("checks", {}).items() if v.get("exit") == 1 and v.get("violations")]
        inp = [c for c, v in r.get("checks", {}).items() if v.get("exit") == 1 and v.get("violations", 0) > v.get("no_failing_input_found", 0)]
        caught += bool(by)
        withinp += bool(inp)
        extra = m.get("caught_by_note", "")
        if r.get("patch_applies_at_head", {}).get("applies") is False:
            extra = (extra + "; " if extra else "") + "evaluated at repo head %s (the patch no longer applies after later fix: commits)" % r.get("repo_head")
        out.append("| %s | %s: %s | %s | %s | %s%s | %s |" % (
            os.path.basename(d), m.get("property"), esc(m.get("title", ""))[:160], esc(m.get("needs_to_manifest", ""))[:260],
            "yes" if r.get("demo_confirms", m.get("demo_confirms")) else "?", ", ".join(by) or "**missed**", (" — " + esc(extra)) if extra else "",
            ", ".join(inp) or ("no (obligation / correspondence broke; `no-failing-input-found`)" if by else "—")))
    out.append("")
    out.append("%d seeded changes; %d caught, %d of them with a concrete failing input replayed on the real code." % (n, caught, withinp))
    return "\n".join(out)


def main():
    p = os.path.join(V, "DESIGN.md")
    s = open(p).read()
    for tag, fn in (("G-FINDINGS", findings), ("I-SEEDED", seeded)):
        a, b = "<!-- BEGIN %s -->" % tag, "<!-- END %s -->" % tag
        if a in s and b in s:
            s = s[:s.index(a) + len(a)] + "\n" + fn() + "\n" + s[s.index(b):]
    open(p, "w").write(s)
    print("DESIGN.md tables regenerated")


if __name__ == "__main__":
    main()
