#!/usr/bin/env python3
"""Run the repository's pinned test suite and compare with /root/.vp/BASELINE.json stable_pass.
usage: baseline_check.py [repo]   (default /repo)"""
import json, subprocess, sys, tempfile, os
import xml.etree.ElementTree as ET
repo = sys.argv[1] if len(sys.argv) > 1 else "/repo"
base = json.load(open("/root/.vp/BASELINE.json"))
out = tempfile.mktemp(suffix=".xml")
cmd = ["/venv/bin/python", "-m", "pytest", "-ra", "-q", "-p", "no:cacheprovider", "--timeout=900",
       "--continue-on-collection-errors", "--junitxml=" + out]
env = dict(os.environ, PYTHONPATH=repo)
p = subprocess.run(cmd, cwd=repo, env=env, stdout=subprocess.PIPE, stderr=subprocess.STDOUT, text=True)
print(p.stdout[-600:])
passed = set()
for tc in ET.parse(out).getroot().iter("testcase"):
    if not any(ch.tag in ("failure", "error", "skipped") for ch in tc):
        passed.add(tc.get("classname") + "::" + tc.get("name"))
missing = [t for t in base["stable_pass"] if t not in passed]
print("stable_pass: %d, passing now: %d, missing: %d" % (len(base["stable_pass"]), len(base["stable_pass"]) - len(missing), len(missing)))
for m in missing[:20]:
    print("  MISSING", m)
os.unlink(out)
sys.exit(1 if missing else 0)
