"""C03 — commands and configs are only ever sent at the right privilege level.

proof: coq/proofs/NetDriver_Proofs.v, props/C03.v — belief soundness and the level of every user line for
EVERY history of driver operations outside the finding's region, the full statement refuted (shared prompt +
belief reset).  tie: Gen_NetDriver.v regenerated from PRIVS / _abort_config / on_open of the current tree and
from the vendor tables of harness/simdevice.py; correspondence `net-history`: model/NetDriver.v [run_hist]
evaluated by vm_compute on the same operation histories as the real sync and asyncio drivers over SimDevice
(device log, belief, device mode, dict keys, outcome after every operation); an independent oracle reads the
device's own execution log.  Interrupted operations (harness/c03_int.py): a scripted transport raises (exception,
ScrapliTimeout, or never answers while the caller's asyncio.wait_for gives up) at every read / write index of one
operation, the caller catches it and goes on; model: NetDriver.v [run_hist_i] (interruption points), C03_belief_sound.
Late registration (suites reg-late, reg-late-prefix): a configuration session registered while the connection sits in exec /
privilege_exec / configuration / tclsh / inside another session, then configs at each session / configuration and commands;
registering keeps the belief (REGISTER fact p_reg_keeps, from the ast), C03_register_in_any_level.  The oracle accepts a
DUMMY belief as the known finding's premise only where the history accounts for it (dummy_explained).
Abort-then (suite abort-then): send_config(s) with stop_on_failed whose k-th line fails (the platform _abort_config runs),
then configs at the same / another / the default level, a command, an interactive, acquire_priv.  The oracle and the
scenario loop take nothing from the translator's reading of _abort_config: when it refuses the function (tie reported
broken) that platform's histories are still run on the real drivers and judged on the device's log (oracle-only).
Re-open (suites reopen, reopen-random): the second / third session of ONE driver object — open, ..., close, open again, also
as two with-blocks — on a device re-started at a login level (exec vs privilege_exec), closed after having been in every
level; the tracked level survives close(), only on_open's explicit acquire_priv re-synchronises it.  The lines on_open itself
passes to send_command are commands like any other: the oracle holds them to the default desired level.  Oracle-only.
Generic-driver mode with a named level (suite generic-explicit): the mode is on and send_interactive(privilege_level=T) — T the
default desired level or any other — follows operations that moved the device (send_configs / acquire_priv / send_interactive at
another level before the mode was switched on, acquire_priv / send_interactive(level) while it is on); an operation given a level
runs at that level in this mode too.  In the model (OSetGeneric, OInteractive (Some T)) and judged on the device's log.
Refusing / ignoring devices (suites dev-refuse, dev-ignore): one transition of the vendor table is answered with the
invalid-input text / a bare prompt, for every transition and every operation that needs it.  Oracle-only.
Translator refusals never stop the failing-input search: every GenError of gen_netdriver is turned into a reported broken tie
plus tables for the oracle (per function where the rest can be kept, per platform — fallback_facts — otherwise, for the whole
tree if generate() itself fails), and every suite is run on the real code and judged by the device-log oracle."""
import itertools
import json
import os
import re
import warnings

from . import common
from .common import coq_bool, coq_list

LEVEL = "proof"
PLATFORMS = ["cisco_iosxe", "cisco_iosxr", "cisco_nxos", "arista_eos", "juniper_junos"]
SOURCES = ["scrapli/driver/network/base_driver.py", "scrapli/driver/network/sync_driver.py",
           "scrapli/driver/network/async_driver.py"] + \
          ["scrapli/driver/core/%s/%s.py" % (p, f) for p in PLATFORMS for f in ("base_driver", "sync_driver", "async_driver")]
SIG_KNOWN = "c03-belief-reset-shared-prompt"
ANYPROMPT = r"^.*[>#%$]\s?$"
USER_OK, USER_BAD = 100, 150       # line ids of user content: "show u<k>" -> 100+k ; "bad f<k>" -> 150+k (failing)
UNKNOWN_LEVEL = 99


# ------------------------------------------------------------------------------------------------
# running a history on the real driver
# ------------------------------------------------------------------------------------------------
def _outputs(marker):
    def f(mode, line):
        if line.startswith("bad "):
            return (marker + " (sim)").encode()
        return b"ok " + line.encode()[:20]
    return f


def dev_mode_name(m):
    return m[len("session:"):] if m.startswith("session:") else m


def restart_device(dev, d, login):
    """a NEW session of the same driver object: the device is where a fresh login puts it (its login level, empty line
    buffer, no sub-mode), whatever the previous session left unread is gone with that session, the login prompt is printed"""
    dev.mode = login
    dev.submode = ""
    dev.line = bytearray()
    dev.dialog = None
    dev._skip_lf = False
    dev.closed = False
    d.transport.delivered = len(dev.out)
    dev.start()


def run_history(info, sc):
    """sc: {platform, stack, login, secret, policy, ops [, refuse, ignore]}.  refuse / ignore: [[device mode, line]]
    transitions the device answers with its invalid-input text / with a bare prompt, staying where it is.
    {"op": "close"} ends the session (driver.close(); via "with": __exit__ / __aexit__); an {"op": "open"} after the first
    one opens the NEXT session of the same driver object on the device re-started at its login level ("login" of the op,
    default: the scenario's).  Returns the list of observations, one per op
    (the history stops early only if the device starves the client: a read that would block forever).
    An op may carry "fault": {"at": j, "kind": "exc"|"timeout"|"cancel"}: the j-th transport read/write of that
    operation raises (or, "cancel", never completes and the caller's asyncio.wait_for gives up); the caller
    catches it and goes on with the next operation."""
    import asyncio
    from . import c03_int
    from .simdevice import Runner, SimDevice, Starved, make_driver

    plat = sc["platform"]
    pi = info[plat]
    dev = SimDevice(plat, outputs=_outputs(pi["failed_when_contains"][0]), secret=sc.get("secret"),
                    login_mode=sc["login"], refuse=[tuple(x) for x in sc.get("refuse") or ()],
                    ignore=[tuple(x) for x in sc.get("ignore") or ()])
    dev.start()
    obs = []
    sessions_opened = 0
    faulty = any(o.get("fault") or o.get("probe") for o in sc["ops"])
    with warnings.catch_warnings():
        warnings.simplefilter("ignore")
        d = make_driver(plat, sc["stack"], dev, tuple(sc.get("policy") or ("whole",)), auth_secondary=sc.get("secret") or "")
        t = c03_int.install(d, sc["stack"], dev, tuple(sc.get("policy") or ("whole",))) if faulty else None
        r = Runner(sc["stack"])
        try:
            for o in sc["ops"]:
                if o["op"] == "open":
                    if sessions_opened:
                        restart_device(dev, d, o.get("login") or sc["login"])
                    sessions_opened += 1
                n0 = len(dev.log)
                res = "ok"
                before = {"belief": d._current_priv_level.name, "mode": dev_mode_name(dev.mode), "generic": bool(d._generic_driver_mode)}
                fault = o.get("fault")
                call = (lambda fn, *a, **kw: c03_int.call(r, fault, fn, *a, **kw)) if faulty else r.call
                if t is not None:
                    t.begin_op(fault)
                try:
                    k = o["op"]
                    if k == "open":
                        if o.get("via") == "with":
                            call(d.__enter__ if sc["stack"] == "sync" else d.__aenter__)
                        else:
                            call(d.open)
                    elif k == "close":
                        if o.get("via") == "with":
                            call(*((d.__exit__,) if sc["stack"] == "sync" else (d.__aexit__,)), None, None, None)
                        else:
                            call(d.close)
                    elif k == "cmds":
                        if o.get("single") and len(o["lines"]) == 1:
                            call(d.send_command, o["lines"][0])
                        else:
                            call(d.send_commands, list(o["lines"]), stop_on_failed=bool(o.get("stop")))
                    elif k == "cfgs":
                        kw = {"stop_on_failed": bool(o.get("stop"))}
                        if o.get("priv") is not None:
                            kw["privilege_level"] = o["priv"]
                        if o.get("joined"):
                            call(d.send_config, "\n".join(o["lines"]), **kw)
                        else:
                            call(d.send_configs, list(o["lines"]), **kw)
                    elif k == "acquire":
                        call(d.acquire_priv, o["level"])
                    elif k == "interactive":
                        kw = {}
                        if o.get("priv") is not None:
                            kw["privilege_level"] = o["priv"]
                        call(d.send_interactive, [(l, ANYPROMPT, False) for l in o["lines"]], **kw)
                    elif k == "register":
                        d.register_configuration_session(session_name=o["name"])
                    elif k == "generic":
                        d._generic_driver_mode = bool(o["value"])
                    else:
                        raise ValueError("unknown op %r" % (o,))
                except Starved:
                    res = "Starved"
                except (c03_int.Interrupted, asyncio.TimeoutError, asyncio.CancelledError):
                    res = "Interrupted"
                except Exception as e:  # noqa: the class name is the observation
                    res = type(e).__name__
                    if t is not None and t.fired:
                        # whatever class the driver turned the scripted fault into (ScrapliTimeout in an escalation
                        # with auth becomes ScrapliAuthenticationFailed): the operation was cut, the caller caught it
                        res = "Interrupted"
                ob = {"result": res, "belief": d._current_priv_level.name, "mode": dev_mode_name(dev.mode),
                      "generic": bool(d._generic_driver_mode), "keys": list(d.privilege_levels.keys()),
                      "log": [[dev_mode_name(m), l.decode("latin-1").strip()] for (m, l, _) in dev.log[n0:]],
                      "before": before, "residue": len(d.transport.residue())}
                if t is not None:
                    t.end_op()
                    ex, cut = c03_int.exchanges(t.trace)
                    ob.update({"nio": t.nio, "fired": bool(t.fired), "cut": cut, "pending": len(dev.line) > 0,
                               "exchanges": [[e["kind"], e["input"]] for e in ex]})
                obs.append(ob)
                if res == "Starved":
                    break
        finally:
            r.close()
    return obs


# ------------------------------------------------------------------------------------------------
# independent oracle: the property, read off the device's own execution log
# ------------------------------------------------------------------------------------------------
def shared_prompt(plat, a, b):
    """do the device's prompts in modes a and b coincide?  (vendor tables only)"""
    from .simdevice import SimDevice
    def pr(m):
        d = SimDevice(plat)
        d.mode = m
        return d.prompt()
    try:
        return pr(a) == pr(b)
    except KeyError:
        return False


def sim_mode(pi, name):
    return "session:" + name if name in pi["sessions"] else name


def expected_sent(lines, stop):
    out = []
    for l in lines:
        out.append(l)
        if stop and l.startswith("bad "):
            break
    return out


TOKEN = re.compile(r"(?:show u|bad f)\d+")


def has_faults(sc):
    return any(o.get("fault") for o in sc["ops"])


def op_want(pi, o, bef):
    """(level the user lines of this op must run in or None = no claim, the user lines, navigation target)"""
    default = [n for n, i in pi["level_ids"].items() if i == pi["default"]][0]
    k = o["op"]
    want, ulines = None, []
    if k == "cmds":
        ulines = list(o["lines"])
        want = None if bef["generic"] else default
    elif k == "cfgs":
        ulines = list(o["lines"])
        want = o["priv"] if o.get("priv") is not None else "configuration"
    elif k == "interactive":
        ulines = list(o["lines"])
        want = o["priv"] if o.get("priv") is not None else (None if bef["generic"] else default)
    tgt = o.get("level") if k == "acquire" else want
    if k == "open":
        tgt = default
    if k == "close":
        tgt = default
    return want, ulines, tgt


def info_for(info, sc):
    """scenarios may name configuration sessions outside the generated family ("extra_sessions": oracle-only, e.g. EOS
    sessions sharing their first six characters): the platform facts extended by these names for the oracle"""
    extra = sc.get("extra_sessions")
    if not extra:
        return info
    pi = dict(info[sc["platform"]])
    pi["sessions"] = list(pi["sessions"]) + [x for x in extra if x not in pi["sessions"]]
    pi["level_ids"] = dict(pi["level_ids"])
    pi["line_ids"] = dict(pi["line_ids"])
    for x in extra:
        pi["level_ids"].setdefault(x, 1000 + len(pi["level_ids"]))
        pi["line_ids"].setdefault("configure session " + x, 1000 + len(pi["line_ids"]))
    out = dict(info)
    out[sc["platform"]] = pi
    return out


def dummy_explained(sc, obs):
    """per operation: is a belief DUMMY at the START of the operation accounted for by the history?  The belief is DUMMY
    at login; afterwards only switching generic-driver mode on, or an operation that did not complete (exception /
    interruption: the reset precedes every transition) may leave it DUMMY.  An operation that completes — registering a
    configuration session in particular — has no business forgetting a level the driver knew: a DUMMY it leaves behind
    is NOT the known finding's premise, and whatever goes wrong afterwards is reported."""
    out = []
    ex = True
    for o, ob in zip(sc["ops"], obs):
        out.append(ex)
        if ob["belief"] != "DUMMY":
            ex = True
        elif (o["op"] == "generic" and o.get("value")) or ob["result"] != "ok":
            ex = True
        elif ob["before"]["belief"] != "DUMMY":
            ex = False
        # else: DUMMY before and after a completed operation: as before
    return out


def oracle_int(info, sc, obs):
    """histories with interrupted operations (the caller caught the exception and went on).  Read off the device's own
    log: every user line — whichever later return made the device execute it, alone or glued to a typed-but-unreturned
    input the cut left in the device's line buffer — ran in the level its operation required; after every operation,
    cut or not, the driver's belief is DUMMY or the device's mode.  User lines are unique per history, so a line
    names its operation.  returns None or (op index, what, in_known_region)"""
    info = info_for(info, sc)
    plat = sc["platform"]
    pi = info[plat]
    navset = set(pi["line_ids"].keys())
    explained = dummy_explained(sc, obs)
    owner = {}
    for i, (o, ob) in enumerate(zip(sc["ops"], obs)):
        want, ulines, _ = op_want(pi, o, ob["before"])
        for l in ulines:
            if l in owner:
                raise ValueError("user lines must be unique in a history with interruptions: %r" % l)
            owner[l] = (i, want, o["op"])
    # pass 1: the device's log, line by line (the property itself); pass 2: the driver's belief after every operation
    dirty = False      # a cut has left a partial line in the device's buffer: later lines may be glued to it
    regions = []
    for i, (o, ob) in enumerate(zip(sc["ops"], obs)):
        k = o["op"]
        bef = ob["before"]
        want, ulines, tgt = op_want(pi, o, bef)
        # the known finding's region: the operation starts with the belief DUMMY and reads the prompt of a sibling of its
        # target (shared prompt).  A typed-but-unreturned navigation input left by an earlier cut is executed by this
        # operation's first return, so the device may get into that sibling only now: every mode it was in counts.
        seen = [bef["mode"]] + ([m for (m, _) in ob["log"]] + [ob["mode"]] if dirty else [])
        region = (bef["belief"] == "DUMMY" and explained[i] and tgt is not None and tgt in pi["level_ids"]
                  and any(m != tgt and shared_prompt(plat, sim_mode(pi, m), sim_mode(pi, tgt)) for m in seen))
        regions.append(region)
        for (m, l) in ob["log"]:
            toks = TOKEN.findall(l)
            for tk in toks:
                if tk not in owner:
                    return i, "unexpected line %r executed in %r" % (l, m), region
                j, w, kj = owner[tk]
                if j > i:
                    return i, "line %r of a later operation executed" % tk, region
                if w is not None and m != w:
                    return i, "line %r of %s (op %d) ran in %r, not in %r" % (tk, kj, j, m, w), region
            if not toks and l not in navset and not dirty:
                return i, "unexpected line %r executed in %r" % (l, m), region
        if ob["result"] == "ok" and not dirty:
            sent = expected_sent(ulines, bool(o.get("stop")))
            ran = [l for (_, l) in ob["log"] if l in set(ulines)]
            if ran != sent:
                return i, "%s: lines that reached the device %r, expected %r" % (k, ran, sent), region
        if ob["result"] == "Starved":
            return i, "%s never completed (the device had nothing more to say)" % k, False
        if ob.get("pending"):
            dirty = True
    for i, (o, ob) in enumerate(zip(sc["ops"], obs)):
        if ob["belief"] != "DUMMY" and ob["belief"] != ob["mode"]:
            return i, "after %s%s the driver believes %r but the device is in %r" % (
                o["op"], " (interrupted)" if ob["result"] == "Interrupted" else "", ob["belief"], ob["mode"]), regions[i]
    return None


def abort_unknown(pi):
    """the translator refused this platform's _abort_config: the lines of its abort step have no id (not in line_ids)"""
    return bool(pi.get("fallback")) or any("_abort_config not translated" in p for p in pi.get("problems", []))


def untranslated(info, plat):
    """the translator refused a function of this platform (reported as a broken tie): its histories cannot be put to the
    model (lines / shapes without an id); the real code is still run on them and judged by the device-log oracle"""
    return bool(info[plat].get("problems")) or bool(info[plat].get("fallback"))


def oracle(info, sc, obs, belief=True):
    """returns None or (op index, what, in_known_region).  belief=False: the device's execution log only (the property
    itself: which line ran in which mode), without the belief observer"""
    if has_faults(sc):
        return oracle_int(info, sc, obs)
    info = info_for(info, sc)
    plat = sc["platform"]
    pi = info[plat]
    default = [n for n, i in pi["level_ids"].items() if i == pi["default"]][0]
    navset = set(pi["line_ids"].keys())
    explained = dummy_explained(sc, obs)
    for i, (o, ob) in enumerate(zip(sc["ops"], obs)):
        k = o["op"]
        bef = ob["before"]
        want, ulines = None, []
        if k == "cmds":
            ulines = expected_sent(o["lines"], bool(o.get("stop")))
            want = None if bef["generic"] else default
        elif k == "cfgs":
            ulines = expected_sent(o["lines"], bool(o.get("stop")))
            want = o["priv"] if o.get("priv") is not None else "configuration"
        elif k == "interactive":
            ulines = list(o["lines"])
            want = o["priv"] if o.get("priv") is not None else (None if bef["generic"] else default)
        elif k == "open":
            # on_open passes these lines to send_command: the API promises the default desired level for them as for any
            # other command (which lines: from the on_open function run against a recording stub, not from the model)
            ulines = list(pi.get("open_cmds") or [])
            want = None if bef["generic"] else default
        tgt = o.get("level") if k == "acquire" else want
        if k in ("open", "close"):
            tgt = default
        region = (bef["belief"] == "DUMMY" and explained[i] and tgt is not None and tgt != bef["mode"] and tgt in pi["level_ids"]
                  and shared_prompt(plat, sim_mode(pi, bef["mode"]), sim_mode(pi, tgt)))
        uset = set(ulines)
        ran = [(m, l) for (m, l) in ob["log"] if l in uset]
        for (m, l) in ran:
            if want is not None and m != want:
                return i, "line %r of %s ran in %r, not in %r" % (l, k, m, want), region
        if k == "open":
            pass          # which of its lines on_open sends is its own business; where they run is the property's
        elif ob["result"] == "ok" and [l for (_, l) in ran] != ulines:
            return i, "%s: lines that reached the device %r, expected %r" % (k, [l for (_, l) in ran], ulines), region
        # the platform's abort step (after the failing line of a send_configs with stop_on_failed): its lines are in the
        # table (navset) when the translator read _abort_config; when it refused the function the property puts no
        # constraint on what the abort types, only on where the user lines of this and of the following operations run
        free_from = None
        if k == "cfgs" and o.get("stop") and abort_unknown(pi):
            bad_at = [ix for ix, (_, l) in enumerate(ob["log"]) if l.startswith("bad ")]
            free_from = bad_at[0] + 1 if bad_at else None
        # on_close ends the session with a line of its own (read off the function by the recording stub); an on_open /
        # on_close the stub could not follow (tie reported broken) is not constrained in what it types
        own = set(pi.get("close_lines") or []) if k == "close" else set()
        if (k == "open" and not pi.get("open_known", True)) or (k == "close" and not pi.get("close_known", True)):
            free_from = 0
        for ix, (m, l) in enumerate(ob["log"]):
            if l not in uset and l not in navset and l not in own:
                if free_from is not None and ix >= free_from and not TOKEN.search(l):
                    continue
                return i, "unexpected line %r executed in %r" % (l, m), region
        if belief and ob["belief"] != "DUMMY" and ob["belief"] != ob["mode"]:
            return i, "after %s the driver believes %r but the device is in %r" % (k, ob["belief"], ob["mode"]), region
        if ob["result"] == "Starved":
            return i, "%s never completed (the device had nothing more to say)" % k, False
    return None


# ------------------------------------------------------------------------------------------------
# history -> Coq
# ------------------------------------------------------------------------------------------------
def line_id(pi, l):
    if l.startswith("show u"):
        return USER_OK + int(l[6:]), False
    if l.startswith("bad f"):
        return USER_BAD + int(l[5:]), True
    return pi["line_ids"][l], False


def lvl_id(pi, name):
    return pi["level_ids"].get(name, UNKNOWN_LEVEL)


def coq_opt(x):
    return "None" if x is None else "(Some %d)" % x


def coq_op(pi, o):
    k = o["op"]
    ul = lambda ls: coq_list(["(%d, %s)" % (line_id(pi, l)[0], coq_bool(line_id(pi, l)[1])) for l in ls])
    priv = lambda: coq_opt(None if o.get("priv") is None else lvl_id(pi, o["priv"]))
    if k == "open":
        return "OOpen"
    if k == "cmds":
        return "OSendCommands %s %s" % (ul(o["lines"]), coq_bool(bool(o.get("stop")) and not (o.get("single") and len(o["lines"]) == 1)))
    if k == "cfgs":
        return "OSendConfigs %s %s %s" % (ul(o["lines"]), coq_bool(bool(o.get("stop"))), priv())
    if k == "acquire":
        return "OAcquire %d" % lvl_id(pi, o["level"])
    if k == "interactive":
        return "OInteractive %s %s" % (coq_list([str(line_id(pi, l)[0]) for l in o["lines"]]), priv())
    if k == "register":
        return "ORegister %d" % lvl_id(pi, o["name"])
    if k == "generic":
        return "OSetGeneric %s" % coq_bool(o["value"])
    raise ValueError(o)


RES = {"ok": 0, "ScrapliPrivilegeError": 1, "ScrapliValueError": 2, "IndexError": 3, "Interrupted": 5}


def op_line_set(pi, o):
    """the content lines of the operation's send loop (the model's op_lines)"""
    if o["op"] == "open":
        inv = {i: l for l, i in pi["line_ids"].items()}
        return set(inv[i] for i in pi["open"])
    return set(o.get("lines") or [])


def cut_point(pi, o, ob):
    """the model's interruption point of an observed cut: None (not cut) | "INav b x" | "ILine n x" | "pending"
    (a typed-but-unreturned input is left in the device's line buffer: outside the model, oracle-only)"""
    cut = ob.get("cut")
    if not ob.get("fired") or cut is None:
        return None
    if cut["pending"] or ob.get("pending"):
        return "pending"
    if cut["index"] < 0:
        return "INav 0 false"
    ex = ob["exchanges"]
    lines = op_line_set(pi, o)
    in_loop = lambda e: e[0] == "L" and (e[1] or "").strip() in lines
    if in_loop(ex[cut["index"]]):
        return "ILine %d %s" % (sum(1 for e in ex[:cut["index"]] if in_loop(e)), coq_bool(cut["executed"]))
    return "INav %d %s" % (cut["index"], coq_bool(cut["executed"] and cut["kind"] == "L"))


def history_points(info, sc, obs):
    """per op: the interruption point term or None; the whole value is None if some cut is outside the model"""
    pi = info[sc["platform"]]
    pts = []
    for o, ob in zip(sc["ops"], obs):
        p = cut_point(pi, o, ob) if o.get("fault") else None
        if p == "pending":
            return None
        pts.append(p)
    return pts


def coq_obs(pi, ob):
    belief = None if ob["belief"] == "DUMMY" else lvl_id(pi, ob["belief"])
    log = coq_list(["(%d, %d)" % (lvl_id(pi, m), line_id(pi, l)[0]) for (m, l) in ob["log"]])
    return "(%s, %d, %s, %s, %s, %d)" % (coq_opt(belief), lvl_id(pi, ob["mode"]), coq_bool(ob["generic"]),
                                          coq_list([str(lvl_id(pi, k)) for k in ob["keys"]]), log, RES.get(ob["result"], 9))


def case_term(info, sc, obs, points=None):
    pi = info[sc["platform"]]
    points = points or [None] * len(obs)
    return "(%d, %d, %s, %s)" % (PLATFORMS.index(sc["platform"]), lvl_id(pi, sc["login"]),
                                 coq_list(["(%s, %s)" % (coq_op(pi, o), "None" if p is None else "Some (%s)" % p)
                                           for o, p in zip(sc["ops"][:len(obs)], points)]),
                                 coq_list([coq_obs(pi, ob) for ob in obs]))


HEADER = """From Coq Require Import List Arith Bool. Import ListNotations.
From Verif Require Import NetDriver.
From Gen Require Import Gen_NetDriver.
Definition obs := (option nat * nat * bool * list nat * list (nat * nat) * nat)%type.
Definition res_code (r : result) : nat := match r with Ok => 0 | PrivErr => 1 | ValueErr => 2 | IndexErr => 3 | OutOfFuel => 4 | Interrupted => 5 end.
Fixpoint leqb {A} (e : A -> A -> bool) (a b : list A) : bool :=
  match a, b with [] , [] => true | x :: r, y :: s => e x y && leqb e r s | _, _ => false end.
Definition pair_eqb (a b : nat * nat) := (fst a =? fst b) && (snd a =? snd b).
Definition obs_eqb (a b : obs) : bool :=
  let '(b1, m1, g1, k1, l1, r1) := a in let '(b2, m2, g2, k2, l2, r2) := b in
  opt_eqb b1 b2 && (m1 =? m2) && Bool.eqb g1 g2 && leqb Nat.eqb k1 k2 && leqb pair_eqb l1 l2 && (r1 =? r2).
Definition obs_of (t : state * op * list entry * result * state) : obs :=
  let '(_, _, seg, r, s') := t in
  (belief s', mode s', generic s', reg s', map (fun e => (fst (fst e), snd (fst e))) seg, res_code r).
Definition chk (c : nat * nat * list iop * list obs) : bool :=
  let '(pi, m0, ops, o) := c in
  let P := nth pi gen_platforms gen_iosxe in
  leqb obs_eqb (map obs_of (run_hist_i P (init P m0) ops)) o.
"""


# ------------------------------------------------------------------------------------------------
# generators
# ------------------------------------------------------------------------------------------------
def cfg_levels(pi):
    """levels a caller would pass to send_configs: everything named configuration*, and the sessions"""
    return [n for n in pi["level_ids"] if n.startswith("configuration")] + list(pi["sessions"])


def alphabet(pi, registered):
    """reduced alphabet of operations for the exhaustive enumeration"""
    names = [n for n in pi["level_ids"] if pi["level_ids"][n] < pi["nbase"]] + list(registered)
    default = [n for n, i in pi["level_ids"].items() if i == pi["default"]][0]
    cfgs = [n for n in cfg_levels(pi) if n in names]
    ops = [{"op": "cmds", "lines": ["show u0"], "single": True},
           {"op": "generic", "value": True}, {"op": "generic", "value": False},
           {"op": "interactive", "lines": ["show u3"], "priv": cfgs[-1]},
           {"op": "interactive", "lines": ["show u3"], "priv": None}]
    for c in [None] + cfgs[1:]:
        ops.append({"op": "cfgs", "lines": ["show u1"], "priv": c})
    for c in ([None] if len(cfgs) == 1 else cfgs[1:]):
        ops.append({"op": "cfgs", "lines": ["show u1", "bad f0", "show u2"], "stop": True, "priv": c})
    others = [n for n in names if n not in cfgs and n != default]
    for n in [default] + cfgs[:1] + others[-1:]:
        ops.append({"op": "acquire", "level": n})
    return ops


def rand_lines(rng, allow_bad=True):
    n = rng.choice([1, 1, 2, 3, 5])
    out = []
    for _ in range(n):
        if allow_bad and rng.random() < 0.25:
            out.append("bad f%d" % rng.randint(0, 9))
        else:
            out.append("show u%d" % rng.randint(0, 9))
    return out


def gen_history(rng, pi, plat, malformed=False):
    """random history; mostly valid: levels that exist, toggles usually while the device sits in the command level"""
    n = rng.choice([2, 3, 4, 5, 6, 8, 10, 14])
    ops = [{"op": "open"}]
    base = [nm for nm in pi["level_ids"] if pi["level_ids"][nm] < pi["nbase"]]
    registered = []
    generic = False
    table_lines = [l for l in pi["line_ids"] if l and not l.startswith("terminal") and not l.startswith("set cli")
                   and l not in ("exit", "rollback 0")]
    for s in pi["sessions"]:
        if rng.random() < 0.6:
            ops.append({"op": "register", "name": s})
            registered.append(s)
    for _ in range(n):
        names = base + registered
        cfgs = [c for c in cfg_levels(pi) if c in names]
        x = rng.random()
        if x < 0.22:
            ls = rand_lines(rng)
            if malformed and rng.random() < 0.5:
                ls[rng.randrange(len(ls))] = rng.choice(table_lines)
            ops.append({"op": "cmds", "lines": ls, "stop": rng.random() < 0.4, "single": len(ls) == 1 and rng.random() < 0.7})
        elif x < 0.55:
            ls = rand_lines(rng)
            if malformed and rng.random() < 0.5:
                ls[rng.randrange(len(ls))] = rng.choice(table_lines)
            y = rng.random()
            priv = None if y < 0.3 else (rng.choice(cfgs) if y < 0.85 else (rng.choice(names) if y < 0.95 else "no-such-level"))
            ops.append({"op": "cfgs", "lines": ls, "stop": rng.random() < 0.5, "priv": priv, "joined": rng.random() < 0.3})
        elif x < 0.67:
            ops.append({"op": "acquire", "level": rng.choice(names) if rng.random() < 0.93 else "no-such-level"})
        elif x < 0.77:
            y = rng.random()
            priv = None if y < 0.3 else (rng.choice(names) if y < 0.95 else "no-such-level")
            ops.append({"op": "interactive", "lines": rand_lines(rng, allow_bad=False)[:3], "priv": priv})
        elif x < 0.93:
            if not generic and rng.random() < 0.8:
                # keep the toggle outside the known finding's region: the device is then in the command level
                ops.append({"op": "cmds", "lines": ["show u0"], "single": True})
            generic = not generic if rng.random() < 0.85 else generic
            ops.append({"op": "generic", "value": generic})
        elif pi["sessions"]:
            ops.append({"op": "register", "name": rng.choice(pi["sessions"])})
            if ops[-1]["name"] not in registered:
                registered.append(ops[-1]["name"])
        else:
            ops.append({"op": "cmds", "lines": ["show u7"], "single": True})
    return ops


# ------------------------------------------------------------------------------------------------
# interrupted operations: one operation of the history is cut at a transport read / write, the caller goes on
# ------------------------------------------------------------------------------------------------
VARIANTS = [("sync", "exc"), ("async", "cancel"), ("sync", "timeout"), ("async", "exc"), ("async", "timeout")]


def int_bases(info, thorough=True):
    """(platform, login, head ops, the operation to cut, tail ops): the cut operation needs a privilege change from
    where the head leaves the connection (or not), the tail sends a command, a config and a command again"""
    out = []
    for plat in PLATFORMS:
        pi = info[plat]
        default = [n for n, i in pi["level_ids"].items() if i == pi["default"]][0]
        registered = pi["sessions"][:1]
        names = [nm for nm in pi["level_ids"] if pi["level_ids"][nm] < pi["nbase"]] + registered
        cfgs = [c for c in cfg_levels(pi) if c in names]
        others = [x for x in names if x not in cfgs and x != default]
        pres = [[]] + [[{"op": "cfgs", "lines": ["show u1"], "priv": c}] for c in [None] + cfgs[1:]]
        targets = [{"op": "cmds", "lines": ["show u10"], "single": True}, {"op": "cmds", "lines": ["show u10", "show u11"]}]
        targets += [{"op": "cfgs", "lines": ["show u12", "show u13"], "priv": c} for c in [None] + cfgs[1:]]
        targets += [{"op": "acquire", "level": lv} for lv in [default] + cfgs[:1] + others[-1:]]
        if not thorough:      # quick: from the command level and from 'configuration'; one sibling configuration level
            pres = pres[:2]
            targets = [t_ for t_ in targets if t_["op"] != "cfgs" or t_["priv"] in (None, cfgs[-1])]
        tail = [{"op": "cmds", "lines": ["show u20"], "single": True}, {"op": "cfgs", "lines": ["show u21"], "priv": None},
                {"op": "cmds", "lines": ["show u22"], "single": True}]
        for login in logins(pi):
            for pre in pres:
                for tg in targets:
                    head = [{"op": "open"}] + [{"op": "register", "name": s_} for s_ in registered] + [dict(o) for o in pre]
                    out.append((plat, login, head, dict(tg), [dict(o) for o in tail]))
    return out


def probe_nio(info, plat, login, head, tg, policy=("whole",)):
    """number of transport reads+writes of the operation when nothing is cut"""
    sc = {"platform": plat, "stack": "sync", "login": login, "secret": None, "policy": list(policy),
          "ops": [dict(o) for o in head] + [dict(tg, probe=1)]}
    obs = run_history(info, sc)
    return obs[-1].get("nio", 0) if len(obs) == len(sc["ops"]) else 0


def int_scenarios(info, rng, thorough):
    """every transport read / write index of the cut operation; quick: one (stack, kind of interruption) per index in
    rotation, thorough: all five"""
    out = []
    n = 0
    for (plat, login, head, tg, tail) in int_bases(info, thorough):
        nio = probe_nio(info, plat, login, head, tg)
        for j in range(nio):
            variants = VARIANTS if thorough else [VARIANTS[n % len(VARIANTS)]]
            n += 1
            for stack, kind in variants:
                ops = [dict(o) for o in head] + [dict(tg, fault={"at": j, "kind": kind})] + [dict(o) for o in tail]
                out.append(({"platform": plat, "stack": stack, "login": login, "secret": None, "policy": ["whole"], "ops": ops}, "int"))
    # random: a random mostly-valid history with unique user lines, one or two operations cut at a random index, any chunking
    count = 300 if thorough else 40
    for j in range(count):
        plat = PLATFORMS[j % len(PLATFORMS)]
        pi = info[plat]
        ops = gen_history(rng, pi, plat)
        u = 0
        for o in ops:
            if o.get("lines"):
                o["lines"] = ["show u%d" % (u + i) for i in range(len(o["lines"]))]
                u += len(o["lines"])
                o.pop("stop", None)
        if u >= 50:
            continue
        stack, kind = VARIANTS[rng.randrange(len(VARIANTS))]
        io_ops = [i for i, o in enumerate(ops) if o["op"] in ("cmds", "cfgs", "acquire") and i > 0]
        if not io_ops:
            continue
        # whole reads only: under a chunking that stops inside the unread residue of a cut operation the next prompt query
        # can match a STALE prompt (printed before the mode change) and the driver then believes the old level — observed on
        # the unchanged tree (acquire_priv cut after 'configure session x' was executed, then send_command runs in the
        # session); channel-level (C01's ground), reported, not explored here
        pol = ["whole"]
        for i in rng.sample(io_ops, min(len(io_ops), rng.choice([1, 1, 2]))):
            ops[i]["fault"] = {"at": rng.randint(0, 14), "kind": kind}
        out.append(({"platform": plat, "stack": stack, "login": rng.choice(logins(pi)), "secret": None, "policy": pol,
                     "ops": ops}, "int-random"))
    return out


# ------------------------------------------------------------------------------------------------
# late registration: a configuration session is registered while the connection sits in some level — exec,
# privilege_exec, configuration, tclsh, or INSIDE another session — and then configs at each session / configuration and
# commands follow.  The tracked level is the only thing telling same-prompt sessions apart (every NX-OS session prompt
# is "(config-s)#", EOS shows the first six characters of the name), so this is where a registration that touches the
# belief (or the order of the disambiguation) shows.
# ------------------------------------------------------------------------------------------------
EOS_PREFIX_SESSIONS = ["deploy-blue", "deploy-green"]     # one prompt "(config-s-deploy)#": outside the generated family, oracle-only


def reg_late_scenarios(info, thorough):
    out = []
    for plat in PLATFORMS:
        pi = info[plat]
        if len(pi["sessions"]) < 2:
            continue
        families = [(list(pi["sessions"][:2]), None)]
        if thorough:
            families.append((list(reversed(pi["sessions"][:2])), None))
        if plat == "arista_eos":
            families.append((list(EOS_PREFIX_SESSIONS), list(EOS_PREFIX_SESSIONS)))
        base = [nm for nm in pi["level_ids"] if pi["level_ids"][nm] < pi["nbase"]]
        for (first, late), extra in families:
            def go(x):
                if x == first or x.startswith("configuration"):
                    return {"op": "cfgs", "lines": ["show u1"], "priv": x}
                return {"op": "acquire", "level": x}

            def follow(with_first):
                t = [{"op": "cfgs", "lines": ["show u2", "show u3"], "priv": late},
                     {"op": "cfgs", "lines": ["show u2", "bad f0", "show u3"], "stop": True, "priv": late},
                     {"op": "cfgs", "lines": ["show u2"], "priv": None},
                     {"op": "cmds", "lines": ["show u2"], "single": True},
                     {"op": "interactive", "lines": ["show u2"], "priv": late}]
                if with_first:
                    t.append({"op": "cfgs", "lines": ["show u2", "show u3"], "priv": first})
                t2 = [{"op": "cfgs", "lines": ["show u4"], "priv": late}, {"op": "cmds", "lines": ["show u4"], "single": True}]
                if thorough:
                    t2 += [{"op": "cfgs", "lines": ["show u4"], "priv": None}] + \
                          ([{"op": "cfgs", "lines": ["show u4"], "priv": first}] if with_first else [])
                return [(a, b) for a in t for b in t2]

            lg = logins(pi)
            for with_first in (True, False):
                positions = base + ([first] if with_first else [])
                for login in (lg if (thorough or with_first) else lg[-1:]):
                    for x in positions:
                        for (a, b) in follow(with_first):
                            ops = [{"op": "open"}] + ([{"op": "register", "name": first}] if with_first else []) + \
                                  [go(x), {"op": "register", "name": late}, dict(a), dict(b)]
                            for stack in ("sync", "async"):
                                sc = {"platform": plat, "stack": stack, "login": login, "secret": None, "policy": ["whole"],
                                      "ops": [dict(o) for o in ops]}
                                if extra:
                                    sc["extra_sessions"] = list(extra)
                                out.append((sc, "reg-late-prefix" if extra else "reg-late"))
    return out


# ------------------------------------------------------------------------------------------------
# abort-then: send_config(s) with stop_on_failed=True whose k-th line fails — the platform's _abort_config runs (Junos:
# rollback + leave, IOS-XR: abort, EOS / NX-OS: abort inside a session, nothing elsewhere) and assigns the tracked level
# — and then the NEXT operations on the same connection: configs at the same level (where the belief alone decides
# whether acquire_priv is skipped), at another level, at the default level, a command, an interactive, acquire_priv.
# The oracle is the device's own record of the mode in which each line arrived; no part of it comes from the translator's
# reading of _abort_config, so the histories are judged on the real code also when that function is refused.
# ------------------------------------------------------------------------------------------------
def abort_then_scenarios(info, thorough):
    out = []
    for plat in PLATFORMS:
        pi = info[plat]
        default = [n for n, i in pi["level_ids"].items() if i == pi["default"]][0]
        registered = list(pi["sessions"])
        names = [nm for nm in pi["level_ids"] if pi["level_ids"][nm] < pi["nbase"]] + registered
        cfgs = [c for c in cfg_levels(pi) if c in names]
        levels = [None] + cfgs[1:]           # None: the level send_configs promises when none is named ('configuration')
        ks = (0, 1, 2) if thorough else (0, 2)
        n = 0
        for login in logins(pi):
            for li, lv in enumerate(levels):
                name = lv or cfgs[0]
                others = [x for x in levels if x != lv]
                if not thorough:
                    others = others[li % len(others):][:1] if others else []
                t1 = [{"op": "cfgs", "lines": ["show u4", "show u5"], "priv": lv},
                      {"op": "cfgs", "lines": ["show u4", "show u5"], "priv": lv, "joined": True},
                      {"op": "cfgs", "lines": ["show u4", "bad f1", "show u5"], "stop": True, "priv": lv},
                      {"op": "cmds", "lines": ["show u4"], "single": True},
                      {"op": "interactive", "lines": ["show u4"], "priv": name},
                      {"op": "acquire", "level": name}]
                t1 += [{"op": "cfgs", "lines": ["show u4"], "priv": x} for x in others]
                if lv is None:
                    t1.append({"op": "cfgs", "lines": ["show u4"], "priv": name})     # the same level, named
                t2 = [{"op": "cmds", "lines": ["show u6"], "single": True}]
                pres = [[]]
                if thorough:
                    t1 += [{"op": "cmds", "lines": ["show u4", "show u5"]}, {"op": "acquire", "level": default},
                           {"op": "interactive", "lines": ["show u4"], "priv": None}]
                    t2 += [{"op": "cfgs", "lines": ["show u6"], "priv": lv}, {"op": "cfgs", "lines": ["show u6"], "priv": None}]
                    pres += [[{"op": "cfgs", "lines": ["show u0"], "priv": x}] for x in [x_ for x_ in levels if x_ != lv][:1]]
                for pre in pres:
                    for k in ks:
                        for a in t1:
                            for b in t2:
                                n += 1
                                first = {"op": "cfgs", "lines": ["show u%d" % (1 + j) for j in range(k)] + ["bad f0", "show u3"],
                                         "stop": True, "priv": lv}
                                if n % 3 == 0:
                                    first["joined"] = True           # send_config: one string, split by the driver
                                ops = [{"op": "open"}] + [{"op": "register", "name": s_} for s_ in registered] + \
                                      [dict(o) for o in pre] + [first, dict(a), dict(b)]
                                for stack in ("sync", "async"):
                                    out.append(({"platform": plat, "stack": stack, "login": login, "secret": None,
                                                 "policy": ["whole"], "ops": [dict(o) for o in ops]}, "abort-then"))
    return out


# ------------------------------------------------------------------------------------------------
# re-open: the second (third) session of ONE driver object — open, ..., close, open again; two with-blocks.  The tracked
# level survives close(): the new session starts with the belief the previous one left (the default level after on_close's
# acquire_priv) while the device is wherever a fresh login puts it (exec `>` vs privilege_exec `#`).  Only on_open's
# explicit acquire_priv — which reads the prompt — re-synchronises them; an on_open that leaves this to send_command,
# which trusts the tracked level, types its lines and the user's at the login level.
# ------------------------------------------------------------------------------------------------
def reopen_scenarios(info, thorough):
    out = []
    for plat in PLATFORMS:
        pi = info[plat]
        default = [n for n, i in pi["level_ids"].items() if i == pi["default"]][0]
        registered = list(pi["sessions"])
        names = [nm for nm in pi["level_ids"] if pi["level_ids"][nm] < pi["nbase"]] + registered
        cfgs = [c for c in cfg_levels(pi) if c in names]
        others = [x for x in names if x not in cfgs and x != default]
        # where the first session is when it is closed: the command level, every other non-configuration level (exec, tclsh,
        # shell ...), every configuration level / registered session
        pres = [[]] + [[{"op": "acquire", "level": x}] for x in others] + \
               [[{"op": "cfgs", "lines": ["show u1"], "priv": c}] for c in [None] + cfgs[1:]]
        t1 = [{"op": "cmds", "lines": ["show u2"], "single": True},
              {"op": "cmds", "lines": ["show u2", "show u3"]},
              {"op": "cfgs", "lines": ["show u2"], "priv": None},
              {"op": "interactive", "lines": ["show u2"], "priv": None},
              {"op": "acquire", "level": default}]
        t1 += [{"op": "cfgs", "lines": ["show u2"], "priv": c} for c in cfgs[1:][-1:]]
        if thorough:
            t1 += [{"op": "cfgs", "lines": ["show u2"], "priv": c} for c in cfgs[1:][:-1]] + \
                  [{"op": "acquire", "level": x} for x in others] + [{"op": "interactive", "lines": ["show u2"], "priv": cfgs[0]}]
        t2 = {"op": "cmds", "lines": ["show u4"], "single": True}
        lg = logins(pi)
        n = 0
        for l1 in lg:
            for l2 in lg:
                for pre in pres:
                    for a in t1:
                        n += 1
                        via = "with" if n % 3 == 0 else None          # two with-blocks: __enter__/__exit__ (async: __aenter__ ...)
                        o_open = lambda login=None: dict({"op": "open"}, **(dict(via=via) if via else {}), **(dict(login=login) if login else {}))
                        o_close = dict({"op": "close"}, **(dict(via=via) if via else {}))
                        ops = [o_open()] + [{"op": "register", "name": s_} for s_ in registered] + [dict(o) for o in pre] + \
                              [dict(o_close), o_open(l2), dict(a), dict(t2)]
                        if thorough or n % 4 == 0:                        # a third session, back at the first login level
                            ops += [dict(o_close), o_open(l1), {"op": "cmds", "lines": ["show u5"], "single": True}]
                        for stack in ("sync", "async"):
                            if not thorough and (n + (stack == "sync")) % 2 and l1 == l2 == default:
                                continue     # quick: same login level as the command level both times: one stack in rotation
                            out.append(({"platform": plat, "stack": stack, "login": l1, "secret": None, "policy": ["whole"],
                                         "ops": [dict(o) for o in ops]}, "reopen"))
    return out


def reopen_random(info, rng, thorough):
    """two or three random sessions on one driver object (any chunking), generic mode switched off before a close so that
    the next session's generator starts from what it assumes"""
    out = []
    for j in range(150 if thorough else 20):
        plat = PLATFORMS[j % len(PLATFORMS)]
        pi = info[plat]
        lg = logins(pi)
        ops = []
        registered = []
        for k in range(rng.choice([2, 2, 3])):
            part = gen_history(rng, pi, plat)[:rng.choice([3, 5, 8])]
            part[0] = dict(part[0], login=rng.choice(lg))
            part = [o for o in part if not (o["op"] == "register" and o["name"] in registered)]
            registered += [o["name"] for o in part if o["op"] == "register"]
            gen_on = [o["value"] for o in part if o["op"] == "generic"]
            if gen_on and gen_on[-1]:
                part.append({"op": "generic", "value": False})
            ops += part + [{"op": "close"}]
        login = ops[0].pop("login")
        pol = rng.choice([["whole"], ["whole"], ["bytes", rng.choice([1, 3, 16])], ["random", rng.randint(0, 10 ** 6), 9]])
        for stack in ("sync", "async"):
            out.append(({"platform": plat, "stack": stack, "login": login, "secret": None, "policy": pol,
                         "ops": [dict(o) for o in ops]}, "reopen-random"))
    return out


# ------------------------------------------------------------------------------------------------
# refusing / ignoring devices: a transition of the vendor table is answered with the invalid-input text (configuration
# locked by another user, command not authorised) or with a bare prompt, and the device stays where it is.  The device's
# mode is still changed only by the driver's own actions (the property's proviso), so the property stands: the driver must
# find out from the prompt that it did not arrive, and no user line may reach the device in the level it is stuck in.
# ------------------------------------------------------------------------------------------------
def device_edges(info, plat):
    """(device mode, line, target mode) of the vendor table (harness/simdevice.py), sessions of the generated family included"""
    from . import simdevice
    pi = info[plat]
    t = simdevice.PLATFORMS[plat]()
    out = []
    for m, table in t["trans"].items():
        for mm in (["session:" + s for s in pi["sessions"]] if m == "session" else [m]):
            for ln, (_kind, target) in table.items():
                out.append((mm, ln, target))
    if t.get("session_cmd"):
        for s_ in pi["sessions"]:
            out.append(("privilege_exec", t["session_cmd"] + s_, "session:" + s_))
    return out


def refuse_scenarios(info, thorough):
    out = []
    for plat in PLATFORMS:
        pi = info[plat]
        default = [n for n, i in pi["level_ids"].items() if i == pi["default"]][0]
        registered = list(pi["sessions"])
        names = [nm for nm in pi["level_ids"] if pi["level_ids"][nm] < pi["nbase"]] + registered
        cfgs = [c for c in cfg_levels(pi) if c in names]
        n = 0
        for (m, ln, target) in device_edges(info, plat):
            src, dst = dev_mode_name(m), dev_mode_name(target)
            if src not in names or dst not in names:
                continue

            def to(level, lines):
                """the operations that need the connection in `level`"""
                r = [{"op": "acquire", "level": level}]
                if level in cfgs:
                    r += [{"op": "cfgs", "lines": list(lines), "priv": None if level == cfgs[0] else level},
                          {"op": "interactive", "lines": list(lines[:1]), "priv": level}]
                if level == default:
                    r += [{"op": "cmds", "lines": list(lines[:1]), "single": True}, {"op": "cmds", "lines": list(lines)}]
                return r

            goto = [] if src == default else [to(src, ["show u1"])[1 if src in cfgs else 0]]
            for cross in to(dst, ["show u2", "show u3"]):
                again = dict(cross)
                if again.get("lines"):
                    again["lines"] = ["show u4", "show u5"][:len(again["lines"])]
                for kind in ("refuse", "ignore"):
                    n += 1
                    ops = [{"op": "open"}] + [{"op": "register", "name": s_} for s_ in registered] + [dict(o) for o in goto] + \
                          [dict(cross), again, {"op": "cmds", "lines": ["show u6"], "single": True},
                           {"op": "cfgs", "lines": ["show u7"], "priv": None}]
                    for login in logins(pi):
                        for stack in ("sync", "async"):
                            if not thorough and (n + (stack == "sync") + (login == default)) % 2:
                                continue
                            out.append(({"platform": plat, "stack": stack, "login": login, "secret": None, "policy": ["whole"],
                                         kind: [[m, ln]], "ops": [dict(o) for o in ops]}, "dev-" + kind))
    return out


# ------------------------------------------------------------------------------------------------
# generic-explicit: generic-driver mode is ON and an operation names its level.  In that mode the driver stops chasing the
# default desired level for operations that name none (send_command, send_interactive()), but an operation that is GIVEN a
# level — send_interactive(privilege_level=T), T the default desired level itself or any other — still has to run there,
# wherever the earlier operations left the device: a send_configs / acquire_priv / send_interactive at another level before
# the mode was switched on, or acquire_priv / send_interactive(level) while it is on (send_config(s) refuses in this mode:
# nothing of it may reach the device).  Then: the same again at the default level, or mode off and a command.
# Oracle as everywhere: the device's own record of the mode each user line arrived in.
# ------------------------------------------------------------------------------------------------
def generic_explicit_scenarios(info, thorough):
    out = []
    for plat in PLATFORMS:
        pi = info[plat]
        default = [n for n, i in pi["level_ids"].items() if i == pi["default"]][0]
        registered = list(pi["sessions"])
        names = [nm for nm in pi["level_ids"] if pi["level_ids"][nm] < pi["nbase"]] + registered
        cfgs = [c for c in cfg_levels(pi) if c in names]
        others = [x for x in names if x not in cfgs and x != default]
        # movers while the mode is off / while it is on
        before = [[{"op": "cfgs", "lines": ["show u1"], "priv": c}] for c in [None] + cfgs[1:]] + \
                 [[{"op": "acquire", "level": x}] for x in others] + \
                 [[{"op": "interactive", "lines": ["show u1"], "priv": cfgs[0]}]]
        inside = [[{"op": "acquire", "level": x}] for x in names if x != default] + \
                 [[{"op": "interactive", "lines": ["show u2"], "priv": x}] for x in cfgs[:1] + others[-1:]] + \
                 [[{"op": "cfgs", "lines": ["show u2"], "priv": None}]]
        moves = [(b, []) for b in [[]] + before] + [([], i_) for i_ in inside]
        if thorough:
            moves += [(b, i_) for b in before for i_ in inside]     # both: one follow-up in rotation
        follows = [[{"op": "interactive", "lines": ["show u5"], "priv": default}],
                   [{"op": "generic", "value": False}, {"op": "cmds", "lines": ["show u6"], "single": True}],
                   [{"op": "cmds", "lines": ["show u6"], "single": True}, {"op": "interactive", "lines": ["show u5"], "priv": default}]]
        n = 0
        for login in logins(pi):
            for (b, i_) in moves:
                for tlev in [default] + [x for x in names if x != default]:
                    target = {"op": "interactive", "lines": ["show u3", "show u4"], "priv": tlev}
                    n += 1
                    for fi, fo in enumerate(follows):
                        if (not thorough or (b and i_)) and fi != n % len(follows):
                            continue
                        ops = [{"op": "open"}] + [{"op": "register", "name": s_} for s_ in registered] + [dict(o) for o in b] + \
                              [{"op": "generic", "value": True}] + [dict(o) for o in i_] + [target] + [dict(o) for o in fo]
                        for stack in ("sync", "async"):
                            if not thorough and tlev != default and (n + (stack == "sync")) % 2:
                                continue     # quick: a level other than the default one: one stack in rotation
                            out.append(({"platform": plat, "stack": stack, "login": login, "secret": None, "policy": ["whole"],
                                         "ops": [dict(o) for o in ops]}, "generic-explicit"))
    return out


def has_reopen(sc):
    return any(o["op"] == "close" for o in sc["ops"])


def logins(pi):
    inv ={i: n for n, i in pi["level_ids"].items()}
    return [inv[i] for i in pi["login"]]


def history_neutral(sc):
    for o in sc["ops"]:
        for l in o.get("lines", []):
            if not (l.startswith("show u") or l.startswith("bad f")):
                return False
    return True


def strip_sc(sc):
    out = {k: sc[k] for k in ("platform", "stack", "login", "secret", "policy")}
    if sc.get("extra_sessions"):
        out["extra_sessions"] = list(sc["extra_sessions"])
    for k in ("refuse", "ignore"):
        if sc.get(k):
            out[k] = [list(x) for x in sc[k]]
    out["ops"] = [{k: v for k, v in o.items() if k != "probe"} for o in sc["ops"]]
    return out


# ------------------------------------------------------------------------------------------------
# the check
# ------------------------------------------------------------------------------------------------
def load_gen(rep):
    from gen import gen_netdriver
    try:
        _, info = gen_netdriver.generate(rep.workdir)
    except Exception as e:  # translator aborted: broken tie
        rep.broken.append("gen_netdriver: %s: %s" % (type(e).__name__, e))
        # the failing-input search does not stop here: the names the device-log oracle needs are read again with as few
        # assumptions as possible and every history is run on the real code, oracle-only (nothing goes to the model)
        try:
            info = gen_netdriver.fallback_info(e)
            for plat in PLATFORMS:
                info[plat]["problems"] = []          # reported once, above
                info[plat]["fallback"] = True
        except Exception as e2:  # noqa: not even a driver object can be made
            rep.notes.append("no fallback tables either: %s: %s" % (type(e2).__name__, e2))
            return None
    return info


def known_finding_scenarios(info):
    """the finding of DESIGN 5.C03, one witness per platform with shared prompts"""
    out = []
    for plat, a, b in (("cisco_iosxr", None, "configuration_exclusive"), ("juniper_junos", None, "configuration_exclusive"),
                       ("juniper_junos", "configuration_private", None)):
        out.append({"platform": plat, "stack": "sync", "login": logins(info[plat])[-1], "secret": None, "policy": ["whole"],
                    "ops": [{"op": "open"}, {"op": "cfgs", "lines": ["show u1"], "priv": a},
                            {"op": "generic", "value": True}, {"op": "generic", "value": False},
                            {"op": "cfgs", "lines": ["show u2"], "priv": b}]})
    out.append({"platform": "cisco_nxos", "stack": "async", "login": "privilege_exec", "secret": None, "policy": ["whole"],
                "ops": [{"op": "open"}, {"op": "register", "name": "alpha1"}, {"op": "cfgs", "lines": ["show u1"], "priv": "alpha1"},
                        {"op": "generic", "value": True}, {"op": "generic", "value": False},
                        {"op": "register", "name": "bravo2"}, {"op": "cfgs", "lines": ["show u2"], "priv": "bravo2"}]})
    return out


def report_failure(rep, info, sc, obs, fail, suite):
    i, what, region = fail
    sig = SIG_KNOWN if region else None
    text = "%s %s: %s (history of %d ops, op %d)" % (sc["platform"], sc["stack"], what, len(sc["ops"]), i)
    return rep.violation(text, {"suite": suite, "scenario": strip_sc(sc), "failing_op": i, "observed": obs[:i + 1],
                                "signature": sig, "rerun": "./check C03 --replay <this file>"}, signature=sig)


def well_formed(ops):
    """sessions of one driver object: open ... close, open ... close, ...: an open only on a closed connection, a close only
    on an open one, every other operation inside a session"""
    is_open = False
    for o in ops:
        if o["op"] == "open":
            if is_open:
                return False
            is_open = True
        elif o["op"] == "close":
            if not is_open:
                return False
            is_open = False
        elif not is_open:
            return False
    return True


def shrink(info, sc, fail, belief=True):
    """drop operations while the oracle still fails the same way (same text modulo op index)"""
    cur, curfail = sc, fail
    changed = True
    while changed:
        changed = False
        for j in range(len(cur["ops"]) - 1, 0, -1):
            cand = dict(cur, ops=cur["ops"][:j] + cur["ops"][j + 1:])
            if not well_formed(cand["ops"]):
                continue
            try:
                f = oracle(info, cand, run_history(info, cand), belief=belief)
            except Exception:  # noqa
                f = None
            if f is not None and f[2] == curfail[2] and f[1].split(" of ")[0] == curfail[1].split(" of ")[0]:
                cur, curfail, changed = cand, f, True
                break
    return cur, curfail


def run(rep):
    rng = rep.rng
    thorough = rep.tier == "thorough"
    common.setup_env()
    info = load_gen(rep)
    if info is not None:
        for plat in PLATFORMS:
            for msg in info[plat].get("problems", []):
                if "gen_netdriver: " + msg not in rep.broken:
                    rep.broken.append("gen_netdriver: " + msg)
        rc, out, _ = common.coqc(os.path.join(rep.workdir, "Gen_NetDriver.v"), rep.workdir)
        if rc:
            rep.broken.append("Gen_NetDriver.v")
            rep.notes.append(out[-2000:])
    ok, _ = rep.build_static()
    rep.add_static_obligations("props/C03.v", ok)
    if not ok:
        rep.broken.append("static-build")
    if ok and info is not None and not rep.broken:
        rep.compile_props("props/C03.v")
    if info is None:
        return
    rep.coverage["generated_from"] = common.source_hashes(SOURCES)
    rep.coverage["generated"] = {p: {"levels": info[p]["level_ids"], "abort": info[p]["abort_shape"], "default": info[p]["default"]}
                                 for p in PLATFORMS}

    scenarios = []     # (scenario, suite-tag)
    # 0. known findings / corpus first
    for f in rep.findings:      # replay files of the listed findings (known_findings.d/C03.json)
        try:
            sc = json.load(open(os.path.join(common.VERIF, f["replay"])))["scenario"]
            for stack in ("sync", "async"):
                scenarios.append((dict(sc, stack=stack), "known"))
        except Exception as e:  # noqa
            rep.broken.append("finding replay %s unreadable: %s" % (f.get("replay"), e))
    for sc in known_finding_scenarios(info):
        scenarios.append((sc, "known"))
    # 1. exhaustive: all histories of length <= L over the reduced alphabet, every login level, both stacks
    L = 3 if thorough else 2
    for plat in PLATFORMS:
        pi = info[plat]
        reg_sets = [[]] if not pi["sessions"] else [pi["sessions"][:1], pi["sessions"]]
        for registered in reg_sets:
            alpha = alphabet(pi, registered)
            for login in logins(pi):
                for n in range(1, (3 if plat == "cisco_iosxr" else L) + 1):
                    if n == 3 and registered != reg_sets[-1]:
                        continue
                    for combo in itertools.product(alpha, repeat=n):
                        # a toggle-off first, or two equal neighbours of the idempotent kind, add nothing
                        if combo[0] == {"op": "generic", "value": False}:
                            continue
                        pre = [{"op": "open"}] + [{"op": "register", "name": s} for s in registered]
                        secret = "s3c" if (login == "exec" and len(scenarios) % 2 == 0) else None
                        for stack in ("sync", "async"):
                            scenarios.append(({"platform": plat, "stack": stack, "login": login, "secret": secret,
                                               "policy": ["whole"], "ops": pre + [dict(o) for o in combo]}, "enum"))
    # 2. random long histories (mostly valid), 3. malformed: user lines that are transitions of the device
    n_rand = 1500 if thorough else 220
    n_mal = 400 if thorough else 60
    for kind, count in (("random", n_rand), ("malformed", n_mal)):
        for j in range(count):
            plat = PLATFORMS[j % len(PLATFORMS)]
            pi = info[plat]
            login = rng.choice(logins(pi))
            ops = gen_history(rng, pi, plat, malformed=(kind == "malformed"))
            pol = rng.choice([["whole"], ["whole"], ["bytes", rng.choice([1, 3, 16])], ["random", rng.randint(0, 10 ** 6), 9]])
            secret = "s3c" if (kind == "random" and rng.random() < 0.5) else None
            for stack in ("sync", "async"):
                scenarios.append(({"platform": plat, "stack": stack, "login": login, "secret": secret, "policy": pol,
                                   "ops": [dict(o) for o in ops]}, kind))

    # 4. interrupted operations: every read / write index of one operation, exception / timeout / asyncio cancellation
    scenarios += int_scenarios(info, rng, thorough)
    # 5. late registration: a session registered while in exec / privilege_exec / configuration / tclsh / another session
    scenarios += reg_late_scenarios(info, thorough)
    # 6. abort-then: a failing line under stop_on_failed (the platform _abort_config runs), then the next operations
    scenarios += abort_then_scenarios(info, thorough)
    # 7. re-open: second / third session of one driver object, the device re-started at a login level
    scenarios += reopen_scenarios(info, thorough)
    scenarios += reopen_random(info, rng, thorough)
    # 8. devices that refuse / ignore one transition of the vendor table
    scenarios += refuse_scenarios(info, thorough)
    # 9. generic-driver mode on, operations that name their level (the default one, every other) after the device was moved
    scenarios += generic_explicit_scenarios(info, thorough)

    terms, kept, term_ix = [], [], []
    dist = {"by_suite": {}, "by_platform": {}, "op_kinds": {}, "results": {}, "history_len": {}, "in_known_region": 0,
            "non_neutral": 0, "with_abort": 0, "abort_then": {}, "oracle_only(untranslated platform)": 0, "register_while": {}, "oracle_only(extra_sessions)": 0, "belief_dummy_after_op": 0, "stacks": {"sync": 0, "async": 0},
            "interrupted": {"cut_ops": 0, "by_kind": {}, "by_point": {"INav": 0, "ILine": 0, "pending(oracle-only)": 0},
                            "device_executed_cut_line": 0, "belief_dummy_after_cut": 0, "histories_in_model": 0,
                            "histories_oracle_only": 0, "fault_index_beyond_operation": 0}}
    oracle_fail = []
    known_seen = 0
    for sc, suite in scenarios:
        obs = run_history(info, sc)
        neutral = history_neutral(sc)
        dist["by_suite"][suite] = dist["by_suite"].get(suite, 0) + 1
        dist["by_platform"][sc["platform"]] = dist["by_platform"].get(sc["platform"], 0) + 1
        dist["stacks"][sc["stack"]] += 1
        hl = len(sc["ops"])
        dist["history_len"][hl] = dist["history_len"].get(hl, 0) + 1
        pi_sc = info_for(info, sc)[sc["platform"]]
        for o, ob in zip(sc["ops"], obs):
            if o["op"] == "register" and ob["result"] == "ok":
                key = "%s/%s" % ("session" if ob["before"]["mode"] in pi_sc["sessions"] else ob["before"]["mode"],
                                 "belief-dummy" if ob["before"]["belief"] == "DUMMY" else "belief-set")
                dist["register_while"][key] = dist["register_while"].get(key, 0) + 1
            dist["op_kinds"][o["op"]] = dist["op_kinds"].get(o["op"], 0) + 1
            dist["results"][ob["result"]] = dist["results"].get(ob["result"], 0) + 1
            if ob["belief"] == "DUMMY":
                dist["belief_dummy_after_op"] += 1
            if any(l in ("abort", "rollback 0") for (_, l) in ob["log"]):
                dist["with_abort"] += 1
        if not neutral:
            dist["non_neutral"] += 1
        if suite == "abort-then":
            ia = [i for i, o in enumerate(sc["ops"]) if o.get("stop")][0]
            if ia + 1 < len(obs):
                ran_abort = any(l in ("abort", "rollback 0") for (_, l) in obs[ia]["log"])
                nxt = sc["ops"][ia + 1]
                same = (nxt.get("priv") or "configuration") == (sc["ops"][ia].get("priv") or "configuration") if nxt["op"] == "cfgs" else None
                key = "%s/%s then %s%s" % (sc["platform"].split("_")[1], "abort-lines" if ran_abort else "no-abort-lines", nxt["op"],
                                           "" if same is None else ("(same level)" if same else "(other level)"))
                dist["abort_then"][key] = dist["abort_then"].get(key, 0) + 1
        nav = sum(1 for ob in obs for (_, l) in ob["log"] if l in pi_sc["line_ids"])
        rep.case((sc["platform"], sc["stack"], sc["login"], sc["secret"], json.dumps(sc["ops"], sort_keys=True)),
                 nontrivial=len(sc["ops"]) >= 3 and nav >= 3)
        points = None
        if has_faults(sc):
            di = dist["interrupted"]
            pi_ = info[sc["platform"]]
            for o, ob in zip(sc["ops"], obs):
                if not o.get("fault"):
                    continue
                if ob["result"] != "Interrupted":
                    di["fault_index_beyond_operation"] += 1
                    continue
                di["cut_ops"] += 1
                di["by_kind"][o["fault"]["kind"]] = di["by_kind"].get(o["fault"]["kind"], 0) + 1
                pt = cut_point(pi_, o, ob) or "?"
                key = "pending(oracle-only)" if pt == "pending" else pt.split(" ")[0]
                di["by_point"][key] = di["by_point"].get(key, 0) + 1
                if ob["cut"] and ob["cut"]["executed"]:
                    di["device_executed_cut_line"] += 1
                if ob["belief"] == "DUMMY":
                    di["belief_dummy_after_cut"] += 1
            # unread residue of a cut operation + a chunking that stops inside it can make the next prompt query see a stale
            # prompt (channel level, C01's ground): such histories are judged by the oracle only
            points = history_points(info, sc, obs) if tuple(sc.get("policy") or ("whole",))[0] == "whole" else None
            di["histories_in_model" if points is not None else "histories_oracle_only"] += 1
        kept.append((sc, obs, suite))
        if sc.get("extra_sessions"):
            dist["oracle_only(extra_sessions)"] += 1      # session names outside the generated family: not in the model
        elif has_reopen(sc):
            dist["oracle_only(reopen)"] = dist.get("oracle_only(reopen)", 0) + 1      # close / a new session: not in the model
        elif sc.get("refuse") or sc.get("ignore"):
            dist["oracle_only(refusing device)"] = dist.get("oracle_only(refusing device)", 0) + 1   # the model's device is compliant
        elif untranslated(info, sc["platform"]):
            dist["oracle_only(untranslated platform)"] += 1   # the tie is reported broken; the oracle still judges the real code
        elif not has_faults(sc) or points is not None:
            terms.append(case_term(info, sc, obs, points))
            term_ix.append(len(kept) - 1)
        fail = oracle(info, sc, obs) if neutral else None
        if fail is not None:
            if fail[2]:
                dist["in_known_region"] += 1
            if suite == "known" and fail[2]:
                known_seen += 1
            # the property itself is about the device's log: where a history also shows a user line arriving in the wrong
            # mode (not only a belief that differs from the device's mode), that is what gets reported
            lines_fail = None
            if not fail[2] and not has_faults(sc):
                lines_fail = oracle(info, sc, obs, belief=False)
                if lines_fail is not None and lines_fail[2]:
                    lines_fail = None
            oracle_fail.append((len(kept) - 1, lines_fail or fail, lines_fail is not None))
    # oracle failures: violations with a shrunk replay (known-finding signature -> KNOWN-FINDING line)
    reported = 0
    # device-log failures first, and among them one per suite before a second of the same suite (stable otherwise)
    rank, seen_suite = {}, {}
    for ix, fail, on_log in oracle_fail:
        key = (on_log, kept[ix][2])
        rank[ix] = seen_suite.get(key, 0)
        seen_suite[key] = rank[ix] + 1
    for ix, fail, on_log in sorted(oracle_fail, key=lambda t: (0 if t[2] else 1, rank[t[0]])):
        sc, obs, suite = kept[ix]
        if fail[2] and rep.known_match(SIG_KNOWN):
            rep.known(SIG_KNOWN)
            continue
        if reported >= 5:
            continue
        sc2, fail2 = shrink(info, sc, fail, belief=not on_log)
        obs2 = run_history(info, sc2)
        report_failure(rep, info, sc2, obs2, fail2, "net-history/" + suite)
        reported += 1
    if known_seen == 0 and rep.known_match(SIG_KNOWN):
        rep.notes.append("the listed known finding %s did not reproduce on this tree (fixed upstream?)" % SIG_KNOWN)
    # correspondence: the model on the same histories
    bad, log = common.eval_cases(rep.workdir, "cases_c03", HEADER, terms, "chk", shard=600)
    n_unreported = len([1 for _, f, _l in oracle_fail if not f[2]])
    rep.coverage["correspondence"] = {"suite": "net-history", "cases": len(terms), "distribution": dist,
                                      "model_disagreements": None if bad is None else len(bad),
                                      "oracle_failures": len(oracle_fail), "oracle_failures_outside_known_region": n_unreported,
                                      "known_finding_replays_failing": known_seen}
    rep.coverage["exhaustive_part"] = ("all histories of length <= %d (IOS-XR: 3) over the reduced alphabet (see rule), every login level, "
                                       "sync+async" % L)
    rep.coverage["refuted"] = ["C03_full (C03_full_refuted)"]
    rep.coverage["partial"] = ["C03_levels_partial", "C03_belief_sound", "C03_levels_interrupted", "C03_levels_on_core_platforms",
                               "C03_register_in_any_level", "C03_levels_without_generic_on"]
    rep.coverage["refuted"].append("C03_without_register_fact (C03_register_reset_refuted): the levels statement without the register fact")
    rep.coverage["register_fact"] = {p: {"reg_keeps": info[p].get("reg_keeps"), "inspected": info[p].get("reg_keeps_inspected")}
                                     for p in PLATFORMS}
    rep.coverage["refuted"].append("C03_int_without_order (C03_reset_after_refuted): belief soundness under interruption without the order fact")
    rep.coverage["order_fact"] = {p: info[p].get("reset_first") for p in PLATFORMS}
    rep.coverage["alphabet_sizes"] = {p: len(alphabet(info[p], info[p]["sessions"])) for p in PLATFORMS}
    rep.rule = ("histories = open, then operations of send_command(s) / send_config(s) (with and without failing lines, stop_on_failed, "
                "every configuration level, unknown level) / acquire_priv / send_interactive(privilege_level) / "
                "register_configuration_session / generic-mode toggle; enumerated: all sequences of length <= %d over a reduced "
                "alphabet per platform (x login level x registered sessions x sync/async); random: 2-14 ops, chunking whole/bytes/random, "
                "with and without an enable secret; malformed: user lines that are transitions of the device (model-vs-code only). "
                "interrupted (suite int): open [, send_configs at a configuration level], then ONE of send_command / send_commands / "
                "send_configs (each level) / acquire_priv (command level, configuration, another level) cut at EVERY transport "
                "read/write index by a catchable exception, a ScrapliTimeout or asyncio cancellation (wait_for), then send_command, "
                "send_configs, send_command on the same connection (quick: one of the five stack x kind variants per index in rotation, "
                "thorough: all); int-random: random histories with unique lines, 1-2 operations cut at a random index (whole reads). "
                "reg-late (NX-OS, EOS): open [, register A], go to X in {every base level, session A} (acquire_priv / send_configs), register B "
                "while there, then t1 in {send_configs(B), send_configs(B, failing line, stop_on_failed), send_configs(), send_command, "
                "send_interactive(B), send_configs(A)} and t2 in {send_configs(B), send_command (thorough: + send_configs(), send_configs(A))}, "
                "x login x sync/async (thorough: both registration orders); reg-late-prefix: the same on EOS with sessions deploy-blue / "
                "deploy-green (one prompt), oracle-only. "
                "abort-then (all five platforms, every registered session): open, register the sessions, send_config(s)(L, stop_on_failed=True) "
                "whose k-th line fails (k = 0, 2; thorough 0-2 and after a send_configs at another level) for L in {default, every other "
                "configuration level / session}, then t1 in {send_configs(L), send_config(L), send_configs(L) failing again, send_command, "
                "send_interactive(L), acquire_priv(L), send_configs(another level), send_configs('configuration' named)} and t2 = send_command "
                "(thorough: more t1 / t2), x login x sync/async; judged on the device's log also when the translator refuses _abort_config "
                "(then not in the model). "
                "reopen (all five platforms, oracle-only): open [at login l1], register the sessions, leave the session in X in {command "
                "level, every other non-configuration level, every configuration level / session}, close, open again with the device "
                "re-started at login level l2 (l1, l2 over all login levels; every third history as two with-blocks), then t1 in "
                "{send_command, send_commands, send_configs(), send_configs(last level), send_interactive, acquire_priv(default)} "
                "(thorough: every level) and send_command; every fourth (thorough: every) history goes on with close, open at l1, "
                "send_command; on_open's own send_command lines are held to the default level; reopen-random: 2-3 random sessions "
                "on one driver object, any chunking. "
                "dev-refuse / dev-ignore (oracle-only): for every transition (mode, line) of the vendor table, sessions included, the "
                "device refuses (invalid-input text) / ignores (bare prompt) it for the whole history: open, register, get to the "
                "transition's source level, then an operation that needs its target (acquire_priv / send_configs / send_interactive / "
                "send_command(s)), the same again, send_command, send_configs(); x login x sync/async (quick: half of them in rotation). "
                "generic-explicit (all five platforms, every registered session): open, register, [a mover with the mode off: send_configs at "
                "each configuration level / acquire_priv(every other level) / send_interactive(configuration)], generic mode ON, [a mover with "
                "the mode on: acquire_priv(every non-default level) / send_interactive(level) / send_configs (refused in this mode)] (quick: "
                "one mover, thorough: also both, then one follow-up in rotation), then send_interactive(privilege_level=T) for T = the default desired level and every other "
                "level, then one of {send_interactive(default level), mode off + send_command, send_command + send_interactive(default level)} "
                "(quick: in rotation; T other than the default: one stack in rotation), x login x sync/async. "
                "A GenError of the translator (any function, any platform) leaves all suites running, oracle-only on what was refused. "
                "non-trivial = at least 3 operations and at least 3 navigation/abort lines executed by the device; "
                "distinct = (platform, stack, login, secret, operation list)" % L)
    for sc, obs, suite in kept[:1] + kept[len(kept) // 2: len(kept) // 2 + 1] + kept[-1:]:
        rep.sample({"suite": suite, "scenario": strip_sc(sc),
                    "observed": [{k: ob[k] for k in ("result", "belief", "mode", "log")} for ob in obs]})
    if bad is None:
        rep.broken.append("correspondence net-history (model evaluation failed)")
        rep.notes.append(log)
    elif bad:
        failing = set(ix for ix, _, _l in oracle_fail)
        bad = [term_ix[b] for b in bad]
        for ix in bad[:5]:
            sc, obs, suite = kept[ix]
            rep.notes.append("model/implementation disagreement (%s): %s -> %s" % (
                suite, json.dumps(strip_sc(sc)), json.dumps([{k: ob[k] for k in ("result", "belief", "mode", "log", "keys")} for ob in obs])))
        if not any(ix in failing for ix in bad):
            rep.broken.append("correspondence net-history: model differs from the implementation on %d histories (first: %s)" % (
                len(bad), json.dumps(strip_sc(kept[bad[0]][0]))[:400]))
            if not rep.violations:
                search_near(rep, info, [kept[ix][0] for ix in bad[:3]])


def search_near(rep, info, scs):
    """a correspondence broke with the oracle silent: look for a failing input of the property itself on the
    platforms concerned — all histories of length <= 3 over the reduced alphabet, both stacks"""
    for plat in sorted(set(sc["platform"] for sc in scs)):
        pi = info[plat]
        registered = pi["sessions"]
        alpha = alphabet(pi, registered)
        for login in logins(pi):
            for n in (1, 2, 3):
                for combo in itertools.product(alpha, repeat=n):
                    for stack in ("sync", "async"):
                        sc = {"platform": plat, "stack": stack, "login": login, "secret": None, "policy": ["whole"],
                              "ops": [{"op": "open"}] + [{"op": "register", "name": s} for s in registered] + [dict(o) for o in combo]}
                        obs = run_history(info, sc)
                        fail = oracle(info, sc, obs)
                        if fail is not None and not fail[2]:
                            report_failure(rep, info, sc, obs, fail, "net-history/search")
                            return True
    return False


def replay(path):
    r = json.load(open(path))
    sc = r.get("scenario")
    if not sc:
        print("nothing to replay (no concrete input): %s" % r.get("what"))
        return 1
    common.setup_env()
    from gen import gen_netdriver
    wd = os.path.join(common.BUILD, "C03")
    os.makedirs(wd, exist_ok=True)
    _, info = gen_netdriver.generate(wd)
    obs = run_history(info, sc)
    for o, ob in zip(sc["ops"], obs):
        print("%-60s -> %s  belief=%s device=%s log=%s" % (json.dumps(o)[:60], ob["result"], ob["belief"], ob["mode"], ob["log"]))
    fail = oracle(info, sc, obs)
    if fail is None:
        print("property holds on this history")
        return 0
    print("property FAILS on this history: op %d: %s%s" % (fail[0], fail[1], "  [known finding region: %s]" % SIG_KNOWN if fail[2] else ""))
    on_log = None if has_faults(sc) else oracle(info, sc, obs, belief=False)
    if on_log is not None and on_log[:2] != fail[:2]:
        print("device log: op %d: %s" % (on_log[0], on_log[1]))
    return 1


MANIFEST = {
    "text": "Coq theorems (props/C03.v), for EVERY platform table passing the computed check [platform_check] (checked by vm_compute on the "
            "five tables regenerated from PRIVS on every run, with up to two registered configuration sessions), every login level and EVERY "
            "finite history of open / send_command(s) / send_config(s) (failing lines, stop_on_failed and the platform _abort_config included) / "
            "acquire_priv / send_interactive(privilege_level) / register_configuration_session / generic-mode toggles whose user lines are "
            "mode-neutral (the property's proviso): C03_belief_sound (after every operation the driver's belief is DUMMY or the device's mode) and "
            "C03_levels_partial (every send_command(s) line executes in default_desired while generic mode is off, every send_config(s) line in "
            "exactly the requested level, send_interactive at the level asked for, and exactly the expected lines reach the device) — for histories "
            "that reset the belief (generic-mode on) only while the device's prompt is unambiguous, and that register a session whose pattern "
            "matches the prompt the device shows only while the belief is set. Registering a configuration session is NOT a belief-resetting "
            "event (C03_register_keeps_belief; REGISTER fact p_reg_keeps, generated from the ast of update_privilege_levels, "
            "register_configuration_session, _create_configuration_session and every method they call on self, sync and async: no assignment "
            "to _current_priv_level; part of platform_check): C03_register_in_any_level — from ANY state with the belief set, the device in exec, "
            "privilege_exec, configuration or INSIDE another session (all NX-OS sessions share one prompt; the tracked level is the only thing "
            "telling them apart), a session is registered and any commands / configs at every level / acquire_priv / send_interactive follow with "
            "the full specification and no region hypothesis; with a registration that forgets the level the statement is refuted "
            "(C03_register_reset_refuted: send_configs(A) · register B · send_configs(B) types B's lines into A). More generally "
            "switching generic-driver mode on is the only operation that resets a belief the driver has (believed_step): "
            "C03_levels_without_generic_on — open, then ANY history that never switches generic mode on, sessions registered at any moment "
            "and in any level, has the full specification with no region hypothesis. The full "
            "statement is REFUTED (C03_full_refuted, vm_compute witness on the generated IOS-XR and Junos tables): config · toggle generic mode on/off · "
            "send_configs(privilege_level='configuration_exclusive') runs in shared configuration; replayed on the real drivers = known finding. "
            "Interrupted operations: C03_belief_sound and C03_levels_interrupted hold for every history in which any operation may be cut (the "
            "caller catches a transport error / a timeout that leaves the connection usable / asyncio cancellation and goes on) at every channel "
            "call of its navigation (prompt query, escalate / deescalate line; the cut line executed by the device or not) or at every line of its "
            "send loop: afterwards the belief is DUMMY or the device's mode and the user lines that reached the device ran in the required level. "
            "The theorems rest on the ORDER fact p_reset_first, generated from the ast of _process_acquire_priv and of sync+async acquire_priv (the "
            "reset to DUMMY precedes the _escalate/_deescalate call) and checked by platform_check; with the other order the statement is refuted "
            "(C03_reset_after_refuted). Interrupted histories are run on both real drivers (every read/write index of the cut operation) and "
            "compared with the model; the device-log oracle attributes every executed user line to its operation. "
            "partial: the runtime (real sync+asyncio drivers over SimDevice) is observed, not proved: the model is tied to it by the net-history "
            "correspondence (all histories of length <= 2 (IOS-XR and thorough: 3) over a reduced alphabet x platforms x login levels x stacks, plus random "
            "and malformed histories, plus the late-registration histories: NX-OS and EOS, [register A,] go to exec / privilege_exec / configuration / "
            "tclsh / session A, register B there, then two of send_configs(B) (with and without a failing line + stop_on_failed) / send_configs(A) / "
            "send_configs() / send_command / send_interactive(B), plus the abort-then histories: on every platform and every configuration level / "
            "registered session L, send_config(s)(L, stop_on_failed=True) whose k-th line fails so that the platform _abort_config runs, then "
            "send_config(s) at the same level (only the belief decides whether acquire_priv is skipped) / at another level / at the default level / "
            "send_command / send_interactive(L) / acquire_priv(L), then send_command, plus the generic-explicit histories: generic-driver mode on, "
            "send_interactive(privilege_level=T) with T the default desired level and every other level after operations that moved the device "
            "before / while the mode is on — an operation that names its level runs there in generic mode too, only operations naming none "
            "are exempt) and an independent oracle reads the device's own execution log "
            "(a history in which a user line arrived in the wrong mode is reported with that line, ahead of belief-only differences); the oracle takes "
            "a DUMMY belief for the known finding's premise only if the history accounts for it (login, generic mode switched on, an operation "
            "that did not complete) — a completed operation, registration in particular, that forgets a known level is not excused. "
            "Beyond the model, by the device-log oracle on both real drivers only: re-open histories (the second / third session of one driver "
            "object — open, close, open again / two with-blocks — the device re-started at each login level, the first session closed in "
            "every level; the lines on_open passes to send_command are held to the default desired level like any command) and devices that "
            "refuse or ignore one transition of the vendor table (every transition x every operation needing it). A refusal of the translator "
            "(GenError in any function: on_open, _abort_config, acquire_priv's loop, the tables) is a reported broken tie and never ends the "
            "failing-input search: the suites are still run on the real code and judged by the oracle.",
    "note": "Trusted: Coq kernel + vm_compute; hand model coq/model/NetDriver.v (navigation, _process_acquire_priv, send loops, five _abort_config "
            "variants; Junos abort modelled for both shapes, selected by an ast fact); gen/gen_netdriver.py (share class := equal pattern string and "
            "not_contains list — the classification fact C05 proves is assumed here and exercised only on SimDevice's prompts); the vendor device "
            "tables of harness/simdevice.py as the environment (compliant device; password dialogue abstracted to one transition); at most two "
            "registered sessions in the computed per-platform check (family alpha1 / bravo2: one prompt on NX-OS, two distinct prompts on EOS); EOS "
            "sessions that share their first six characters (deploy-blue / deploy-green: one prompt) are outside the generated family — suite "
            "reg-late-prefix runs the late-registration histories with them on both real drivers, ORACLE-ONLY (device log + belief observer, not "
            "in the model); channel-level framing (C01) is outside this model. Empty command/config lists "
            "are not generated (C13's IndexError finding). Interruption: the model has points in the navigation and the send loop only; "
            "the platform _abort_config step (abort line written, belief assigned after it) has no interruption points and the cut operation of the "
            "generated histories never has stop_on_failed, send_interactive is never the cut operation; cuts that leave a typed-but-unreturned input "
            "in the device's line buffer (between the write of an input and of its return) are ORACLE-ONLY; interrupted histories are generated "
            "with whole reads only: under finer chunking a prompt query can stop inside the unread residue of the cut operation and take a stale "
            "prompt for the current one (seen on the unchanged tree, channel level, not explored); histories that are not in the model are "
            "oracle-only (not in the model: the device-log oracle and the belief observer judge them); interrupted histories use no enable secret "
            "(a cut inside the password dialogue starves the next prompt query); residue left unread by a cut operation is the real channel's "
            "business (C01) and enters only through the runs. The scenario loop and the device-log oracle do not depend on the translator's reading "
            "of _abort_config: if gen_netdriver refuses that function on a platform (tie reported broken, props not compiled) the platform's "
            "histories — abort-then included — are still run on both real drivers and judged ORACLE-ONLY (not put to the model; the lines the "
            "untranslated abort step types after the failing line are not constrained, the level of every user line and the belief are). "
            "ORACLE-ONLY, not in the Coq model: close() and every later session of the same driver object (suites reopen, reopen-random: the "
            "model's state has no 'session over' / device re-start; what on_close types is read off the function with a recording stub and "
            "allowed in the close operation only); devices that refuse / ignore a transition (suites dev-refuse, dev-ignore: the model's device "
            "is the compliant vendor table); the re-started device is SimDevice put back to a login level with an empty line buffer and a fresh "
            "prompt, unread output of the old session discarded. Likewise every history of a platform (or, when acquire_priv's loop or "
            "generate() as a whole is refused, of all platforms) whose translation raised GenError: gen_netdriver then hands out fallback "
            "tables for the oracle only (level names = keys of a constructed driver's privilege_levels, lines = escalate/deescalate strings + "
            "vendor table + what on_open / on_close send to a recording stub; a placeholder platform in Gen_NetDriver.v on which nothing is "
            "evaluated); the lines an untranslated on_open / on_close / abort step types are then not constrained, the level of every user "
            "line and the belief are.",
    "technique": "Coq: invariant over all histories (with interruption points) + per-platform finite check by vm_compute (reflection) + ast order fact + ast register fact; vm_compute correspondence of the model against both real drivers; fault-injecting scripted transports; device-log oracle",
}
