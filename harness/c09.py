"""C09 — in-channel login answers the right prompt, once, and gives up safely.

proof: coq/proofs/Auth_Proofs.v over coq/model/Auth.v (one state machine for the four login loops over
the list of read events; closed loop with a causal login server), props/C09.v.
tie:   Gen_Auth.v regenerated from the source (compiled patterns, handler literals, kick interval,
       AST shape of the four loops) + correspondence: the REAL Channel / AsyncChannel logins (and
       driver.open()) against a causal login-server simulator under many chunkings, and on open-loop
       event scripts (empty reads with clock readings, poll expiries, connection errors); the model is
       evaluated by vm_compute on the same inputs and must reproduce the interleaved read/write history
       and the outcome class.  Independent oracles on the server's log and on the history.
       Whole open() of the four drivers over every combination of configured / empty user name, password and
       key passphrase (oracle: a prompt state only receives ITS credential or an empty line), over credential VALUES
       (blanks / tabs in front, behind and inside, empty, long, '%', backslash, quotes, non-ASCII, regex metacharacters,
       a trailing newline; oracle: the device receives the configured value as UTF-8 bytes + one return, byte for byte),
       devices that are quiet for a read-poll interval right after every answer, and histories
       of several logins on ONE channel / driver object (each login judged on its own; model: the history
       fold hist_cl with the counter scope gen_auth reads from the source), and login output LONGER than the prompt search
       depth (window suite: banners of comms_prompt_search_depth +- 40 bytes, default depth and 100..2000, holding a non-prompt
       line that ends like a prompt at every offset relative to the last-depth-bytes window, a read boundary at every position
       of the last 80 banner bytes and of the first prompt; the model has no search depth in the login: the loops of the tree
       never trim the login buffer, which the loop-shape obligation of gen_auth checks)."""
import json
import os

from . import common
from .common import coq_bytes, coq_list

LEVEL = "proof"
SOURCES = ["scrapli/channel/sync_channel.py", "scrapli/channel/async_channel.py", "scrapli/channel/base_channel.py",
           "scrapli/driver/base/sync_driver.py", "scrapli/driver/base/async_driver.py",
           "scrapli/driver/base/base_driver.py", "scrapli/driver/generic/sync_driver.py"]

CREDS = {"user": b"admin", "pass": b"S3cret!pw", "phrase": b"k3y phrase"}
WRONG = {"user": b"admin", "pass": b"wr0ng", "phrase": b"n0t it"}
SIG_PARTIAL = "c09: read boundary immediately after login:/username:/password: inside a longer line"
SIG_PARTIAL_SHELL = "c09: read boundary inside a line whose prefix looks like a shell prompt"
SIG_NO_THIRD = "c09: server re-prompts once and then is silent or hangs up (no third prompt)"

HEADER = """From Verif Require Import Bytes Regex RegexDeriv Auth.
From Gen Require Import Gen_Auth.
Definition kind_of (n : N) : lkind := if n =? 0 then Telnet else Ssh.
Definition prompt_of (i : N) : re :=
  if i =? 0 then gen_re_prompt_channel else if i =? 1 then gen_re_prompt_driver else gen_re_prompt_generic.
Definition class_code (o : outcome) : N :=
  match o with ODone => 0 | OAuthFailed _ => 1 | OConnErr => 5 | OBlocks => 6 end.
Definition cl_code (x : clres) : N := match x with ClStop o => class_code o | ClMore _ _ _ => 7 end.
Inductive case :=
| CaseA (kind pid : N) (u p k : bytes) (interval : N) (segs : list bytes) (sched : list (nat * N)) (code : N) (hist : list bytes)
| CaseB (kind pid : N) (u p k : bytes) (interval : N) (evs : list ev) (code : N) (hist : list bytes)
| CaseD (kind pid : N) (segs : list (bytes * N)) (want : bool)
| CaseF (b : bytes) (want : bool)
| CaseH (kind pid : N) (u p k : bytes) (interval : N)
        (logins : list (list bytes * list (nat * N) * N * list bytes)).
Definition exp_of (n : N) : expect :=
  if n =? 1 then XCred CUser else if n =? 2 then XCred CPass else if n =? 3 then XCred CPhrase
  else if n =? 4 then XShell else XFatal.
Definition chk (c : case) : bool :=
  match c with
  | CaseA kind pid u p k iv segs sched code hist =>
      let cf := gen_cfg (kind_of kind) (prompt_of pid) u p k iv in
      let (its, x) := cl_run cf (map (fun s => mkPhase [] s XShell) segs) sched in
      (cl_code x =? code) && lbeq (history cf its) hist
  | CaseB kind pid u p k iv evs code hist =>
      let cf := gen_cfg (kind_of kind) (prompt_of pid) u p k iv in
      let (o, its) := run_raw cf evs in
      (class_code o =? code) && lbeq (history cf its) hist
  | CaseD kind pid segs want =>
      let cf := gen_cfg (kind_of kind) (prompt_of pid) [117] [112] [107] 3000 in
      Bool.eqb (dlg_okb cf (map (fun s => mkPhase [] (fst s) (exp_of (snd s))) segs)) want
  | CaseF b want =>
      Bool.eqb (c_fatal (gen_cfg Ssh gen_re_prompt_channel [117] [112] [107] 3000) b) want
  | CaseH kind pid u p k iv logins =>
      (* several logins on ONE object: the history fold with the counter scope read from the source *)
      let cf := gen_cfg (kind_of kind) (prompt_of pid) u p k iv in
      let rs := hist_cl gen_counter_scope cf zero
                  (map (fun l => (map (fun s => mkPhase [] s XShell) (fst (fst (fst l))), snd (fst (fst l)))) logins) in
      Nat.eqb (length rs) (length logins) &&
      forallb (fun lr => (cl_code (snd (snd lr)) =? snd (fst (fst lr))) && lbeq (history cf (fst (snd lr))) (snd (fst lr)))
              (combine logins rs)
  end.
"""

CLASS_CODE = {"ok": 0, "ScrapliAuthenticationFailed": 1, "ScrapliConnectionError": 5, "Starved": 6}
PROMPT_IDS = {"channel": 0, "driver": 1, "generic": 2}


# ------------------------------------------------------------------------------------------------
# generators
# ------------------------------------------------------------------------------------------------
SAFE_LINES = [b"Welcome to router1", b"Authorized access only!", b"*** NOTICE ***", b"User Access Verification",
              b"Kernel 5.4.0 on an x86_64", b"last login on ttyS0 was yesterday", b"passwords expire in 30 days",
              b"login attempts are logged", b"Press RETURN to get started", b"", b"  ", b"This system is monitored.",
              b"UNAUTHORIZED USE PROHIBITED", b"contact ops at example dot com", b"user names are case sensitive",
              b"motd v2 (c) 2024", b"3 failures since the last successful login", b"Type help or ? for help"]
HAZARD_LINES = [b"Last login: Tue Oct  1 09:12:01 from 10.0.0.7", b"Username: field is case sensitive here",
                b"your password: policy v2 applies", b"disk:/var>90 percent full", b"cost:5$/month"]
LOOKALIKE_LINES = [b"Enter your login:", b"router>", b"old password:"]      # whole lines that look like prompts (excluded by the proviso)
SSH_WARNINGS = [b"Warning: Permanently added 'sim' (ED25519) to the list of known hosts.",
                b"** WARNING: connection is not using a post-quantum key exchange algorithm.",
                b"Connection warning: the server may need to be upgraded."]
USER_PROMPTS = [b"login: ", b"Login:", b"Username: ", b"router1 login: ", b"USERNAME:", b"username: "]
PASS_PROMPTS = [b"Password: ", b"password:", b"admin@router1's password: ", b"Password:", b"PASSWORD: "]
PHRASE_PROMPTS = [b"Enter passphrase for key '/home/u/.ssh/id_ed25519': ", b"enter passphrase for key '/k': "]
SHELLS = {"channel": [b"router1#", b"r1>", b"user@host:/home$", b"sw-1(config)#"],
          "driver": [b"router1#", b"r1> ", b"user@host:/home$ ", b"sw-1(config)#"],
          "generic": [b"router1#", b"r1> ", b"[admin@box~]", b"box:~$ "]}
FATAL_TEXTS = [b"Host key verification failed.", b"ssh: connect to host sim port 22: Operation timed out",
               b"ssh: connect to host sim port 22: Connection timed out", b"ssh: connect to host sim port 22: No route to host",
               b"Unable to negotiate with 10.0.0.1 port 22: no matching host key type found. Their offer: ssh-rsa",
               b"Unable to negotiate with 10.0.0.1 port 22: no matching key exchange method found. Their offer: diffie-hellman-group1-sha1",
               b"Unable to negotiate with 10.0.0.1 port 22: no matching cipher found. Their offer: aes128-cbc",
               b"/etc/ssh/ssh_config: line 3: Bad configuration option: foo",
               b"@         WARNING: UNPROTECTED PRIVATE KEY FILE!          @",
               b"ssh: Could not resolve hostname sim: Name or service not known",
               b"admin@sim: Permission denied (publickey,password)."]


def lines(rng, pool, lo, hi, nl):
    return b"".join(rng.choice(pool) + nl for _ in range(rng.randint(lo, hi)))


def gen_spec(rng, kind, style, valid=True, hazard=None, rounds=None, lookalike=False):
    nl = rng.choice([b"\r\n", b"\r\n", b"\n"])
    pool = list(SAFE_LINES)
    banner = lines(rng, pool, 0, 3, nl)
    motd = lines(rng, pool, 0, 3, nl)
    if hazard is not None:
        if rng.random() < 0.5:
            motd = motd + hazard + nl
        else:
            banner = banner + hazard + nl
    if lookalike:
        banner = banner + rng.choice(LOOKALIKE_LINES) + nl
    sp = {"kind": kind, "nl": nl, "banner": banner, "motd": motd, "shell": rng.choice(SHELLS[style]),
          "valid": dict(CREDS), "rounds": rounds, "after": rng.choice(["silent", "close"]),
          "pass_prompt": rng.choice(PASS_PROMPTS)}
    if kind == "telnet":
        sp.update({"user_prompt": rng.choice(USER_PROMPTS), "echo": rng.random() < 0.8,
                   "reject": rng.choice([b"Login incorrect", b"% Authentication failed", b"Login invalid"])})
    else:
        sp["banner"] = lines(rng, SSH_WARNINGS, 0, 2, nl) + banner
        sp.update({"reject": b"Permission denied, please try again.",
                   "reject_final": b"admin@sim: Permission denied (publickey,password).",
                   "phrase_prompt": rng.choice(PHRASE_PROMPTS) if rng.random() < 0.5 else None,
                   "phrase_tries": rng.choice([1, 2, 3]), "pass_tries": 3})
    return sp


def spec_json(sp):
    return {k: (v.hex() if isinstance(v, bytes) else ({a: b.hex() for a, b in v.items()} if isinstance(v, dict) else v))
            for k, v in sp.items()}


def spec_unjson(j):
    out = {}
    for k, v in j.items():
        if isinstance(v, str) and k not in ("kind", "after"):
            out[k] = bytes.fromhex(v)
        elif isinstance(v, dict):
            out[k] = {a: bytes.fromhex(b) for a, b in v.items()}
        else:
            out[k] = v
    return out


def policies(rng, total, n_single, n_random, bytewise):
    """chunking policies for a dialogue whose causal stream has about `total` raw bytes"""
    out = [{"type": "whole"}]
    if bytewise:
        out.append({"type": "bytes", "n": 1})
    cuts = list(range(1, max(2, total)))
    if n_single is None or n_single >= len(cuts):
        chosen = cuts
    else:
        chosen = sorted(rng.sample(cuts, n_single))
    out += [{"type": "cuts", "at": [c]} for c in chosen]
    for _ in range(n_random):
        r = rng.random()
        if r < 0.4 and total > 3:
            k = rng.randint(2, min(8, total - 1))
            out.append({"type": "cuts", "at": sorted(rng.sample(cuts, k))})
        elif r < 0.7:
            out.append({"type": "bytes", "n": rng.choice([2, 3, 5, 7, 16])})
        else:
            out.append({"type": "sizes", "sizes": [rng.randint(1, 9) for _ in range(rng.randint(3, 40))],
                        "then": rng.choice([1, 4, 65535])})
    return out


def with_empties(rng, pol, interval_ms, kicking):
    """insert empty reads (with clock readings) and optionally later-than-interval ones / errors"""
    p = dict(pol)
    inj = {}
    for _ in range(rng.randint(1, 3)):
        k = rng.randint(0, 12)
        if kicking:
            r = rng.random()
            if r < 0.2:
                inj[str(k)] = ["err"]
            else:
                inj[str(k)] = ["empty", rng.choice([interval_ms + 1, 2 * interval_ms + 1, interval_ms * 3 + 7, interval_ms,
                                                   interval_ms - 1, 1, 10 * interval_ms])]
        else:
            inj[str(k)] = ["empty", rng.choice([0, 1, interval_ms // 2, interval_ms])]
    p["inject"] = inj
    return p


# ------------------------------------------------------------------------------------------------
# coq terms
# ------------------------------------------------------------------------------------------------
def hist_term(hist):
    out = []
    for h in hist:
        if h[0] == "r":
            out.append(coq_bytes(b"\x00" + h[1]))
        elif h[0] == "w":
            out.append(coq_bytes(b"\x01" + h[1]))
    return coq_list(out)


def creds_term(c):
    return "%s %s %s" % (coq_bytes(c["user"]), coq_bytes(c["pass"]), coq_bytes(c["phrase"]))


def closed_loop_eligible(res, interval_ms):
    for kind, raw, t in res["reads"]:
        if kind in ("err", "eof"):
            return False
        if kind == "empty" and t > interval_ms:
            return False
    return True


def case_a(kind, pid, creds, interval_ms, res):
    segs = [tx.replace(b"\r", b"") for _, tx in res["segments"]]
    sched = []
    for k, raw, t in res["reads"]:
        if k == "data":
            sched.append("(%d%%nat, %d)" % (len(raw.replace(b"\r", b"")), t))
        elif k == "empty":
            sched.append("(0%%nat, %d)" % t)
        elif k == "blocked":
            sched.append("(1%%nat, %d)" % t)
    return "(CaseA %d %d %s %d %s %s %d %s)" % (
        0 if kind == "telnet" else 1, pid, creds_term(creds), interval_ms, coq_list([coq_bytes(s) for s in segs]),
        coq_list(sched), CLASS_CODE.get(res["outcome"], 99), hist_term(res["hist"]))


def case_h(kind, pid, creds, interval_ms, results):
    logins = []
    for res in results:
        segs = [tx.replace(b"\r", b"") for _, tx in res["segments"]]
        sched = []
        for k, raw, t in res["reads"]:
            if k == "data":
                sched.append("(%d%%nat, %d)" % (len(raw.replace(b"\r", b"")), t))
            elif k == "empty":
                sched.append("(0%%nat, %d)" % t)
            elif k == "blocked":
                sched.append("(1%%nat, %d)" % t)
        logins.append("(%s, %s, %d, %s)" % (coq_list([coq_bytes(x) for x in segs]), coq_list(sched),
                                            CLASS_CODE.get(res["outcome"], 99), hist_term(res["hist"])))
    return "(CaseH %d %d %s %d %s)" % (0 if kind == "telnet" else 1, pid, creds_term(creds), interval_ms, coq_list(logins))


def case_b(kind, pid, creds, interval_ms, res, stack, eof="raise"):
    evs = []
    for k, raw, t in res["reads"]:
        if k == "data":
            evs.append("EData %s %d" % (coq_bytes(raw), t))
        elif k == "empty":
            evs.append("EData [] %d" % t if stack == "sync" else "EExpire %d" % t)
        elif k == "err":
            evs.append("EErr")
        elif k == "eof":
            evs.append("EErr" if eof == "raise" else "EData [] %d" % t)
    return "(CaseB %d %d %s %d %s %d %s)" % (
        0 if kind == "telnet" else 1, pid, creds_term(creds), interval_ms, coq_list(evs),
        CLASS_CODE.get(res["outcome"], 99), hist_term(res["hist"]))


def events_term(kind, pid, creds, interval_ms, events, stack, res):
    evs = []
    for e in events:
        if e[0] == "data":
            evs.append("EData %s %d" % (coq_bytes(e[1]), e[2]))
        elif e[0] == "expire":
            evs.append("EData [] %d" % e[1] if stack == "sync" else "EExpire %d" % e[1])
        else:
            evs.append("EErr")
    return "(CaseB %d %d %s %d %s %d %s)" % (
        0 if kind == "telnet" else 1, pid, creds_term(creds), interval_ms, coq_list(evs),
        CLASS_CODE.get(res["outcome"], 99), hist_term(res["hist"]))


# ------------------------------------------------------------------------------------------------
# oracles
# ------------------------------------------------------------------------------------------------
def kick_oracle(kind, events_seen, hist, creds, interval_ms):
    """bare returns: exactly one per connection error (telnet), and one per empty read whose clock reading
    exceeds interval * attempts; none on ssh.  events_seen: [("data"|"empty"|"err", t)] in order."""
    names = (creds["user"], creds["pass"], creds["phrase"])
    # observed: for every read / error of the history, how many bare returns follow it before the next read
    obs, cur = [], None
    i = 0
    while i < len(hist):
        h = hist[i]
        if h[0] in ("r", "e"):
            if cur is not None:
                obs.append(cur)
            cur = 0
        elif h[0] == "w":
            if h[1] in names:
                i += 1          # the return that belongs to the credential
            elif cur is not None:
                cur += 1
        i += 1
    if cur is not None:
        obs.append(cur)
    want, attempts = [], 1
    for ek, t in events_seen[:len(obs)]:
        if kind != "telnet":
            want.append(0)
        elif ek == "err":
            want.append(1)
            attempts += 1
        elif ek == "empty" and t > interval_ms * attempts:
            want.append(1)
            attempts += 1
        else:
            want.append(0)
    if obs != want:
        return ["bare returns per iteration %r, wanted %r (interval %d ms)" % (obs, want, interval_ms)]
    return []


def kick_oracle_zero(kind, events_seen, hist, creds):
    """timeout_ops = 0 ("no timeout") must not mean "a return on every empty read": no bare return after an
    empty read within the first second"""
    names = (creds["user"], creds["pass"], creds["phrase"])
    k, out = -1, []
    for i, h in enumerate(hist):
        if h[0] in ("r", "e"):
            k += 1
        elif h[0] == "w" and h[1] not in names and not (i > 0 and hist[i - 1][0] == "w" and hist[i - 1][1] in names):
            if 0 <= k < len(events_seen) and events_seen[k][0] == "empty" and events_seen[k][1] <= 1000:
                out.append("timeout_ops=0: bare return after the empty read %d at %d ms" % (k, events_seen[k][1]))
    return out


def events_seen_of(res, eof="raise"):
    out = []
    for k, raw, t in res["reads"]:
        if k == "data":
            out.append(("empty" if not raw.replace(b"\r", b"") else "data", t))
        elif k == "empty":
            out.append(("empty", t))
        elif k in ("err",):
            out.append(("err", t))
        elif k == "eof":
            out.append(("err", t) if eof == "raise" else ("empty", t))
    return out


def judge_login(S, kind, spec, creds, res, pc, interval_ms, timeout_ops_ms, eof="raise", pol_idle=None):
    """-> (general failures, region failures, region, hazard).  general: what must hold on every run (history and kick
    oracles); region failures: device-side log and outcome, judged where the dialogue / chunking is inside the property's
    quantifier ("inside") or in the region of a listed finding (partial-line, partial-line-shell, no-third-prompt); other
    regions (lookalike-line, unaccepted-spelling, kicks, silent, cut-short) are outside the property's provisos."""
    want_out, want_log, ideal_segs, why = S.ideal(spec, creds, kind == "ssh")
    hz = S.hazard_on_ideal(pc, ideal_segs, S.cut_offsets(res))
    seen = events_seen_of(res, eof)
    if spec.get("needs_kick") and timeout_ops_ms:
        # a correct client wakes the server with the first empty read later than timeout_ops/10 after the start
        if not any(t > timeout_ops_ms // 10 for t in (pol_idle or [])):
            want_out, want_log, why = "Starved", [], "never-kicked"
    spec_interval = timeout_ops_ms // 10 if timeout_ops_ms else None
    injected = any(k == "err" for k, t in seen) or any(k == "empty" and t > (spec_interval or 3000) for k, t in seen)
    idle_only = spec.get("needs_kick") and not any(k == "err" for k, t in seen)
    region = "inside"
    if hz is not None:
        if not hz["midline"]:
            region = "lookalike-line"
        elif hz["reaction"] == "shell":
            region = "partial-line-shell"
        else:
            region = "partial-line"
    elif not S.accepted(pc, ideal_segs):
        region = "unaccepted-spelling"
    elif injected and not idle_only:
        region = "kicks"
    elif why in ("dead", "closed"):
        region = "no-third-prompt" if len(want_log) >= 2 else "silent"
    elif res.get("cut_short"):
        region = "cut-short"
    # (1) what must hold on EVERY run, whatever the region: read off the history alone
    general = list(S.safety_oracle(kind, res, creds, pc, states=False))
    if spec_interval is not None:
        general += kick_oracle(kind, seen, res["hist"], creds, spec_interval)
    else:
        general += kick_oracle_zero(kind, seen, res["hist"], creds)
    # (2) what the device saw and how the login ended: these are the failures a known finding's region explains
    fails = []
    if region != "kicks":
        fails += [f for f in S.safety_oracle(kind, res, creds, pc, states=True) if f not in general]
    if region == "no-third-prompt" and res["outcome"] != "ScrapliAuthenticationFailed":
        fails.append("credentials rejected twice, the server shows no third prompt: outcome %s instead of "
                     "ScrapliAuthenticationFailed (the login can only run into the timeout)" % res["outcome"])
    if region in ("inside", "partial-line", "partial-line-shell"):
        got_log = [(s, l) for s, l, _ in res["log"]]
        if res["outcome"] != want_out:
            fails.append("outcome %s, wanted %s (%s)" % (res["outcome"], want_out, why))
        if got_log != want_log:
            fails.append("server log %r, wanted %r" % (got_log, want_log))
        if S.bare_returns(res, creds) and not spec.get("needs_kick"):
            fails.append("%d bare return(s) without an elapsed interval" % S.bare_returns(res, creds))
        if why == "fatal" and res["outcome"] == "ScrapliAuthenticationFailed":
            stream, start = b"", None
            for st, tx in ideal_segs:
                c = tx.replace(b"\r", b"")
                fe = S.fatal_end(c)
                if fe is not None and S.expectation(kind, st, tx) == "fatal":
                    start = len(stream) + fe
                    break
                stream += c
            cuts = S.cut_offsets(res)
            first = next((i for i, c in enumerate(cuts) if c >= start), None)
            if first is None or len(cuts) != first + 1:
                fails.append("fatal message complete after read %r, login went on until read %d" % (first, len(cuts)))
    return general, fails, region, hz


def judge_open(S, kind, spec, creds, res, pc):
    """whole-open scenarios with ANY configuration of the three credentials (empty ones included; the history oracles
    of judge_login cannot tell an empty credential from a bare return).  -> same tuple as judge_login.
    general: the device-side oracle "a prompt state only ever receives ITS credential or an empty line"; region
    failures: outcome and server log against what a correct client obtains with the same configuration"""
    want_out, want_log, ideal_segs, why = S.ideal(spec, creds, kind == "ssh")
    hz = S.hazard_on_ideal(pc, ideal_segs, S.cut_offsets(res))
    region = "inside"
    if hz is not None:
        region = "lookalike-line" if not hz["midline"] else ("partial-line-shell" if hz["reaction"] == "shell" else "partial-line")
    elif not S.accepted(pc, ideal_segs):
        region = "unaccepted-spelling"
    elif why in ("dead", "closed"):
        region = "no-third-prompt" if len(want_log) >= 2 else "silent"
    elif res.get("cut_short"):
        region = "cut-short"
    own = S.own_prompt_oracle(res, creds)
    general, fails = [], []
    if region in ("partial-line", "partial-line-shell", "lookalike-line"):
        fails += own
    else:
        general += own
    if region in ("inside", "partial-line", "partial-line-shell"):
        got_log = [(s, l) for s, l, _ in res["log"]]
        if res["outcome"] != want_out:
            fails.append("outcome %s, wanted %s (%s)" % (res["outcome"], want_out, why))
        if got_log != want_log:
            fails.append("server log %r, wanted %r" % (got_log, want_log))
        if region == "inside" and res["outcome"] == "ok":
            # open() returns only when the device's prompt was seen: a line of what has been READ when the call returns
            # looks like a device prompt (the documented default pattern of the style, S.REF_PROMPTS -- not the tree's)
            # (lines as the login can have them in its buffer: the text read since the start or since one of its writes)
            starts = [0] + [i + 1 for i, h in enumerate(res["hist"]) if h[0] == "w"]
            texts = [b"".join(h[1] for h in res["hist"][i:] if h[0] == "r").lower() for i in starts]
            if not any(pc.prompt.search(t) for t in texts):
                fails.append("open() returned after reading %d bytes, none of their lines looks like a device prompt: "
                             "the prompt was not seen" % len(texts[0]))
    return general, fails, region, hz


def judge_values(S, kind, spec, creds, res, pc, interval_ms):
    """whole-open scenarios over credential VALUES (leading / trailing / inner blanks and tabs, empty, long, '%', backslash,
    quotes, non-ASCII, regex metacharacters, a trailing newline).  -> same tuple as judge_login.
    general: the byte-level device-side oracle (own_bytes_oracle): every write the device receives is the return or, byte for
    byte, the configured credential (UTF-8) of the prompt state it is waiting in, followed by one return; region failures:
    outcome, and the bytes the device received state by state, against what it receives from a correct client that types the
    configured values (ideal_full)"""
    want_out, want_log, ideal_segs, why, isrv = S.ideal_full(spec, creds, kind == "ssh")
    hz = S.hazard_on_ideal(pc, ideal_segs, S.cut_offsets(res))
    region = "inside"
    if hz is not None:
        region = "lookalike-line" if not hz["midline"] else ("partial-line-shell" if hz["reaction"] == "shell" else "partial-line")
    elif not S.accepted(pc, ideal_segs):
        region = "unaccepted-spelling"
    elif any(k == "empty" and t > interval_ms for k, _, t in res["reads"]):
        region = "kicks"
    elif why in ("dead", "closed"):
        region = "no-third-prompt" if len(want_log) >= 2 else "silent"
    elif res.get("cut_short"):
        region = "cut-short"
    own = S.own_bytes_oracle(res, creds, states=region != "kicks")
    general, fails = [], []
    if region in ("partial-line", "partial-line-shell", "lookalike-line"):
        fails += own
    else:
        general += own
    if region in ("inside", "partial-line", "partial-line-shell"):
        if res["outcome"] != want_out:
            fails.append("outcome %s, wanted %s (%s)" % (res["outcome"], want_out, why))
        want_raw = [(st, bytes(b)) for st, b in isrv.raw]
        if res["raw"] != want_raw:
            def sh(raw):
                return [(st, b if len(b) <= 40 else b[:24] + b"...(%d bytes)" % len(b)) for st, b in raw]
            fails.append("bytes the device received, state by state: %r, wanted %r" % (sh(res["raw"]), sh(want_raw)))
    return general, fails, region, hz


# ------------------------------------------------------------------------------------------------
# suites
# ------------------------------------------------------------------------------------------------
class Ctx:
    def __init__(self, rep, info):
        from . import c09_sim as S
        self.S = S
        self.rep = rep
        self.info = info
        self.terms, self.meta = [], []
        self.wterms, self.wmeta = [], []     # case terms of long dialogues (merge_heavy)
        self.wbudget = 0                     # what is left of the model's byte budget for them (buffer bytes x reads)
        self.seen_terms = {}
        self.dist = {"runs": 0, "by_suite": {}, "by_region": {}, "by_outcome": {}, "by_policy": {}, "by_kind_stack": {},
                     "reads_hist": {}, "by_model": {}, "coq_cases": 0, "dedup": 0}
        self.pc = {}
        self.violations = 0
        self.prompt_text = {"channel": None,
                            "driver": info["patterns"]["prompt_driver"][0], "generic": info["patterns"]["prompt_generic"][0]}

    def pycfg(self, kind, style):
        k = (kind, style)
        if k not in self.pc:
            self.pc[k] = self.S.RefCfg(kind, style)
        return self.pc[k]

    def add_term(self, term, meta, heavy=False):
        if term in self.seen_terms:
            self.dist["dedup"] += 1
            return
        self.seen_terms[term] = len(self.terms)
        if heavy:
            self.wterms.append(term)
            self.wmeta.append(meta)
            return
        self.terms.append(term)
        self.meta.append(meta)

    def merge_heavy(self):
        """spread the expensive (long-dialogue) case terms evenly over the list, so that the shards of the model evaluation
        (consecutive slices, evaluated in parallel) share them"""
        if not self.wterms:
            return
        n, m = len(self.terms), len(self.wterms)
        terms, meta, j = [], [], 0
        for i in range(n):
            while j < m and j * n <= i * m:
                terms.append(self.wterms[j])
                meta.append(self.wmeta[j])
                j += 1
            terms.append(self.terms[i])
            meta.append(self.meta[i])
        terms += self.wterms[j:]
        meta += self.wmeta[j:]
        self.terms, self.meta, self.wterms, self.wmeta = terms, meta, [], []

    def count(self, table, key):
        d = self.dist.setdefault(table, {})
        d[key] = d.get(key, 0) + 1


def interval_of(S, timeout_ops):
    """what the running code uses as return interval (ms) for this timeout_ops"""
    from gen import gen_auth
    ch = gen_auth._channel(timeout_ops)
    return int(round(ch._pre_channel_authenticate_telnet()[4] * 1000))


def report_login(cx, kind, stack, region, general, fails, scen, res, hz, label="login"):
    """oracle failures of one login -> violation (under a listed finding's signature where its region explains them);
    returns the failures that count"""
    rep = cx.rep
    if not (general or fails):
        return fails
    sig = None
    if not general:
        # only the device-side / outcome failures that a listed finding's region explains carry its signature
        if region == "partial-line":
            sig = SIG_PARTIAL
        elif region == "partial-line-shell":
            sig = SIG_PARTIAL_SHELL
        elif region == "no-third-prompt":
            sig = SIG_NO_THIRD
        elif region == "lookalike-line":
            cx.count("by_region", "lookalike-line-deviation")
            return fails
    scen2 = dict(scen)
    scen2.update({"observed": {"outcome": res["outcome"], "log": [[s, l.hex()] for s, l, _ in res["log"]],
                               "writes": [w.hex() for w in res["writes"]]},
                  "failures": general + fails, "region": region,
                  "hazard": None if hz is None else {k: (v.hex() if isinstance(v, bytes) else v) for k, v in hz.items()},
                  "rerun": "./check C09 --replay <this file>"})
    if sig is not None or cx.violations < 12:
        if rep.violation("%s/%s %s (%s): %s" % (kind, stack, label, region, "; ".join(general + fails)[:400]), scen2, signature=sig):
            cx.violations += 1
    else:
        cx.violations += 1
    return general + fails


def one_login(cx, suite, stack, kind, style, spec, pol, creds, timeout_ops=30.0, eof="raise", via_driver=None,
              max_reads=5000, judge="login", heavy=False, private_key=False):
    """heavy: a long-dialogue run (window suite): it is handed to the Coq model only within the byte budget cx.wbudget
    (vm_compute of the derivative engine costs ~0.1 ms per buffer byte and read); over the budget the run is oracle-only"""
    S, rep = cx.S, cx.rep
    interval_ms = cx.intervals.setdefault(timeout_ops, interval_of(S, timeout_ops))
    depth = spec.get("search_depth")        # a non-default comms_prompt_search_depth (None: the default of the tree)
    if via_driver:
        res = S.run_driver(stack, kind, spec, pol, creds, driver=via_driver, timeout_ops=timeout_ops, depth=depth,
                           private_key=private_key)
    else:
        res = S.run_login(stack, kind, spec, pol, creds, prompt=cx.prompt_text[style], timeout_ops=timeout_ops, eof=eof,
                          max_reads=max_reads, overrides={"comms_prompt_search_depth": depth} if depth else None)
    pc = cx.pycfg(kind, style)
    if judge == "open":
        general, fails, region, hz = judge_open(S, kind, spec, creds, res, pc)
    elif judge == "values":
        general, fails, region, hz = judge_values(S, kind, spec, creds, res, pc, interval_ms)
    else:
        general, fails, region, hz = judge_login(S, kind, spec, creds, res, pc, interval_ms, int(timeout_ops * 1000), eof, pol.get("idle"))
    scen = {"suite": suite, "stack": stack, "kind": kind, "style": style, "spec": spec_json(spec), "policy": pol,
            "creds": {k: v.hex() for k, v in creds.items()}, "timeout_ops": timeout_ops, "eof": eof,
            "via_driver": via_driver, "max_reads": max_reads, "judge": judge}
    if private_key:
        scen["private_key"] = True       # the driver is given an auth_private_key (public-key login)
    cx.dist["runs"] += 1
    cx.count("by_suite", suite)
    cx.count("by_region", region)
    cx.count("by_outcome", res["outcome"])
    cx.count("by_policy", pol["type"] + ("+inject" if pol.get("inject") else ""))
    cx.count("by_kind_stack", kind + "/" + stack + ("/driver" if via_driver else ""))
    nr = len(res["reads"])
    cx.count("reads_hist", "1-5" if nr <= 5 else "6-20" if nr <= 20 else "21-100" if nr <= 100 else ">100")
    rep.case((suite, kind, style, json.dumps(scen["spec"], sort_keys=True), json.dumps(pol, sort_keys=True), creds["pass"],
              creds["user"], creds["phrase"], via_driver),
             nontrivial=len(res["writes"]) > 0 and nr > 1)
    pid = PROMPT_IDS[style]
    cost = sum(1 for r in res["reads"] if r[0] == "data") * sum(len(tx) for _, tx in res["segments"]) if heavy else 0
    if heavy and (cost > 12000 or cost > cx.wbudget):
        cx.count("by_model", "oracle-only (long dialogue over the model's byte budget)")
    else:
        if closed_loop_eligible(res, interval_ms) and not any(b"\n" in v for v in creds.values()):
            # (a credential that contains a newline makes the device react twice to one answer: the closed-loop model's
            # server prints one phase per answer, so those runs are checked against the open-loop model on the reads)
            term = case_a(kind, pid, creds, interval_ms, res)
            cx.count("by_model", "closed-loop (cl_run)")
        else:
            term = case_b(kind, pid, creds, interval_ms, res, stack, eof)
            cx.count("by_model", "open-loop (run_raw)")
        cx.wbudget -= cost
        cx.add_term(term, scen, heavy=heavy)
    fails = report_login(cx, kind, stack, region, general, fails, scen, res, hz)
    return res, fails, region


def login_suite(cx, n_dialogues, n_single, n_random, bytewise_every, label="login"):
    rng = cx.rep.rng
    for di in range(n_dialogues):
        kind = "telnet" if rng.random() < 0.6 else "ssh"
        style = rng.choice(["channel", "driver", "generic"])
        valid = rng.random() < 0.55
        rounds = None if (valid or rng.random() < 0.7) else rng.choice([3, 4])
        spec = gen_spec(rng, kind, style, valid=valid, rounds=rounds)
        creds = dict(CREDS) if valid else dict(WRONG)
        srv_total = sum(len(tx) for _, tx in cx.S.ideal(spec, creds, kind == "ssh")[2])
        pols = policies(rng, srv_total, n_single, n_random, bytewise=(di % bytewise_every == 0))
        extra = [with_empties(rng, rng.choice(pols), 3000, kicking=False) for _ in range(2)]
        for pol in pols + extra:
            for stack in ("sync", "async"):
                one_login(cx, label, stack, kind, style, spec, pol, creds)
        if di == 0:
            cx.rep.sample({"dialogue": [[s, t.decode("latin-1")] for s, t in cx.S.ideal(spec, creds, kind == "ssh")[2]],
                           "valid_credentials": valid, "policies": len(pols)})


def corpus_specs():
    C = dict(CREDS)

    def tel(**kw):
        sp = {"kind": "telnet", "nl": b"\r\n", "banner": b"Welcome to router1\r\nAuthorized access only!\r\n",
              "user_prompt": b"login: ", "pass_prompt": b"Password: ", "echo": True, "valid": dict(C),
              "reject": b"Login incorrect", "rounds": None, "after": "silent",
              "motd": b"last login on ttyS0 was yesterday\r\n\r\n", "shell": b"router1#"}
        sp.update(kw)
        return sp

    def ssh(**kw):
        sp = {"kind": "ssh", "nl": b"\r\n", "banner": SSH_WARNINGS[0] + b"\r\n", "pass_prompt": b"admin@sim's password: ",
              "valid": dict(C), "rounds": None, "after": "silent", "reject": b"Permission denied, please try again.",
              "reject_final": b"admin@sim: Permission denied (publickey,password).", "phrase_prompt": None,
              "phrase_tries": 3, "pass_tries": 3, "motd": b"Welcome to router1\r\n", "shell": b"router1#"}
        sp.update(kw)
        return sp

    ph = PHRASE_PROMPTS[0]
    return [("telnet", tel(), C), ("telnet", tel(), dict(WRONG)),
            ("telnet", tel(user_prompt=b"Username: ", pass_prompt=b"password:", echo=False, nl=b"\n"), C),
            ("telnet", tel(user_prompt=b"USERNAME:", rounds=3, after="close"), dict(WRONG)),
            ("ssh", ssh(), C), ("ssh", ssh(), dict(WRONG)),
            ("ssh", ssh(phrase_prompt=ph), C),
            ("ssh", ssh(phrase_prompt=ph, phrase_tries=3), {"user": C["user"], "pass": C["pass"], "phrase": WRONG["phrase"]}),
            ("ssh", ssh(phrase_prompt=ph, phrase_tries=1), {"user": C["user"], "pass": C["pass"], "phrase": WRONG["phrase"]}),
            ("ssh", ssh(phrase_prompt=ph, phrase_tries=2, banner=b""), dict(WRONG))]


def corpus_suite(cx, double_cuts=False):
    """the same canonical dialogues on every seed (thorough: every pair of cuts for three of them)"""
    for ci, (kind, spec, creds) in enumerate(corpus_specs()):
        total = sum(len(tx) for _, tx in cx.S.ideal(spec, creds, kind == "ssh")[2])
        pols = [{"type": "whole"}, {"type": "bytes", "n": 1}, {"type": "bytes", "n": 3}] + \
               [{"type": "cuts", "at": [c]} for c in range(5, total, 17)]
        if double_cuts and ci in (0, 1, 6):
            step = 1 if ci == 0 else 2
            pols += [{"type": "cuts", "at": [a, b]} for a in range(1, total, step) for b in range(a + 1, total, step)]
        for pol in pols:
            for stack in ("sync", "async"):
                one_login(cx, "corpus", stack, kind, "channel", spec, pol, creds)


def hazard_suite(cx, n):
    """dialogues with a line whose PREFIX looks like a prompt: chunkings that do not cut there must behave,
    the others are the known partial-line finding (model correspondence still holds)"""
    rng = cx.rep.rng
    for i in range(n):
        kind = "telnet" if rng.random() < 0.7 else "ssh"
        style = rng.choice(["channel", "driver"])
        hz = HAZARD_LINES[i % len(HAZARD_LINES)]
        spec = gen_spec(rng, kind, style, valid=True, hazard=hz)
        total = sum(len(tx) for _, tx in cx.S.ideal(spec, CREDS, kind == "ssh")[2])
        pols = policies(rng, total, 10, 3, bytewise=True)
        for pol in pols:
            for stack in ("sync", "async"):
                one_login(cx, "hazard", stack, kind, style, spec, pol, dict(CREDS))
    for i in range(max(1, n // 3)):
        spec = gen_spec(rng, "telnet", "channel", valid=True, lookalike=True)
        for pol in policies(rng, 80, 3, 1, bytewise=False):
            one_login(cx, "lookalike", rng.choice(["sync", "async"]), "telnet", "channel", spec, pol, dict(CREDS))


# ---- pre-login output that is longer than the prompt search depth -------------------------------------------------------
# A banner / MOTD line that is NOT a prompt (it has blanks) but ENDS like one: <= 32 / 48 characters of the prompt class and
# one of # > $.  Read from its beginning it never matches a prompt pattern (they are anchored at the start of a line); a
# client that only looks at the last N bytes of the login output sees its tail as a whole line when the window begins inside it.
WINDOW_TAILS = [(b"Problems? Contact the NOC:", b" <", b"noc@example.com>"), (b"all prices in", b" ", b"US$"),
                (b"mail to", b" ", b"root@localhost:/var/mail>"), (b"ticket queue is", b" ", b"ops/noc-2#"),
                (b"escalation", b" '", b"ops-team@example.net:(24/7)>"), (b"daily rate", b" ", b"5$"),
                (b"see", b" ", b"http://intranet.example.com/policy/acceptable-use#")]
WINDOW_DEPTHS = [100, 128, 200, 256, 500, 512, 999, 1001, 1024, 1500, 2000]     # non-default comms_prompt_search_depth values
TAIL_CLASS = b"abcdefghijklmnopqrstuvwxyz0123456789.-@()/:ABCXYZ"
LOREM = b"lorem ipsum dolor sit amet consectetur adipiscing elit sed do eiusmod tempor incididunt ut labore et dolore magna "


def gen_tail(rng):
    if rng.random() < 0.5:
        return rng.choice(WINDOW_TAILS)
    while True:
        word = bytes(rng.choice(TAIL_CLASS) for _ in range(rng.choice([1, 2, 3, 5, 8, 13, 21, 31, 32, 33, 40]))) + rng.choice([b"#", b">", b"$"])
        if not any(x in word.lower() for x in (b"login:", b"username:", b"password:")):
            break
    return (rng.choice([b"contact", b"see also", b"queue", b"billing code", b"--", b"tel. 555 0100 or"]),
            rng.choice([b" ", b" <", b" [", b" \"", b" ="]), word)


def fill_lines(rng, n):
    """exactly n bytes of whole harmless lines (CR-free)"""
    out = b""
    pool = [ln for ln in SAFE_LINES if ln.strip()]
    while n - len(out) > 70:
        out += rng.choice(pool) + b"\n"
    r = n - len(out)
    if r > 0:
        k = rng.randrange(len(LOREM))
        out += (LOREM * 3)[k:k + r - 1] + b"\n"
    return out


def window_spec(rng, kind, style, depth, delta, tail, q, lead=0):
    """a dialogue whose banner (CR-free) is lead + depth + delta bytes long and has the line `tail` ending at offset lead + q
    (moved as far as needed for the line to fit); depth None: the default of the tree (1000); lead: harmless lines in front
    (a banner of several search depths: a client that trims its buffer now and then).  -> spec, geometry"""
    D = depth or 1000
    sp = gen_spec(rng, kind, style, valid=True)
    line = tail[0] + tail[1] + tail[2]
    Lb = lead + D + delta
    q = min(max(lead + q, len(line)), Lb - 1)
    flat = fill_lines(rng, q - len(line)) + line + b"\n" + fill_lines(rng, Lb - q - 1)
    assert len(flat) == Lb and flat[q - len(line):q] == line
    sp["banner"] = flat.replace(b"\n", sp["nl"])
    if depth:
        sp["search_depth"] = depth
    first = sp["user_prompt"] if kind == "telnet" else (sp["phrase_prompt"] or sp["pass_prompt"])
    crlf = sp["nl"] == b"\r\n"

    def raw(p):     # CR-free stream offset -> raw stream offset
        return (p + (flat.count(b"\n", 0, p) if crlf else 0)) if p <= Lb else raw(Lb) + p - Lb

    # how much of the tail can pass for a prompt line: {1,32} / {1,48} / {0,48} characters and the final # > $
    return sp, {"depth": D, "banner_len": Lb, "tail_end": q, "tail_len": min(len(tail[2]), 33 if style == "channel" else 49),
                "prompt_len": len(first), "raw": raw}


def window_edge_in_tail(S, res, geo):
    """did a read of this run end while the last `depth` bytes of the login output began inside the prompt-like tail, the
    first prompt not yet complete?"""
    for e in S.cut_offsets(res):
        w = e - geo["depth"]
        if geo["tail_end"] <= e < geo["banner_len"] + geo["prompt_len"] and geo["tail_end"] - geo["tail_len"] < w <= geo["tail_end"] - 2:
            return True
    return False


def window_suite(cx, n_random, salt=0, full=False, budget=70000):
    """"login completes for any banner text and any chunking" where the login output is longer than the prompt search depth:
    banners of comms_prompt_search_depth - 40 .. + 40 bytes (default depth and 100 .. 2000) with a non-prompt line that ends
    like a prompt (gen_tail) at every offset relative to the last-`depth`-bytes window; chunkings: a read boundary at EVERY
    position of the last 80 banner bytes and of the first prompt (one run with all of them, runs with one of them -- the
    banner as a read of its own, a boundary that puts the window edge inside the tail, random ones; full: each of them),
    small fixed read sizes; sync/asyncio, telnet/ssh, three prompt patterns, the channel login and driver.open().
    Oracle: judge_login, unchanged (credentials at their prompts only, once; outcome and device log of a correct client)."""
    import random
    S = cx.S
    rng = random.Random(cx.rep.seed * 7919 + 90903 + 97 * salt)
    cx.wbudget = budget
    cov = cx.dist.setdefault("window", {"dialogues": 0, "depths": {}, "banner_minus_depth": {}, "runs": 0,
                                        "runs_with_window_edge_inside_the_tail": 0, "tail_offsets_hit": {}})
    scens = []
    combos = [(k, st) for k in ("telnet", "ssh") for st in ("channel", "driver", "generic")]
    # the same on every seed: default depth, every login kind x prompt pattern, the banner as a read of its own puts the
    # window edge inside '<noc@example.com>' (2 + 5 * (ci % 3) bytes before its end)
    fixed = random.Random(90903 + salt)
    for ci, (kind, style) in enumerate(combos):
        tail = WINDOW_TAILS[0]
        q = len(b"".join(tail)) + 3 * ci
        scens.append((kind, style, None, q - 2 - 5 * (ci % 3), tail, q, None, fixed, 0))
    for i in range(n_random):
        kind = "telnet" if rng.random() < 0.6 else "ssh"
        style = rng.choice(["channel", "driver", "generic"])
        depth = None if rng.random() < 0.3 else rng.choice(WINDOW_DEPTHS)
        D0 = depth or 1000
        delta = rng.randint(-40, 40)
        while True:
            tail = gen_tail(rng)
            if len(b"".join(tail)) < D0 + delta:
                break
        # mostly: some boundary in the last 80 bytes / the prompt puts the window edge inside the tail
        q = delta + rng.randint(-60, 8 + min(len(tail[2]), 33)) if rng.random() < 0.75 else rng.randint(0, 130)
        drv = None
        if i % 4 == 3 and style != "channel":
            drv = "generic" if style == "generic" else "base"
        # every fifth: a banner of two or three search depths
        lead = rng.choice([D0, 2 * D0 + 7]) if (i % 5 == 4 and D0 <= 1024) else 0
        scens.append((kind, style, depth, delta, tail, q, drv, rng, lead))
    for si, (kind, style, depth, delta, tail, q, drv, r, lead) in enumerate(scens):
        spec, geo = window_spec(r, kind, style, depth, delta, tail, q, lead)
        raw, Lb, D = geo["raw"], geo["banner_len"], geo["depth"]
        sweep = list(range(max(1, Lb - 80), Lb + geo["prompt_len"]))
        every = {"type": "cuts", "at": [raw(p) for p in sweep]}
        own = {"type": "cuts", "at": [raw(Lb)]}
        runs = [(own, st) for st in ("sync", "async")]
        inside = [w + D for w in range(geo["tail_end"] - geo["tail_len"] + 1, geo["tail_end"] - 1) if (w + D) in sweep and w + D >= geo["tail_end"]]
        if full:
            runs += [({"type": "cuts", "at": [raw(p)]}, st) for p in sweep for st in ("sync", "async")]
        else:
            picks = ([r.choice(inside)] if inside else []) + r.sample(sweep, 2)
            runs += [({"type": "cuts", "at": [raw(p)]}, r.choice(["sync", "async"])) for p in picks]
        runs += [(every, st) for st in ("sync", "async")]
        if Lb <= 300 or r.random() < 0.12:
            runs.append(({"type": "bytes", "n": r.choice([1, 2, 3, 7])}, r.choice(["sync", "async"])))
        cov["dialogues"] += 1
        cov["depths"][str(D) + ("" if depth else " (default)")] = cov["depths"].get(str(D) + ("" if depth else " (default)"), 0) + 1
        cov["banners_of_several_depths"] = cov.get("banners_of_several_depths", 0) + (1 if lead else 0)
        bucket = "%+d..%+d" % (delta // 20 * 20, delta // 20 * 20 + 19)
        cov["banner_minus_depth"][bucket] = cov["banner_minus_depth"].get(bucket, 0) + 1
        for pol, stack in runs:
            if drv and kind == "ssh" and stack == "async":
                continue        # there is no asyncio transport that logs in over the channel
            res, _, _ = one_login(cx, "window", stack, kind, style, spec, pol, dict(CREDS), via_driver=drv, heavy=True)
            cov["runs"] += 1
            if window_edge_in_tail(S, res, geo):
                cov["runs_with_window_edge_inside_the_tail"] += 1
            for e in S.cut_offsets(res):
                k = geo["tail_end"] - (e - D)       # how many bytes of the tail a last-`depth`-bytes window would keep
                if geo["tail_end"] <= e < Lb + geo["prompt_len"] and 2 <= k < geo["tail_len"] + 1:
                    cov["tail_offsets_hit"][str(k)] = cov["tail_offsets_hit"].get(str(k), 0) + 1
        if si == 0:
            cx.rep.sample({"window_scenario": "%s login, default search depth %d, banner of %d bytes (CR-free) with the line %r ending at "
                                              "offset %d; read boundaries at every position of the last 80 banner bytes and of the prompt"
                                              % (kind, D, Lb, b"".join(tail).decode(), geo["tail_end"]),
                           "outcome": res["outcome"], "typed": [[s, l.decode("latin-1")] for s, l, _ in res["log"]]})
    cov["tail_offsets_hit"] = dict(sorted(cov["tail_offsets_hit"].items(), key=lambda kv: int(kv[0])))


def kick_suite(cx, n):
    """empty reads later than the interval, connection errors, hang-ups, several timeout_ops values"""
    rng = cx.rep.rng
    for i in range(n):
        kind = "telnet" if rng.random() < 0.75 else "ssh"
        style = rng.choice(["channel", "driver"])
        timeout_ops = rng.choice([30.0, 10.0, 60.0, 0])
        interval_ms = 3000 if not timeout_ops else int(timeout_ops * 100)
        valid = rng.random() < 0.6
        rounds = rng.choice([None, 2, 3])
        spec = gen_spec(rng, kind, style, valid=valid, rounds=None if valid else rounds)
        creds = dict(CREDS) if valid else dict(WRONG)
        base = rng.choice(policies(rng, 90, 4, 3, bytewise=False))
        pol = with_empties(rng, base, interval_ms, kicking=True)
        eof = rng.choice(["raise", "empty"])
        for stack in ("sync", "async"):
            r = one_login(cx, "kick", stack, kind, style, spec, pol, creds, timeout_ops=timeout_ops, eof=eof, max_reads=400)
            if i == 1 and stack == "sync":
                cx.rep.sample({"kick_scenario": {"kind": kind, "timeout_ops": timeout_ops, "policy": pol, "eof": eof},
                               "outcome": r[0]["outcome"], "region": r[2], "writes": [w.decode("latin-1") for w in r[0]["writes"]]})
        if i % 3 == 0:
            # a server that is silent until it receives a return: idle empty reads with rising clock readings
            spec2 = gen_spec(rng, "telnet", style, valid=True)
            spec2["needs_kick"] = True
            n_idle = rng.randint(1, 6)
            step = rng.choice([interval_ms // 2, interval_ms // 3 + 1, interval_ms + 1, interval_ms])
            pol2 = dict(rng.choice(policies(rng, 90, 3, 2, bytewise=False)))
            pol2["idle"] = [step * (j + 1) for j in range(n_idle)]
            for stack in ("sync", "async"):
                one_login(cx, "needs-kick", stack, "telnet", style, spec2, pol2, dict(CREDS), timeout_ops=timeout_ops or 30.0, max_reads=400)


def driver_suite(cx, n):
    rng = cx.rep.rng
    for i in range(n):
        kind = "telnet" if rng.random() < 0.6 else "ssh"
        drv = rng.choice(["generic", "base"])
        style = "generic" if drv == "generic" else "driver"
        valid = rng.random() < 0.6
        spec = gen_spec(rng, kind, style, valid=valid)
        creds = dict(CREDS) if valid else dict(WRONG)
        for pol in policies(rng, 90, 3, 2, bytewise=(i % 4 == 0)):
            for stack in ("sync", "async"):
                if kind == "ssh" and stack == "async":
                    continue    # there is no asyncio transport that logs in over the channel
                one_login(cx, "driver", stack, kind, style, spec, pol, creds, via_driver=drv)


def open_specs(rng, kind):
    """server dialogues that ask for each of the credentials, whatever the user has configured"""
    out = []
    if kind == "telnet":
        for opt in ({}, {"no_user_prompt": True}):
            sp = gen_spec(rng, "telnet", "driver", valid=True)
            sp.update(opt)
            out.append(sp)
    else:
        for opt in ({"phrase_prompt": None},
                    {"phrase_prompt": rng.choice(PHRASE_PROMPTS), "empty_skips_key": True, "phrase_tries": 3},
                    {"phrase_prompt": rng.choice(PHRASE_PROMPTS), "empty_skips_key": False, "phrase_tries": rng.choice([1, 2, 3])}):
            sp = gen_spec(rng, "ssh", "driver", valid=True)
            sp.update(opt)
            out.append(sp)
    return out


def open_suite(cx, n_random):
    """whole open() of Driver / GenericDriver / AsyncDriver / AsyncGenericDriver (telnet; system-style in-channel ssh where
    the stack has it, else the AsyncChannel login called as the driver calls it) over EVERY combination of configured / empty
    user name, password and key passphrase x server dialogues that ask for each of them, including what the user did not
    configure.  Oracle: a prompt state only ever receives ITS credential or an empty line (judge_open)."""
    rng = cx.rep.rng
    combos = [(u, p, k) for u in (1, 0) for p in (1, 0) for k in (1, 0)]
    for kind in ("telnet", "ssh"):
        specs = open_specs(rng, kind)
        for spec in specs:
            total = sum(len(tx) for _, tx in cx.S.ideal(spec, CREDS, kind == "ssh")[2])
            for ci, (u, p, k) in enumerate(combos):
                creds = {"user": CREDS["user"] if u else b"", "pass": CREDS["pass"] if p else b"",
                         "phrase": CREDS["phrase"] if k else b""}
                pols = [{"type": "whole"}] + [rng.choice(policies(rng, total, 2, 2, bytewise=True)[1:]) for _ in range(n_random)]
                for pol in pols:
                    for stack in ("sync", "async"):
                        drv = "base" if (ci + (stack == "sync")) % 2 else "generic"
                        if kind == "ssh" and stack == "async":
                            # no asyncio transport logs in over the channel: the AsyncChannel login with what a driver hands it
                            one_login(cx, "open", stack, kind, "driver", spec, pol, creds, judge="open")
                        else:
                            one_login(cx, "open", stack, kind, "generic" if drv == "generic" else "driver", spec, pol, creds,
                                      via_driver=drv, judge="open")
    cx.rep.sample({"open_scenario": "Driver.open(), system-style ssh, password configured, passphrase empty, server shows a passphrase prompt",
                   "oracle": "each prompt state only receives its own credential or an empty line"})


KEY_FATAL = b"admin@sim: Permission denied (publickey)."
SOFT_REJECTS = [b"Access denied", b"Sorry, try again.", b""]       # re-prompt lines that are not fatal ssh client messages


def key_servers(rng):
    """what an ssh server / client shows to a public-key login: (name, options of ssh_script)"""
    ph = rng.choice(PHRASE_PROMPTS)
    out = [("accepts-key", {"phrase_prompt": None, "key_accepted": True}),
           ("rejects-key-asks-password", {"phrase_prompt": None, "pass_tries": 3}),
           ("rejects-key-asks-password-soft", {"phrase_prompt": None, "pass_tries": rng.choice([3, 4]), "reject": rng.choice(SOFT_REJECTS)}),
           ("rejects-key-asks-password-once", {"phrase_prompt": None, "pass_tries": rng.choice([1, 2]), "reject": rng.choice(SOFT_REJECTS)}),
           ("fatal", {"fatal_start": KEY_FATAL}),
           ("fatal", {"fatal_start": rng.choice(FATAL_TEXTS)}),
           ("fatal-no-banner", {"fatal_start": rng.choice(FATAL_TEXTS), "banner": b""}),
           ("asks-passphrase", {"phrase_prompt": ph, "empty_skips_key": True, "phrase_tries": 3}),
           ("asks-passphrase", {"phrase_prompt": ph, "empty_skips_key": False, "phrase_tries": rng.choice([1, 2, 3]),
                                "reject": rng.choice(SOFT_REJECTS)})]
    return out


def key_suite(cx, n_random):
    """public-key logins over the system transport: the driver is given an auth_private_key and (a) nothing else,
    (b) the key's passphrase, (c) a wrong passphrase, (d) a password as well; the server accepts the key, rejects it and
    falls back to its password prompt (re-prompting with / without a fatal 'Permission denied' line, or hanging up), the
    ssh client prints a fatal message, or asks for the passphrase of the key.  Through the real Driver / GenericDriver
    .open() (sync; AsyncDriver has no transport that logs in over the channel: the AsyncChannel login with what a driver
    hands it).  Oracle (judge_open): open() returns only when the device's prompt was seen, every prompt state receives its
    own credential or an empty line, outcome and device-side log are those of a correct client -- a login that cannot
    complete ends in ScrapliAuthenticationFailed AT OPEN"""
    rng = cx.rep.rng
    configs = [("key-only", b"", b""), ("key+passphrase", b"", CREDS["phrase"]), ("key+wrong-passphrase", b"", WRONG["phrase"]),
               ("key+password", CREDS["pass"], b"")]
    for ci, (cname, pw, phr) in enumerate(configs):
        creds = {"user": CREDS["user"], "pass": pw, "phrase": phr}
        for si, (sname, opt) in enumerate(key_servers(rng)):
            spec = gen_spec(rng, "ssh", "driver", valid=True)
            spec.update(opt)
            total = sum(len(tx) for _, tx in cx.S.ideal(spec, creds, True)[2])
            pols = [{"type": "whole"}] + [rng.choice(policies(rng, total, 2, 2, bytewise=True)[1:]) for _ in range(n_random)]
            for pol in pols:
                drv = "base" if (ci + si) % 2 == 0 else "generic"
                one_login(cx, "key", "sync", "ssh", "generic" if drv == "generic" else "driver", spec, pol, creds,
                          via_driver=drv, judge="open", private_key=True)
                one_login(cx, "key", "async", "ssh", "driver", spec, pol, creds, judge="open")
            cx.count("key_logins", cname + " / " + sname)
    cx.rep.sample({"key_scenario": "Driver.open(), system transport, auth_private_key only; the server rejects the key and asks for a password",
                   "oracle": "open() ends in ScrapliAuthenticationFailed after at most two (empty) submissions; it never returns before the device prompt"})


def nlprompt_suite(cx, n):
    """prompt spellings that END with a line end: 'Username:\\n', 'Password: \\r\\n' (accepted by the patterns: \\s?$ under
    re.M) -- a device that leaves the cursor on the line after its prompt.  Telnet (login + password) and ssh (password),
    channel login and driver.open(), valid and rejected credentials, every chunking kind."""
    rng = cx.rep.rng
    for i in range(n):
        kind = "telnet" if i % 3 != 2 else "ssh"
        style = rng.choice(["channel", "driver", "generic"])
        valid = rng.random() < 0.7
        spec = gen_spec(rng, kind, style, valid=valid)
        which = rng.choice(["both", "both", "user", "pass"]) if kind == "telnet" else "pass"
        if kind == "telnet" and which in ("both", "user"):
            spec["user_prompt"] = rng.choice(USER_PROMPTS).rstrip(b" ") + rng.choice([b"", b" "]) + rng.choice([b"\n", b"\r\n"])
        if which in ("both", "pass"):
            spec["pass_prompt"] = rng.choice(PASS_PROMPTS).rstrip(b" ") + rng.choice([b"", b" "]) + rng.choice([b"\n", b"\r\n"])
        if kind == "ssh":
            spec["phrase_prompt"] = None
        creds = dict(CREDS) if valid else dict(WRONG)
        total = sum(len(tx) for _, tx in cx.S.ideal(spec, creds, kind == "ssh")[2])
        via = None if style == "channel" or i % 2 else ("generic" if style == "generic" else "base")
        for pol in policies(rng, total, 3, 2, bytewise=(i % 3 == 0)):
            for stack in ("sync", "async"):
                if via and kind == "ssh" and stack == "async":
                    continue
                one_login(cx, "nl-prompt", stack, kind, style, spec, pol, creds, via_driver=via)


# credential VALUES.  str, as a user writes them into an inventory; the device must receive value.encode() (UTF-8: what
# Channel.write documents, "string of input to send", encoded) and one return -- byte for byte
VAL_BLANKS = [" s3cret", "s3cret ", "  two  words  ", "\tpw", "pw\t", "pa ss\tword", " ", "\t \t", " lead and trail "]
VAL_PUNCT = ["100%s%d%", "%(name)s %", "back\\slash\\n", "c:\\temp\\", "q'uo\"te`", "it's", "\"quoted\"", "p.*w+(x)[y]{2}^$|?",
             "a\\d\\b[", "{0}{}", "$HOME;`id`", "#>$", "(?i)pw", "x|y", "^anchored$", "%", "\\"]
VAL_NONASCII = ["p\u00e4ss-w\u00f6rd-\u00df", "\u043f\u0430\u0440\u043e\u043b\u044c", "\u5bc6\u7801\U0001f511x", "caf\u00e9 ", "\u00a0nbsp\u00a0",
                " \u00fcber", "na\u00efve\t", "\u3000wide\u3000blank", "\u00ff\u0100"]
VAL_USERS = ["admin", " admin", "admin ", "ad min", "\tadmin", "\u00c4dmin", "user%s", "dom\\user", "o'brien", "u.*[a-z]+(x)?",
             "ping\u00fcino", "root\t", "\"ops\"", "svc-scrapli_01"]
NONASCII_LINES = ["Acc\u00e8s r\u00e9serv\u00e9 \u2013 toute connexion est journalis\u00e9e", "\u30b7\u30b9\u30c6\u30e0\u306f\u76e3\u8996\u3055\u308c\u3066\u3044\u307e\u3059",
                  "Zugriff nur f\u00fcr Befugte \u2714", "\u00a9 2024 r\u00e9seau \u00ab core \u00bb"]
VAL_CHARS = "abcdefghijklmnopqrstuvwxyzABCDEFGHIJKLMNOPQRSTUVWXYZ0123456789 %\\'\"-_+=."


def gen_value(rng, thorough=False):
    r = rng.random()
    if r < 0.30:
        return rng.choice(VAL_BLANKS)
    if r < 0.52:
        return rng.choice(VAL_PUNCT)
    if r < 0.70:
        return rng.choice(VAL_NONASCII)
    if r < 0.75:
        return ""
    if r < 0.85:
        n = rng.choice([64, 255, 1024] + ([4096, 9000] if thorough else []))
        return "".join(rng.choice(VAL_CHARS) for _ in range(n))
    # a plain word padded with blanks / tabs on either side
    return "".join(rng.choice(" \t") for _ in range(rng.randint(0, 2))) + rng.choice(["S3cret!pw", "k3y phrase", "pw", "\u00fcber"]) + \
        "".join(rng.choice(" \t") for _ in range(rng.randint(0, 2)))


def value_scenarios(rng, n_random, thorough):
    """-> [(kind, stack, driver | None, spec, creds)].  A fixed part (the same on every seed: every login kind / stack /
    driver x a blank in front, a tab behind, a trailing newline on the last credential asked) and a random part"""
    out = []

    def spec_for(kind, creds, valid, phrase=False):
        sp = gen_spec(rng, kind, "driver", valid=valid)
        if rng.random() < 0.35:
            # "any banner text": a banner / MOTD line that is not ASCII either (UTF-8, cut anywhere by the chunkings)
            line = rng.choice(NONASCII_LINES).encode() + sp["nl"]
            if rng.random() < 0.5:
                sp["banner"] = sp["banner"] + line
            else:
                sp["motd"] = line + sp["motd"]
        if kind == "ssh":
            sp["phrase_prompt"] = rng.choice(PHRASE_PROMPTS) if phrase else None
            sp["phrase_tries"] = 3
        if valid:
            # the account on the device has the configured value (a line-based device never sees the newline itself)
            sp["valid"] = {k: v.rstrip(b"\n") for k, v in creds.items()}
        return sp

    combos = [("telnet", "sync", "base"), ("telnet", "async", "base"), ("ssh", "sync", "base"), ("telnet", "sync", "generic"),
              ("telnet", "async", "generic"), ("ssh", "sync", "generic"), ("ssh", "async", None)]
    fixed = [" s3cret", "s3cret\t", "S3cret!pw\n"]
    for ci, (kind, stack, drv) in enumerate(combos):
        for vi, v in enumerate(fixed):
            if (ci + vi) % 3 == 2 and not thorough:
                continue
            phrase = kind == "ssh" and (ci + vi) % 2 == 0
            creds = {"user": b"admin", "pass": b"S3cret!pw" if phrase else v.encode(), "phrase": v.encode() if phrase else b"k3y phrase"}
            out.append((kind, stack, drv, spec_for(kind, creds, True, phrase), creds))
    import random
    long_value = "".join(random.Random(5).choice(VAL_CHARS) for _ in range(2048)) + " "
    for (kind, stack, drv), v in zip([combos[1], combos[2], combos[3], combos[6]],
                                     [long_value, "\u043f\u0430\u0440\u043e\u043b\u044c \u00a0", "100%s \\n\\ 'q\"` ", "\tp\u00e4ss w\u00f6rd"]):
        creds = {"user": b"admin", "pass": v.encode(), "phrase": b"k3y phrase"}
        out.append((kind, stack, drv, spec_for(kind, creds, True, False), creds))
    for i in range(n_random):
        kind, stack, drv = combos[i % len(combos)] if i < 2 * len(combos) else rng.choice(combos)
        phrase = kind == "ssh" and rng.random() < 0.6
        valid = rng.random() < 0.7
        plain = rng.random() < 0.4          # only one of the values is unusual
        which = rng.choice(["pass", "pass", "phrase" if phrase else "pass", "user" if kind == "telnet" else "pass"])
        vals = {"user": rng.choice(VAL_USERS) if (kind == "telnet" and (not plain or which == "user")) else "admin",
                "pass": gen_value(rng, thorough=thorough) if (not plain or which == "pass") else "S3cret!pw",
                "phrase": gen_value(rng, thorough=thorough) if (phrase and (not plain or which == "phrase")) else "k3y phrase"}
        creds = {k: v.encode() for k, v in vals.items()}
        if not valid and creds == CREDS:
            valid = True
        out.append((kind, stack, drv, spec_for(kind, creds, valid, phrase), creds))
    return out


def values_suite(cx, n_random, salt=0):
    """whole open() of Driver / GenericDriver / AsyncDriver / AsyncGenericDriver (asyncio ssh: the AsyncChannel login) with
    credential VALUES that tempt a driver to normalise them: leading / trailing / inner blanks and tabs, empty, long, '%',
    backslashes, quotes, non-ASCII (str -> bytes), regex metacharacters, a trailing newline; accepted and rejected by the
    device; chunkings incl. a device that is quiet for a poll interval after every answer.  Oracle: judge_values."""
    import random
    thorough = cx.rep.tier == "thorough"
    rng = random.Random(cx.rep.seed * 7919 + 90901 + 97 * salt)
    scens = value_scenarios(rng, n_random, thorough)
    for si, (kind, stack, drv, spec, creds) in enumerate(scens):
        total = sum(len(tx) for _, tx in cx.S.ideal(spec, creds, kind == "ssh")[2])
        pols = [{"type": "whole"}, rng.choice(policies(rng, total, 2, 2, bytewise=total < 400)[1:])]
        if si % 3 == 0:
            q = dict(pols[rng.randint(0, 1)])
            q["quiet"] = [1, 1500 if kind == "telnet" else 1000]
            pols.append(q)
        for pol in pols:
            style = "driver" if drv in (None, "base") else "generic"
            r = one_login(cx, "values", stack, kind, style, spec, pol, creds, via_driver=drv, judge="values")
        if si == 1:
            cx.rep.sample({"values_scenario": "%s/%s open() via %s" % (kind, stack, drv or "AsyncChannel login"),
                           "configured": {k: v.decode("utf-8") for k, v in creds.items()},
                           "device_received": [[st, b.decode("utf-8", "replace")] for st, b in r[0]["raw"]], "outcome": r[0]["outcome"]})
    cx.dist["value_kinds"] = {
        "leading_or_trailing_blank": sum(1 for *_, c in scens if any(v != v.strip() for v in c.values())),
        "non_ascii": sum(1 for *_, c in scens if any(max(v, default=0) > 127 for v in c.values())),
        "empty": sum(1 for *_, c in scens if any(v == b"" for v in c.values())),
        "long(>=255)": sum(1 for *_, c in scens if any(len(v) >= 255 for v in c.values())),
        "trailing_newline": sum(1 for *_, c in scens if any(v.endswith(b"\n") for v in c.values())),
        "percent_backslash_quote": sum(1 for *_, c in scens if any(set(b"%\\'\"") & set(v) for v in c.values())),
        "rejected_by_device": sum(1 for _, _, _, sp, c in scens if {k: v.rstrip(b"\n") for k, v in c.items()} != sp["valid"])}


def quiet_suite(cx, n, salt=0):
    """a device that goes quiet right after the client answered a prompt -- for one or two read-poll intervals (asyncio:
    wait_for expires, timeout_ops/20 on telnet, 1 s on ssh; sync: read() returns nothing) and less than the telnet kick
    interval where possible -- before it prints its reaction: every prompt is still answered once (judge_login)"""
    import random
    rng = random.Random(cx.rep.seed * 7919 + 90902 + 97 * salt)
    for i in range(n):
        kind = "telnet" if i % 2 == 0 else "ssh"
        style = rng.choice(["channel", "driver", "generic"])
        valid = rng.random() < 0.7
        spec = gen_spec(rng, kind, style, valid=valid)
        creds = dict(CREDS) if valid else dict(WRONG)
        total = sum(len(tx) for _, tx in cx.S.ideal(spec, creds, kind == "ssh")[2])
        timeout_ops = rng.choice([30.0, 30.0, 10.0, 60.0])
        poll = int(timeout_ops * 50) if kind == "telnet" else 1000
        base = [{"type": "whole"}, rng.choice(policies(rng, total, 3, 3, bytewise=True)[1:])]
        for b in base:
            pol = dict(b)
            pol["quiet"] = rng.choice([[1, poll], [1, poll], [2, poll // 2], [1, poll + 1], [2, poll], [3, poll // 3]])
            for stack in ("sync", "async"):
                one_login(cx, "quiet", stack, kind, style, spec, pol, creds, timeout_ops=timeout_ops, max_reads=2000)


HIST_COMBOS = [("telnet", "sync", "channel"), ("telnet", "sync", "driver"), ("telnet", "async", "channel"),
               ("telnet", "async", "driver"), ("ssh", "sync", "channel"), ("ssh", "sync", "driver"), ("ssh", "async", "channel")]


def gen_history(rng, kind, style, shape, valid=True):
    """sessions of one history: shape = list of 0/1 (1: the device re-prompts once in that login)"""
    sessions = []
    for reprompt in shape:
        sp = gen_spec(rng, kind, style, valid=True)
        if kind == "ssh" and reprompt:
            sp["phrase_prompt"] = sp["phrase_prompt"] or rng.choice(PHRASE_PROMPTS)
            sp["phrase_tries"] = 3
        if reprompt:
            sp["reject_first"] = 1
        total = sum(len(tx) for _, tx in ideal_of(sp, kind))
        pol = rng.choice([{"type": "whole"}, {"type": "bytes", "n": rng.choice([1, 2, 5, 16])},
                          {"type": "cuts", "at": sorted(rng.sample(range(1, max(3, total)), 2))}])
        sessions.append((sp, pol))
    return sessions


def ideal_of(sp, kind):
    from . import c09_sim as S
    return S.ideal(sp, CREDS, kind == "ssh")[2]


def one_history(cx, suite, stack, kind, level, style, sessions, creds, driver="base", timeout_ops=30.0):
    """several logins on ONE channel / driver object; every login is judged as a login of its own (judge_login against what a
    correct client obtains from THAT session): whatever the earlier logins on the object did must not matter"""
    S, rep = cx.S, cx.rep
    interval_ms = cx.intervals.setdefault(timeout_ops, interval_of(S, timeout_ops))
    results = S.run_history(stack, kind, sessions, creds, level=level, driver=driver, prompt=cx.prompt_text[style], timeout_ops=timeout_ops)
    pc = cx.pycfg(kind, style)
    base = {"suite": suite, "stack": stack, "kind": kind, "style": style, "level": level, "driver": driver,
            "sessions": [{"spec": spec_json(sp), "policy": pol} for sp, pol in sessions],
            "creds": {k: v.hex() for k, v in creds.items()}, "timeout_ops": timeout_ops}
    all_fails = []
    for i, ((spec, pol), res) in enumerate(zip(sessions, results)):
        general, fails, region, hz = judge_login(S, kind, spec, creds, res, pc, interval_ms, int(timeout_ops * 1000), "raise", None)
        cx.dist["runs"] += 1
        cx.count("by_suite", suite)
        cx.count("by_region", region)
        cx.count("by_outcome", res["outcome"])
        cx.count("by_kind_stack", "%s/%s/history-%s" % (kind, stack, level))
        cx.count("history_login_index", str(i + 1))
        rep.case((suite, kind, style, stack, level, i, json.dumps(base["sessions"][:i + 1], sort_keys=True), creds["pass"]),
                 nontrivial=len(res["writes"]) > 0 and i > 0)
        scen = dict(base)
        scen["login_index"] = i
        got = report_login(cx, kind, stack, region, general, fails, scen, res, hz,
                           label="login #%d of %d on one %s object" % (i + 1, len(sessions), level))
        all_fails.append(got)
    pid = PROMPT_IDS[style]
    if all(closed_loop_eligible(r, interval_ms) for r in results):
        cx.add_term(case_h(kind, pid, creds, interval_ms, results), base)
        cx.count("by_model", "history (hist_cl)")
    else:
        for res in results:
            cx.add_term(case_b(kind, pid, creds, interval_ms, res, stack, "raise"), base)
            cx.count("by_model", "open-loop (run_raw)")
    return results, all_fails


def history_suite(cx, n_random, max_len):
    """open, close, open ... on ONE object with valid credentials: three plain logins, a login with one re-prompt followed by
    plain ones, random shapes; sync and asyncio, telnet and ssh, the channel's login method and driver.open()/close()"""
    rng = cx.rep.rng
    for kind, stack, level in HIST_COMBOS:
        shapes = [[0, 0, 0], [1, 0, 0]] + [[rng.choice([0, 0, 1]) for _ in range(rng.randint(2, max_len))] for _ in range(n_random)]
        for hi, shape in enumerate(shapes):
            drv = "base" if hi % 2 == 0 else "generic"
            style = "channel" if level == "channel" else ("generic" if drv == "generic" else "driver")
            sessions = gen_history(rng, kind, style, shape)
            results, _ = one_history(cx, "history", stack, kind, level, style, sessions, dict(CREDS), driver=drv)
            if (kind, stack, level, hi) == ("telnet", "sync", "driver", 1):
                cx.rep.sample({"history": "one Driver object: open/close x %d, login #1 re-prompted once" % len(shape),
                               "outcomes": [r["outcome"] for r in results],
                               "typed": [[[s, l.decode("latin-1")] for s, l, _ in r["log"]] for r in results]})
    # rejected credentials: every login of the history gives up after exactly two submissions
    for kind, stack, level in HIST_COMBOS[:4]:
        sessions = gen_history(rng, kind, "channel" if level == "channel" else "driver", [0, 0])
        one_history(cx, "history", stack, kind, level, "channel" if level == "channel" else "driver", sessions, dict(WRONG))


def fatal_suite(cx):
    """every ssh client message of the independent list ends the login in the read that completes it"""
    rng = cx.rep.rng
    for ft in FATAL_TEXTS:
        for where in ("start", "after-password"):
            spec = gen_spec(rng, "ssh", "channel", valid=(where == "start"))
            if where == "start":
                spec["fatal_start"] = ft
                creds = dict(CREDS)
            else:
                spec["phrase_prompt"] = None
                spec["reject"] = ft
                creds = dict(WRONG)
            total = sum(len(tx) for _, tx in cx.S.ideal(spec, creds, True)[2])
            for pol in policies(rng, total, 4, 1, bytewise=True):
                for stack in ("sync", "async"):
                    one_login(cx, "fatal", stack, "ssh", "channel", spec, pol, creds)


SNIPPETS = [b"login:", b"Login: ", b"username:", b"Username: ", b"password:", b"Password: ", b"admin@r1's password: ",
            b"enter passphrase for key '/k': ", b"r1#", b"r1>", b"\n", b" ", b"\r\n", b"junk", b"Last login: Tue",
            b"permission denied", b"WARNING: UNPROTECTED PRIVATE KEY FILE!", b"\r", b"x", b"Host key verification failed.",
            b"a$", b"\nr1#", b"\nlogin: ", b"\nPassword:", b"ok\n", b"LOGIN:", b"PASSWORD:"]


def gen_events(rng, interval_ms):
    n = rng.randint(1, 14)
    evs = []
    t = 0
    for _ in range(n):
        r = rng.random()
        t += rng.choice([0, 0, 1, interval_ms // 3, interval_ms, interval_ms + 1])
        if r < 0.62:
            b = b"".join(rng.choice(SNIPPETS) for _ in range(rng.randint(1, 3)))
            if rng.random() < 0.3 and len(b) > 1:
                c = rng.randint(1, len(b) - 1)
                evs.append(("data", b[:c], t))
                evs.append(("data", b[c:], t))
            else:
                evs.append(("data", b, t))
        elif r < 0.74:
            evs.append(("data", rng.choice([b"", b"\r", b"\r\r"]), t))
        elif r < 0.9:
            evs.append(("expire", t))
        else:
            evs.append(("err",))
    return evs


def events_suite(cx, n):
    S, rep = cx.S, cx.rep
    rng = rep.rng
    corpus = [("telnet", [("data", b"login:", 0)] * 3 + [("data", b"r1#", 0)]),
              ("telnet", [("data", b"login: password: r1#", 0)]),
              ("telnet", [("expire", 2999), ("expire", 3001), ("data", b"", 3002), ("expire", 6001), ("data", b"\r", 9001), ("data", b"login:", 0)]),
              ("telnet", [("err",), ("err",), ("expire", 3001), ("expire", 6001), ("expire", 9001)]),
              ("ssh", [("data", b"WARNING: UNPROTECTED PRIVATE KEY FILE!", 0), ("data", b"password:", 0)]),
              ("ssh", [("data", b"password:", 0), ("data", b"Permission den", 0), ("data", b"IED, please", 0), ("data", b"password:", 0)]),
              ("ssh", [("err",), ("data", b"r1#", 0)]),
              ("ssh", [("expire", 99999), ("data", b"enter passphrase for key", 0), ("data", b"password:", 0), ("data", b"\nr1#", 0)])]
    for i in range(n + len(corpus)):
        timeout_ops = rng.choice([30.0, 30.0, 10.0, 60.0, 0])
        interval_ms = cx.intervals.setdefault(timeout_ops, interval_of(S, timeout_ops))
        if i < len(corpus):
            kind, evs = corpus[i]
        else:
            kind = "telnet" if rng.random() < 0.6 else "ssh"
            evs = gen_events(rng, interval_ms)
        style = rng.choice(["channel", "driver"])
        pc = cx.pycfg(kind, style)
        for stack in ("sync", "async"):
            res = S.run_events(stack, kind, evs, CREDS, prompt=cx.prompt_text[style], timeout_ops=timeout_ops)
            cx.dist["runs"] += 1
            cx.count("by_suite", "events")
            cx.count("by_outcome", res["outcome"])
            cx.count("by_kind_stack", kind + "/" + stack)
            rep.case(("events", kind, style, stack == "sync", repr(evs), timeout_ops), nontrivial=len(res["writes"]) > 0)
            scen = {"suite": "events", "stack": stack, "kind": kind, "style": style, "timeout_ops": timeout_ops,
                    "events": [[e[0]] + [x.hex() if isinstance(x, bytes) else x for x in e[1:]] for e in evs]}
            if i == len(corpus) + 1 and stack == "sync":
                rep.sample({"event_script": [[e[0]] + [x.decode("latin-1") if isinstance(x, bytes) else x for x in e[1:]] for e in evs],
                            "kind": kind, "timeout_ops": timeout_ops, "outcome": res["outcome"],
                            "writes": [w.decode("latin-1") for w in res["writes"]]})
            cx.add_term(events_term(kind, PROMPT_IDS[style], CREDS, interval_ms, evs, stack, res), scen)
            fails = list(S.safety_oracle(kind, res, CREDS, pc))
            seen = []
            for e in evs:
                if e[0] == "data":
                    seen.append(("empty" if not e[1].replace(b"\r", b"") else "data", e[2]))
                elif e[0] == "expire":
                    seen.append(("empty", e[1]))
                else:
                    seen.append(("err", 0))
            if timeout_ops:
                fails += kick_oracle(kind, seen, res["hist"], CREDS, int(timeout_ops * 100))
            else:
                fails += kick_oracle_zero(kind, seen, res["hist"], CREDS)
            if fails:
                scen2 = dict(scen)
                scen2.update({"failures": fails, "observed": {"outcome": res["outcome"], "writes": [w.hex() for w in res["writes"]]}})
                if cx.violations < 12:
                    rep.violation("%s/%s login on an event script: %s" % (kind, stack, "; ".join(fails)[:400]), scen2)
                cx.violations += 1


def handler_suite(cx, n):
    """the model's fatal predicate (handler literals of Gen_Auth.v) against the real _ssh_message_handler, and the
    independent list: every message of that list must raise on the lower-cased buffer the login loop passes"""
    S, rep = cx.S, cx.rep
    rng = rep.rng
    from scrapli.exceptions import ScrapliAuthenticationFailed
    ch = cx.S.Channel(transport=S.SyncT(S.NullServer(), {"type": "whole"}), base_channel_args=S.channel_args(None))
    bufs = [ft for ft in FATAL_TEXTS] + [ft.lower() for ft in FATAL_TEXTS] + [b"", b"all good", b"permission granted", b"no route", b"denied"]
    for _ in range(n):
        b = b" ".join(rng.choice(SNIPPETS + FATAL_TEXTS) for _ in range(rng.randint(1, 3)))
        if rng.random() < 0.3 and b:
            b = b[:rng.randint(0, len(b))]
        bufs.append(b)
    for b in bufs:
        low = b.lower()
        try:
            ch._ssh_message_handler(output=low)
            raised = False
        except ScrapliAuthenticationFailed:
            raised = True
        cx.add_term("(CaseF %s %s)" % (coq_bytes(low), "true" if raised else "false"), {"suite": "handler", "buffer": low.hex()})
        rep.case(("handler", low), nontrivial=raised)
        want = S.fatal_end(low) is not None
        if raised != want:
            cx.violations += 1
            if cx.violations <= 12 and rep.violation("_ssh_message_handler on the login buffer %r: raised=%s, the ssh message list says %s" % (low[:60], raised, want),
                             {"suite": "handler", "buffer": low.hex(), "want": want}):
                pass


def dlgok_suite(cx, n):
    """the python reading of dlg_ok (re) against the Coq one (derivative engine) on small dialogues"""
    S, rng = cx.S, cx.rep.rng
    n_ok = 0
    for i in range(n):
        kind = "telnet" if rng.random() < 0.7 else "ssh"
        style = rng.choice(["channel", "driver"])
        nl = b"\n"
        hz = rng.random() < 0.4
        if kind == "telnet":
            segs = [("login", (rng.choice([b"hi\n", b"", b"Last login: x\n" if hz else b"ok\n"])) + rng.choice([b"login: ", b"Username:"])),
                    ("password", b"u\n" + rng.choice([b"Password: ", b"password:"])),
                    ("shell", rng.choice([b"\nok\n", b"\n", b"\nlast login: tue\n" if hz else b"\n\n"]) + rng.choice([b"r1#", b"a>"]))]
        else:
            segs = [("password", rng.choice([b"", b"warn: x\n"]) + rng.choice([b"u@h's password: ", b"Password:"])),
                    rng.choice([("shell", b"\nr1#"), ("password", b"\nPermission denied, please try again.\nu@h's password: "),
                                ("shell", b"\ncost:5$ x\nr1#" if hz else b"\nhello\nr1#")])]
        pc = cx.pycfg(kind, style)
        want = S.dlg_ok_all(pc, segs)
        n_ok += bool(want)
        code = {"user": 1, "pass": 2, "phrase": 3, "shell": 4, "fatal": 5}
        terms = ["(%s, %d)" % (coq_bytes(tx), code[S.expectation(kind, st, tx)]) for st, tx in segs]
        cx.add_term("(CaseD %d %d %s %s)" % (0 if kind == "telnet" else 1, PROMPT_IDS[style], coq_list(terms), "true" if want else "false"),
                    {"suite": "dlg_ok", "kind": kind, "style": style, "segments": [[s, t.hex()] for s, t in segs], "want": want})
        cx.rep.case(("dlg_ok", kind, style, repr(segs)), nontrivial=want)
    cx.dist["dlg_ok_true"] = n_ok
    cx.dist["dlg_ok_checked"] = n


def known_suite(cx):
    """replay the listed findings; report them if they still fail that way"""
    S, rep = cx.S, cx.rep
    for f in rep.findings:
        path = os.path.join(common.VERIF, f.get("replay", ""))
        if not f.get("replay") or not os.path.exists(path):
            continue
        sc = json.load(open(path))
        if sc.get("suite") == "handler":
            continue
        res, fails, region = replay_login(cx, sc)
        rep.case(("finding", f["id"]))
        # one_login has reported it: under the finding's signature if it still fails in that region (KNOWN-FINDING),
        # as a violation if a fixed finding fails again or a known one fails in another way
        if f.get("kind") == "known" and not fails:
            rep.notes.append("known finding %s no longer reproduces" % f["id"])
        cx.dist.setdefault("findings_replayed", {})[f["id"]] = {"region": region, "fails": len(fails)}


def replay_login(cx, sc):
    if "sessions" in sc:
        sessions = [(spec_unjson(x["spec"]), x["policy"]) for x in sc["sessions"]]
        creds = {k: bytes.fromhex(v) for k, v in sc["creds"].items()}
        results, all_fails = one_history(cx, sc.get("suite", "replay"), sc["stack"], sc["kind"], sc["level"], sc["style"], sessions,
                                         creds, driver=sc.get("driver", "base"), timeout_ops=sc.get("timeout_ops", 30.0))
        i = sc.get("login_index", 0)
        res = dict(results[i])
        res["history"] = results
        return res, [f for fs in all_fails for f in fs], "history"
    spec = spec_unjson(sc["spec"])
    creds = {k: bytes.fromhex(v) for k, v in sc["creds"].items()}
    return one_login(cx, sc.get("suite", "replay"), sc["stack"], sc["kind"], sc["style"], spec, sc["policy"], creds,
                     timeout_ops=sc.get("timeout_ops", 30.0), eof=sc.get("eof", "raise"), via_driver=sc.get("via_driver"),
                     max_reads=sc.get("max_reads", 5000), judge=sc.get("judge", "login"),
                     private_key=bool(sc.get("private_key")))


# ------------------------------------------------------------------------------------------------
def run(rep):
    from gen import gen_auth

    thorough = rep.tier == "thorough"
    # 1. regenerate from the source
    info = None
    try:
        _, info = gen_auth.generate(rep.workdir)
        rc, out, _ = common.coqc(os.path.join(rep.workdir, "Gen_Auth.v"), rep.workdir)
        if rc:
            rep.broken.append("Gen_Auth.v")
            rep.notes.append(out[-2000:])
        for m in info.get("shape_errors", []):
            rep.broken.append("gen_auth: loop shape not recognised: " + m)
    except Exception as e:  # translator aborted: broken tie
        rep.broken.append("gen_auth: %s: %s" % (type(e).__name__, e))
    # 2. proofs
    ok, _ = rep.build_static()
    rep.add_static_obligations("props/C09.v", ok)
    if not ok:
        rep.broken.append("static-build")
    gen_ok = info is not None and "Gen_Auth.v" not in rep.broken
    if ok and gen_ok:
        rep.compile_props("props/C09.v")
    if info is None:
        # the patterns could not even be read: fall back to what the oracles need, straight from the classes
        info = {"patterns": {"prompt_driver": [None, 0], "prompt_generic": [None, 0]}}
        try:
            from scrapli.driver.base.base_driver import BaseDriver
            from scrapli.driver.generic.sync_driver import GenericDriver
            info["patterns"]["prompt_driver"][0] = gen_auth.default_of(BaseDriver, "comms_prompt_pattern")
            info["patterns"]["prompt_generic"][0] = gen_auth.default_of(GenericDriver, "comms_prompt_pattern")
        except Exception:  # noqa
            info["patterns"]["prompt_driver"][0] = r"^[a-z0-9.\-@()/:]{1,48}[#>$]\s*$"
            info["patterns"]["prompt_generic"][0] = r"^\S{0,48}[#>$~@:\]]\s*$"
    # 3. regex conformance of the translated patterns
    if gen_ok:
        try:
            from . import regexconf
            pats = [(k, v[0].encode("latin-1"), v[1]) for k, v in info["patterns"].items()]
            regexconf.run(rep, pats, 60 if thorough else 18, name="rx_c09", with_sub=True)
        except Exception as e:  # noqa
            rep.broken.append("regex-conformance: %s" % e)
    # 4. correspondence + oracles
    cx = Ctx(rep, info)
    cx.intervals = {}
    with cx.S.scripted_world():
        known_suite(cx)
        handler_suite(cx, 200 if thorough else 40)
        fatal_suite(cx)
        corpus_suite(cx, double_cuts=thorough)
        quiet_suite(cx, 60 if thorough else 12)
        login_suite(cx, 100 if thorough else 20, None if thorough else 24, 8 if thorough else 4, 2 if thorough else 3)
        hazard_suite(cx, 15 if thorough else 5)
        window_suite(cx, 80 if thorough else 20, budget=1200000 if thorough else 70000)
        if thorough:
            window_suite(cx, 10, salt=2, full=True, budget=300000)
        kick_suite(cx, 500 if thorough else 100)
        driver_suite(cx, 40 if thorough else 10)
        open_suite(cx, 3 if thorough else 1)
        key_suite(cx, 3 if thorough else 1)
        nlprompt_suite(cx, 40 if thorough else 10)
        values_suite(cx, 150 if thorough else 36)
        history_suite(cx, 6 if thorough else 1, 6 if thorough else 4)
        events_suite(cx, 3000 if thorough else 500)
        dlgok_suite(cx, 150 if thorough else 30)
        broken_before = list(rep.broken)
        bad = None
        cx.merge_heavy()
        if gen_ok and ok:
            bad, log = common.eval_cases(rep.workdir, "cases_c09", HEADER, cx.terms, "chk", shard=max(40, len(cx.terms) // (common.JOBS * 2) + 1))
            cx.dist["coq_cases"] = len(cx.terms)
            if bad is None:
                rep.broken.append("correspondence login (model evaluation failed)")
                rep.notes.append(log)
            elif bad:
                kinds = {}
                for ix in bad:
                    kinds[cx.meta[ix].get("suite")] = kinds.get(cx.meta[ix].get("suite"), 0) + 1
                rep.broken.append("correspondence login: model differs from implementation on %d case(s) %r" % (len(bad), kinds))
                for ix in bad[:4]:
                    rep.notes.append("disagreement: %s" % json.dumps(cx.meta[ix])[:1500])
        # 5. something no longer checks and no oracle has failed yet: search for a failing input
        if rep.broken and not rep.violations:
            nb = len(rep.notes)
            if bad:
                for ix in bad[:6]:
                    m = cx.meta[ix]
                    if m.get("suite") in ("events", "handler", "dlg_ok") or "spec" not in m:
                        continue
                    spec = spec_unjson(m["spec"])
                    creds = {k: bytes.fromhex(v) for k, v in m["creds"].items()}
                    total = 120
                    for pol in policies(rep.rng, total, 30, 6, bytewise=True):
                        for stack in ("sync", "async"):
                            if m.get("via_driver") and m["kind"] == "ssh" and stack == "async":
                                continue
                            one_login(cx, "search", stack, m["kind"], m["style"], spec, pol, creds, timeout_ops=m.get("timeout_ops", 30.0),
                                      eof=m.get("eof", "raise"), via_driver=m.get("via_driver"), max_reads=m.get("max_reads", 5000),
                                      judge=m.get("judge", "login"), private_key=bool(m.get("private_key")))
                    if rep.violations:
                        break
            if not rep.violations:
                # (on the real code only: the model has been evaluated)
                window_suite(cx, 30, salt=1, full=True, budget=0)
            if not rep.violations:
                login_suite(cx, 10, 40, 6, 1, label="search")
                hazard_suite(cx, 3)
                kick_suite(cx, 80)
                driver_suite(cx, 6)
                open_suite(cx, 2)
                key_suite(cx, 2)
                nlprompt_suite(cx, 12)
                values_suite(cx, 60, salt=1)
                quiet_suite(cx, 20, salt=1)
                history_suite(cx, 3, 5)
                events_suite(cx, 300)
            del rep.notes[nb + 6:]
    cx.dist["oracle_failures"] = cx.violations
    rep.coverage["correspondence"] = {"suite": "login", "cases_evaluated_by_the_model": cx.dist["coq_cases"],
                                      "model_disagreements": None if bad is None else len(bad), "distribution": cx.dist}
    rep.coverage["generated_from"] = common.source_hashes(SOURCES)
    rep.coverage["generated"] = {k: info.get(k) for k in ("patterns", "fatal", "intervals_ms") if k in info}
    rep.coverage["loops"] = info.get("loops")
    rep.rule = ("login: causal login-server dialogues (banner / ssh warnings, prompt spellings, echo, MOTD, shell prompt; valid and rejected "
                "credentials; servers re-prompting forever or 3-4 times; passphrase, password, fatal ssh messages) x chunkings (whole, "
                "1-byte, single cuts, random multi-cuts and size lists, empty reads) x sync/asyncio x three default prompt patterns; "
                "hazard: lines whose prefix looks like a prompt; kick: empty reads with clock readings around k*interval, connection "
                "errors, hang-ups, timeout_ops 30/10/60/0; driver: GenericDriver/Driver.open(); key: Driver/GenericDriver.open() over "
                "the system transport with auth_private_key + {nothing, passphrase, wrong passphrase, password} x server {accepts the "
                "key, rejects it and asks for a password (fatal / soft re-prompt lines, 1-4 tries), fatal client message, passphrase "
                "prompt} x chunkings (asyncio: the AsyncChannel login); nl-prompt: login / password prompts ending in LF / CRLF; open: Driver / GenericDriver / "
                "AsyncDriver / AsyncGenericDriver.open() (telnet, system-style ssh; asyncio ssh: the AsyncChannel login) x all 8 "
                "combinations of configured/empty user name, password, passphrase x dialogues asking for each of them (login+password, "
                "password only, ssh password, passphrase with/without 'empty skips the key') x chunkings; values: the same open() "
                "calls with credential VALUES a driver might be tempted to normalise (leading / trailing / inner blanks and tabs, "
                "NBSP / U+3000, empty, 64-2048 (thorough 9000) characters, '%', backslash, quotes, non-ASCII (UTF-8), regex "
                "metacharacters, a trailing newline on the last credential asked), accepted and rejected by the device, a third of the "
                "dialogues with a non-ASCII (UTF-8) banner / MOTD line, a fixed part "
                "on every seed + a random part; quiet: the device says nothing for 1-3 read polls (clock + poll/3 .. poll+1 ms each, "
                "timeout_ops 10/30/60) right after every line the client sends; history: 2-4 (thorough 2-6) "
                "logins on ONE channel / driver object (open, close, open ...), plain and with one re-prompt, valid and rejected "
                "credentials, sync/asyncio, telnet/ssh; window: banners of search depth - 40 .. + 40 bytes (default 1000 and "
                "comms_prompt_search_depth 100 .. 2000; 6 fixed dialogues on every seed + random ones, every fifth of those with "
                "one or two more search depths of harmless lines in front) with a non-prompt line "
                "ending like a prompt (fixed and random tails) placed at every offset relative to the last-depth-bytes window "
                "x read boundaries at every position of the last 80 banner bytes and of the first prompt (all in one run; the "
                "banner as one read; single boundaries: one that puts the window edge inside the tail + random ones, thorough / "
                "failing-input search: each of them) x small fixed read sizes x sync/asyncio x channel login / driver.open(); events: open-loop scripts of prompt "
                "snippets; non-trivial = something was written and more than one read; distinct = (suite, dialogue, chunking, credentials)")


def replay(path):
    from . import c09_sim as S
    from gen import gen_auth
    sc = json.load(open(path))
    if sc.get("no_failing_input_found") or "suite" not in sc:
        print("nothing to replay (no concrete input): %s" % sc.get("what"))
        return 1
    rep = common.Report("C09", "quick", 0)
    rep.findings = []            # a replay judges the input on its own
    with S.scripted_world():
        if sc["suite"] == "handler":
            from scrapli.exceptions import ScrapliAuthenticationFailed
            ch = S.Channel(transport=S.SyncT(S.NullServer(), {"type": "whole"}), base_channel_args=S.channel_args(None))
            b = bytes.fromhex(sc["buffer"])
            try:
                ch._ssh_message_handler(output=b)
                raised = False
            except ScrapliAuthenticationFailed:
                raised = True
            print("buffer %r raised=%s wanted=%s" % (b, raised, sc["want"]))
            bad = raised != sc["want"]
        elif sc["suite"] == "events":
            evs = [tuple([e[0]] + [bytes.fromhex(x) if isinstance(x, str) else x for x in e[1:]]) for e in sc["events"]]
            try:
                info = gen_auth.generate(rep.workdir)[1]
            except Exception:  # noqa
                info = {"patterns": {"prompt_driver": [r"^[a-z0-9.\-@()/:]{1,48}[#>$]\s*$"], "prompt_generic": [r"^\S{0,48}[#>$~@:\]]\s*$"]}}
            cx = Ctx(rep, info)
            res = S.run_events(sc["stack"], sc["kind"], evs, CREDS, prompt=cx.prompt_text[sc["style"]], timeout_ops=sc["timeout_ops"])
            fails = list(S.safety_oracle(sc["kind"], res, CREDS, cx.pycfg(sc["kind"], sc["style"])))
            seen = []
            for e in evs:
                if e[0] == "data":
                    seen.append(("empty" if not e[1].replace(b"\r", b"") else "data", e[2]))
                elif e[0] == "expire":
                    seen.append(("empty", e[1]))
                else:
                    seen.append(("err", 0))
            if sc["timeout_ops"]:
                fails += kick_oracle(sc["kind"], seen, res["hist"], CREDS, int(sc["timeout_ops"] * 100))
            else:
                fails += kick_oracle_zero(sc["kind"], seen, res["hist"], CREDS)
            print("events:", evs)
            print("outcome:", res["outcome"], "writes:", res["writes"])
            print("failures:", fails)
            bad = bool(fails)
        else:
            try:
                info = gen_auth.generate(rep.workdir)[1]
            except Exception:  # noqa
                info = {"patterns": {"prompt_driver": [r"^[a-z0-9.\-@()/:]{1,48}[#>$]\s*$"], "prompt_generic": [r"^\S{0,48}[#>$~@:\]]\s*$"]}}
            cx = Ctx(rep, info)
            cx.intervals = {}
            res, fails, region = replay_login(cx, sc)
            rcreds = {k: bytes.fromhex(v) for k, v in sc["creds"].items()}
            if "sessions" in sc:
                print("history of %d logins on ONE %s object (%s/%s), credentials %r:" % (len(sc["sessions"]), sc["level"], sc["kind"], sc["stack"], rcreds))
                for i, (x, r) in enumerate(zip(sc["sessions"], res["history"])):
                    want = S.ideal(spec_unjson(x["spec"]), rcreds, sc["kind"] == "ssh")
                    print("  login #%d: policy %s: outcome %s (a correct client: %s); typed %r" % (
                        i + 1, x["policy"], r["outcome"], want[0], [(s, l) for s, l, _ in r["log"]]))
            else:
                print("dialogue (as a correct client sees it):")
                for st, tx in S.ideal(spec_unjson(sc["spec"]), rcreds, sc["kind"] == "ssh")[2]:
                    print("   [%s] %r" % (st, tx))
                print("configured credentials:", rcreds, "via:", sc.get("via_driver") or "channel")
                print("policy:", sc["policy"], "stack:", sc["stack"], "region:", region)
            print("outcome:", res["outcome"])
            print("server log:", [(s, l) for s, l, _ in res["log"]])
            print("failures:", fails)
            bad = bool(fails)
    print("property FAILS on this input" if bad else "property holds on this input")
    return 1 if bad else 0


MANIFEST = {
    "category": "proof",
    "text": "Coq theorems over coq/model/Auth.v, ONE state machine for channel_authenticate_telnet/_ssh of both stacks over the list of "
            "read events (props/C09.v, all axiom-free). For EVERY read sequence / chunking and arbitrary match predicates: "
            "answer_after_prompt (each credential write is triggered by its own pattern on exactly what was read since the previous "
            "credential write; the buffer is empty right after), never_unprompted, at_most_twice, outcome_sound, third_sighting_raises "
            "and fatal_immediate (raise in the iteration that reads it, nothing written, nothing more read), kick_discipline (bare "
            "returns only on empty reads after k*interval, fewer than T/interval by time T, none on ssh), conn_error_branch. Closed loop "
            "with a causal login server, EVERY chunking schedule: closed_loop_correct, login_completes (valid credentials: returns with "
            "exactly one answer per prompt, in order, as soon as the text up to the shell prompt is delivered), rejected_gives_up (third "
            "prompt => ScrapliAuthenticationFailed after exactly two submissions, no timeout), rejected_fatal, silent_server_blocks. "
            "Histories of logins on ONE channel / driver object (hist_run / hist_cl, the carried counters depend on where the "
            "counters live): history_independent (counters local to the login function => every login of every history is a run "
            "from the initial state), history_every_login_completes (valid credentials, at most one re-prompt per login: EVERY "
            "login of EVERY history returns with exactly its answers), history_object_scope_refuted (counters on the object: the "
            "third accepted login raises); the scope is the generated fact C09_generated_counters_local (counters, login buffer and "
            "return attempts are locals bound in the preamble of each of the four login functions). "
            "Full statements that are false are refuted by vm_compute witnesses and kept with their partial versions: the proviso read "
            "line-by-line (MOTD 'Last login: Tue' read byte by byte, on the patterns of the current tree) and 'rejected => "
            "AuthenticationFailed' for a server that re-prompts only once. Tie: Gen_Auth.v regenerated on every run (compiled patterns "
            "via re._parser, handler literals and the AST shape of the four loops, kick interval by running the code) with obligations "
            "C09_generated_*; the model is run by vm_compute on the same dialogues/chunkings/event scripts as the real Channel / "
            "AsyncChannel / driver.open() and must reproduce the interleaved read/write history and the outcome class (histories: "
            "CaseH evaluates hist_cl with the generated counter scope on all logins of the history); independent "
            "oracles on the server log and on the history (python re): per credential 'written only after its own pattern, at most "
            "twice', device-side 'each prompt state only ever receives ITS credential or an empty line' for every configuration of "
            "set/empty credentials through the whole open() of the sync and asyncio drivers, byte-level device-side 'every write the "
            "device receives in a prompt state is the configured value of THAT credential as UTF-8 bytes, followed by one return, and "
            "the bytes received state by state are those a correct client types' for credential values with blanks / tabs / empty / "
            "long / %, backslash, quotes / non-ASCII / regex metacharacters / trailing newline through the whole open(), the same "
            "history oracles with a device that is quiet for one or more read polls after each answer (asyncio poll expiry, sync "
            "empty read), per login of a multi-login history "
            "'outcome and device log are those of the same login on a fresh object', and the login oracle (credentials only at "
            "their prompts, once; outcome and device log of a correct client, i.e. the login completes only at the real prompt) "
            "on login output LONGER than the prompt search depth: banners of comms_prompt_search_depth - 40 .. + 40 bytes "
            "(default 1000 and 100 .. 2000, also through the driver's setter and open(); some with one or two more search depths "
            "of harmless lines in front) that hold a line which is no prompt but "
            "ends like one ('<noc@example.com>', 'prices in US$', random tails of 1-40 prompt-class characters) at every offset "
            "relative to the last-depth-bytes window, with a read boundary at every position of the last 80 banner bytes and of "
            "the first prompt (all of them in one run, and one at a time). Public-key logins (suite key): Driver / GenericDriver"
            ".open() over the system transport with auth_private_key set and nothing else / the key's passphrase / a wrong "
            "passphrase / a password as well, against a server that accepts the key, rejects it and falls back to its password "
            "prompt (re-prompting with and without a fatal 'Permission denied' line, or hanging up), an ssh client that prints a "
            "fatal message, or asks for the key's passphrase: outcome and device log of a correct client (a login that cannot "
            "complete ends in ScrapliAuthenticationFailed AT OPEN, after at most two submissions) and 'open() returns only when a "
            "line of what it has read looks like a device prompt'. Prompt spellings that end with a line end ('Username:\\n', "
            "'Password: \\r\\n'; suite nl-prompt), telnet and ssh, channel login and open().",
    "note": "Section-variable style hypotheses (named in the theorems): empties (nothing matches the empty buffer: discharged for the "
            "patterns of the tree by C09_generated_empties), dlg_ok (no chunk-prefix of the dialogue provokes a reaction other than the "
            "one the server waits for: this is the region of the known partial-line finding), no_kick_sched (closed-loop theorems: the "
            "kick interval has not elapsed). Trusted: Coq kernel + vm_compute; gen/gen_auth.py + gen/regex.py; the regex derivative "
            "engine as semantics of re.search (regex-conformance suite on every run); the login-server simulator and scripted "
            "transports/clock of harness/c09_sim.py (asyncio.sleep inside async_channel is replaced by a zero sleep, poll expiry is "
            "raised by the scripted read); CR stripping of Channel.read is modelled (prep), ANSI stripping is not (generators avoid ESC). "
            "Which credential open() hands to which parameter of the login (Driver.open / AsyncDriver.open) is NOT modelled in Coq: "
            "the whole-open scenarios with empty credentials are covered by the oracles and by the correspondence with the model "
            "configured with the credentials the USER configured (a driver that hands over something else disagrees with it); "
            "there is no asyncio in-channel ssh transport, those scenarios call AsyncChannel.channel_authenticate_ssh as a driver "
            "would. WHETHER open() runs the in-channel login at all (system transport: always unless auth_bypass, also when only "
            "auth_private_key is configured) is likewise not modelled in Coq and not an obligation of gen_auth: the public-key "
            "scenarios (suite key) are oracle-only on that point -- the model is run on the reads/writes of the login that took "
            "place, and a login that was skipped shows up as an oracle failure (outcome / device log / prompt not seen) and as a "
            "disagreement with the model; the identity file is never read (the scripted transport replaces ssh). "
            "The credential-VALUE scenarios are covered the same way (oracle + correspondence with the model configured with "
            "the bytes the user configured; the str -> bytes encoding of Channel.write is not modelled in Coq, the model is handed "
            "the UTF-8 bytes); a value that contains a newline makes the line-based device react twice to one answer, which the "
            "closed-loop model (one phase per answer) does not cover: those runs are checked against the open-loop model (run_raw on "
            "the reads) and the device-side part is oracle-only; a newline is only generated at the end of the last credential the "
            "device asks for, with accepted credentials. Quiet gaps are empty reads / poll expiries of the scripted transport with "
            "a scripted clock (no real waiting), begun by a completed line and at most 12 per run. The history theorems assume what C09_generated_counters_local establishes for the tree (no login state on the "
            "object); other per-object state (ANSI partial, channel log) is outside the model, the history scenarios observe it only "
            "through the oracle. "
            "Search depth: the model has no comms_prompt_search_depth in the login, because the four loops of the tree never "
            "trim authenticate_buf (gen_auth's loop-shape obligation accepts only `authenticate_buf += buf.lower()`; a loop that "
            "keeps a window is refused there and the long-banner scenarios are then still run on the real code, in the main "
            "exploration and, exhaustively over the boundaries, in the failing-input search). The long-banner (window) runs are "
            "handed to the model only within a byte budget (vm_compute of the derivative engine costs ~0.1 ms per buffer byte "
            "and read: at most 12k buffer-bytes x reads per run, 70k per quick run, 1.5M thorough -- the single-boundary runs "
            "and the small-depth sweeps); the other window runs, notably the 80-boundary sweeps at depth >= 500, are "
            "oracle-only (coverage: by_model). Long output AFTER the last answer (a MOTD longer than the depth) is not generated: "
            "the oracle cannot tell an early return there from a correct one by the device log. "
            "Known findings: partial-line matches (login:/username:/password: or a shell-prompt-like prefix inside a longer line at a "
            "read boundary), server that re-prompts once then is silent.",
    "technique": "Coq proof by induction over the read-event list with a history invariant (trigger = data since the last answer) and over "
                 "the chunking schedule with a dialogue invariant; vm_compute correspondence against both real stacks over a causal "
                 "login-server simulator; AST/regex translation of the current source with compiled obligations",
}
