"""C18 — the factory builds what direct construction builds; connections are isolated.

proof: coq/proofs/Factory_Proofs.v (factory_eq_direct, falsy_take_effect, user_overrides_community,
rejects_unknown_and_mixups over ALL keyword dictionaries) and coq/proofs/Heap_Proofs.v (isolation
over ALL histories of constructing / mutating connections), props/C18.v.
tie: Gen_Factory.v regenerated from the source (signatures, _provided_args keys, transport tables,
platform maps, PRIVS / FAILED_WHEN_CONTAINS values) + correspondence of model/Factory.v against the
real Scrapli / AsyncScrapli (the (class, kwargs) the factory calls, and the built object's fields)
and of model/Heap.v against real connections under the same op histories (vm_compute), + two
property oracles on the implementation that do not use the model, + the behaviour oracle of
harness/c18_iso.py (construct / mutate / USE interleavings; every connection's answers against the same
connection alone, each run in a clean process; shared containers of classes / modules snapshotted), + the argument-effect
observer and the transport-name spellings of harness/c18_args.py (every constructor keyword of every core driver class read
back from the slot where it takes effect and from no other; driver stack = transport stack)."""
import asyncio  # noqa: F401  (async functions below are only objects, never awaited)
import contextlib
import copy
import io
import json
import os
import types
import warnings

from . import common
from . import c18_args as A
from .common import coq_list

LEVEL = "proof"
SOURCES = ["scrapli/factory.py", "scrapli/driver/base/base_driver.py", "scrapli/driver/base/sync_driver.py",
           "scrapli/driver/base/async_driver.py", "scrapli/driver/network/sync_driver.py",
           "scrapli/driver/network/async_driver.py", "scrapli/driver/network/base_driver.py",
           "scrapli/transport/__init__.py"] + \
          ["scrapli/driver/core/%s/%s" % (p, f) for p in ("cisco_iosxe", "cisco_iosxr", "cisco_nxos", "arista_eos", "juniper_junos")
           for f in ("sync_driver.py", "async_driver.py", "base_driver.py")]

CORE = ["cisco_iosxe", "cisco_iosxr", "cisco_nxos", "arista_eos", "juniper_junos"]
# hand-written specification of the transport families (independent of scrapli.transport)
SPEC_SYNC_TRANSPORTS = {"system", "telnet", "ssh2", "paramiko"}
SPEC_ASYNC_TRANSPORTS = {"asynctelnet", "asyncssh"}
EXN = {"TypeError": "TypeError", "KeyError": "KeyError", "AttributeError": "AttributeError",
       "ScrapliValueError": "ScrapliValueError", "ScrapliTypeError": "ScrapliTypeError",
       "ScrapliModuleNotFound": "ScrapliModuleNotFound", "ScrapliException": "ScrapliException",
       "ScrapliTransportPluginError": "ScrapliTransportPluginError"}


# ---------------------------------------------------------------------------------------------
# user objects (by identity) and value pools
# ---------------------------------------------------------------------------------------------
def _fn_a(conn):
    return None


def _fn_b(conn):
    return None


def _fn_c(conn):
    return None


async def _afn_a(conn):
    return None


async def _afn_b(conn):
    return None


class World:
    """everything built once per run: user objects, synthetic community platforms, registry"""

    def __init__(self, aux):
        from scrapli.driver import AsyncGenericDriver, AsyncNetworkDriver, GenericDriver, NetworkDriver
        from scrapli.driver.network.base_driver import PrivilegeLevel
        import scrapli.factory as F

        self.F = F
        self.PL = PrivilegeLevel
        self.reg = aux["registry"]
        self.aux = aux
        self.keyfile = os.path.join(common.BUILD, "C18", "id_key")
        os.makedirs(os.path.dirname(self.keyfile), exist_ok=True)
        open(self.keyfile, "w").write("k")
        self.user = {
            "fn_a": _fn_a, "fn_b": _fn_b, "fn_c": _fn_c, "afn_a": _afn_a, "afn_b": _afn_b,
            "opts": {"k": "v"}, "opts_empty": {}, "fwc": ["boom", "% bad"], "fwc_empty": [],
            "privs": {"exec": PrivilegeLevel(r"^u>$", "exec", "", "", "", False, ""),
                      "configuration": PrivilegeLevel(r"^u\(c\)#$", "configuration", "exec", "end", "conf t", False, "", ["zz"])},
            "privs_empty": {}, "bytesio": io.BytesIO(),
        }
        self.user_ids = {}
        for k, v in self.user.items():
            self.reg.add(v, "user." + k)
            self.user_ids[id(v)] = k
        self.base = {"net": (NetworkDriver, AsyncNetworkDriver), "gen": (GenericDriver, AsyncGenericDriver)}

        # synthetic community driver classes
        class SynthNet(NetworkDriver):
            def __init__(self, **kwargs):
                super().__init__(**kwargs)

        class AsyncSynthNet(AsyncNetworkDriver):
            def __init__(self, **kwargs):
                super().__init__(**kwargs)

        self.SynthNet, self.AsyncSynthNet = SynthNet, AsyncSynthNet

        def pl(pat, name, prev, nc=None):
            # a level without not_contains is built WITHOUT the argument (what platform authors write), never with None
            if nc is None:
                return PrivilegeLevel(pat, name, prev, "exit", "go " + name, False, "")
            return PrivilegeLevel(pat, name, prev, "exit", "go " + name, False, "", nc)

        def s_open(conn):
            return None

        def s_close(conn):
            return None

        async def a_open(conn):
            return None

        async def a_close(conn):
            return None

        def s_open2(conn):
            return None

        self.synth = {
            "synth_net": {
                "driver_type": "network",
                "defaults": {
                    "privilege_levels": {"exec": pl(r"^s>$", "exec", ""), "privilege_exec": pl(r"^s#$", "privilege_exec", "exec", ["(x"]),
                                         "configuration": pl(r"^s\(cfg\)#$", "configuration", "privilege_exec")},
                    "default_desired_privilege_level": "privilege_exec",
                    "sync_on_open": s_open, "async_on_open": a_open, "sync_on_close": s_close, "async_on_close": a_close,
                    "failed_when_contains": ["synth error", "% nope"],
                    "textfsm_platform": "synth_tf", "genie_platform": "",
                    "timeout_ops": 0, "comms_return_char": "\r\n", "auth_username": "community", "auth_strict_key": False,
                    "transport_options": {"open_cmd": ["-o", "X=1"]},
                },
                "variants": {
                    "v1": {"default_desired_privilege_level": "configuration", "timeout_ops": 7.5, "sync_on_open": s_open2,
                           "auth_username": ""},
                    "v2": {"driver_type": {"sync": SynthNet, "async": AsyncSynthNet}, "failed_when_contains": []},
                },
            },
            "synth_gen": {
                "driver_type": "generic",
                "defaults": {"sync_on_open": s_open, "async_on_open": a_open, "sync_on_close": s_close, "async_on_close": a_close,
                             "comms_prompt_pattern": r"^gen>$", "auth_strict_key": False, "timeout_socket": 3},
                "variants": {"a": {"comms_return_char": "", "timeout_socket": 0}},
            },
            "synth_pair": {
                "driver_type": {"sync": SynthNet, "async": AsyncSynthNet},
                "defaults": {"privilege_levels": {"exec": pl(r"^p>$", "exec", "")}, "default_desired_privilege_level": "exec",
                             "sync_on_open": s_open, "async_on_open": a_open, "sync_on_close": s_close, "async_on_close": a_close,
                             "failed_when_contains": []},
                "variants": {},
            },
            "synth_noplat": None,      # module without SCRAPLI_PLATFORM
            "synth_emptyplat": {},     # SCRAPLI_PLATFORM = {}
        }
        self.fake_modules = {}
        for name, plat in self.synth.items():
            mod = types.SimpleNamespace() if plat is None else types.SimpleNamespace(SCRAPLI_PLATFORM=plat)
            self.fake_modules["scrapli_community." + name.replace("_", ".")] = mod
        self.fake_modules["scrapli_community.synth"] = types.SimpleNamespace()
        # real community platforms
        import importlib
        self.community = {}
        for name in ("scrapli_networkdriver", "scrapli_genericdriver"):
            try:
                m = importlib.import_module("scrapli_community." + name.replace("_", "."))
                self.community[name] = m.SCRAPLI_PLATFORM
            except ModuleNotFoundError:
                pass
        for name, plat in self.synth.items():
            if plat:
                self.community[name] = plat
        self.unknown = ["nonesuch", "", "cisco", "cisco_iosxe ", "CISCO_IOSXE", "synth", "synth_noplat", "synth_emptyplat", "a__b", "x.y"]
        # register community objects, custom classes
        self.extra_cls = []
        self.custom_classes = []
        for name, plat in self.community.items():
            for d in [plat["defaults"]] + list(plat.get("variants", {}).values()):
                for k, v in d.items():
                    if k == "driver_type":
                        continue
                    if isinstance(v, (dict, list)) or callable(v):
                        self.reg.add(v, "%s.%s" % (name, k))
            dts = [plat["driver_type"]] + [v.get("driver_type") for v in plat.get("variants", {}).values()]
            for dt in dts:
                if isinstance(dt, dict):
                    for fam, c in (("sync", dt["sync"]), ("async", dt["async"])):
                        if self.reg.tok(c) == 0:
                            cid = self.reg.add(c, c.__name__)
                            is_async = fam == "async"
                            net = issubclass(c, (NetworkDriver, AsyncNetworkDriver))
                            basecls = self.base["net" if net else "gen"][1 if is_async else 0]
                            from gen.gen_factory import class_record
                            self.extra_cls.append(class_record(cid, c, self.reg, is_async, net, "[]", sig_from=basecls))
                            self.custom_classes.append(c)
        self.all_classes = [c for c in aux["class_ids"]] + self.custom_classes
        self.install_shim()

    # -- import shim: synthetic community modules (harness side only) -------------------------
    def install_shim(self):
        import importlib as real
        fake = self.fake_modules

        class Shim:
            def __getattr__(self, n):
                return getattr(real, n)

            @staticmethod
            def import_module(name, package=None):
                if name in fake:
                    return fake[name]
                if name.startswith("scrapli_community.synth"):
                    raise ModuleNotFoundError(name)
                return real.import_module(name, package)

        self.F.importlib = Shim()

    # -- value specs ----------------------------------------------------------------------------
    def val(self, spec):
        if isinstance(spec, dict):
            if "obj" in spec:
                return self.user[spec["obj"]]
            if "keyfile" in spec:
                return self.keyfile
        return spec

    def pools(self):
        o = lambda n: {"obj": n}  # noqa: E731
        valid = {
            "host": ["h", "localhost", " padded ", "10.0.0.1"],
            "port": [22, 0, 2022, True],
            "auth_username": ["", "u"], "auth_password": ["", "pw"],
            "auth_private_key": ["", {"keyfile": 1}], "auth_private_key_passphrase": ["", "pp"],
            "auth_strict_key": [True, False], "auth_bypass": [True, False],
            "timeout_socket": [0, 0.0, 5, 2.5], "timeout_transport": [0, 0.0, 11, 2.5], "timeout_ops": [0, 0.0, 9, 0.5],
            "comms_return_char": ["", "\n", "\r\n"], "comms_roughly_match_inputs": [False, True, 0],
            "ssh_config_file": [False, True, "", "/nonexistent/cfg"], "ssh_known_hosts_file": [False, True, "", "/nonexistent/kh"],
            "on_init": [o("fn_a")], "on_open": [o("fn_b"), o("afn_a")], "on_close": [o("fn_c"), o("afn_b")],
            "transport": ["system", "telnet", "paramiko", "asynctelnet", "asyncssh"],
            "transport_options": [o("opts"), o("opts_empty")],
            "channel_log": [False, True, "", "/tmp/c18_never_opened.log", o("bytesio")],
            "channel_log_mode": ["write", "append", "WRITE", "Append"],
            "channel_lock": [False, True, 0], "logging_uid": ["", "uid1"],
            "auth_secondary": ["", "sec"], "failed_when_contains": [o("fwc"), o("fwc_empty")],
            "textfsm_platform": ["", "tfp"], "genie_platform": ["", "gp"],
            "privilege_levels": [o("privs"), o("privs_empty")],
            "default_desired_privilege_level": ["", "exec", "configuration"],
            # not named by the factory: travel through **kwargs
            "auth_telnet_login_pattern": ["", "login:", None], "auth_password_pattern": ["", "pass:"],
            "auth_passphrase_pattern": ["", "phrase:", None], "comms_prompt_pattern": ["^x>$", ""],
        }
        malformed = {
            "host": [""], "port": ["22", 2.5], "auth_strict_key": [0, "no"], "auth_bypass": [0, ""],
            "ssh_config_file": [0], "ssh_known_hosts_file": [1.5], "on_init": ["notcallable", 0], "on_open": [0, ""],
            "on_close": ["x"], "transport": ["ssh2", "bogus", "", "System", "AsyncSSH", "TELNET", " asynctelnet", "Paramiko", "asyncssh ", "SSH2",
                                              "AsyncTelnet", "\tsystem"],
            "channel_log_mode": ["bogus", ""],
            "bogus_kwarg": [1, None], "comms_prompt_pattern": ["^y#$"],
        }
        return valid, malformed


def spec_repr(spec):
    return json.dumps(spec, sort_keys=True)


# ---------------------------------------------------------------------------------------------
# running the real code
# ---------------------------------------------------------------------------------------------
@contextlib.contextmanager
def recording(classes):
    rec, saved = [], {}
    for c in classes:
        if "__init__" in c.__dict__:
            orig = c.__dict__["__init__"]

            def make(orig, c):
                def __init__(self, *a, **k):
                    if type(self) is c:
                        rec.append((c, a, dict(k)))
                    return orig(self, *a, **k)
                return __init__
            saved[c] = orig
            setattr(c, "__init__", make(orig, c))
    try:
        yield rec
    finally:
        for c, orig in saved.items():
            setattr(c, "__init__", orig)


def run_factory(w, case, record=True):
    fac = w.F.AsyncScrapli if case["async"] else w.F.Scrapli
    kw = {k: w.val(s) for k, s in case["kw"]}
    plat = case["platform"] if case.get("platform_is_str", True) else 17
    args = dict(kw)
    if case.get("variant_given", False):
        args["variant"] = case["variant"]
    with warnings.catch_warnings():
        warnings.simplefilter("ignore")
        with (recording(w.all_classes) if record else contextlib.nullcontext([])) as rec:
            try:
                obj = fac(platform=plat, **args)
                return {"obj": obj, "exc": None, "rec": rec}
            except Exception as e:  # noqa
                return {"obj": None, "exc": type(e).__name__, "excobj": e, "rec": rec}


def run_direct(cls, kwargs):
    with warnings.catch_warnings():
        warnings.simplefilter("ignore")
        try:
            return {"obj": cls(**kwargs), "exc": None}
        except Exception as e:  # noqa
            return {"obj": None, "exc": type(e).__name__, "excobj": e}


GETTERS = {
    "host": lambda c: c._base_transport_args.host,
    "port": lambda c: c._base_transport_args.port,
    "auth_username": lambda c: c.auth_username,
    "auth_password": lambda c: c.auth_password,
    "auth_private_key_passphrase": lambda c: c.auth_private_key_passphrase,
    "auth_strict_key": lambda c: c.auth_strict_key,
    "auth_bypass": lambda c: c.auth_bypass,
    "timeout_socket": lambda c: c._base_transport_args.timeout_socket,
    "timeout_transport": lambda c: c._base_transport_args.timeout_transport,
    "timeout_ops": lambda c: c._base_channel_args.timeout_ops,
    "comms_return_char": lambda c: c._base_channel_args.comms_return_char,
    "comms_roughly_match_inputs": lambda c: c._base_channel_args.comms_roughly_match_inputs,
    "on_init": lambda c: c.on_init, "on_open": lambda c: c.on_open, "on_close": lambda c: c.on_close,
    "transport": lambda c: c.transport_name,
    "transport_options": lambda c: c._base_transport_args.transport_options,
    "channel_log": lambda c: c._base_channel_args.channel_log,
    "channel_log_mode": lambda c: c._base_channel_args.channel_log_mode,
    "channel_lock": lambda c: c._base_channel_args.channel_lock,
    "logging_uid": lambda c: c._base_transport_args.logging_uid,
    "auth_secondary": lambda c: c.auth_secondary,
    "failed_when_contains": lambda c: c.failed_when_contains,
    "textfsm_platform": lambda c: c.textfsm_platform,
    "genie_platform": lambda c: c.genie_platform,
    "privilege_levels": lambda c: c.privilege_levels,
    "default_desired_privilege_level": lambda c: c.default_desired_privilege_level,
}
NETWORK_ONLY = {"auth_secondary", "failed_when_contains", "textfsm_platform", "genie_platform", "privilege_levels",
                "default_desired_privilege_level"}
# "takes effect" is read back literally for these (no post-processing between argument and attribute)
LITERAL = set(GETTERS) - {"channel_log_mode", "transport_options", "failed_when_contains"}
SSH_CONFIG_TRANSPORTS = {"paramiko", "asyncssh", "ssh2"}
CHANNEL_PATTERNS = ("auth_telnet_login_pattern", "auth_password_pattern", "auth_passphrase_pattern")


def same_value(a, b):
    """literal equality that keeps False / 0 / 0.0 / '' apart"""
    if isinstance(a, (bool, int, float, str)) or a is None or isinstance(b, (bool, int, float, str)) or b is None:
        return type(a) is type(b) and a == b
    return a is b


def canon_obj(o, w, depth=0, seen=None):
    """attribute-wise canonical form of a driver object: values literally, callables and user
    objects by identity, tables by value, everything else by class name and attributes"""
    import dataclasses
    import logging
    import re
    seen = seen if seen is not None else set()
    if o is None or isinstance(o, (bool, int, float, str, bytes)):
        return ("v", type(o).__name__, repr(o))
    if id(o) in w.user_ids:
        return ("user", w.user_ids[id(o)])
    if isinstance(o, w.PL):
        return ("PL",) + tuple(canon_obj(getattr(o, s), w, depth + 1, seen) for s in w.PL.__slots__)
    if isinstance(o, (types.FunctionType, types.BuiltinFunctionType, types.MethodType, type)):
        return ("callable", w.reg.names.get(w.reg.tok(o), "") or getattr(o, "__qualname__", "?"), id(o))
    if isinstance(o, (list, tuple)):
        return ("list",) + tuple(canon_obj(x, w, depth + 1, seen) for x in o)
    if isinstance(o, (set, frozenset)):
        return ("set",) + tuple(sorted(repr(canon_obj(x, w, depth + 1, seen)) for x in o))
    if isinstance(o, dict):
        return ("dict",) + tuple(sorted((repr(k), canon_obj(v, w, depth + 1, seen)) for k, v in o.items()))
    if isinstance(o, logging.LoggerAdapter):
        return ("logger", o.logger.name, canon_obj(o.extra, w, depth + 1, seen))
    if isinstance(o, re.Pattern):
        return ("re", repr(o.pattern), o.flags)
    if id(o) in seen or depth > 6:
        return ("ref", type(o).__name__)
    seen.add(id(o))
    if dataclasses.is_dataclass(o) or hasattr(o, "__dict__"):
        return (type(o).__name__,) + tuple(sorted((k, canon_obj(v, w, depth + 1, seen)) for k, v in vars(o).items()))
    return ("obj", type(o).__name__)


def diff_canon(a, b, path="conn"):
    if a == b:
        return None
    if isinstance(a, tuple) and isinstance(b, tuple) and len(a) == len(b) and a[:1] == b[:1]:
        for i, (x, y) in enumerate(zip(a, b)):
            if x != y:
                name = x[0] if isinstance(x, tuple) and len(x) == 2 and isinstance(x[0], str) else str(i)
                return diff_canon(x, y, path + "." + name)
    return "%s: %s != %s" % (path, _strip_ids(a), _strip_ids(b))


def _strip_ids(x):
    s = repr(x)
    return s if len(s) < 300 else s[:300] + "..."


# ---------------------------------------------------------------------------------------------
# independent specification of what the factory should call
# ---------------------------------------------------------------------------------------------
def spec_expected(w, case):
    """-> ('reject-scrapli', why) | ('build', cls, kwargs) | ('unspecified', why)
    written from the documentation, not from factory.py"""
    from scrapli.driver import core as C
    named = set(w.aux["keys"])
    kw = {k: w.val(s) for k, s in case["kw"]}
    is_async = case["async"]
    tr = kw.get("transport")
    if "host" not in kw:
        return ("unspecified", "host missing: TypeError of the call itself")
    if isinstance(tr, str) and tr in (SPEC_SYNC_TRANSPORTS if is_async else SPEC_ASYNC_TRANSPORTS):
        return ("reject-scrapli", "sync/async transport mix-up")
    if not case.get("platform_is_str", True):
        return ("reject-scrapli", "platform is not a str")
    supplied = {k: v for k, v in kw.items() if not (k in named and v is None)}
    plat = case["platform"]
    core_cls = {"cisco_iosxe": (C.IOSXEDriver, C.AsyncIOSXEDriver), "cisco_iosxr": (C.IOSXRDriver, C.AsyncIOSXRDriver),
                "cisco_nxos": (C.NXOSDriver, C.AsyncNXOSDriver), "arista_eos": (C.EOSDriver, C.AsyncEOSDriver),
                "juniper_junos": (C.JunosDriver, C.AsyncJunosDriver)}
    if plat in core_cls:
        return ("build", core_cls[plat][1 if is_async else 0], supplied)
    if plat not in w.community:
        return ("reject-scrapli", "unknown platform")
    sp = w.community[plat]
    variant = case["variant"] if case.get("variant_given") else None
    d = copy.deepcopy(sp["defaults"])
    dt = sp["driver_type"]
    if variant:
        if not isinstance(variant, str) or variant not in sp.get("variants", {}):
            return ("unspecified", "unknown variant of a known platform (the statement is silent; raw KeyError today)")
        v = copy.deepcopy({k: x for k, x in sp["variants"][variant].items() if k != "driver_type"})
        d.update(v)
        if sp["variants"][variant].get("driver_type"):
            dt = sp["variants"][variant]["driver_type"]
    fam = "async" if is_async else "sync"
    other = "sync" if is_async else "async"
    d.pop(other + "_on_open"), d.pop(other + "_on_close")
    d["on_open"], d["on_close"] = d.pop(fam + "_on_open"), d.pop(fam + "_on_close")
    if isinstance(dt, str):
        cls = w.base["net" if dt == "network" else "gen"][1 if is_async else 0]
    else:
        cls = dt[fam]
    d.update(supplied)
    return ("build", cls, d)


def oracle(w, case, res):
    """decide the property on the implementation's behaviour; returns list of failure strings"""
    from scrapli.exceptions import ScrapliException
    exp = spec_expected(w, case)
    fails = []
    if exp[0] == "unspecified":
        return fails, exp
    if exp[0] == "reject-scrapli":
        if res["exc"] is None:
            fails.append("%s: accepted, built %s" % (exp[1], type(res["obj"]).__name__))
        elif not isinstance(res["excobj"], ScrapliException):
            fails.append("%s: rejected with %s, not a scrapli error" % (exp[1], res["exc"]))
        return fails, exp
    _, cls, dkw = exp
    direct = run_direct(cls, dkw)
    # a driver whose stack (sync / asyncio) differs from its transport's is never returned, on either route; a core transport
    # name that is not written exactly is rejected with a scrapli error or gives a consistent object
    fails += A.stack_failures(res["obj"], "the factory") + A.stack_failures(direct["obj"], "%s(**kwargs)" % cls.__name__)
    if A.is_spelling(dkw.get("transport")):
        for how, r in (("the factory", res), ("%s(**kwargs)" % cls.__name__, direct)):
            if r["exc"] is not None and not isinstance(r["excobj"], ScrapliException) and sorted(k for k, _ in case["kw"]) == ["host", "transport"] \
                    and dkw.get("host"):
                fails.append("%s: transport=%r rejected with %s, not a scrapli error" % (how, dkw["transport"], r["exc"]))
    if direct["exc"] is not None or res["exc"] is not None:
        if direct["exc"] != res["exc"]:
            fails.append("factory %s but direct %s(**kwargs) %s" % (
                "raised " + res["exc"] if res["exc"] else "built " + type(res["obj"]).__name__, cls.__name__,
                "raised " + direct["exc"] if direct["exc"] else "built fine"))
        return fails, exp
    fo, do = res["obj"], direct["obj"]
    if type(fo) is not cls:
        fails.append("factory built %s, expected %s" % (type(fo).__name__, cls.__name__))
        return fails, exp
    d = diff_canon(canon_obj(fo, w), canon_obj(do, w))
    if d:
        fails.append("factory-built and directly built %s differ: %s" % (cls.__name__, d))
    # every supplied argument takes effect (read back from the factory-built object alone)
    named = set(w.aux["keys"])
    for k, s in case["kw"]:
        v = w.val(s)
        if k not in GETTERS or (v is None and k in named):
            continue
        if k in NETWORK_ONLY and not hasattr(fo, "privilege_levels"):
            continue
        if k == "auth_username" and fo.transport_name in SSH_CONFIG_TRANSPORTS and not v:
            continue
        got = GETTERS[k](fo)
        if k == "host" and isinstance(v, str):
            # the constructor normalises the host by stripping surrounding white space (C17): the
            # argument takes effect when the connection dials exactly that stripped host
            ok = same_value(got, v.strip())
        elif k in LITERAL:
            ok = same_value(got, v)
        elif k in ("transport_options", "failed_when_contains"):
            ok = (got is v) if v else (got == type(v)() and got is not v or got is v)
        else:
            ok = True
        if not ok:
            fails.append("argument %s=%r did not take effect: the connection has %r" % (k, v, got))
    # arguments that only travel through **kwargs: read back from the channel arguments ('' / None = the channel's default);
    # a supplied value lands in its own field, a field that was not supplied never holds another argument's value
    sup = {k: w.val(s) for k, s in case["kw"]}
    pats = {k: sup[k] for k in CHANNEL_PATTERNS if isinstance(sup.get(k), str) and sup[k]}
    for k in CHANNEL_PATTERNS:
        got = getattr(fo._base_channel_args, k, None)
        if k in pats and not same_value(got, pats[k]):
            fails.append("argument %s=%r did not take effect: the channel arguments have %r" % (k, pats[k], got))
        elif k not in pats and k not in exp[2] and any(got == v for v in pats.values()):
            fails.append("argument %s was not supplied but the channel arguments have %r there, the value of %s" % (
                k, got, sorted(n for n, v in pats.items() if v == got)))
    return fails, exp


# ---------------------------------------------------------------------------------------------
# encoding for the model
# ---------------------------------------------------------------------------------------------
def enc(w):
    from gen import gen_factory as G
    return G


def candidates_for(w, case):
    import importlib
    plat = case["platform"]
    if plat in CORE:
        m = importlib.import_module("scrapli.driver.core.%s.base_driver" % plat)
        return [m.PRIVS, m.FAILED_WHEN_CONTAINS]
    sp = w.community.get(plat)
    out = []
    if sp:
        for d in [sp["defaults"]] + list(sp.get("variants", {}).values()):
            out += [v for v in d.values() if isinstance(v, (dict, list))]
    return out


def community_term(w):
    G = enc(w)
    rows = []
    for name, mod in w.fake_modules.items():
        pass
    names = {}
    for name in list(w.community) + ["synth_noplat", "synth_emptyplat", "synth", "scrapli", "cisco"]:
        names[name] = w.community.get(name)
    for name, sp in names.items():
        dotted = name.replace("_", ".")
        if not sp:
            rows.append("(%s, None)" % G.cbytes(dotted))
            continue

        def dtype(dt):
            if isinstance(dt, str):
                return "(DStr %s)" % G.cbytes(dt)
            return "(DPair %d %d)" % (w.reg.tok(dt["sync"]), w.reg.tok(dt["async"]))
        vs = []
        for vn, vd in sp.get("variants", {}).items():
            vdt = vd.get("driver_type")
            rest = {k: v for k, v in vd.items() if k != "driver_type"}
            vs.append("(%s, (%s, %s))" % (G.cbytes(vn), ("Some %s" % dtype(vdt)) if vdt else "None", G.encode_kwargs(rest, w.reg)))
        rows.append("(%s, Some (mkCom %s %s %s))" % (G.cbytes(dotted), dtype(sp["driver_type"]), G.encode_kwargs(sp["defaults"], w.reg), coq_list(vs)))
    return coq_list(rows)


def case_term(w, case, res):
    """Coq term (async, platform, variant, kw, observed call, observed outcome) or None when the
    observation cannot be expressed in the model's vocabulary"""
    G = enc(w)
    kw = {k: w.val(s) for k, s in case["kw"]}
    cands = candidates_for(w, case)
    plat = ("(Some %s)" % G.cbytes(case["platform"])) if case.get("platform_is_str", True) else "None"
    variant = G.encode_val(case["variant"] if case.get("variant_given") else None, w.reg)
    if res["rec"]:
        c, a, k = res["rec"][0]
        if a:
            return None
        call = "(Call %d %s)" % (w.reg.tok(c), G.encode_kwargs(k, w.reg, cands))
    else:
        if res["exc"] not in EXN:
            return None
        call = "(CallErr %s)" % EXN[res["exc"]]
    if res["exc"] is not None:
        if res["exc"] not in EXN:
            return None
        outc = "(Raised %s)" % EXN[res["exc"]]
    else:
        o = res["obj"]
        fields = {}
        for name, g in GETTERS.items():
            if name in NETWORK_ONLY and not hasattr(o, "privilege_levels"):
                continue
            if name == "auth_username" and o.transport_name in SSH_CONFIG_TRANSPORTS:
                continue
            fields[name] = g(o)
        # the constructor strips white space around the host before handing it to the transport
        # (C17's subject, not modelled in Factory.v): the model's host field is the argument as given
        if isinstance(kw.get("host"), str) and fields.get("host") == kw["host"].strip():
            fields["host"] = kw["host"]
        outc = "(Built %d %s)" % (w.reg.tok(type(o)), G.encode_kwargs(fields, w.reg, cands))
    return "(%s, %s, %s, %s, %s, %s)" % (common.coq_bool(case["async"]), plat, variant, G.encode_kwargs(kw, w.reg), call, outc)


def header(w):
    return ("From Verif Require Import Bytes Factory Heap.\nFrom Gen Require Import Gen_Factory.\n"
            "Definition extra_classes : list cls := %s.\n"
            "Definition ctable : community_table := %s.\n"
            "Definition env := gen_fenv extra_classes ctable.\n"
            "Definition chk (c : bool * option bytes * val * kwargs * call * outcome) : bool :=\n"
            "  let '(a, p, v, kw, cl, oc) := c in\n"
            "  call_eqb (factory_call env a p v kw) cl && outcome_matches (factory env a p v kw) oc.\n"
            % (coq_list(w.extra_cls), community_term(w)))


# ---------------------------------------------------------------------------------------------
# generators
# ---------------------------------------------------------------------------------------------
def gen_case(w, rng, valid, malformed, stream):
    named = list(w.aux["keys"])
    is_async = rng.random() < 0.5
    r = rng.random()
    case = {"async": is_async, "variant_given": False, "variant": None, "platform_is_str": True}
    if r < 0.55:
        case["platform"] = rng.choice(CORE)
    elif r < 0.9:
        case["platform"] = rng.choice(sorted(w.community))
        sp = w.community[case["platform"]]
        if rng.random() < 0.6:
            case["variant_given"] = True
            case["variant"] = rng.choice(list(sp.get("variants", {}).keys()) + [None, ""] + (["nope", 0] if stream == "malformed" else []))
    elif r < 0.97 or stream != "malformed":
        case["platform"] = rng.choice(w.unknown)
    else:
        case["platform"], case["platform_is_str"] = "17", False
    generic = case["platform"] in w.community and w.community[case["platform"]]["driver_type"] == "generic"
    names = [n for n in valid if n not in ("comms_prompt_pattern",)]
    if generic:
        names = [n for n in names if n not in NETWORK_ONLY] + ["comms_prompt_pattern"]
    size = rng.choice([0, 1, 1, 2, 3, 5, 8, 12, len(names)])
    chosen = rng.sample(names, min(size, len(names)))
    kw = []
    if rng.random() < 0.97:
        kw.append(["host", rng.choice(valid["host"])])
    fam = ["asynctelnet", "asyncssh"] if is_async else ["system", "telnet", "paramiko"]
    if "transport" not in chosen and (is_async or rng.random() < 0.5):
        chosen.append("transport")
    for n in chosen:
        if n == "host":
            continue
        pool = valid[n]
        if n == "transport":
            pool = fam if rng.random() < 0.85 else valid["transport"]
        v = rng.choice(pool)
        if n in named and rng.random() < 0.12:
            v = None                      # an argument given as None counts as not given
        kw.append([n, v])
    if stream == "malformed":
        for _ in range(rng.choice([1, 1, 2])):
            n = rng.choice(sorted(malformed))
            kw = [x for x in kw if x[0] != n] + [[n, rng.choice(malformed[n])]]
    rng.shuffle(kw)
    case["kw"] = kw
    return case


def singles(w, valid):
    """every parameter x every pool value (falsy ones included), alone, on every platform family"""
    out = []
    plats = CORE + ["scrapli_networkdriver", "synth_net", "synth_gen"]
    for n, pool in valid.items():
        for v in pool + [None]:
            for is_async in (False, True):
                for p in plats:
                    generic = p in ("synth_gen",)
                    if generic and n in NETWORK_ONLY:
                        continue
                    if not generic and n == "comms_prompt_pattern":
                        continue
                    kw = [["host", "h"]] if n != "host" else []
                    if n != "transport":
                        kw.append(["transport", "asynctelnet" if is_async else "system"])
                    kw.append([n, v])
                    out.append({"async": is_async, "platform": p, "platform_is_str": True, "variant_given": False, "variant": None, "kw": kw})
    return out


def spelling_cases(w):
    """core transport names not written exactly (case variants, padded), on both factories, core and community platforms: a spelled
    asyncio name on the sync factory and the reverse included"""
    out = []
    plats = ["cisco_iosxe", "juniper_junos", "scrapli_networkdriver", "synth_gen", "arista_eos", "synth_net", "cisco_nxos", "cisco_iosxr"]
    n = 0
    for name in A.CORE_TRANSPORT_NAMES:
        for sp in A.spellings(name):
            for is_async in (False, True):
                p = plats[n % len(plats)]
                n += 1
                if p not in CORE and p not in w.community:
                    p = "cisco_iosxe"
                out.append({"async": is_async, "platform": p, "platform_is_str": True, "variant_given": False, "variant": None,
                            "kw": [["host", "h"], ["transport", sp]]})
    return out


def interesting(case):
    """non-trivial: at least one falsy-but-supplied argument, or a community platform, or a rejection class"""
    falsy = any((v is not None and not isinstance(v, dict) and not v) or (isinstance(v, dict) and v.get("obj", "").endswith("empty")) for _, v in case["kw"])
    return falsy or case["platform"] not in CORE


# ---------------------------------------------------------------------------------------------
# isolation: histories over several connections
# ---------------------------------------------------------------------------------------------
ISO_PLATFORMS = CORE + ["scrapli_networkdriver", "synth_net"]


def defs_of(w, p):
    import importlib
    if p in CORE:
        m = importlib.import_module("scrapli.driver.core.%s.base_driver" % p)
        return m.PRIVS, m.FAILED_WHEN_CONTAINS
    d = w.community[p]["defaults"]
    return d["privilege_levels"], d["failed_when_contains"]


def nc_of(p):
    """value of a level's not_contains; anything that is not a list / tuple of the library's own making is kept visible
    as a marker instead of breaking the snapshot"""
    v = getattr(p, "not_contains", None)
    return list(v) if isinstance(v, (list, tuple)) else ["<%s>" % type(v).__name__]


def snap_tables(privs, fwc):
    return ([(k, (p.pattern, p.name, p.previous_priv, p.deescalate, p.escalate, p.escalate_auth, p.escalate_prompt), nc_of(p))
             for k, p in privs.items()], list(fwc) if isinstance(fwc, (list, tuple)) else ["<%s>" % type(fwc).__name__])


def table_objects(privs, fwc):
    """[(id, description)] of the mutable objects a pair of tables consists of; an object met twice is listed twice"""
    out = [(id(privs), "the privilege_levels dict"), (id(fwc), "the failed_when_contains list")]
    for k, p in privs.items():
        out.append((id(p), "the PrivilegeLevel object of level %r" % k))
        if isinstance(getattr(p, "not_contains", None), (list, dict, set, bytearray)):
            out.append((id(p.not_contains), "the not_contains list of level %r" % k))
    return out


def ids_tables(privs, fwc):
    return {i for i, _ in table_objects(privs, fwc)}


def sharing(owners, pairs="conn"):
    """owners = [(label, [(id, description)])].  -> sentences, one per object that two owners both hold (pairs="conn": at least
    one of the two is a connection; "defs": two platform definitions) or that one owner holds at two places ("within")"""
    out = []
    if pairs == "within":
        for label, objs in owners:
            first = {}
            for i, d in objs:
                if i in first and first[i] != d:
                    out.append("%s: %s and %s are one object" % (label, first[i], d))
                first.setdefault(i, d)
        return out
    maps = [(label, {}) for label, _ in owners]
    for (label, m), (_, objs) in zip(maps, owners):
        for i, d in objs:
            m.setdefault(i, d)
    for a in range(len(maps)):
        for b in range(a + 1, len(maps)):
            la, lb = maps[a][0], maps[b][0]
            both_defs = la.startswith("def:") and lb.startswith("def:")
            if both_defs != (pairs == "defs"):
                continue
            for i in [x for x in maps[a][1] if x in maps[b][1]]:
                out.append("%s %s and %s %s are the same object" % (la, maps[a][1][i], lb, maps[b][1][i]))
    # sharing with a connection before sharing between connections' elders; deterministic order
    return out


def defs_identity(w):
    """identity graph of the platform definitions alone (no connection exists / matters): two definitions holding one
    object, or one definition holding an object at two places (the model's init_ok assumes neither)"""
    owners = [("def:" + p, table_objects(*defs_of(w, p))) for p in ISO_PLATFORMS]
    return sharing(owners, "defs") + sharing(owners, "within")


def snap_conn(c):
    return (snap_tables(c.privilege_levels, c.failed_when_contains), c.comms_prompt_pattern,
            c.channel._base_channel_args.comms_prompt_pattern, sorted((k, sorted(v)) for k, v in c._priv_graph.items()),
            c.on_open, c.on_close, c.default_desired_privilege_level)


def snap_world(w):
    import scrapli.driver.core as C  # noqa
    out = {}
    for p in ISO_PLATFORMS:
        out[p] = snap_tables(*defs_of(w, p))
    for name, sp in w.community.items():
        out["community:" + name] = repr(canon_obj(sp, w))
    return out


NC_EDITS = ("appendnc", "extendnc", "iaddnc")          # level.not_contains.append(s) / .extend(l) / += l
FWC_EDITS = ("appendfwc", "extendfwc", "iaddfwc")        # conn.failed_when_contains likewise


def gen_history(rng, n_ops, oracle_only):
    ops, nconn = [], 0
    plats = []
    made = []       # per connection: names of levels created at run time (registered sessions, user-built levels)
    for _ in range(n_ops):
        r = rng.random()
        if nconn == 0 or r < 0.3:
            p = rng.choice(ISO_PLATFORMS)
            ops.append({"op": "new", "platform": p, "async": rng.random() < 0.5})
            plats.append(p)
            made.append([])
            nconn += 1
            continue
        i = rng.randrange(nconn) if rng.random() < 0.95 else nconn + 1
        level = rng.choice(["exec", "privilege_exec", "configuration", "tclsh", "sess1", "nolevel", "configuration_exclusive"])
        if i < nconn and made[i] and rng.random() < 0.5:
            level = rng.choice(made[i])            # a level that is NOT a deep copy of a definition's
        kind = rng.choice(["register", "register", "setpattern", "appendnc", "appendfwc", "addlevel", "extendnc", "iaddnc",
                           rng.choice(["extendfwc", "iaddfwc"])] + (["dellevel", "rebind_on_open", "replace_tables"] if oracle_only else []))
        if kind == "register":
            ops.append({"op": "register", "conn": i, "name": rng.choice(["sess1", "sess2", "my-session", "exec", "s" * 9])})
        elif kind == "addlevel":
            ops.append({"op": "addlevel", "conn": i, "name": rng.choice(["maint", "sess1", "ops", "exec"])})
        elif kind == "setpattern":
            ops.append({"op": "setpattern", "conn": i, "level": level, "pattern": rng.choice([r"^edited#$", "", r"^x{1,3}>\s?$"])})
        elif kind == "appendnc":
            ops.append({"op": "appendnc", "conn": i, "level": level, "s": rng.choice(["(cfg", "", "tcl)"])})
        elif kind in ("extendnc", "iaddnc"):
            ops.append({"op": kind, "conn": i, "level": level, "l": rng.choice([["(cfg"], ["a", ""], [], ["tcl)", "(cfg", "x"]])})
        elif kind == "appendfwc":
            ops.append({"op": "appendfwc", "conn": i, "s": rng.choice(["% Error", "", "oops"])})
        elif kind in ("extendfwc", "iaddfwc"):
            ops.append({"op": kind, "conn": i, "l": rng.choice([["% Error"], ["oops", ""], []])})
        else:
            ops.append({"op": kind, "conn": i, "level": level})
        if kind in ("register", "addlevel") and i < nconn and ops[-1]["name"] not in made[i]:
            made[i].append(ops[-1]["name"])
    return ops


def apply_op(w, conns, op):
    """run one op on the real connections; returns (status, model_op_term or None)"""
    from gen.gen_factory import cbytes, cbool
    k = op["op"]
    try:
        if k == "new":
            p = op["platform"]
            fac = w.F.AsyncScrapli if op["async"] else w.F.Scrapli
            with warnings.catch_warnings():
                warnings.simplefilter("ignore")
                c = fac(platform=p, host="h%d" % len(conns), transport="asynctelnet" if op["async"] else "telnet")
            conns.append(c)
            ix = ISO_PLATFORMS.index(p)
            return "done", ("(New %d%%nat)" if p in CORE else "(NewCommunity %d%%nat)") % ix
        c = conns[op["conn"]]
        if k == "register":
            name = op["name"]
            if hasattr(c, "register_configuration_session"):
                c.register_configuration_session(session_name=name)
            else:
                if name in c.privilege_levels:
                    raise ValueError("exists")
                prev = next(iter(c.privilege_levels), "")      # an existing level, so that the priv graph stays well-formed
                c.privilege_levels[name] = w.PL(r"^sess#$", name, prev, "end", "configure session " + name, False, "")
                c.update_privilege_levels()
            p = c.privilege_levels[name]
            f = "(mkPF %s %s %s %s %s %s %s)" % (cbytes(p.pattern), cbytes(p.name), cbytes(p.previous_priv), cbytes(p.deescalate),
                                                 cbytes(p.escalate), cbool(p.escalate_auth), cbytes(p.escalate_prompt))
            return "done", "(Register %d%%nat %s %s)" % (op["conn"], cbytes(name), f)
        if k == "setpattern":
            c.privilege_levels[op["level"]].pattern = op["pattern"]
            c.update_privilege_levels()
            return "done", "(SetPattern %d%%nat %s %s)" % (op["conn"], cbytes(op["level"]), cbytes(op["pattern"]))
        if k == "appendnc":
            c.privilege_levels[op["level"]].not_contains.append(op["s"])
            c.update_privilege_levels()
            return "done", "(AppendNC %d%%nat %s %s)" % (op["conn"], cbytes(op["level"]), cbytes(op["s"]))
        if k == "appendfwc":
            c.failed_when_contains.append(op["s"])
            return "done", "(AppendFWC %d%%nat %s)" % (op["conn"], cbytes(op["s"]))
        if k == "addlevel":
            # a level the user builds at run time, WITHOUT not_contains; to the model this is what registering a session is
            name = op["name"]
            if name in c.privilege_levels:
                raise ValueError("exists")
            prev = next(iter(c.privilege_levels), "")
            c.privilege_levels[name] = p = w.PL(r"^user-built#$", name, prev, "exit", "enter " + name, False, "")
            c.update_privilege_levels()
            f = "(mkPF %s %s %s %s %s %s %s)" % (cbytes(p.pattern), cbytes(p.name), cbytes(p.previous_priv), cbytes(p.deescalate),
                                                 cbytes(p.escalate), cbool(p.escalate_auth), cbytes(p.escalate_prompt))
            return "done", "(Register %d%%nat %s %s)" % (op["conn"], cbytes(name), f)
        if k in ("extendnc", "iaddnc"):
            # in-place container edits; to the model a run of appends (several terms: joined with ';' by the caller)
            lv = c.privilege_levels[op["level"]]
            if k == "extendnc":
                lv.not_contains.extend(list(op["l"]))
            else:
                lv.not_contains += list(op["l"])
            c.update_privilege_levels()
            return "done", [("(AppendNC %d%%nat %s %s)" % (op["conn"], cbytes(op["level"]), cbytes(x))) for x in op["l"]]
        if k in ("extendfwc", "iaddfwc"):
            if k == "extendfwc":
                c.failed_when_contains.extend(list(op["l"]))
            else:
                c.failed_when_contains += list(op["l"])
            return "done", [("(AppendFWC %d%%nat %s)" % (op["conn"], cbytes(x))) for x in op["l"]]
        if k == "dellevel":
            del c.privilege_levels[op["level"]]
            c.update_privilege_levels()
            return "done", None
        if k == "rebind_on_open":
            c.on_open = _fn_a
            return "done", None
        if k == "replace_tables":
            c.privilege_levels = {"exec": w.PL(r"^only>$", "exec", "", "", "", False, "")}
            c.failed_when_contains = []
            c.update_privilege_levels()
            return "done", None
        raise AssertionError(k)
    except Exception as e:  # noqa: the op raised; by the model it then changes nothing
        term = None
        if k == "register":
            term = "(Register %d%%nat %s (mkPF [] [] [] [] [] false []))" % (op["conn"], cbytes(op["name"]))
        elif k == "setpattern":
            term = "(SetPattern %d%%nat %s %s)" % (op["conn"], cbytes(op["level"]), cbytes(op["pattern"]))
        elif k == "appendnc":
            term = "(AppendNC %d%%nat %s %s)" % (op["conn"], cbytes(op["level"]), cbytes(op["s"]))
        elif k == "appendfwc":
            term = "(AppendFWC %d%%nat %s)" % (op["conn"], cbytes(op["s"]))
        elif k == "addlevel":
            term = "(Register %d%%nat %s (mkPF [] [] [] [] [] false []))" % (op["conn"], cbytes(op["name"]))
        elif k in ("extendnc", "iaddnc"):
            # a missing connection / level raises before anything is edited; so does every append of the model's run
            term = [("(AppendNC %d%%nat %s %s)" % (op["conn"], cbytes(op["level"]), cbytes(x))) for x in op["l"]]
        elif k in ("extendfwc", "iaddfwc"):
            term = [("(AppendFWC %d%%nat %s)" % (op["conn"], cbytes(x))) for x in op["l"]]
        return "raised:" + type(e).__name__, term


WITHIN_SHARED = []


def run_history(w, ops):
    """-> (failures, model_ops, final snapshots per conn)"""
    conns, fails, mops = [], [], []
    base = snap_world(w)
    modelable = True
    for n, op in enumerate(ops):
        before = [snap_conn(c) for c in conns]
        status, term = apply_op(w, conns, op)
        if term is None:
            modelable = False
        else:
            mops += term if isinstance(term, list) else [term]
        now = snap_world(w)
        if now != base:
            bad = [k for k in base if base[k] != now[k]]
            fails.append("op %d %s changed the platform definitions %s" % (n, op, bad))
            base = now
        target = op.get("conn") if op["op"] != "new" else None
        for j, b in enumerate(before):
            if j != target and snap_conn(conns[j]) != b:
                fails.append("op %d %s (on connection %s) changed connection %d" % (n, op, target, j))
        if op["op"] == "new" and status == "done":
            c = conns[-1]
            if snap_tables(c.privilege_levels, c.failed_when_contains) != snap_tables(*defs_of(w, op["platform"])):
                fails.append("op %d: a new %s connection does not start from the platform definition" % (n, op["platform"]))
        # identity graph: no table object (dict, PrivilegeLevel, not_contains list, failed_when_contains list) shared between
        # two connections or between a connection and a definition, none held twice by one connection
        owners = [("def:" + p, table_objects(*defs_of(w, p))) for p in ISO_PLATFORMS] + \
                 [("conn%d" % j, table_objects(c.privilege_levels, c.failed_when_contains)) for j, c in enumerate(conns)]
        for x in sharing(owners, "conn")[:4]:
            fails.append("after op %d %s: %s" % (n, op, x))
        if op["op"] == "new" and status == "done":
            # one connection holding an object at two places: no other connection is involved, so no verdict on the property, but
            # the model's deepcopy (fresh object per level) is then not what the code does
            for x in sharing(owners[-1:], "within")[:2]:
                x = "a new %s connection: %s" % (op["platform"], x.split(": ", 1)[1])
                if x not in WITHIN_SHARED:
                    WITHIN_SHARED.append(x)
        if fails:
            break
    finals = [snap_tables(c.privilege_levels, c.failed_when_contains) for c in conns]
    return fails, (mops if modelable else None), finals


def tables_term(t):
    from gen.gen_factory import cbytes, cbool
    es = []
    for k, f, nc in t[0]:
        es.append("(%s, ((mkPF %s %s %s %s %s %s %s), %s))" % (cbytes(k), cbytes(f[0]), cbytes(f[1]), cbytes(f[2]), cbytes(f[3]), cbytes(f[4]),
                                                              cbool(f[5]), cbytes(f[6]), coq_list([cbytes(x) for x in nc])))
    return "(%s, %s)" % (coq_list(es), coq_list([cbytes(x) for x in t[1]]))


def heap_header(w):
    from gen.gen_factory import priv_tables
    extra = [priv_tables(*defs_of(w, p)) for p in ISO_PLATFORMS if p not in CORE]
    return ("From Verif Require Import Bytes Factory Heap.\nFrom Gen Require Import Gen_Factory.\n"
            "Definition s0 := init_state (gen_defs ++ %s).\n"
            "Definition ok0 := init_ok s0.\n"
            "Fixpoint conns_match (s : state) (i : nat) (obs : list tables) : bool :=\n"
            "  match obs with [] => Nat.eqb i (length (st_conns s))\n"
            "  | t :: r => match view_conn s i with Some v => tables_match v t && conns_match s (S i) r | None => false end end.\n"
            "Definition defs_same (s : state) : bool :=\n"
            "  forallb (fun p => tables_match (fst p) (snd p)) (combine (view_defs s) (gen_defs ++ %s)).\n"
            "Definition chk (c : list op * list tables) : bool :=\n"
            "  let s := run s0 (fst c) in ok0 && conns_match s 0 (snd c) && defs_same s.\n" % (coq_list(extra), coq_list(extra)))


# ---------------------------------------------------------------------------------------------
def run(rep):
    from gen import gen_factory

    rng = rep.rng
    thorough = rep.tier == "thorough"
    info, aux = {}, None
    ok, _ = rep.build_static()          # Gen_Factory.v needs model/Factory.vo, Heap.vo
    try:
        _, info, aux = gen_factory.generate(rep.workdir, common.REPO)
        rc, out, _ = common.coqc(os.path.join(rep.workdir, "Gen_Factory.v"), rep.workdir)
        if rc:
            rep.broken.append("Gen_Factory.v")
            rep.notes.append(out[-2000:])
    except Exception as e:  # translator aborted: broken tie
        rep.broken.append("gen_factory:%s: %s" % (type(e).__name__, e))
        try:   # still build a world for the oracles
            import importlib
            importlib.reload(gen_factory)
        except Exception:  # noqa
            pass
    rep.add_static_obligations("props/C18.v", ok)
    if not ok:
        rep.broken.append("static-build")
    if ok and "Gen_Factory.v" not in rep.broken and aux is not None:
        rep.compile_props("props/C18.v")
    if aux is None:
        # no registry: the correspondence cannot run; the oracles below still need one
        reg = gen_factory.Registry()
        import scrapli.factory as F
        aux = {"registry": reg, "class_ids": {}, "keys": gen_factory.provided_args_keys(common.REPO) if os.path.exists(os.path.join(common.REPO, "scrapli/factory.py")) else [],
               "news": {}, "plat_tokens": {}, "driver_map": {}, "installed": []}
        for fac in (F.Scrapli, F.AsyncScrapli):
            for c in list(fac.CORE_PLATFORM_MAP.values()) + list(fac.DRIVER_MAP.values()):
                aux["class_ids"][c] = reg.add(c)
        model_ok = False
    else:
        model_ok = True
    w = World(aux)
    valid, malformed = w.pools()

    # ---- factory suite ---------------------------------------------------------------------------
    cases = []
    for c in corpus():
        cases.append(("corpus", c))
    sg = singles(w, valid)
    if not thorough:
        sg = [c for i, c in enumerate(sg) if (c["platform"] in ("cisco_iosxe", "synth_net", "synth_gen")) or i % 7 == rep.seed % 7]
    for c in sg:
        cases.append(("single", c))
    sp = spelling_cases(w)
    if not thorough:
        sp = [c for i, c in enumerate(sp) if i % 3 == rep.seed % 3 or c["kw"][1][1] in ("AsyncSSH", "System", " asynctelnet", "TELNET")]
    for c in sp:
        cases.append(("spelling", c))
    for _ in range(6000 if thorough else 700):
        cases.append(("valid", gen_case(w, rng, valid, malformed, "valid")))
    for _ in range(1500 if thorough else 200):
        cases.append(("malformed", gen_case(w, rng, valid, malformed, "malformed")))
    terms, term_ix, oracle_fail = [], [], []
    dist = {"stream": {}, "platform_kind": {}, "factory": {"sync": 0, "async": 0}, "n_args": {}, "outcome": {}, "falsy_supplied": 0,
            "none_given": 0, "via_kwargs": 0, "spec": {}}
    named = set(aux["keys"])
    world0 = snap_world(w)
    polluted = False
    for ix, (stream, case) in enumerate(cases):
        res = run_factory(w, case)
        if snap_world(w) != world0:
            # constructing a connection changed a platform definition: everything after this is tainted
            now = snap_world(w)
            rep.violation("factory: building a connection changed the platform definitions %s" % [k for k in world0 if world0[k] != now[k]],
                          {"suite": "factory-defs", "case": case, "rerun": "./check C18 --replay <this file>"})
            polluted = True
            break
        try:
            fails, exp = oracle(w, case, res)
        except Exception as e:  # noqa: the specification itself could not be evaluated
            rep.broken.append("oracle failed on %s: %s" % (json.dumps(case, sort_keys=True)[:200], type(e).__name__))
            break
        dist["stream"][stream] = dist["stream"].get(stream, 0) + 1
        pk = "core" if case["platform"] in CORE else ("community" if case["platform"] in w.community else "unknown")
        dist["platform_kind"][pk] = dist["platform_kind"].get(pk, 0) + 1
        dist["factory"]["async" if case["async"] else "sync"] += 1
        n = len(case["kw"])
        dist["n_args"][n] = dist["n_args"].get(n, 0) + 1
        oc = res["exc"] or "built"
        dist["outcome"][oc] = dist["outcome"].get(oc, 0) + 1
        dist["spec"][exp[0]] = dist["spec"].get(exp[0], 0) + 1
        dist["falsy_supplied"] += sum(1 for k, v in case["kw"] if v is not None and not isinstance(v, dict) and not v)
        dist["none_given"] += sum(1 for k, v in case["kw"] if v is None)
        dist["via_kwargs"] += sum(1 for k, v in case["kw"] if k not in named)
        rep.case(("f", json.dumps(case, sort_keys=True)), nontrivial=interesting(case))
        if fails:
            oracle_fail.append((ix, fails))
        if model_ok:
            try:
                t = case_term(w, case, res)
            except ValueError:
                t = None
            if t is not None:
                terms.append(t)
                term_ix.append(ix)
        if ix in (0, 40, 400):
            rep.sample({"factory": "AsyncScrapli" if case["async"] else "Scrapli", "platform": case["platform"],
                        "variant": case["variant"] if case["variant_given"] else "(not given)", "kwargs": case["kw"], "outcome": oc})
    bad, log = (None, "model unavailable")
    if model_ok and not polluted:
        bad, log = common.eval_cases(rep.workdir, "cases_c18f", header(w), terms, "chk", shard=250)
    elif polluted:
        bad, log = [], ""

    rep.coverage["correspondence_factory"] = {"suite": "factory", "cases": len(cases), "evaluated_in_model": len(terms), "distribution": dist,
                                              "model_disagreements": None if bad is None else len(bad), "oracle_failures": len(oracle_fail)}
    seen_sig = set()
    for ix, fails in oracle_fail:
        case = cases[ix][1]
        sig = fails[0].split(":")[0][:60]
        if sig in seen_sig and len(seen_sig) >= 1 and len(rep.violations) >= 4:
            continue
        seen_sig.add(sig)
        small = shrink_case(w, case)
        f2, _ = oracle(w, small, run_factory(w, small))
        rep.violation("factory: " + "; ".join((f2 or fails)[:3]), {"suite": "factory", "case": small if f2 else case,
                                                                  "rerun": "./check C18 --replay <this file>"})
        if len(rep.violations) >= 5:
            break
    if bad is None:
        rep.broken.append("correspondence factory (model evaluation failed)")
        rep.notes.append(log)
    elif bad:
        bad_ix = [term_ix[b] for b in bad]
        failing = {ix for ix, _ in oracle_fail}
        fresh = [ix for ix in bad_ix if ix not in failing]
        for ix in fresh[:3]:
            rep.notes.append("model/implementation disagreement on %s" % json.dumps(cases[ix][1], sort_keys=True))
        if fresh:
            rep.broken.append("correspondence factory: model differs from implementation (%d cases, e.g. %s)" % (
                len(fresh), json.dumps(cases[fresh[0]][1], sort_keys=True)[:300]))
            if not oracle_fail:
                search_near(w, rep, [cases[ix][1] for ix in fresh[:5]], valid)
    if rep.broken and not rep.violations and not oracle_fail:
        # an obligation / the translator broke: focused search over the single-argument product
        search_near(w, rep, [], valid, sweep=singles(w, valid))

    # ---- argument-effect observer + transport-name spellings on both routes (harness/c18_args.py, oracle only) ----
    if not polluted:
        try:
            A.run(w, rep, thorough)
        except Exception as e:  # noqa: the observer itself could not be set up (a constructor keyword it has no value for, ...)
            rep.broken.append("argument-effect observer: %s: %s" % (type(e).__name__, str(e)[:300]))

    # ---- isolation suite -------------------------------------------------------------------------
    hterms, hcases, hfail = [], [], []
    hd = {"histories": 0, "ops": 0, "op_kinds": {}, "raised_ops": 0, "max_conns": 0, "oracle_only_histories": 0}
    shared_defs = defs_identity(w)
    if shared_defs:
        # the model's initial heap (init_ok) has no object held twice; no connection is involved yet, so no verdict on the property
        rep.broken.append("tie isolation: the platform definitions are not separate objects: " + "; ".join(shared_defs[:3]))
    hd["definitions_sharing_an_object"] = len(shared_defs)
    hist = [(h, False) for h in history_corpus()] if not polluted else []
    for _ in range(0 if polluted else (400 if thorough else 60)):
        hist.append((gen_history(rng, rng.choice([2, 4, 6, 9, 14]), False), False))
    for _ in range(0 if polluted else (150 if thorough else 25)):
        hist.append((gen_history(rng, rng.choice([3, 6, 10]), True), True))
    for ops, oracle_only in hist:
        fails, mops, finals = run_history(w, ops)
        hd["histories"] += 1
        hd["ops"] += len(ops)
        hd["oracle_only_histories"] += 1 if mops is None else 0
        for o in ops:
            hd["op_kinds"][o["op"]] = hd["op_kinds"].get(o["op"], 0) + 1
        hd["max_conns"] = max(hd["max_conns"], len(finals))
        rep.case(("h", json.dumps(ops, sort_keys=True)), nontrivial=len(finals) >= 2 and any(o["op"] != "new" for o in ops))
        if fails:
            hfail.append((ops, fails))
            if len(hfail) >= 3:
                break
            continue
        if mops is not None and model_ok:
            hterms.append("(%s, %s)" % (coq_list(mops), coq_list([tables_term(t) for t in finals])))
            hcases.append(ops)
    if hist:
        rep.sample({"history": hist[min(len(hist) - 1, 7)][0]})
    if WITHIN_SHARED:
        rep.broken.append("tie isolation: a connection's tables are not separate objects: " + "; ".join(WITHIN_SHARED[:3]))
    for ops, fails in hfail[:3]:
        small = shrink_history(w, ops, fail_kind(fails[0]))
        f2 = run_history(w, small)[0]
        rep.violation("isolation: " + "; ".join((f2 or fails)[:2]), {"suite": "isolation", "history": small if f2 else ops,
                                                                   "rerun": "./check C18 --replay <this file>"})
    hbad, hlog = (None, "model unavailable")
    if model_ok:
        hbad, hlog = common.eval_cases(rep.workdir, "cases_c18h", heap_header(w), hterms, "chk", shard=40)
    rep.coverage["correspondence_heap"] = {"suite": "isolation", "distribution": hd, "evaluated_in_model": len(hterms),
                                           "model_disagreements": None if hbad is None else len(hbad), "oracle_failures": len(hfail)}
    if hbad is None:
        rep.broken.append("correspondence isolation (model evaluation failed)")
        rep.notes.append(hlog)
    elif hbad:
        rep.broken.append("correspondence isolation: model heap differs from the real tables on %s" % json.dumps(hcases[hbad[0]])[:400])
        if not hfail:
            # search: longer histories around the disagreeing one, oracle only
            for b in hbad[:3]:
                for extra in range(6):
                    ops = hcases[b] + gen_history(rng, 8, True)[1:]
                    f = run_history(w, ops)[0]
                    if f:
                        rep.violation("isolation: " + f[0], {"suite": "isolation", "history": ops})
                        break
    run_behaviour(rep, thorough)
    rep.coverage["generated_from"] = common.source_hashes(SOURCES)
    rep.coverage["generated"] = info
    rep.coverage["unspecified_observed"] = ("unknown *variant* of a known community platform raises a raw KeyError (the statement only speaks of "
                                            "unknown platforms): observed, compared with the model, not judged")
    rep.rule = ("factory cases = (Scrapli|AsyncScrapli, platform in 5 core / 2 real + 3 synthetic community platforms with variants / unknown names, "
                "variant, ordered kwargs drawn per parameter from pools that contain False, 0, 0.0, '', [], {} and None) : corpus + every parameter x "
                "every pool value alone + random subsets (sizes 0..all) + a malformed stream (wrong types, unknown transports, stray kwargs) + "
                "a spelling stream (core transport names in other case / padded, both factories); "
                "argument-effect scenarios = (core driver class, direct | factory, base transport of its stack, keywords from the signature with "
                "distinctive values: each alone, a random pair, all together) + spelled transport names on both routes; "
                "histories = random interleavings of creating connections through both factories and mutating one of them (register a session, add a "
                "user-built level without not_contains, set a pattern, in-place append / extend / += on a level's not_contains and on "
                "failed_when_contains; half of the level edits aim at a level created at run time on that connection); "
                "behaviour scenarios = corpus of twin kinds (same pattern text, different level names / not_contains; both orders; sync and asyncio) + "
                "twins with an in-place not_contains edit (append / extend / += / insert) of a registered session, of a level added without not_contains, "
                "of levels the user built and passed as privilege_levels, followed by uses of the twin and of a connection built afterwards + "
                "random interleavings of new (a quarter with user-built levels) / mutate / use over 2-3 connections with the same prompt looked up "
                "on every connection in a random order; "
                "non-trivial behaviour scenario = >= 2 connections used; "
                "non-trivial factory case = a falsy-but-supplied argument or a non-core platform; non-trivial history = >= 2 connections and >= 1 mutation; "
                "distinct = JSON of the case")


def run_behaviour(rep, thorough):
    """behaviour half of the isolation: construct / mutate / USE interleavings over several connections, every connection's
    answers against the same connection alone, each run in a clean process (harness/c18_iso.py); oracle only"""
    import time
    from . import c18_iso as iso
    rng = rep.rng
    t0 = time.time()
    bd = {"scenarios": 0, "corpus": 0, "random": 0, "ops": 0, "op_kinds": {}, "outcomes": {}, "platforms": {}, "max_conns": 0, "clean_process_runs": 0,
          "twins_differing_in_names_or_not_contains": 0, "shared_state_observer": "ops" if thorough else "ends"}
    plats = iso.platforms()
    scen = [(ops, "corpus") for ops in iso.corpus(plats)]
    for _ in range(400 if thorough else 50):
        scen.append((iso.gen_scenario(rng, plats), "random"))
    try:
        pool = iso.Pool(rep.workdir)
    except Exception as e:  # noqa
        rep.broken.append("behaviour isolation: the clean-process worker did not start (%s)" % type(e).__name__)
        return
    bfail = []
    try:
        for ops, kind in scen:
            try:
                fails, full = iso.evaluate(pool, ops, "ops" if thorough else "ends")
            except RuntimeError as e:
                rep.broken.append("behaviour isolation: %s" % str(e)[:400])
                rep.notes.append("scenario: " + json.dumps(ops))
                break
            bd["scenarios"] += 1
            bd[kind] += 1
            bd["ops"] += len(ops)
            nc = iso.n_conns(ops)
            bd["max_conns"] = max(bd["max_conns"], nc)
            for n, cn, ob in full["events"]:
                k = ops[n]["op"]
                bd["op_kinds"][k] = bd["op_kinds"].get(k, 0) + 1
                oc = k + ":" + (ob[1] if ob[0] == "raised" else ob[0])
                bd["outcomes"][oc] = bd["outcomes"].get(oc, 0) + 1
            for o in ops:
                if o["op"] == "new":
                    bd["platforms"][o["platform"]] = bd["platforms"].get(o["platform"], 0) + 1
            finals = full["final"]
            twins = any(finals[i]["pattern"] == finals[j]["pattern"] and finals[i]["levels"] != finals[j]["levels"]
                        for i in range(len(finals)) for j in range(i + 1, len(finals)))
            bd["twins_differing_in_names_or_not_contains"] += 1 if twins else 0
            used = {o["conn"] for o in ops if o["op"] in ("priv", "prompt", "acquire", "send")}
            rep.case(("b", json.dumps(ops, sort_keys=True)), nontrivial=nc >= 2 and len(used) >= 2)
            if bd["scenarios"] == 3:
                rep.sample({"behaviour_scenario": ops, "events": full["events"]})
            if fails:
                bfail.append((ops, fails))
                if len(bfail) >= 3:
                    break
        for ops, fails in bfail[:3]:
            try:
                small = iso.shrink(pool, ops, fails)
                f2 = iso.evaluate(pool, small)[0]
            except RuntimeError:
                small, f2 = ops, []
            msgs = sorted(f2 or fails, key=lambda f: 0 if iso.is_answer(f) else 1 if iso.is_behavioural(f) else 2)
            rep.violation("behaviour isolation: " + "; ".join(m[:700] for m in msgs[:2]),
                          {"suite": "behaviour", "scenario": small if f2 else ops, "failures": msgs[:4], "rerun": "./check C18 --replay <this file>"})
    finally:
        bd["clean_process_runs"] = pool.requests
        pool.close()
    bd["oracle_failures"] = len(bfail)
    bd["wall_s"] = round(time.time() - t0, 1)
    rep.coverage["behaviour_isolation"] = bd


def corpus():
    base = {"variant_given": False, "variant": None, "platform_is_str": True}
    out = []
    for a in (False, True):
        tr = "asynctelnet" if a else "system"
        out.append(dict(base, **{"async": a, "platform": "cisco_iosxe", "kw": [["host", "h"], ["transport", tr], ["auth_strict_key", False], ["port", 0],
                                                                              ["comms_return_char", ""], ["timeout_ops", 0], ["channel_log", ""]]}))
        out.append(dict(base, **{"async": a, "platform": "synth_net", "kw": [["host", "h"], ["transport", tr], ["auth_username", ""], ["timeout_ops", 0.0],
                                                                            ["genie_platform", "gp"], ["failed_when_contains", {"obj": "fwc_empty"}]]}))
        out.append(dict(base, **{"async": a, "platform": "synth_net", "variant_given": True, "variant": "v1",
                                 "kw": [["host", "h"], ["transport", tr], ["on_open", {"obj": "afn_a" if a else "fn_b"}], ["auth_strict_key", True]]}))
        out.append(dict(base, **{"async": a, "platform": "synth_net", "variant_given": True, "variant": "v2", "kw": [["host", "h"], ["transport", tr]]}))
        out.append(dict(base, **{"async": a, "platform": "cisco_nxos", "kw": [["host", "h"]]}))
        out.append(dict(base, **{"async": a, "platform": "juniper_junos", "kw": [["host", "h"], ["transport", "system" if a else "asyncssh"]]}))
        out.append(dict(base, **{"async": a, "platform": "nonesuch", "kw": [["host", "h"], ["transport", tr]]}))
        out.append(dict(base, **{"async": a, "platform": "17", "platform_is_str": False, "kw": [["host", "h"], ["transport", tr]]}))
    return out


def history_corpus():
    n = lambda p, a=False: {"op": "new", "platform": p, "async": a}  # noqa: E731
    return [
        [n("cisco_nxos"), n("cisco_nxos", True), {"op": "register", "conn": 0, "name": "sess1"}, n("cisco_nxos"),
         {"op": "register", "conn": 1, "name": "sess1"}, {"op": "register", "conn": 0, "name": "sess1"}],
        [n("arista_eos"), {"op": "register", "conn": 0, "name": "my-session"}, n("arista_eos", True),
         {"op": "setpattern", "conn": 1, "level": "exec", "pattern": "^edited#$"}, {"op": "appendfwc", "conn": 0, "s": "oops"}, n("arista_eos")],
        [n("cisco_iosxe"), n("cisco_iosxe"), {"op": "appendnc", "conn": 0, "level": "configuration", "s": "(cfg"},
         {"op": "appendnc", "conn": 1, "level": "exec", "s": "x"}, {"op": "setpattern", "conn": 0, "level": "tclsh", "pattern": ""}, n("cisco_iosxe", True)],
        [n("scrapli_networkdriver"), n("scrapli_networkdriver", True), {"op": "register", "conn": 0, "name": "sess2"},
         {"op": "appendfwc", "conn": 1, "s": "% Error"}, {"op": "setpattern", "conn": 0, "level": "exec", "pattern": "^e>$"}, n("scrapli_networkdriver")],
        [n("synth_net"), n("synth_net"), {"op": "appendnc", "conn": 0, "level": "privilege_exec", "s": "zz"},
         {"op": "appendfwc", "conn": 0, "s": "q"}, n("synth_net", True), {"op": "register", "conn": 2, "name": "sess1"}],
        [n("juniper_junos"), n("cisco_iosxr"), {"op": "setpattern", "conn": 0, "level": "configuration_exclusive", "pattern": "^x#$"},
         {"op": "appendfwc", "conn": 1, "s": ""}, {"op": "appendfwc", "conn": 5, "s": "none"}, {"op": "setpattern", "conn": 1, "level": "nolevel", "pattern": "p"}],
        # in-place edits of levels created at run time (registered sessions, user-built levels), twins and a later connection
        [n("arista_eos"), n("cisco_nxos", True), {"op": "register", "conn": 0, "name": "sess1"}, {"op": "register", "conn": 1, "name": "sess2"},
         {"op": "appendnc", "conn": 0, "level": "sess1", "s": "lab"}, {"op": "extendnc", "conn": 1, "level": "sess2", "l": ["a", "b"]}, n("cisco_iosxe")],
        [n("cisco_iosxe"), n("cisco_iosxe", True), {"op": "addlevel", "conn": 0, "name": "maint"}, {"op": "addlevel", "conn": 1, "name": "maint"},
         {"op": "iaddnc", "conn": 1, "level": "maint", "l": ["(cfg"]}, {"op": "iaddnc", "conn": 0, "level": "exec", "l": ["x", ""]},
         {"op": "extendfwc", "conn": 0, "l": ["oops"]}, n("juniper_junos"), {"op": "iaddfwc", "conn": 2, "l": ["q", "r"]}],
        [n("synth_net"), n("scrapli_networkdriver"), {"op": "register", "conn": 0, "name": "sess1"}, {"op": "addlevel", "conn": 1, "name": "ops"},
         {"op": "extendnc", "conn": 0, "level": "sess1", "l": ["zz"]}, {"op": "appendnc", "conn": 1, "level": "ops", "s": "s"}, n("synth_net", True)],
    ]


def shrink_case(w, case):
    """drop keyword arguments while the oracle still fails"""
    cur = copy.deepcopy(case)
    changed = True
    while changed:
        changed = False
        for i in range(len(cur["kw"])):
            t = copy.deepcopy(cur)
            del t["kw"][i]
            if oracle(w, t, run_factory(w, t))[0]:
                cur, changed = t, True
                break
    return cur


def fail_kind(f):
    for k in ("are the same object", "are one object", "changed the platform definitions", "changed connection", "does not start from"):
        if k in f:
            return k
    return ""


def shrink_history(w, ops, kind=""):
    """drop operations while a failure of the same kind remains"""
    cur = list(ops)
    changed = True
    while changed and len(cur) > 1:
        changed = False
        for i in range(len(cur) - 1, -1, -1):
            t = cur[:i] + cur[i + 1:]
            # keep connection indices meaningful: only drop non-creating ops, or a trailing op
            if cur[i]["op"] == "new" and any(o.get("conn", -1) >= sum(1 for x in t[:j] if x["op"] == "new") for j, o in enumerate(t) if o["op"] != "new"):
                continue
            if cur[i]["op"] == "new" and i != len(cur) - 1:
                continue
            if t and any(kind in f for f in run_history(w, t)[0]):
                cur, changed = t, True
                break
    return cur


def search_near(w, rep, near, valid, sweep=None):
    """look for a concrete failing input of the property near model disagreements / after a broken obligation"""
    tried = 0
    todo = list(sweep or [])
    for case in near:
        for kv in case["kw"]:
            for a in (False, True):
                for p in CORE + ["synth_net"]:
                    kw = [x for x in case["kw"] if x[0] in ("host", "transport")] + ([kv] if kv[0] not in ("host", "transport") else [])
                    todo.append(dict(case, **{"async": a, "platform": p, "kw": kw, "variant_given": False, "variant": None}))
        todo.append(case)
    for case in todo:
        tried += 1
        fails, _ = oracle(w, case, run_factory(w, case))
        if fails:
            small = shrink_case(w, case)
            rep.violation("factory (found by search): " + "; ".join(fails[:2]), {"suite": "factory", "case": small})
            return True
    rep.notes.append("search for a failing input: %d cases tried, none found" % tried)
    return False


def replay(path):
    from gen import gen_factory
    r = json.load(open(path))
    workdir = os.path.join(common.BUILD, "C18")
    os.makedirs(workdir, exist_ok=True)
    try:
        _, _, aux = gen_factory.generate(workdir, common.REPO)
    except Exception as e:  # noqa
        print("generator aborted (%s); replaying with a bare registry" % e)
        import scrapli.factory as F
        reg = gen_factory.Registry()
        aux = {"registry": reg, "class_ids": {}, "keys": gen_factory.provided_args_keys(common.REPO)}
        for fac in (F.Scrapli, F.AsyncScrapli):
            for c in list(fac.CORE_PLATFORM_MAP.values()) + list(fac.DRIVER_MAP.values()):
                aux["class_ids"][c] = reg.add(c)
    w = World(aux)
    if r.get("suite") == "factory" and r.get("case"):
        case = r["case"]
        res = run_factory(w, case)
        fails, exp = oracle(w, case, res)
        print("case:", json.dumps(case))
        print("factory outcome:", res["exc"] or ("built " + type(res["obj"]).__name__))
        print("specification:", exp[0], exp[1] if exp[0] != "build" else exp[1].__name__)
        for f in fails:
            print("  FAIL:", f)
        print("property FAILS on this input" if fails else "property holds on this input")
        return 1 if fails else 0
    if r.get("suite") == "argeffect" and r.get("case"):
        return A.replay(w, r["case"])
    if r.get("suite") == "factory-defs" and r.get("case"):
        before = snap_world(w)
        res = run_factory(w, r["case"])
        after = snap_world(w)
        changed = [k for k in before if before[k] != after[k]]
        print("case:", json.dumps(r["case"]))
        print("factory outcome:", res["exc"] or ("built " + type(res["obj"]).__name__))
        print("platform definitions changed by the call:", changed)
        print("property FAILS on this input" if changed else "property holds on this input")
        return 1 if changed else 0
    if r.get("suite") == "isolation" and r.get("history"):
        fails, _, finals = run_history(w, r["history"])
        print("history:", json.dumps(r["history"]))
        for f in fails:
            print("  FAIL:", f)
        print("property FAILS on this history" if fails else "property holds on this history")
        return 1 if fails else 0
    if r.get("suite") == "behaviour" and r.get("scenario"):
        from . import c18_iso as iso
        ops = r["scenario"]
        pool = iso.Pool(workdir)
        try:
            fails, full = iso.evaluate(pool, ops, "ops")
            print("scenario (run in a clean process; every connection also alone in a clean process):")
            for n, op in enumerate(ops):
                ev = [ob for k, cn, ob in full["events"] if k == n]
                print("  op %d %s -> %s" % (n, json.dumps(op, sort_keys=True), json.dumps(ev[0]) if ev else "?"))
            for i in range(iso.n_conns(ops)):
                ref = pool.run(iso.projection(ops, i), False)
                print("  connection %d alone: %s" % (i, json.dumps([ob for _, _, ob in ref["events"]])))
        finally:
            pool.close()
        for f in fails:
            print("  FAIL:", f[:1500])
        print("property FAILS on this scenario" if fails else "property holds on this scenario")
        return 1 if fails else 0
    print("nothing to replay (no concrete input): %s" % r.get("what"))
    return 1


MANIFEST = {
    "text": "Coq theorems (props/C18.v, axiom-free): for EVERY keyword dictionary (any subset of the arguments, any values, False / 0 / '' / empty "
            "containers included), every core platform, sync and asyncio: the factory's outcome equals the outcome of constructing "
            "CORE_PLATFORM_MAP[platform] with the same arguments (arguments given as None count as not given) — C18_factory_eq_direct; every "
            "supplied non-None argument and everything passed through **kwargs reaches the constructor unchanged — C18_falsy_take_effect; on a "
            "community platform a supplied argument always wins over the platform's default/variant value and every other key is the platform's "
            "— C18_user_overrides_community; unknown platforms, platforms without SCRAPLI_PLATFORM, a non-str platform and every explicit "
            "sync/async transport mix-up are rejected with a scrapli exception whatever the other arguments are, and the implicit mix-up "
            "(AsyncScrapli without transport) never builds — C18_rejects_unknown_and_mixups; for EVERY history of creating connections and "
            "registering sessions / editing levels / appending failure strings on them, the platform definitions keep their value and an "
            "operation on connection i leaves every other connection's tables unchanged (heap frame argument over object identities) — "
            "C18_isolation_*; hence every answer that is a function of the connection's own tables (the classification of a prompt by privilege "
            "level names / patterns / not_contains, for any regex matcher) is the same before and after any operations on other connections — "
            "C18_isolation_answers, C18_isolation_answers_untouched, C18_isolation_classification. Generated obligations (vm_compute over Gen_Factory.v, regenerated from the source on every run): the factory "
            "signatures are exactly platform, host, the 30 forwarded keys (all defaulting to None) and variant, sync = asyncio; every core "
            "driver accepts every forwarded key; the core drivers hold copies (not the module objects) of PRIVS / FAILED_WHEN_CONTAINS; the "
            "initial heap built from the real PRIVS tables is well-formed.",
    "note": "Proved about the hand model coq/model/Factory.v + Heap.v; tied to the code by (a) Gen_Factory.v and (b) correspondence on every run: "
            "the model's (class, kwargs) and built fields vs the real factory (recorded at the driver's __init__) over all single-argument cases, "
            "random subsets and a malformed stream, and the model heap vs the real tables after random histories. Independent oracles on the real "
            "code (observed, bounded by the generators): attribute-wise comparison (callables and user objects by identity) of factory-built vs "
            "directly built drivers, literal read-back of every supplied argument, sync/asyncio stack of driver vs transport, snapshots and identity graph (dict, PrivilegeLevel, not_contains, "
            "failed_when_contains objects, named by owner and level) of definitions and all connections after every op: an object held by two "
            "connections or by a connection and a definition fails the property; objects shared among the definitions alone or held twice by one "
            "connection break the tie to Heap.v (init_ok / deepcopy allocate one object per level) without a verdict. History ops beyond the "
            "model's vocabulary are mapped onto it: a user-built level added without not_contains = Register, extend / += = a run of AppendNC / "
            "AppendFWC. ORACLE-ONLY (harness/c18_args.py, no model behind it; Factory.v stops at the keyword dictionary the driver class "
            "receives and the fields of GETTERS): the ARGUMENT-EFFECT observer — for every keyword in the signature of each of the 10 core "
            "driver classes, by direct construction and through Scrapli / AsyncScrapli, over base transports of the class's own stack (system, "
            "telnet, paramiko; asynctelnet, asyncssh), a distinctive well-typed value is supplied, each keyword alone, a random pair, and all "
            "together; the built object is flattened into slots (driver attributes, channel args, transport args, plugin transport args, "
            "loggers, channel, transport) and compared with the same construction without the keywords: the documented slot(s) of the keyword "
            "hold the value (the three auth patterns also as the compiled pattern the channel searches for) and every slot that differs from "
            "the baseline is named after a supplied keyword (plus documented side effects: transport -> transport object / plugin args / "
            "default port, privilege_levels -> prompt pattern / priv graph, logging_uid -> log extras; ssh files are not read back on telnet "
            "transports, which ignore them by documentation). The random factory cases additionally read the three **kwargs-only auth "
            "patterns back from the channel arguments (own field holds it, a field not supplied never holds another's value). "
            "TRANSPORT-NAME SPELLINGS (case variants, padded, camel case of the six core names) run on both routes and both stacks (argeffect "
            "suite) and as a stream of the factory suite (these also go through the model: an unknown name raises ScrapliTransportPluginError); "
            "oracle, applied to every factory-built and directly built object of every stream: the driver's stack (open is a coroutine function "
            "or not) equals its transport's; a spelled name given alone is rejected with a scrapli error or yields a consistent object. "
            "ORACLE-ONLY (harness/c18_iso.py, not modelled beyond the "
            "theorem above): that the real connection's answers ARE a function of its own tables. Scenarios interleave constructing several "
            "connections of one platform (5 core + the scrapli community network platform, sync and asyncio, sometimes a second platform), mutating "
            "one (register differently named sessions / sessions agreeing in six characters, add a level under another name with an existing "
            "pattern and with or without the not_contains argument, edit pattern, edit not_contains IN PLACE (append / extend / += / insert(0)) "
            "on deep-copied levels and, preferably, on levels created at run time (registered sessions, added levels, levels the user built and "
            "passed as privilege_levels=), edit failed_when_contains in place (append / extend / +=), delete an added level; always followed "
            "by update_privilege_levels) and USING "
            "them (_determine_current_priv on the simulated device's prompts, get_prompt, acquire_priv, send_command over a per-connection "
            "SimDevice with equal host names) in both orders; the scenario and, per connection, its projection (that connection alone) each run in "
            "a clean process (fork of a worker that imported scrapli but never built a connection); every answer (levels / exception class / "
            "believed level / device mode / lines typed) and the final state must be equal. Beside it a generic observer: contents of every "
            "container or scrapli-class instance in vars() of the driver / channel / transport classes (MRO), of every class in a scrapli module "
            "and in the globals of every scrapli module, and every mutable default value (__defaults__ / __kwdefaults__) of the functions and "
            "methods found there, before / after the scenario (thorough: around every op), and mutable containers reachable "
            "from two connections; interpreter dunder memos (__slotnames__) and functools.lru_cache objects are not containers and are judged by "
            "behaviour only. Kept out: editing a level WITHOUT update_privilege_levels (stale per-connection lru entries are evicted by other "
            "connections' cache_clear — outside the documented use). partial: what BaseDriver does with an argument after "
            "the constructor received it (ssh file resolution, key file resolution, host strip) is only compared factory-vs-direct, not modelled; "
            "positional calls are not covered; an unknown *variant* of a known community platform raises a raw KeyError — outside the statement, "
            "observed and modelled, not judged. deepcopy is modelled for the table shape (dict -> PrivilegeLevel -> not_contains list), not as "
            "CPython's generic algorithm.",
    "technique": "Coq proofs over association-list dictionaries (extensional equality of kwargs, order-insensitive binding) and over a heap with an "
                 "ownership invariant (frame rule), + vm_compute correspondence against Scrapli/AsyncScrapli and real connections, + differential "
                 "and identity-graph oracles",
}
