"""entry point:  python -m harness.main Cxx --tier quick|thorough [--replay FILE]"""
import argparse
import importlib
import os
import sys
import traceback

from . import common


def coqchk(rep, pid):
    """thorough tier: the independent checker re-checks the property theorems of this run (the copy of props/<pid>.v and
    every per-run theorem file <pid>_*.v compiled in the work dir) with everything they depend on, and prints the axioms."""
    import glob
    mods = []
    for vo in sorted(glob.glob(os.path.join(rep.workdir, pid + "*.vo"))):
        b = os.path.basename(vo)[:-3]
        if (b == pid or b.startswith(pid + "_")) and os.path.getmtime(vo) >= rep.t_start - 1:   # compiled by THIS run only
            mods.append("Gen." + b)
    skipped = []
    if pid == "C05":
        # the per-platform files discharge ~480 facts by vm_compute (reflexive proofs): coqchk replays each of them in its own,
        # much slower evaluator (one platform did not finish in 40 minutes), so only the general theorems are re-checked
        skipped = [m for m in mods if m != "Gen.C05"]
        mods = [m for m in mods if m == "Gen.C05"]
    if not mods:
        return
    rc, out, _ = common.sh(["timeout", "1500", "coqchk", "-o", "-silent", "-Q", common.COQ, "Verif", "-Q", rep.workdir, "Gen"] + mods,
                           cwd=rep.workdir, timeout=1600)
    txt = " ".join(out.split())
    ax = txt[txt.find("* Axioms:"):][:300] if "* Axioms:" in txt else txt[-300:]
    if rc == 124:   # the re-check replays every vm_compute cast single-threaded: running out of time is not a verdict
        rep.coverage["coqchk"] = "not completed within the time limit (%s)" % ", ".join(mods)
        return
    rep.coverage["coqchk"] = ("ok (%s): %s" % (", ".join(mods), ax)) if rc == 0 else "FAILED"
    if skipped:
        rep.coverage["coqchk"] += "; NOT re-checked (time): " + ", ".join(skipped)
    if rc:
        rep.broken.append("coqchk props/%s.vo" % pid)
        rep.notes.append(out[-1500:])


def main():
    ap =argparse.ArgumentParser()
    ap.add_argument("pid")
    ap.add_argument("--tier", default=os.environ.get("VERIF_TIER", "quick"), choices=["quick", "thorough"])
    ap.add_argument("--replay")
    ap.add_argument("--seed", type=int, default=int(os.environ.get("VERIF_SEED", "0") or 0))
    a = ap.parse_args()
    common.setup_env()
    pid = a.pid.upper()
    mod = importlib.import_module("harness.%s" % pid.lower())
    if a.replay:
        sys.exit(mod.replay(a.replay))
    rep = common.Report(pid, a.tier, a.seed, level=getattr(mod, "LEVEL", "proof"))
    rep.t_start = __import__("time").time()
    try:
        # the static development first (a no-op when setup.sh has built it): generated files are then always compiled
        # against the current .vo files, never against stale ones
        common.ensure_static()
        mod.run(rep)
        if a.tier == "thorough" and "coqchk" not in rep.coverage:
            coqchk(rep, pid)
    except Exception:  # the machinery itself failed: fail closed, say so
        tb = traceback.format_exc()
        rep.notes.append("harness exception:\n" + tb)
        rep.broken.append("harness-exception")
        print(tb, file=sys.stderr)
    sys.exit(rep.finish())


if __name__ == "__main__":
    main()
