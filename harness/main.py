"""entry point:  python -m harness.main Cxx --tier quick|thorough [--replay FILE]"""
import argparse
import importlib
import os
import sys
import traceback

from . import common


def main():
    ap = argparse.ArgumentParser()
    ap.add_argument("pid")
    ap.add_argument("--tier", default=os.environ.get("VERIF_TIER", "quick"), choices=["quick", "thorough"])
    ap.add_argument("--replay")
    ap.add_argument("--seed", type=int, default=int(os.environ.get("VERIF_SEED", "0") or 0))
    a = ap.parse_args()
    common.setup_env()
    pid = a.pid.upper()
    mod = importlib.import_module("harness.%s" % pid.lower())
    if a.replay:
        sys.exit(mod.replay(a.replay))
    rep = common.Report(pid, a.tier, a.seed, level=getattr(mod, "LEVEL", "proof"))
    try:
        # the static development first (a no-op when setup.sh has built it): generated files are then always compiled
        # against the current .vo files, never against stale ones
        common.ensure_static()
        mod.run(rep)
    except Exception:  # the machinery itself failed: fail closed, say so
        tb = traceback.format_exc()
        rep.notes.append("harness exception:\n" + tb)
        rep.broken.append("harness-exception")
        print(tb, file=sys.stderr)
    sys.exit(rep.finish())


if __name__ == "__main__":
    main()
