"""MANIFEST pieces that are not per property (per-property entries: MANIFEST dict in harness/cXX.py)."""
HOOK_COMMITS = []
NOT_APPLICABLE = {}
