"""Per-property MANIFEST entries (level text, trusted base, technique)."""
HOOK_COMMITS = []
NOT_APPLICABLE = {}
ENTRIES = {
    "C15": {
        "text": "Coq theorem negotiation_invisible (props/C15.v): for EVERY stream of the negotiation grammar (data without IAC, "
                "any IAC verb opt commands, at most `limit` for the counting sync transport) and EVERY segmentation into non-empty "
                "recv() results, the concatenated read() results are the data minus NULs and the replies are the correct ones, in order; "
                "corollaries seg_independent and sync_eq_async; the pinned commit's local control buffer is refuted by a vm_compute witness. "
                "Axiom-free (Print Assumptions recorded). Tie: Gen_Telnet.v (constants, limits) regenerated from /repo on every run; the model "
                "[run] is executed by vm_compute on the same chunk lists as both real transports (scripted socket / StreamReader) and must agree; "
                "an independent token-level oracle decides the property on the implementation.",
        "note": "Trusted: Coq kernel + vm_compute; the hand model coq/model/Telnet.v (tied by correspondence on all 1-cut, many 2-cut, 1-byte and random "
                "segmentations of generated grammar streams and on malformed streams); gen/gen_telnet.py; scripted sockets. Not modelled: the real socket, "
                "timeouts, the socket-timeout bump after the 10th command.",
        "technique": "Coq proof by induction over recv chunks with a grammar invariant (byte-wise automaton refinement) + vm_compute correspondence against both transports",
    },
}
