"""C10 — strict host-key checking protects credentials.

proof: coq/proofs/HostKey_Proofs.v over coq/model/HostKey.v (open() of the paramiko / ssh2 / asyncssh
transports as an event trace; the argv of the system transport and OpenSSH's first-value-wins
reading of it), props/C10.v.
tie: Gen_HostKey.v regenerated from the source (defaults, type check, order of calls in open(),
argv literals) + correspondence of the model against
  hostkey-order    the real transports over stub library sessions that record call order
                   (paramiko, asyncssh; ssh2 over an injected stand-in `ssh2` package),
  hostkey-loopback the real paramiko / asyncssh libraries against in-process asyncssh servers that
                   record every authentication attempt they receive; incl. host ALIASES (c10_alias.py): the
                   name dialled is not the name under which the file carries the server's key (peer address
                   in every entry form, another alias) — the entry for the DIALLED name decides,
  system-argv      _build_open_cmd, a stand-in `ssh` on PATH recording argv, and (when an ssh
                   binary exists) the real ssh client against the loopback servers,
  hostkey-history  (c10_hist.py) ONE transport / driver object opened, closed and opened again while the
                   server behind the address is exchanged and / or known_hosts is edited — in place or replaced by
                   rename, with the modification time moving or PINNED (same-size edits included), also seen by a
                   new object over the same path: over the stubs (exact traces), the real libraries and the real ssh
                   binary against recording servers behind a switchable address, and the stand-in ssh;
                   model: run_history / sys_history / run_memo (the content at the moment of an open decides),
  marker-lookup    (c10_marker.py) known_hosts files with @revoked / @cert-authority lines, trailing comments, blank and
                   comment lines: SSHKnownHosts.lookup vs lookup_lines reader_as_written; the same files run through
                   hostkey-order (all three transports) and hostkey-loopback (real paramiko / asyncssh) — a marker line is
                   never a trust entry,
  pattern files    (c10_pattern.py) known_hosts lines with * ? wildcards and !negated patterns in comma lists: a host a line EXCLUDES
                   has no entry on it; same two suites (oracle-only on the matching, model-compared on the ordering),
  retries          (c10_hist.py NOCLOSE_KINDS) open() again on one object WITHOUT close() after a failed / rejected / successful open.
The property itself is decided on the implementation's observations by an oracle that does not
use the model (independent known_hosts reader; Python getopt with OpenSSH's option string)."""
import asyncio
import base64
import getopt
import hashlib
import hmac
import json
import logging
import os
import shutil
import stat
import sys
import types

from . import common
from .common import coq_bool, coq_bytes, coq_list

LEVEL = "proof"
SOURCES = ["scrapli/transport/plugins/paramiko/transport.py",
           "scrapli/transport/plugins/asyncssh/transport.py",
           "scrapli/transport/plugins/ssh2/transport.py",
           "scrapli/transport/plugins/system/transport.py",
           "scrapli/ssh_config.py",
           "scrapli/driver/base/base_driver.py"]

HOST = "127.0.0.1"
EV = {"KeyExchange": 1, "CheckPresent": 2, "CheckValue": 3, "LibVerify": 4, "OfferPassword": 10,
      "OfferPrivateKey": 11, "OfferKbdInt": 12, "FailAuth": 20, "FailNotOpened": 21, "FailOther": 22, "Opened": 30}
EVN = {v: k for k, v in EV.items()}
LIBS = ["Paramiko", "Ssh2", "Asyncssh"]
VERDICTS = ["Trusted", "Untrusted", "NoCommonAlg"]


def exc_code(e):
    n = type(e).__name__
    return {"ScrapliAuthenticationFailed": EV["FailAuth"], "ScrapliConnectionNotOpened": EV["FailNotOpened"]}.get(n, EV["FailOther"])


# ------------------------------------------------------------------------------------------------
# known_hosts files: generator, and an independent reader (the oracle's notion of "the entry")
# ------------------------------------------------------------------------------------------------
def hashed_host(rng, name):
    salt = bytes(rng.randrange(256) for _ in range(20))
    dig = hmac.new(salt, name.encode(), hashlib.sha1).digest()
    return "|1|%s|%s" % (base64.b64encode(salt).decode(), base64.b64encode(dig).decode())


OTHER_HOSTS = ["10.0.0.1", "r1.example.net", "127.0.0.11", "27.0.0.1", "127.0.0.1.evil.example", "localhost", "::1", "router-1"]


def gen_known_hosts(rng, keys, skey_name, relation, fmt, port, noise=True, host=None):
    """known_hosts text for target HOST.  relation: absent | right | other_same | other_type | both.
    fmt: plain | comma | hashed | bracket (standard [host]:port form).  keys: name -> (type, b64).
    host: the name the target lines are written for (default HOST; a near-miss name of the same length gives a
    file of the same shape and size in which HOST has no entry — used by the same-size edits of the histories)."""
    host = HOST if host is None else host
    others = [k for k in keys if k != skey_name]
    same = [k for k in others if keys[k][0] == keys[skey_name][0]]
    diff = [k for k in others if keys[k][0] != keys[skey_name][0]]

    def hostfield(h):
        if fmt == "comma":
            extra = rng.sample(OTHER_HOSTS, rng.randint(1, 3))
            pos = rng.randint(0, len(extra))
            return ",".join(extra[:pos] + [h] + extra[pos:])
        if fmt == "hashed":
            return hashed_host(rng, h)
        if fmt == "bracket":
            return "[%s]:%d" % (h, port)
        return h

    lines = []
    if noise:
        for _ in range(rng.randint(0, 4)):
            kind = rng.random()
            kn = rng.choice(list(keys))
            if kind < 0.15:
                lines.append("# " + rng.choice(["comment", HOST + " ssh-ed25519 " + keys[skey_name][1]]))
            elif kind < 0.25:
                lines.append("")
            elif kind < 0.4:
                lines.append("%s %s %s" % (hashed_host(rng, rng.choice(OTHER_HOSTS)), keys[kn][0], keys[kn][1]))
            else:
                # near-miss hosts carrying the RIGHT key: must never count as the host's entry
                hs = rng.sample(OTHER_HOSTS, rng.randint(1, 2))
                lines.append("%s %s %s" % (",".join(hs), keys[skey_name][0] if rng.random() < 0.5 else keys[kn][0],
                                           keys[skey_name][1] if rng.random() < 0.5 else keys[kn][1]))
    target = []
    if relation == "right":
        target.append(skey_name)
    elif relation == "other_same":
        target.append(rng.choice(same))
    elif relation == "other_type":
        target.append(rng.choice(diff))
    elif relation == "both":          # two lines for the host: a different key, then the right one (or reversed)
        target = [rng.choice(others), skey_name]
        if rng.random() < 0.5:
            target.reverse()
    for kn in target:
        lines.insert(rng.randint(0, len(lines)), "%s %s %s" % (hostfield(host), keys[kn][0], keys[kn][1]))
    return "\n".join(lines) + "\n"


def gen_malformed_known_hosts(rng, keys, skey_name, port):
    """outside the property's domain: junk lines, markers, broken hashes, trailing comments"""
    kt, kb = keys[skey_name]
    ok = rng.choice([k for k in keys if k != skey_name])
    pool = [
        "garbage",
        "two tokens",
        "@revoked %s %s %s" % (HOST, kt, kb),
        "@cert-authority %s %s %s" % (HOST, kt, kb),
        "%s %s %s trailing comment" % (HOST, kt, kb),
        "|1|abc %s %s" % (kt, kb),
        "|1|!!!|??? %s %s" % (kt, kb),
        "|2|c2FsdA==|aGFzaA== %s %s" % (kt, kb),
        "%s %s not-base64!!" % (HOST, kt),
        "%s %s %s" % (HOST, kt, kb[:-8]),
        "*.0.0.1 %s %s" % (kt, kb),
        "127.0.0.? %s %s" % (keys[ok][0], keys[ok][1]),
        "!%s,* %s %s" % (HOST, kt, kb),
        "\t%s %s %s" % (HOST, keys[ok][0], keys[ok][1]),
        "%s  %s  %s" % (HOST, kt, kb),
        "%s\t%s\t%s" % (HOST, kt, kb),
        "%s %s %s\r" % (HOST, keys[ok][0], keys[ok][1]),
        "\xe9\xe8 %s %s" % (kt, kb),
        "x" * 300,
    ]
    n = rng.randint(1, 4)
    lines = rng.sample(pool, n)
    if rng.random() < 0.4:
        lines.insert(rng.randint(0, len(lines)), "%s %s %s" % (HOST, keys[ok][0], keys[ok][1]))
    return "\n".join(lines) + "\n"


def spec_entry_keys(text, host, port):
    """Independent reading of a known_hosts file (sshd(8), SSH_KNOWN_HOSTS FILE FORMAT): the set of
    base64 keys on lines that name `host` (plain or in a comma list, hashed, `[host]:port`, or by
    a * ? pattern) and do not EXCLUDE it by a negated pattern (`!host`, `!*.dom`: a host matched by a negated pattern of a
    line is not matched by that line whatever its other patterns; a line of negations only matches nobody).  Deliberately
    generous otherwise: anything a reasonable client could take as an entry for the host is in the set (text after the key
    is a comment; a wildcard counts), so `key not in set` really means missing-or-different.
    Lines with a marker (@revoked, @cert-authority, anything starting with @) are NOT entries."""
    import re

    def wild(pat, name):      # only * and ? are wildcards in known_hosts patterns ([ ] are literal: "[host]:port")
        rx = "".join(".*" if ch == "*" else "." if ch == "?" else re.escape(ch) for ch in pat)
        return re.fullmatch(rx, name) is not None

    out = set()
    names = [host, "[%s]:%d" % (host, port)]
    for line in text.splitlines():
        line = line.strip()
        if not line or line.startswith("#"):
            continue
        f = line.split()
        if f[0].startswith("@"):
            # a MARKER line is never a plain trust entry: an @revoked key is never accepted, an @cert-authority key only signs
            # host certificates (which scrapli never asks for) — whatever host the line names, it contributes nothing
            continue
        if len(f) < 3:
            continue
        hit = excluded = False
        for pat in f[0].split(","):
            if pat.startswith("!"):
                # a NEGATED pattern: a host it matches is not matched by this line, whatever the other patterns of the line say
                if any(wild(pat[1:], n) for n in names):
                    excluded = True
            elif pat.startswith("|1|"):
                parts = pat.split("|")
                if len(parts) == 4:
                    try:
                        salt, dig = base64.b64decode(parts[2]), base64.b64decode(parts[3])
                    except Exception:  # noqa
                        continue
                    if any(hmac.new(salt, n.encode(), hashlib.sha1).digest() == dig for n in names):
                        hit = True
            elif any(wild(pat, n) for n in names):
                hit = True
        if hit and not excluded:
            out.add(f[2])
    return out


# ------------------------------------------------------------------------------------------------
# stub libraries (suite hostkey-order)
# ------------------------------------------------------------------------------------------------
class Cur:
    """the scenario the stub libraries act out, and the trace they record"""
    sc = None
    trace = None
    connect_kwargs = None


def ev(name):
    Cur.trace.append(EV[name])


class _Anything:
    def __getattr__(self, name):
        return lambda *a, **k: None


class _AChan(_Anything):
    pass


def install_lookup_recorder():
    from scrapli import ssh_config
    if getattr(ssh_config.SSHKnownHosts.lookup, "_c10", False):
        return
    orig = ssh_config.SSHKnownHosts.lookup

    def lookup(self, host):
        if Cur.trace is not None:
            ev("CheckPresent")
        return orig(self, host)

    lookup._c10 = True
    lookup._orig = orig
    ssh_config.SSHKnownHosts.lookup = lookup


class StubSocket:
    sock = object()

    def isalive(self):
        return True

    def open(self):
        pass

    def close(self):
        pass


def make_paramiko_stub():
    from paramiko.ssh_exception import AuthenticationException

    class _Key:
        def get_base64(self):
            return Cur.sc["skey"]

    class Session:
        def __init__(self, sock):
            self.authed = False
            self.active = False
            self.disabled_algorithms = {}

        def start_client(self):
            ev("KeyExchange")
            if not Cur.sc["handshake_ok"]:
                raise OSError("handshake")
            self.active = True

        def is_active(self):
            # paramiko.Transport.is_active: true from a completed negotiation until close() — also after a FAILED host key
            # verification or authentication, as long as nobody closed the session
            return self.active

        def get_remote_server_key(self):
            ev("CheckValue")
            return _Key()

        def auth_publickey(self, username, key):
            ev("OfferPrivateKey")
            if not Cur.sc["key_ok"]:
                raise AuthenticationException("no")
            self.authed = True

        def auth_password(self, username, password):
            ev("OfferPassword")
            if not Cur.sc["pw_ok"]:
                raise AuthenticationException("no")
            self.authed = True

        def is_authenticated(self):
            return self.authed

        def open_session(self):
            return _AChan()

        def close(self):
            self.active = False

    return Session


def ensure_ssh2_importable():
    """ssh2-python is not installed here: the real scrapli ssh2 transport is run over a stand-in
    `ssh2` package (only the names the transport imports).  Returns 'real' or 'stand-in'."""
    try:
        import ssh2.session  # noqa
        return "real"
    except Exception:  # noqa
        pass
    pkg = types.ModuleType("ssh2")
    pkg.__path__ = []
    ch = types.ModuleType("ssh2.channel")
    ch.Channel = type("Channel", (), {})
    ex = types.ModuleType("ssh2.exceptions")
    ex.AuthenticationError = type("AuthenticationError", (Exception,), {})
    ex.SSH2Error = type("SSH2Error", (Exception,), {})
    se = types.ModuleType("ssh2.session")
    se.Session = type("Session", (), {})
    for m in (pkg, ch, ex, se):
        sys.modules[m.__name__] = m
    pkg.channel, pkg.exceptions, pkg.session = ch, ex, se
    return "stand-in"


def make_ssh2_stub():
    from ssh2.exceptions import AuthenticationError

    class Session:
        def __init__(self):
            self.authed = False

        def set_timeout(self, v):
            pass

        def handshake(self, sock):
            ev("KeyExchange")
            if not Cur.sc["handshake_ok"]:
                raise OSError("handshake")

        def hostkey(self):
            ev("CheckValue")
            return (base64.b64decode(Cur.sc["skey"]), 1)

        def userauth_publickey_fromfile(self, user, key, passphrase):
            ev("OfferPrivateKey")
            if not Cur.sc["key_ok"]:
                raise AuthenticationError("no")
            self.authed = True

        def userauth_password(self, username, password):
            ev("OfferPassword")
            if not Cur.sc["pw_ok"]:
                raise AuthenticationError("no")
            self.authed = True

        def userauth_keyboardinteractive(self, user, password):
            ev("OfferKbdInt")
            if not Cur.sc["kbd_ok"]:
                raise AuthenticationError("no")
            self.authed = True

        def userauth_authenticated(self):
            return self.authed

        def open_session(self):
            return _AChan()

    return Session


def make_asyncssh_stub():
    import asyncssh

    class _Key:
        def export_public_key(self):
            return ("ssh-ed25519 " + Cur.sc["skey"] + " comment").encode()

    class Session:
        def get_server_host_key(self):
            ev("CheckValue")
            return _Key()

        async def open_session(self, **kw):
            return _AChan(), _AChan(), _AChan()

        def close(self):
            pass

    async def connect(**kw):
        sc = Cur.sc
        Cur.connect_kwargs = dict(kw)
        ev("KeyExchange")
        if not sc["handshake_ok"]:
            raise asyncssh.KeyExchangeFailed("no matching algorithm")
        if kw.get("known_hosts") is not None:
            # what the library does when it is handed known hosts: verify during key exchange
            if sc["libv"] == "NoCommonAlg":
                # seen on loopback: usually KeyExchangeFailed, now and then the peer just drops the connection
                if sc["pw_ok"]:
                    raise asyncssh.ConnectionLost("Connection lost")
                raise asyncssh.KeyExchangeFailed("no matching host key algorithm")
            ev("LibVerify")
            if sc["libv"] == "Untrusted":
                raise asyncssh.HostKeyNotVerifiable("Host key is not trusted")
        if kw.get("client_keys"):
            ev("OfferPrivateKey")
            if sc["key_ok"]:
                return Session()
        if kw.get("password"):
            ev("OfferPassword")
            if sc["pw_ok"]:
                return Session()
        raise asyncssh.PermissionDenied("denied")

    return connect


class Stubs:
    def __init__(self, workdir, client_key_path):
        install_lookup_recorder()
        self.ssh2_kind = ensure_ssh2_importable()
        import scrapli.transport.plugins.asyncssh.transport as ta
        import scrapli.transport.plugins.paramiko.transport as tp
        import scrapli.transport.plugins.ssh2.transport as t2
        self.tp, self.t2, self.ta = tp, t2, ta
        self.saved = (tp._ParamikoTransport, t2.Session, ta.connect)
        tp._ParamikoTransport = make_paramiko_stub()
        t2.Session = make_ssh2_stub()
        ta.connect = make_asyncssh_stub()
        self.client_key_path = client_key_path
        self.loop = asyncio.new_event_loop()

    def restore(self):
        self.tp._ParamikoTransport, self.t2.Session, self.ta.connect = self.saved
        self.loop.close()

    def make(self, lib, sc, khfile):
        """the real transport object over the stub library, configured from the scenario's fixed part"""
        from scrapli.transport.base.base_transport import BaseTransportArgs
        bta = BaseTransportArgs(transport_options={}, host=HOST, port=22, timeout_socket=5, timeout_transport=5)
        kw = dict(auth_username="u" if sc["has_user"] else "", auth_password="SECRETPW" if sc["has_pw"] else "",
                  auth_private_key=self.client_key_path if sc["has_key"] else "", auth_strict_key=sc["strict"],
                  ssh_known_hosts_file=khfile)
        mod = {"Paramiko": self.tp, "Ssh2": self.t2, "Asyncssh": self.ta}[lib]
        cls = {"Paramiko": "ParamikoTransport", "Ssh2": "Ssh2Transport", "Asyncssh": "AsyncsshTransport"}[lib]
        t = getattr(mod, cls)(bta, mod.PluginTransportArgs(**kw))
        if lib != "Asyncssh":
            t.socket = StubSocket()
        return t

    def open_on(self, t, lib, sc):
        """one open() of the transport object [t] while the stub library acts out [sc]; returns the recorded trace"""
        Cur.sc, Cur.trace, Cur.connect_kwargs = sc, [], None
        try:
            if lib == "Asyncssh":
                self.loop.run_until_complete(t.open())
            else:
                t.open()
            ev("Opened")
        except Exception as e:  # noqa
            Cur.trace.append(exc_code(e))
        trace, Cur.trace = Cur.trace, None
        return trace, Cur.connect_kwargs

    def run(self, lib, sc, khfile):
        """run the real transport's open() over the stub library; returns the recorded trace"""
        return self.open_on(self.make(lib, sc, khfile), lib, sc)


def oracle_trace(sc, trace, key_bad):
    """the property on a recorded trace, without the model: in strict mode with a missing/different key
    nothing is offered and the attempt ends in ScrapliAuthenticationFailed (when a key exchange happened);
    in strict mode every offer is preceded by a value check (scrapli's or the library's)."""
    offers = [i for i, e in enumerate(trace) if e in (10, 11, 12)]
    if not sc["strict"]:
        return None
    if key_bad:
        if offers:
            return "credentials offered (%s) although the server key is missing from / different to the entry" % EVN[trace[offers[0]]]
        if sc["handshake_ok"] and trace[-1] != EV["FailAuth"]:
            return "attempt ended with %s instead of ScrapliAuthenticationFailed" % EVN.get(trace[-1], trace[-1])
    if offers and not any(e in (EV["CheckValue"], EV["LibVerify"]) for e in trace[:offers[0]]):
        return "credentials offered before any host key verification"
    return None


def coq_scen(sc):
    entry = "None" if sc["entry"] is None else "(Some %s)" % coq_bytes(sc["entry"].encode())
    return "(mkS %s %s %s %s %s %s %s %s %s %s %s)" % (
        coq_bool(sc["strict"]), entry, coq_bytes(sc["skey"].encode()), sc["libv"], coq_bool(sc["handshake_ok"]),
        coq_bool(sc["has_key"]), coq_bool(sc["has_pw"]), coq_bool(sc["has_user"]), coq_bool(sc["key_ok"]),
        coq_bool(sc["pw_ok"]), coq_bool(sc["kbd_ok"]))


HEADER_ORDER = """From Verif Require Import Bytes HostKey.
Definition chk (c : lib * scen * bytes) : bool :=
  let '(l, s, obs) := c in beq (trace_code (open_trace true l s)) obs.
"""

HEADER_LOOP = """From Verif Require Import Bytes HostKey.
Definition chk (c : lib * scen * (N * bool * bool)) : bool :=
  let '(l, s, (fin, pw, key)) := c in
  let '(fin', pw', key') := projection (open_trace true l s) in
  (fin =? fin') && Bool.eqb pw pw' && Bool.eqb key key'.
"""

HEADER_ARGV = """From Verif Require Import Bytes HostKey.
Definition chk (c : sysargs * list bytes) : bool :=
  let '(a, obs) := c in lbeq (build_open_cmd a) obs.
"""


# ------------------------------------------------------------------------------------------------
# loopback (suite hostkey-loopback)
# ------------------------------------------------------------------------------------------------
class Keys:
    def __init__(self, workdir):
        from . import c10_loopback as lb
        self.lb = lb
        self.priv = {"A": lb.gen_key("ssh-ed25519"), "B": lb.gen_key("ssh-ed25519"),
                     "R": lb.gen_key("ssh-rsa"), "Q": lb.gen_key("ssh-rsa")}
        self.pub = {n: (lb.key_type(k), lb.pub_b64(k)) for n, k in self.priv.items()}
        ck = lb.gen_key("ssh-rsa")
        self.client_key_path = os.path.join(workdir, "client_rsa")
        if os.path.exists(self.client_key_path):
            os.chmod(self.client_key_path, 0o600)
        with open(self.client_key_path, "wb") as f:
            f.write(ck.export_private_key("openssh"))
        os.chmod(self.client_key_path, 0o600)
        self.client_pub = lb.pub_b64(ck)


def lib_verdict(khfile, host, port, skey_type, skey_b64, addr=None):
    """what asyncssh itself decides for (file, host, port, server key) when it is given the file —
    computed with asyncssh's own matcher; mirrors SSHClientConnection's narrowing of host key
    algorithms to those of the trusted keys.  None when asyncssh refuses to read the file.
    addr: the peer address of the connection (asyncssh matches entries by the dialled name OR the peer
    address); default: the host is dialled by its address."""
    from asyncssh.known_hosts import match_known_hosts
    try:
        res = match_known_hosts(khfile, host, addr or host, port if port != 22 else None)
    except Exception as e:  # noqa
        return None
    trusted, ca, revoked = res[0], res[1], res[2]
    tk = {k.export_public_key("openssh").split()[1].decode() for k in trusted}
    rk = {k.export_public_key("openssh").split()[1].decode() for k in revoked}
    algs = set()
    for k in trusted:
        algs.add(k.algorithm.decode())
    if trusted and skey_type not in algs and not ca:
        return "NoCommonAlg"
    if skey_b64 in tk and skey_b64 not in rk:
        return "Trusted"
    return "Untrusted"


def open_real(lib, port, strict, khfile, has_pw, key_path, via_driver=True, host=None):
    """open the real transport (built by the real driver, so defaults and file resolution are the
    code's own) against 127.0.0.1:port — dialled as [host] (default: the address itself; an alias is a
    name that resolves to it).  strict None = argument omitted.  Returns final event code."""
    kw = dict(host=HOST if host is None else host, port=port, auth_username="u", timeout_socket=10, timeout_transport=10,
              ssh_known_hosts_file=khfile, ssh_config_file=False)
    if has_pw:
        kw["auth_password"] = "SECRETPW"
    if key_path:
        kw["auth_private_key"] = key_path
    if strict is not None:
        kw["auth_strict_key"] = strict
    if lib == "Asyncssh":
        from scrapli.driver import AsyncDriver
        d = AsyncDriver(transport="asyncssh", **kw)
        t = d.transport

        async def go():
            try:
                await t.open()
                r = EV["Opened"]
            except Exception as e:  # noqa
                r = exc_code(e), type(e).__name__
            sess = t.session
            try:
                t.close()
            except Exception:  # noqa
                pass
            if sess is not None:
                try:
                    await asyncio.wait_for(sess.wait_closed(), 5)
                except Exception:  # noqa
                    pass
            return r

        loop = asyncio.new_event_loop()
        try:
            r = loop.run_until_complete(go())
        finally:
            loop.close()
    else:
        from scrapli.driver import Driver
        d = Driver(transport="paramiko", **kw)
        t = d.transport
        try:
            t.open()
            r = EV["Opened"]
        except Exception as e:  # noqa
            r = exc_code(e), type(e).__name__
        sess, sock = t.session, t.socket
        try:
            t.close()
        except Exception:  # noqa
            pass
        for x in (sess, sock):
            try:
                if x is not None:
                    x.close()
            except Exception:  # noqa
                pass
    if isinstance(r, tuple):
        return r[0], r[1], d
    return r, None, d


# ------------------------------------------------------------------------------------------------
# system transport
# ------------------------------------------------------------------------------------------------
SSH_OPTSTRING = "1246ab:c:e:fgi:kl:m:no:p:qstvxAB:CD:E:F:GI:J:KL:MNO:P:Q:R:S:TVw:W:XYy"   # ssh.c


def ssh_effective(argv, keyword):
    """independent of the Coq model: what ssh(1) would use for `keyword`, reading argv the way ssh.c
    does (getopt with its option string; after the destination the scan resumes; a second operand
    starts the command).  First obtained value wins.  Returns None if not set on the command line,
    'ERR' if getopt rejects the line."""
    args = list(argv[1:])
    seen_dest = False
    kw = keyword.lower()
    while args:
        try:
            opts, rest = getopt.getopt(args, SSH_OPTSTRING)
        except getopt.GetoptError:
            return "ERR"
        for o, v in opts:
            if o == "-o":
                s = v.lstrip()
                if s.lower().startswith(kw) and len(s) > len(kw) and s[len(kw)] in "= \t":
                    return s[len(kw):].lstrip("= \t")
        consumed = len(args) - len(rest)
        if consumed and args[consumed - 1] == "--":
            return None
        if not rest or seen_dest:
            return None
        seen_dest = True
        args = rest[1:]
    return None


def fileopt(v, magic):
    if v == "":
        return "FNone"
    if v == magic:
        return "FMagic"
    return "(FPath %s)" % coq_bytes(v.encode())


def gen_sysargs(rng, adversarial):
    hosts = ["r1", "10.0.0.1", "r1.example.net", "::1", "user@host", "h-1", "a", "x" * 40, "host name", "h=1", "é"]
    if adversarial:
        hosts += ["-oStrictHostKeyChecking=no", "-v", "--", "-", ""]
    keys = ["", "", "/home/u/.ssh/id_rsa", "-oStrictHostKeyChecking=no", "~/k", "k y"]
    users = ["", "admin", "-oStrictHostKeyChecking=no", "u", "-l"]
    knowns = ["", "MAGIC", "/tmp/kh", "/dev/null", "-o", "a b", "/home/u/.ssh/known_hosts"]
    configs = ["", "MAGIC", "/tmp/cfg", "/dev/null"]
    extras = [[], [], ["-v"], ["-o", "StrictHostKeyChecking=no"], ["-oStrictHostKeyChecking=no"], "-oStrictHostKeyChecking=no",
              ["-o", "UserKnownHostsFile=/dev/null"], ["-o", "stricthostkeychecking no"], ["-o", "KexAlgorithms=+diffie-hellman-group1-sha1"],
              ["-4", "-o", "StrictHostKeyChecking=accept-new"], "-vvv", ["cmd", "-o", "StrictHostKeyChecking=no"]]
    return {"host": rng.choice(hosts), "port": rng.choice([22, 2222, 0, 65535, 830]),
            "tsock": rng.choice([15.0, 0.5, 0, 10, 2.9]), "ttrans": rng.choice([30.0, 0, 1.5, 5]),
            "key": rng.choice(keys), "user": rng.choice(users), "strict": rng.random() < 0.7,
            "known": rng.choice(knowns), "config": rng.choice(configs), "extra": rng.choice(extras)}


def run_build_open_cmd(a):
    from scrapli.transport.base.base_transport import BaseTransportArgs
    from scrapli.transport.plugins.system.transport import PluginTransportArgs, SystemTransport
    kmagic, cmagic = SystemTransport.SSH_SYSTEM_KNOWN_HOSTS_FILE_MAGIC_STRING, SystemTransport.SSH_SYSTEM_CONFIG_MAGIC_STRING
    to = {}
    if a["extra"] != []:
        to["open_cmd"] = a["extra"]
    bta = BaseTransportArgs(transport_options=to, host=a["host"], port=a["port"], timeout_socket=a["tsock"], timeout_transport=a["ttrans"])
    pta = PluginTransportArgs(auth_username=a["user"], auth_private_key=a["key"], auth_strict_key=a["strict"],
                              ssh_config_file=cmagic if a["config"] == "MAGIC" else a["config"],
                              ssh_known_hosts_file=kmagic if a["known"] == "MAGIC" else a["known"])
    t = SystemTransport(bta, pta)
    t._build_open_cmd()
    return list(t.open_cmd), t


def coq_sysargs(a):
    extra = [a["extra"]] if isinstance(a["extra"], str) else a["extra"]
    s = lambda x: coq_bytes(x.encode("utf-8"))  # noqa
    return "(mkA %s %s %s %s %s %s %s %s %s %s)" % (
        s(a["host"]), s(str(a["port"])), s(str(int(a["tsock"]))), s(str(int(a["ttrans"]))), s(a["key"]), s(a["user"]),
        coq_bool(a["strict"]), fileopt(a["known"], "MAGIC"), fileopt(a["config"], "MAGIC"), coq_list([s(x) for x in extra]))


def oracle_argv(a, argv):
    """the property on an argv, without the model"""
    host_ok = a["host"] != "" and not a["host"].startswith("-")
    if not host_ok:
        return None      # ssh reads the "host" as an option and has no destination: C17's region
    eff = ssh_effective(argv, "StrictHostKeyChecking")
    if a["strict"]:
        if eff != "yes":
            return "strict checking is on but ssh would use StrictHostKeyChecking=%r" % (eff,)
        ukh = ssh_effective(argv, "UserKnownHostsFile")
        if a["known"] not in ("", "MAGIC") and ukh != a["known"]:
            return "ssh would use UserKnownHostsFile=%r, resolved file is %r" % (ukh, a["known"])
    return None


STANDIN = """#!%s
import os, sys, json
with open(os.environ["C10_ARGV_OUT"], "w") as f:
    json.dump(sys.argv, f)
sys.stdout.write("stand-in ssh\\n")
""" % sys.executable


# ------------------------------------------------------------------------------------------------
def quiet_logs():
    for n in ("paramiko", "paramiko.transport", "asyncssh", "asyncio"):
        lg = logging.getLogger(n)
        lg.addHandler(logging.NullHandler())
        lg.propagate = False
        lg.setLevel(logging.CRITICAL + 10)


def run(rep):
    from gen import gen_hostkey

    rng = rep.rng
    thorough = rep.tier == "thorough"
    quiet_logs()
    ssh2_kind = ensure_ssh2_importable()
    # 1. regenerate from the source
    info = {}
    try:
        _, info = gen_hostkey.generate(rep.workdir)
        rc, out, _ = common.coqc(os.path.join(rep.workdir, "Gen_HostKey.v"), rep.workdir)
        if rc:
            rep.broken.append("Gen_HostKey.v")
            rep.notes.append(out[-2000:])
    except Exception as e:  # translator aborted: broken tie
        rep.broken.append("gen_hostkey:%s" % e)
    # 2. proofs
    ok, _ = rep.build_static()
    rep.add_static_obligations("props/C10.v", ok)
    if not ok:
        rep.broken.append("static-build")
    gen_ok = not rep.broken
    if ok and gen_ok:
        rep.compile_props("props/C10.v")
    props_broken = list(rep.broken)

    keys = Keys(rep.workdir)
    khdir = os.path.join(rep.workdir, "kh")
    shutil.rmtree(khdir, ignore_errors=True)
    os.makedirs(khdir)
    nkh = [0]

    def write_kh(text):
        nkh[0] += 1
        p = os.path.join(khdir, "kh_%d" % nkh[0])
        with open(p, "w", encoding="utf-8") as f:
            f.write(text)
        return p

    from scrapli.ssh_config import SSHKnownHosts
    install_lookup_recorder()

    def scrapli_entry(khfile, host=HOST):
        try:
            return SSHKnownHosts(khfile).lookup(host).get("public_key")
        except Exception as e:  # noqa
            return "EXC:" + type(e).__name__

    dist = {"order": {}, "loopback": {}, "argv": {}}
    violations = 0

    # ---------------------------------------------------------------------------------------------
    # 3a. hostkey-order: real transports over stub libraries, exact traces vs the model
    # ---------------------------------------------------------------------------------------------
    stubs = Stubs(rep.workdir, keys.client_key_path)
    order_cases, order_terms, order_fail = [], [], []
    kA, kB = keys.pub["A"][1], keys.pub["B"][1]
    bools = [False, True]
    space = []
    for lib in LIBS:
        for strict in bools:
            for rel in ("absent", "right", "other"):
                for hs in bools:
                    for hk in bools:
                        for hp in bools:
                            for hu in bools:
                                for kok in bools:
                                    for pok in bools:
                                        for kbd in (bools if lib == "Ssh2" else [False]):
                                            for libv in (VERDICTS if lib == "Asyncssh" else ["Trusted"]):
                                                space.append((lib, strict, rel, hs, hk, hp, hu, kok, pok, kbd, libv))
    exhaustive_order = thorough
    if not thorough:
        # every (lib, strict, relation, libv, has_key, has_pw) combination at least once, the rest sampled
        rng.shuffle(space)
        seen, pick = set(), []
        for c in space:
            k = (c[0], c[1], c[2], c[10], c[4], c[5], c[3])
            if k not in seen or len(pick) < 900:
                if k not in seen or rng.random() < 0.25:
                    pick.append(c)
                seen.add(k)
        space = pick
    kh_cache = {}
    for (lib, strict, rel, hs, hk, hp, hu, kok, pok, kbd, libv) in space:
        fmt = rng.choice(["plain", "comma", "hashed"])
        ck = (rel, fmt, rng.randrange(4))
        if ck not in kh_cache:
            relation = {"absent": "absent", "right": "right", "other": "other_same"}[rel]
            text = gen_known_hosts(rng, {k: keys.pub[k] for k in ("A", "B", "R")}, "A", relation, fmt, 22)
            p = write_kh(text)
            kh_cache[ck] = (p, text, scrapli_entry(p))
        khfile, text, entry = kh_cache[ck]
        sc = {"strict": strict, "entry": entry, "skey": kA, "libv": libv, "handshake_ok": hs, "has_key": hk, "has_pw": hp,
              "has_user": hu, "key_ok": kok, "pw_ok": pok, "kbd_ok": kbd}
        trace, ckw = stubs.run(lib, sc, khfile)
        key_bad = kA not in spec_entry_keys(text, HOST, 22)
        rep.case(("order", lib, strict, rel, fmt, hs, hk, hp, hu, kok, pok, kbd, libv), nontrivial=strict and hs)
        d = dist["order"]
        d[lib] = d.get(lib, 0) + 1
        d["rel_" + rel] = d.get("rel_" + rel, 0) + 1
        d["fmt_" + fmt] = d.get("fmt_" + fmt, 0) + 1
        d["end_" + EVN.get(trace[-1], "?")] = d.get("end_" + EVN.get(trace[-1], "?"), 0) + 1
        case = {"suite": "hostkey-order", "lib": lib, "scenario": sc, "known_hosts": text, "format": fmt, "relation": rel,
                "trace": [EVN.get(e, e) for e in trace]}
        order_cases.append(case)
        order_terms.append("(%s, %s, %s)" % (lib, coq_scen(sc), coq_bytes(trace)))
        # the stub asyncssh acts out [libv] whatever the file says: the oracle applies where that verdict is one
        # the real library could give for this file.  Trusted with NO entry for the host is one: asyncssh also matches the
        # peer address (host aliases), so the oracle applies there — the transport must stop at its own presence check.
        # Trusted with ANOTHER key under the host is the listed finding's region (c10-asyncssh-peer-address-entry,
        # lib_agrees false): left to the replay of that finding
        consistent = not (lib == "Asyncssh" and key_bad and libv == "Trusted" and rel != "absent")
        why = oracle_trace(sc, trace, key_bad) if consistent else None
        if why is None and lib == "Asyncssh" and strict and ckw is not None and ckw.get("known_hosts") not in (None, khfile):
            why = "asyncssh was handed known_hosts=%r, the resolved file is %r" % (ckw.get("known_hosts"), khfile)
        if why:
            order_fail.append((len(order_cases) - 1, why))
    # marker lines (@revoked / @cert-authority), trailing comments, blank and comment lines (c10_marker): every kind of file in
    # every entry form over all three transports; the library verdict the stub asyncssh acts out is the real matcher's for the file
    from . import c10_marker as MK
    import time as _tm
    t_m0 = _tm.time()
    mark_terms, mark_cases = [], []
    mkeys = {k: keys.pub[k] for k in ("A", "B", "R")}
    for (kind, fmt) in MK.plan_files(rng, thorough):
        lay = MK.gen_layout(rng, kind, "A", ["B", "R"])
        text = MK.render(sys.modules[__name__], rng, lay, fmt, 22, mkeys, "A")
        khfile = write_kh(text)
        entry = scrapli_entry(khfile)
        key_bad = kA not in spec_entry_keys(text, HOST, 22)
        first, ls = MK.coq_lines(lay, fmt, mkeys)
        mark_cases.append({"suite": "marker-lookup", "kind": kind, "format": fmt, "known_hosts": text, "layout": lay,
                           "scrapli_lookup": entry, "key_missing_or_different": key_bad})
        # the lookup raising is no lookup result: a term that never compares equal (reported as a disagreement)
        mark_terms.append("(%s, %s, %s)" % (first, ls, "(Some [0])" if isinstance(entry, str) and entry.startswith("EXC:") else MK.coq_opt(entry)))
        d = dist["order"]
        d["marker_" + kind] = d.get("marker_" + kind, 0) + 1
        d["marker_key_bad" if key_bad else "marker_key_good"] = d.get("marker_key_bad" if key_bad else "marker_key_good", 0) + 1
        libv = lib_verdict(khfile, HOST, 22, keys.pub["A"][0], kA) or "Untrusted"
        for lib in LIBS:
            sc = {"strict": True, "entry": entry, "skey": kA, "libv": libv if lib == "Asyncssh" else "Trusted", "handshake_ok": True,
                  "has_key": rng.random() < 0.5, "has_pw": True, "has_user": True, "key_ok": rng.random() < 0.5, "pw_ok": rng.random() < 0.7,
                  "kbd_ok": False}
            trace, ckw = stubs.run(lib, sc, khfile)
            rep.case(("order-marker", lib, kind, fmt, sc["has_key"], sc["key_ok"], sc["pw_ok"], text), nontrivial=True)
            d[lib] = d.get(lib, 0) + 1
            d["end_" + EVN.get(trace[-1], "?")] = d.get("end_" + EVN.get(trace[-1], "?"), 0) + 1
            order_cases.append({"suite": "hostkey-order", "lib": lib, "scenario": sc, "known_hosts": text, "format": fmt,
                                "relation": "marker:" + kind, "trace": [EVN.get(e, e) for e in trace]})
            if isinstance(entry, str) and entry.startswith("EXC:"):
                order_terms.append("(%s, %s, %s)" % (lib, coq_scen(dict(sc, entry=None)), coq_bytes([0])))   # never equal: reported
            else:
                order_terms.append("(%s, %s, %s)" % (lib, coq_scen(sc), coq_bytes(trace)))
            why = oracle_trace(sc, trace, key_bad)
            if why:
                order_fail.append((len(order_cases) - 1, "%s [known_hosts kind %s, %s entries]" % (why, kind, fmt)))
    # wildcard / negated patterns in comma lists (c10_pattern): every kind of file over all three transports; a host that a line
    # EXCLUDES (`*.dom,!host KEY`) has no entry on that line — nothing may be offered to a server presenting KEY
    from . import c10_pattern as PT
    pat_stats = {"files": 0, "key_missing_or_different": 0, "listed": 0, "scrapli_lookup_found": 0}
    for kind in PT.plan_files(rng, thorough):
        lay = PT.gen_layout(rng, kind, "A", ["B", "R"], HOST, OTHER_HOSTS)
        text = PT.render(rng, lay, mkeys)
        khfile = write_kh(text)
        entry = scrapli_entry(khfile)
        key_bad = kA not in spec_entry_keys(text, HOST, 22)
        pat_stats["files"] += 1
        pat_stats["key_missing_or_different" if key_bad else "listed"] += 1
        pat_stats["scrapli_lookup_found"] += 1 if isinstance(entry, str) else 0
        d = dist["order"]
        d["pattern_" + kind] = d.get("pattern_" + kind, 0) + 1
        libv = lib_verdict(khfile, HOST, 22, keys.pub["A"][0], kA) or "Untrusted"
        for lib in LIBS:
            sc = {"strict": True, "entry": entry, "skey": kA, "libv": libv if lib == "Asyncssh" else "Trusted", "handshake_ok": True,
                  "has_key": rng.random() < 0.5, "has_pw": True, "has_user": True, "key_ok": rng.random() < 0.5, "pw_ok": rng.random() < 0.7,
                  "kbd_ok": False}
            trace, ckw = stubs.run(lib, sc, khfile)
            rep.case(("order-pattern", lib, kind, sc["has_key"], sc["key_ok"], sc["pw_ok"], text), nontrivial=True)
            d[lib] = d.get(lib, 0) + 1
            d["end_" + EVN.get(trace[-1], "?")] = d.get("end_" + EVN.get(trace[-1], "?"), 0) + 1
            order_cases.append({"suite": "hostkey-order", "lib": lib, "scenario": sc, "known_hosts": text, "format": "pattern",
                                "relation": "pattern:" + kind, "pattern_layout": lay, "trace": [EVN.get(e, e) for e in trace]})
            if isinstance(entry, str) and entry.startswith("EXC:"):
                order_terms.append("(%s, %s, %s)" % (lib, coq_scen(dict(sc, entry=None)), coq_bytes([0])))   # never equal: reported
            else:
                order_terms.append("(%s, %s, %s)" % (lib, coq_scen(sc), coq_bytes(trace)))
            # the verdict the stub asyncssh acts out is the real matcher's for this file, so the oracle applies throughout
            why = oracle_trace(sc, trace, key_bad)
            if why:
                order_fail.append((len(order_cases) - 1, "%s [known_hosts with wildcard / negated patterns, kind %s]" % (why, kind)))
    rep.coverage["pattern_files"] = dict(pat_stats, kinds=len(PT.KINDS), meaning=(
        "known_hosts lines whose host field is a comma list of * ? patterns and !negations around 127.0.0.1; key_missing_or_different = "
        "the presented key is only on lines that exclude the host (or name nobody) per the oracle's reader"))
    stubs.restore()
    bad_mark, log_mark = common.eval_cases(rep.workdir, "cases_c10_marker", MK.HEADER_MARK, mark_terms, "chk", shard=40)
    mark_wall = {"stub_files_and_model_evaluation": round(_tm.time() - t_m0, 1)}
    rep.coverage["correspondence_marker_lookup"] = {
        "suite": "marker-lookup", "files": len(mark_cases), "compared_with_model": len(mark_terms), "wall_s": mark_wall,
        "model_disagreements": None if bad_mark is None else len(bad_mark),
        "meaning": "SSHKnownHosts(file).lookup(host) on files with @revoked / @cert-authority lines, trailing comments, blank and comment "
                   "lines vs lookup_lines reader_as_written over the generator's line list"}
    rep.sample({k: order_cases[0][k] for k in ("lib", "scenario", "format", "trace")})
    for c in order_cases:
        if c["relation"] == "marker:other_then_revoked" and c["lib"] == "Paramiko":
            rep.sample({k: c[k] for k in ("lib", "relation", "known_hosts", "trace")})
            break
    for c in order_cases:
        if c["scenario"]["strict"] and c["relation"] == "other" and c["scenario"]["handshake_ok"]:
            rep.sample({k: c[k] for k in ("lib", "scenario", "known_hosts", "trace")})
            break
    bad_order, log = common.eval_cases(rep.workdir, "cases_c10_order", HEADER_ORDER, order_terms, "chk", shard=120)
    rep.coverage["correspondence_order"] = {
        "suite": "hostkey-order", "cases": len(order_terms), "exhaustive_scenario_space": exhaustive_order,
        "ssh2_library": ssh2_kind + (" package (ssh2-python is not installed: the real scrapli ssh2 transport ran over a stand-in package; "
                                     "no real-library run exists for ssh2)" if ssh2_kind != "real" else ""),
        "model_disagreements": None if bad_order is None else len(bad_order), "oracle_failures": len(order_fail)}

    # ---------------------------------------------------------------------------------------------
    # 3b. hostkey-loopback: real libraries against recording servers
    # ---------------------------------------------------------------------------------------------
    from . import c10_loopback as lb
    from . import c10_alias as AL
    L = lb.Loopback()
    loop_cases, loop_terms, loop_fail, loop_domain = [], [], [], []
    hyp = {"checked": 0, "false": 0, "false_relations": {}, "false_on_single_entry": []}
    hyp_alias = {"checked": 0, "false_by_region": {}, "false_outside_region": []}
    alias_names = AL.loopback_names()
    alias_known = {"signature": AL.SIG_PEER_ADDR, "replayed": False, "still_fails": None}
    try:
        servers = {}
        for sk in ("A", "R"):
            for acc in (True, False):
                servers[(sk, acc)] = L.listen([keys.priv[sk]], accept=acc)

        def one_loopback(lib, sk, acc, strict, relation, fmt, method, malformed=False, text=None, dial=None, alias=None, signature=None):
            """dial: the name the driver is given (default: the address); alias: (layout, nameform, carrier, carrier form)
            of an alias scenario (c10_alias), the file is rendered from the layout"""
            port, slog = servers[(sk, acc)]
            host = HOST if dial is None else dial
            if alias is not None:
                text = AL.render(sys.modules[__name__], rng, alias[0], port, keys.pub)
            if text is None:
                if malformed:
                    text = gen_malformed_known_hosts(rng, keys.pub, sk, port)
                else:
                    text = gen_known_hosts(rng, keys.pub, sk, relation, fmt, port)
            khfile = write_kh(text)
            entry = scrapli_entry(khfile, host)
            sktype, skb64 = keys.pub[sk]
            libv_any = lib_verdict(khfile, host, port, sktype, skb64, addr=HOST)
            libv = libv_any if lib == "Asyncssh" else "Trusted"
            # hypothesis lib_agrees of the theorems, tested on this file: scrapli finds an entry and asyncssh
            # trusts the server key  =>  the entry is the server key
            if alias is not None:
                # files with separate entries for the name and for the peer address: where both exist with different keys the
                # hypothesis is false (asyncssh trusts the union) — the listed finding's region, counted apart
                hyp_alias["checked"] += 1
                if isinstance(entry, str) and not entry.startswith("EXC:") and libv_any == "Trusted" and entry != skb64:
                    k = "%s/%s" % (relation, alias[2])
                    hyp_alias["false_by_region"][k] = hyp_alias["false_by_region"].get(k, 0) + 1
                    if not (relation in ("other_same", "other_type") and alias[2].startswith("addr")):
                        hyp_alias["false_outside_region"].append(text)
            else:
                hyp["checked"] += 1
            if alias is None and isinstance(entry, str) and not entry.startswith("EXC:") and libv_any == "Trusted" and entry != skb64:
                hyp["false"] += 1
                hyp["false_relations"][str(relation)] = hyp["false_relations"].get(str(relation), 0) + 1
                if relation != "both" and not malformed:
                    hyp["false_on_single_entry"].append(text)
            has_pw = method in ("password", "both")
            has_key = method in ("key", "both")
            del slog[:]
            fin, ename, drv = open_real(lib, port, strict, khfile, has_pw, keys.client_key_path if has_key else "", host=host)
            got = list(slog)
            # asyncssh also tries password="" when no password is configured: an empty string is no credential
            pw_off = any(e[0] == "password" and e[2] != "" for e in got)
            key_off = any(e[0] == "publickey" for e in got)
            strict_eff = True if strict is None else strict
            sc = {"strict": strict_eff, "entry": entry, "skey": skb64, "libv": libv, "handshake_ok": True, "has_key": has_key,
                  "has_pw": has_pw, "has_user": True, "key_ok": acc, "pw_ok": acc, "kbd_ok": False}
            key_bad = not any(skb64 in spec_entry_keys(text, n, port) for n in AL.oracle_names(host))
            case = {"suite": "hostkey-loopback", "lib": lib, "dial": host, "server_key": sk, "server_accepts": acc, "strict_arg": strict,
                    "relation": relation, "format": fmt, "method": method, "malformed": malformed, "known_hosts": text,
                    "port": port, "key_table": {n: v[1] for n, v in keys.pub.items()},
                    "scrapli_lookup": None if entry is None else entry[:24] + "...", "asyncssh_verdict": libv,
                    "final": EVN.get(fin, fin), "exception": ename, "server_recorded": [list(e[:2]) + ["<%d chars>" % len(e[2])] for e in got],
                    "password_reached_server": pw_off, "key_reached_server": key_off, "key_missing_or_different": key_bad}
            if alias is not None:
                case.update({"alias_layout": alias[0], "name_form": alias[1], "carrier": alias[2], "carrier_form": alias[3]})
            why = None
            if strict_eff and key_bad:
                if got:
                    why = "the server (key %s) recorded %s although its key is missing from / different to the known_hosts entry%s" % (
                        sk, sorted({e[0] for e in got}), "" if dial is None else " for the dialled name %r" % host)
                elif fin != EV["FailAuth"] and not malformed:
                    why = "attempt ended with %s instead of ScrapliAuthenticationFailed" % (ename or EVN.get(fin))
            if signature and why and got and fin == EV["FailAuth"]:
                case["signature"] = signature      # the listed finding, failing the listed way (credentials out, then the exception)
            if drv.transport.plugin_transport_args.auth_strict_key is not strict_eff:
                why = "auth_strict_key argument %r reached the transport as %r" % (strict, drv.transport.plugin_transport_args.auth_strict_key)
                case.pop("signature", None)
            comparable = (not malformed) and isinstance(entry, (str, type(None))) and not (isinstance(entry, str) and entry.startswith("EXC:")) and libv is not None
            # paramiko opens a second ssh-userauth service request for its second attempt, which the asyncssh
            # server answers with a disconnect: after a rejected key the password never reaches this server
            if lib == "Paramiko" and method == "both" and not acc:
                comparable = False
                d0 = dist["loopback"]
                d0["not_compared_paramiko_second_attempt"] = d0.get("not_compared_paramiko_second_attempt", 0) + 1
            loop_cases.append(case)
            if comparable:
                loop_terms.append("(%s, %s, (%d, %s, %s))" % (lib, coq_scen(sc), fin, coq_bool(pw_off), coq_bool(key_off)))
                loop_domain.append(len(loop_cases) - 1)
            if why:
                loop_fail.append((len(loop_cases) - 1, why))
            d = dist["loopback"]
            for k in (lib, "key_" + sk, "rel_" + str(relation), "fmt_" + str(fmt), "method_" + method, "strict_" + str(strict),
                      "end_" + str(EVN.get(fin, fin)), "malformed" if malformed else "wellformed"):
                d[k] = d.get(k, 0) + 1
            if alias is not None:
                for k in ("alias", "alias_dial_" + host, "alias_carrier_%s_%s" % (alias[2], alias[3]), "alias_rel_%s" % relation,
                          "alias_" + lib):
                    d[k] = d.get(k, 0) + 1
            rep.case(("loop", lib, host, sk, acc, strict, relation, fmt, method, malformed, text), nontrivial=strict_eff)
            return case, why

        # corpus first: the baseline defect (asyncssh, differing key, password) and its neighbours
        corpus = []
        for lib in ("Asyncssh", "Paramiko"):
            corpus += [(lib, "A", True, None, "other_same", "plain", "password"),
                       (lib, "A", True, True, "other_type", "plain", "password"),
                       (lib, "A", True, None, "right", "plain", "password"),
                       (lib, "A", True, None, "absent", "plain", "key"),
                       (lib, "R", True, True, "other_same", "hashed", "both"),
                       (lib, "A", True, False, "other_same", "plain", "password")]
        matrix = []
        for lib in ("Asyncssh", "Paramiko"):
            for sk in ("A", "R"):
                for acc in (True, False):
                    for strict in (None, True, False):
                        for relation in ("absent", "right", "other_same", "other_type", "both"):
                            for fmt in ("plain", "comma", "hashed", "bracket"):
                                for method in ("password", "key", "both"):
                                    matrix.append((lib, sk, acc, strict, relation, fmt, method))
        if thorough:
            todo = corpus + matrix
        else:
            rng.shuffle(matrix)
            seen, pick = set(), []
            for c in matrix:
                k = (c[0], c[3] is not False, c[4], c[5])
                k2 = (c[0], c[4], c[6], c[1])
                if k not in seen or k2 not in seen:
                    pick.append(c)
                    seen.add(k)
                    seen.add(k2)
            todo = corpus + pick[:150]
        for c in todo:
            one_loopback(*c)
        for _ in range(120 if thorough else 24):
            one_loopback(rng.choice(["Asyncssh", "Paramiko"]), rng.choice(["A", "R"]), rng.random() < 0.7,
                         rng.choice([None, True, True, False]), None, None, rng.choice(["password", "key", "both"]), malformed=True)
        # marker lines, trailing comments, blank / comment lines (c10_marker) against the real libraries
        t_m1 = _tm.time()
        for (lib, kind, fmt, sk, method, strict) in MK.plan_loopback(rng, thorough):
            port = servers[(sk, True)][0]
            lay = MK.gen_layout(rng, kind, sk, [k for k in keys.pub if k != sk])
            one_loopback(lib, sk, True, strict, "marker:" + kind, fmt, method,
                         text=MK.render(sys.modules[__name__], rng, lay, fmt, port, keys.pub, sk))
            dist["loopback"]["marker"] = dist["loopback"].get("marker", 0) + 1
        mark_wall["loopback"] = round(_tm.time() - t_m1, 1)
        # wildcard / negated patterns (c10_pattern) against the real libraries
        t_p1 = _tm.time()
        for (lib, kind, sk, method, strict) in PT.plan_loopback(rng, thorough):
            lay = PT.gen_layout(rng, kind, sk, [k for k in keys.pub if k != sk], HOST, OTHER_HOSTS)
            one_loopback(lib, sk, True, strict, "pattern:" + kind, "pattern", method, text=PT.render(rng, lay, keys.pub))
            dist["loopback"]["pattern"] = dist["loopback"].get("pattern", 0) + 1
        rep.coverage["pattern_files"]["loopback_wall_s"] = round(_tm.time() - t_p1, 1)
        for (lib, dial, rel, nameform, carrier, cform, method, sk, strict) in AL.plan(rng, alias_names, thorough):
            lay = AL.gen_layout(rng, keys.pub, sk, dial, rel, nameform, carrier, cform, alias_names)
            one_loopback(lib, sk, True, strict, rel, nameform, method, dial=dial, alias=(lay, nameform, carrier, cform))
        # the listed finding of that family, replayed: still failing the same way => KNOWN-FINDING, else a note
        kc = AL.known_case(alias_names)
        if kc is not None:
            (lib, dial, rel, nameform, carrier, cform, method, sk, strict) = kc
            lay = [AL.name_entry(rng, dial, nameform, "B", "dial"), AL.name_entry(rng, AL.PEER, cform, sk, "carrier")]
            _, why = one_loopback(lib, sk, True, strict, rel, nameform, method, dial=dial, alias=(lay, nameform, carrier, cform),
                                  signature=AL.SIG_PEER_ADDR)
            alias_known["replayed"] = True
            alias_known["still_fails"] = bool(why)
            if not why:
                rep.notes.append("listed finding %s no longer reproduces (fixed?): update known_findings.d/C10.json" % AL.SIG_PEER_ADDR)
    finally:
        L.close()
    for c in loop_cases:
        if c["relation"] == "other_same" and c["strict_arg"] is None and c["lib"] == "Asyncssh":
            rep.sample({k: c[k] for k in ("lib", "server_key", "strict_arg", "relation", "format", "method", "known_hosts", "final",
                                          "server_recorded")})
            break
    bad_loop, log2 = common.eval_cases(rep.workdir, "cases_c10_loop", HEADER_LOOP, loop_terms, "chk", shard=60)
    rep.coverage["correspondence_loopback"] = {
        "suite": "hostkey-loopback", "cases": len(loop_cases), "compared_with_model": len(loop_terms),
        "exhaustive_matrix": thorough, "model_disagreements": None if bad_loop is None else len(bad_loop),
        "oracle_failures": len(loop_fail),
        "hypothesis_lib_agrees": {"files_checked": hyp["checked"], "false_on": hyp["false"], "false_by_relation": hyp["false_relations"],
                                  "meaning": "false only for two-line entries and in the malformed stream (wildcard lines) (relation both: scrapli's lookup keeps the last line, asyncssh trusts "
                                             "every line) — there the theorem does not apply and the property is observed only"},
        "aliases": {"names_dialled": alias_names + [HOST], "cases": dist["loopback"].get("alias", 0),
                    "hypothesis_lib_agrees": {"files_checked": hyp_alias["checked"], "false_by_region (relation of the dialled name / carrier)": hyp_alias["false_by_region"]},
                    "listed_finding": alias_known,
                    "meaning": "the driver is given a name that resolves to 127.0.0.1; the file carries the server's key under the peer address "
                               "(plain / comma / hashed / [addr]:port / hashed [addr]:port / * pattern / CIDR block), another alias or an unrelated "
                               "name, and nothing / another key / the right key under the dialled name; oracle: the entry for the DIALLED name decides"},
        "note": "observed on loopback, not proved: paramiko %s / asyncssh %s clients against in-process asyncssh servers" % (
            __import__("paramiko").__version__, __import__("asyncssh").__version__)}
    if not alias_names:
        rep.broken.append("no name other than the address resolves to 127.0.0.1 here: the alias scenarios could not run")
    if hyp_alias["false_outside_region"]:
        rep.broken.append("hypothesis lib_agrees is false on an alias file outside the listed region (name with another key + peer address with the server key)")
        rep.notes.append("lib_agrees false on: %r" % hyp_alias["false_outside_region"][0])

    if hyp["false_on_single_entry"]:
        rep.broken.append("hypothesis lib_agrees is false on a single-entry known_hosts file")
        rep.notes.append("lib_agrees false on: %r" % hyp["false_on_single_entry"][0])
    # ---------------------------------------------------------------------------------------------
    # 3c. system transport: argv
    # ---------------------------------------------------------------------------------------------
    argv_cases, argv_terms, argv_fail = [], [], []
    for i in range(1500 if thorough else 300):
        a = gen_sysargs(rng, adversarial=(i % 5 == 4))
        argv, _ = run_build_open_cmd(a)
        argv_cases.append({"suite": "system-argv", "args": a, "argv": argv})
        argv_terms.append("(%s, %s)" % (coq_sysargs(a), coq_list([coq_bytes(x.encode("utf-8")) for x in argv])))
        why = oracle_argv(a, argv)
        if why:
            argv_fail.append((len(argv_cases) - 1, why))
        d = dist["argv"]
        for k in ("strict_" + str(a["strict"]), "known_" + ("path" if a["known"] not in ("", "MAGIC") else a["known"] or "none"),
                  "extra_sets_strict" if "stricthostkeychecking" in json.dumps(a["extra"]).lower() else "extra_other"):
            d[k] = d.get(k, 0) + 1
        rep.case(("argv", json.dumps(a, sort_keys=True)), nontrivial=a["strict"])
    rep.sample(argv_cases[0])
    bad_argv, log3 = common.eval_cases(rep.workdir, "cases_c10_argv", HEADER_ARGV, argv_terms, "chk", shard=60)

    # driver level: default / explicit / non-bool strictness for every transport, file resolution, stand-in ssh on PATH
    drv_fail, drv_n, standin_n = driver_level(rep, keys, khdir, write_kh, dist)
    real_ssh = real_ssh_suite(rep, keys, write_kh, thorough, dist)
    rep.coverage["correspondence_argv"] = {
        "suite": "system-argv", "cases": len(argv_terms), "model_disagreements": None if bad_argv is None else len(bad_argv),
        "oracle_failures": len(argv_fail), "driver_level_cases": drv_n, "stand_in_ssh_spawns": standin_n, "real_ssh_binary": real_ssh}

    # ---------------------------------------------------------------------------------------------
    # 3d. hostkey-history: ONE transport / driver object, open - close - open again while the server behind the
    #     address and / or the known_hosts file change (stubs, loopback, stand-in ssh, real ssh)
    # ---------------------------------------------------------------------------------------------
    from . import c10_hist as H
    import time as _time
    t_h0 = _time.time()
    hist = H.run_suite(rep, sys.modules[__name__], keys, write_kh, scrapli_entry, dist, thorough)
    t_h1 = _time.time()
    bad_hist, log4 = common.eval_cases(rep.workdir, "cases_c10_hist", H.HEADER_HIST, hist["terms"], "chk", shard=12)
    rep.coverage["correspondence_history"] = {
        "suite": "hostkey-history", "histories": hist["counts"], "compared_with_model": len(hist["terms"]),
        "model_disagreements": None if bad_hist is None else len(bad_hist), "oracle_failures": len(hist["fails"]),
        "real_ssh_binary": hist["real_ssh"], "wall_s": {"drive": round(t_h1 - t_h0, 1), "model_evaluation": round(_time.time() - t_h1, 1)},
        "note": "per history ONE object is opened 2-4 times with close() in between; the oracle is applied to every open with the "
                "known_hosts content and the presented key of that open"}
    for c in hist["cases"]:
        if c["kind"] == "loopback" and c["history"] == "good-swapped" and c["strict_arg"] is not False:
            rep.sample({"suite": "hostkey-history", "lib": c["lib"], "via": c["via"], "method": c["method"], "format": c["format"],
                        "opens": [{k: st[k] for k in ("server_key", "key_missing_or_different", "final", "server_recorded")} for st in c["steps"]]}, limit=8)
            break

    rep.coverage["distribution"] = dist
    rep.coverage["generated_from"] = common.source_hashes(SOURCES)
    rep.coverage["generated"] = info
    rep.rule = ("hostkey-order: scenario = (lib, strict, relation of the known_hosts entry to the server key, handshake, credentials configured, "
                "what the server accepts, library verdict), known_hosts files generated (plain/comma/hashed + noise lines), exhaustive in the thorough tier; "
                "hostkey-loopback: (lib, server key type, server accepts, strict omitted/True/False, relation incl. two-line entries, format incl. [host]:port, "
                "method password/key/both) + malformed known_hosts stream; system-argv: random transport arguments incl. user open_cmd options that try to "
                "switch checking off; hostkey-history: (history kind over roles genuine / other-same-type / other-type / absent per open, lib, via transport|driver, "
                "strict, method, format, edit mode of known_hosts: in place / renamed over, modification time moved / pinned) on ONE object "
                "with close() between the opens (or a new object per open over one known_hosts path), + random histories over the stubs; "
                "aliases: (lib, name dialled, what the file lists for that name, where else the server's key is listed: peer address plain / comma / "
                "hashed / [addr]:port / hashed / pattern / CIDR, another alias, unrelated name, method, strict); "
                "marker files: (kind of file: presented key @revoked / @cert-authority for the host, for another host, for *, plain entry of another key "
                "before / after, rotation with the right key plain, trailing comments; entry form plain / comma / hashed / [host]:port; blank and comment "
                "lines; transport; credentials) — every kind x form over the stubs, every kind x real library on loopback; "
                "pattern files: (kind of file: wildcard-only / negation elsewhere / host EXCLUDED by !host or a negated pattern, position of the negation, "
                "plain lines of another / the right key, noise lines of other hosts' patterns; transport; credentials) — every kind over the stubs and the real "
                "paramiko, a rotating half (thorough: all) over the real asyncssh; retries: (kind of no-close history, lib, credentials, format) over the stubs; "
                "non-trivial = strict mode in effect (and the handshake succeeds); distinct = the full scenario tuple")

    # ---------------------------------------------------------------------------------------------
    # 4. verdicts
    # ---------------------------------------------------------------------------------------------
    def report(cases, fails, sigf=None):
        shown = 0
        for ix, why in fails:
            c = cases[ix]
            sig = sigf(c) if sigf else None
            if not sig:               # the first four; a replayed listed finding (signature) is always passed on
                shown += 1
                if shown > 4:
                    continue
            rep.violation("%s: %s" % (c.get("suite"), why), {"suite": c.get("suite"), "case": c, "rerun": "./check C10 --replay <this file>"},
                          signature=sig)

    report(loop_cases, loop_fail, sigf=lambda c: c.get("signature"))
    report(order_cases, order_fail)
    report(argv_cases, argv_fail)
    shown = {}
    for case, why in sorted(hist["fails"], key=lambda cw: ["loopback", "real-ssh", "standin", "order"].index(cw[0]["kind"])):
        shown[case["kind"]] = shown.get(case["kind"], 0) + 1
        if shown[case["kind"]] > 2:
            continue
        rep.violation("hostkey-history (%s): %s" % (case["kind"], why), {"suite": "hostkey-history", "case": case, "rerun": "./check C10 --replay <this file>"})
    for why, case in drv_fail[:4]:
        rep.violation("driver-level: " + why, {"suite": "driver-level", "case": case, "rerun": "./check C10 --replay <this file>"})

    for name, bad, lg, cases, dom in (("marker-lookup", bad_mark, log_mark, mark_cases, None),
                                      ("hostkey-order", bad_order, log, order_cases, None),
                                      ("hostkey-loopback", bad_loop, log2, loop_cases, loop_domain),
                                      ("system-argv", bad_argv, log3, argv_cases, None),
                                      ("hostkey-history", bad_hist, log4, hist["cases"], hist["term_case"])):
        if bad is None:
            rep.broken.append("correspondence %s (model evaluation failed)" % name)
            rep.notes.append(lg)
        elif bad:
            rep.broken.append("correspondence %s: model differs from implementation on %d case(s)" % (name, len(bad)))
            for ix in bad[:3]:
                rep.notes.append("disagreement %s: %s" % (name, json.dumps(cases[dom[ix] if dom else ix], default=repr)[:1500]))
    # a broken obligation / correspondence with no oracle failure so far: search for a failing input of the
    # property itself — the full loopback matrix for the libraries, an adversarial argv sweep for system
    if rep.broken and not rep.violations and not thorough:
        search_failing_input(rep, keys, write_kh)
    if rep.broken and not rep.violations and not thorough:
        found = H.run_suite(rep, sys.modules[__name__], keys, write_kh, scrapli_entry, {}, thorough, only_search=True)
        for case, why in found["fails"][:2]:
            rep.violation("search, hostkey-history (%s): %s" % (case["kind"], why),
                          {"suite": "hostkey-history", "case": case, "rerun": "./check C10 --replay <this file>"})


def driver_level(rep, keys, khdir, write_kh, dist):
    """strict unless explicitly turned off, for every transport, through the real driver constructors;
    resolved known-hosts file reaches the transport; the argv a stand-in `ssh` on PATH really receives."""
    from scrapli.driver import AsyncDriver, Driver
    from scrapli.exceptions import ScrapliTypeError
    fails, n = [], 0
    kh = write_kh("%s %s %s\n" % (HOST, keys.pub["A"][0], keys.pub["A"][1]))
    combos = [("system", Driver), ("paramiko", Driver), ("ssh2", Driver), ("asyncssh", AsyncDriver)]
    for tname, cls in combos:
        for label, kw in (("omitted", {}), ("True", {"auth_strict_key": True}), ("False", {"auth_strict_key": False})):
            want = label != "False"
            d = cls(host=HOST, auth_username="u", auth_password="p", transport=tname, ssh_known_hosts_file=kh, **kw)
            got = d.transport.plugin_transport_args.auth_strict_key
            n += 1
            rep.case(("drv", tname, label), nontrivial=want)
            case = {"transport": tname, "auth_strict_key": label, "reached_transport": repr(got),
                    "known_hosts_reached_transport": d.transport.plugin_transport_args.ssh_known_hosts_file == kh}
            if got is not want:
                fails.append(("auth_strict_key %s reached the %s transport as %r" % (label, tname, got), case))
            if d.transport.plugin_transport_args.ssh_known_hosts_file != kh:
                fails.append(("ssh_known_hosts_file did not reach the %s transport as resolved" % tname, case))
        for v in (0, 1, None, "", "False", "no", [], 0.0):
            n += 1
            rep.case(("drv-type", tname, repr(v)))
            try:
                d = cls(host=HOST, auth_username="u", transport=tname, auth_strict_key=v)
                got = d.transport.plugin_transport_args.auth_strict_key
                # accepted: only a violation if a non-bool value silently turns checking off — the system transport
                # switches off on `is False` only, the library transports on any falsy value
                off = (got is False) if tname == "system" else (not got)
                if off:
                    fails.append(("non-bool auth_strict_key=%r accepted and strict checking is off (%r) for %s" % (v, got, tname),
                                  {"transport": tname, "auth_strict_key": repr(v)}))
            except ScrapliTypeError:
                pass
    # stand-in ssh on PATH
    bindir = os.path.join(rep.workdir, "bin")
    os.makedirs(bindir, exist_ok=True)
    sp = os.path.join(bindir, "ssh")
    with open(sp, "w") as f:
        f.write(STANDIN)
    os.chmod(sp, os.stat(sp).st_mode | stat.S_IXUSR | stat.S_IXGRP | stat.S_IXOTH)
    old_path = os.environ.get("PATH", "")
    os.environ["PATH"] = bindir + os.pathsep + old_path
    standin = 0
    try:
        for label, kw in (("omitted", {}), ("True", {"auth_strict_key": True}), ("False", {"auth_strict_key": False})):
            for khopt in (kh, True, False):
                for extra in (None, ["-o", "StrictHostKeyChecking=no"]):
                    out = os.path.join(rep.workdir, "argv_out.json")
                    if os.path.exists(out):
                        os.unlink(out)
                    os.environ["C10_ARGV_OUT"] = out
                    to = {"open_cmd": extra} if extra else {}
                    d = Driver(host="r1", auth_username="u", auth_password="p", transport="system", ssh_known_hosts_file=khopt,
                               transport_options=to, **kw)
                    d.transport.open()
                    got = None
                    try:
                        for _ in range(200):
                            try:
                                d.transport.session.read(1024)
                            except EOFError:
                                break
                    except Exception:  # noqa
                        pass
                    d.transport.session.wait() if hasattr(d.transport.session, "wait") else None
                    d.transport.close()
                    if os.path.exists(out):
                        got = json.load(open(out))
                    standin += 1
                    rep.case(("standin", label, repr(khopt), repr(extra)), nontrivial=label != "False")
                    case = {"auth_strict_key": label, "ssh_known_hosts_file": repr(khopt), "open_cmd": extra, "argv_received": got}
                    if got is None:
                        fails.append(("stand-in ssh did not record an argv", case))
                        continue
                    if got[1:] != d.transport.open_cmd[1:]:
                        fails.append(("argv received by the ssh stand-in differs from open_cmd", case))
                    eff = ssh_effective(got, "StrictHostKeyChecking")
                    if label != "False" and eff != "yes":
                        fails.append(("ssh stand-in was asked for StrictHostKeyChecking=%r with strict checking on" % (eff,), case))
                    ukh = ssh_effective(got, "UserKnownHostsFile")
                    if label != "False" and khopt == kh and ukh != kh:
                        fails.append(("ssh stand-in got UserKnownHostsFile=%r, resolved file is %r" % (ukh, kh), case))
                    if label != "False" and ukh == "/dev/null":
                        fails.append(("ssh stand-in got UserKnownHostsFile=/dev/null with strict checking on", case))
                    if standin == 1:
                        rep.sample({"suite": "stand-in ssh", **case})
    finally:
        os.environ["PATH"] = old_path
        os.environ.pop("C10_ARGV_OUT", None)
    return fails, n, standin


def real_ssh_suite(rep, keys, write_kh, thorough, dist):
    """observed only: the real ssh client (if there is one) driven by the system transport against a
    loopback server whose key differs from / equals the known_hosts entry"""
    exe = shutil.which("ssh")
    if not exe:
        return "no ssh binary on PATH: not run"
    from . import c10_loopback as lb
    from scrapli.driver import GenericDriver
    L = lb.Loopback()
    res = {"binary": exe, "cases": 0, "failures": 0}
    try:
        port, slog = L.listen([keys.priv["A"]], accept=True)
        from . import c10_alias as AL
        names = AL.loopback_names()
        rows = [(HOST, rel, k, strict) for rel, k in (("other", keys.pub["B"]), ("absent", None), ("right", keys.pub["A"]))
                for strict in ((None, True, False) if thorough else (None,))]
        # host aliases: dialled by a name of the machine, the file carries the server's key under the peer address only
        # (alias-absent), or another key under the name and the right one under the address (alias-other)
        if names:
            rows.append((names[rep.rng.randrange(len(names))], "alias-absent", None, None))
            if thorough:
                rows += [(n, r, None, s) for n in names for r in ("alias-absent", "alias-other") for s in (None, True)]
        for dial, rel, k, strict in rows:
            text = "" if k is None else "[%s]:%d %s %s\n" % (HOST, port, k[0], k[1])
            if rel.startswith("alias"):
                text = "[%s]:%d %s %s\n" % (HOST, port, keys.pub["A"][0], keys.pub["A"][1])
                if rel == "alias-other":
                    text += "[%s]:%d %s %s\n" % (dial, port, keys.pub["B"][0], keys.pub["B"][1])
            kh = write_kh(text + "10.9.9.9 %s %s\n" % keys.pub["B"])
            del slog[:]
            kw = {} if strict is None else {"auth_strict_key": strict}
            d = GenericDriver(host=dial, port=port, auth_username="u", auth_password="SECRETPW", transport="system",
                              ssh_known_hosts_file=kh, ssh_config_file=False, timeout_socket=30, timeout_transport=30, timeout_ops=30, **kw)
            try:
                d.open()
                fin = "Opened"
            except Exception as e:  # noqa
                fin = type(e).__name__
            try:
                d.close()
            except Exception:  # noqa
                pass
            got = list(slog)
            res["cases"] += 1
            strict_eff = strict is not False
            rep.case(("realssh", dial, rel, strict), nontrivial=strict_eff)
            case = {"suite": "real-ssh", "dial": dial, "relation": rel, "strict_arg": strict, "known_hosts": text, "final": fin,
                    "server_recorded": [e[0] for e in got]}
            if strict_eff and rel != "right":
                if got:
                    res["failures"] += 1
                    rep.violation("real ssh binary: server recorded %s although its key is missing from / different to known_hosts" % [e[0] for e in got],
                                  {"suite": "real-ssh", "case": case})
                elif "Timeout" in fin:
                    res["inconclusive_timeouts"] = res.get("inconclusive_timeouts", 0) + 1    # machine too slow: nothing was sent, no verdict
                elif fin != "ScrapliAuthenticationFailed":
                    res["failures"] += 1
                    rep.violation("real ssh binary: attempt ended with %s instead of ScrapliAuthenticationFailed" % fin,
                                  {"suite": "real-ssh", "case": case})
            res.setdefault("outcomes", []).append([rel, str(strict), fin, len(got)] + ([dial] if dial != HOST else []))
    finally:
        L.close()
    return res


def search_failing_input(rep, keys, write_kh):
    """an obligation or a correspondence broke but no oracle failed on the cases tried: look for a concrete
    failing input of the property over the whole loopback matrix (strict, missing/different key)"""
    from . import c10_loopback as lb
    L = lb.Loopback()
    try:
        servers = {sk: L.listen([keys.priv[sk]], accept=True) for sk in ("A", "R")}
        for lib in ("Asyncssh", "Paramiko"):
            for sk in ("A", "R"):
                for strict in (None, True):
                    for relation in ("other_same", "other_type", "absent"):
                        for fmt in ("plain", "comma", "hashed"):
                            for method in ("password", "key", "both"):
                                port, slog = servers[sk]
                                text = gen_known_hosts(rep.rng, keys.pub, sk, relation, fmt, port)
                                kh = write_kh(text)
                                del slog[:]
                                fin, ename, _ = open_real(lib, port, strict, kh, method != "key", keys.client_key_path if method != "password" else "")
                                rep.case(("search", lib, sk, strict, relation, fmt, method, text))
                                if slog or fin != EV["FailAuth"]:
                                    rep.violation("search: %s server (key %s) recorded %s, attempt ended with %s" % (lib, sk, [e[0] for e in slog], ename or EVN.get(fin)),
                                                  {"suite": "hostkey-loopback", "case": {"lib": lib, "server_key": sk, "server_accepts": True, "strict_arg": strict,
                                                                                         "relation": relation, "format": fmt, "method": method, "known_hosts": text,
                                                                                         "port": port, "key_table": {n: v[1] for n, v in keys.pub.items()}}})
                                    return
    finally:
        L.close()


# ------------------------------------------------------------------------------------------------
def replay(path):
    r = json.load(open(path))
    c = r.get("case")
    if not c:
        print("nothing to replay (no concrete input): %s" % r.get("what"))
        return 1
    suite = r.get("suite") or c.get("suite")
    quiet_logs()
    workdir = os.path.join(common.BUILD, "C10_replay")
    os.makedirs(workdir, exist_ok=True)
    if suite == "hostkey-loopback":
        from . import c10_loopback as lb
        keys = Keys(workdir)
        L = lb.Loopback()
        try:
            sk = c["server_key"]
            port, slog = L.listen([keys.priv[sk]], accept=c.get("server_accepts", True))
            # the replay file stores the file with the keys of the run that found it: regenerate it with this
            # run's keys from (relation, format); a malformed file is replayed literally with the keys substituted
            import random
            rng = random.Random(0)
            host = c.get("dial") or HOST
            if c.get("alias_layout"):
                # an alias scenario: the file is rebuilt from its layout for this run's port and keys
                from . import c10_alias as AL
                text = AL.render(sys.modules[__name__], rng, c["alias_layout"], port, keys.pub)
            elif c.get("known_hosts") is not None and c.get("key_table"):
                # the file of the run that found it, with that run's (throw-away) keys and port replaced by this run's
                text = c["known_hosts"]
                for n, old in c["key_table"].items():
                    text = text.replace(old, "\0KEY_%s\0" % n)
                for n in c["key_table"]:
                    text = text.replace("\0KEY_%s\0" % n, keys.pub[n][1])
                text = text.replace("]:%d " % c.get("port", -1), "]:%d " % port)
            elif c.get("malformed"):
                print("malformed known_hosts case: regenerated with fresh keys from the same generator")
                text = gen_malformed_known_hosts(rng, keys.pub, sk, port)
            else:
                text = gen_known_hosts(rng, keys.pub, sk, c["relation"], c["format"], port, noise=False)
            kh = os.path.join(workdir, "kh")
            open(kh, "w").write(text)
            method = c["method"]
            fin, ename, _ = open_real(c["lib"], port, c["strict_arg"], kh, method != "key", keys.client_key_path if method != "password" else "",
                                      host=host)
            got = list(slog)
        finally:
            L.close()
        strict_eff = c["strict_arg"] is not False
        from . import c10_alias as AL2
        key_bad = not any(keys.pub[sk][1] in spec_entry_keys(text, n, port) for n in AL2.oracle_names(host))
        print("transport:", c["lib"], " auth_strict_key:", c["strict_arg"], " method:", method, " dialled:", host, "(server on 127.0.0.1:%d)" % port)
        print("known_hosts:\n" + text)
        print("server host key:", keys.pub[sk][0], keys.pub[sk][1][:32] + "...")
        print("open() ended with:", ename or EVN.get(fin))
        print("server recorded:", [(e[0], e[1], e[2] if e[0] == "password" else e[2][:16] + "...") for e in got])
        bad = strict_eff and key_bad and (bool(got) or fin != EV["FailAuth"])
        print("property FAILS on this input" if bad else "property holds on this input")
        return 1 if bad else 0
    if suite == "hostkey-history":
        from . import c10_hist as H
        return H.replay(sys.modules[__name__], c, workdir)
    if suite == "hostkey-order":
        keys = Keys(workdir)
        stubs = Stubs(workdir, keys.client_key_path)
        kh = os.path.join(workdir, "kh")
        open(kh, "w").write(c["known_hosts"])
        sc = c["scenario"]
        trace, ckw = stubs.run(c["lib"], sc, kh)
        stubs.restore()
        key_bad = sc["skey"] not in spec_entry_keys(c["known_hosts"], HOST, 22)
        print("transport:", c["lib"], "scenario:", sc)
        print("trace:", [EVN.get(e, e) for e in trace])
        why = oracle_trace(sc, trace, key_bad)
        print("property FAILS on this input: " + why if why else "property holds on this input")
        return 1 if why else 0
    if suite == "system-argv":
        argv, _ = run_build_open_cmd(c["args"])
        print("arguments:", c["args"])
        print("argv:", argv)
        why = oracle_argv(c["args"], argv)
        print("property FAILS on this input: " + why if why else "property holds on this input")
        return 1 if why else 0
    print("suite %s: re-run ./check C10 (driver-level / real-ssh cases are enumerated completely on every run)" % suite)
    print(json.dumps(c, indent=1))
    return 1


MANIFEST = {
    "text": "PARTIAL (ordering logic proved, wire protocol observed). Coq theorems (props/C10.v) over coq/model/HostKey.v, for ALL scenarios "
            "(strictness, lookup result, server key, credentials configured, what the server accepts): in strict mode, when the entry that "
            "SSHKnownHosts.lookup returns is missing or differs from the server key, the open() trace of the paramiko, ssh2 and asyncssh transports "
            "contains no Offer event and (after a successful key exchange) ends in ScrapliAuthenticationFailed; every Offer in strict mode is preceded "
            "by a successful value check; the pinned asyncssh transport (known_hosts=None) is refuted by a vm_compute witness and its partial "
            "(host absent) is proved; the system transport's argv, read the way ssh(1) reads it (getopt, first value wins), always yields "
            "StrictHostKeyChecking=yes and the resolved UserKnownHostsFile in strict mode whatever user open_cmd options follow, and =no only when "
            "auth_strict_key is False. Histories of ONE transport object (open, close, open again, any number of opens; the presented key, the "
            "lookup result and what the server accepts may differ at every open): run_history over step_open with the object's state = the keys "
            "seen in its earlier handshakes; proved for every history and every start state that each open produces the events of a first open in "
            "its own scenario (nothing remembered takes part), hence the per-open guarantee above holds at every open; the statement is refuted "
            "(vm_compute witness open-close-open) for a transport that verifies a key remembered on the object (first seen / previous); for the "
            "system transport every open of an object yields the same argv (open_cmd is kept), so StrictHostKeyChecking=yes / UserKnownHostsFile "
            "hold at every open. strict_default, the call order in open() and the set of attributes the library transports store on the object "
            "(constructor args, socket, session, channel / streams — no key, no verdict) are obligations over Gen_HostKey.v regenerated from the source. "
            "Observed, not proved: the real paramiko and asyncssh clients against in-process asyncssh servers that record every authentication "
            "attempt (a server whose key is missing from / different to known_hosts must record nothing), the argv a stand-in ssh on PATH receives, "
            "and the real ssh binary against the same servers; and the same three observers over histories: one driver / transport object (through "
            "transport.open()/close() and through Driver.open()/close()) opened against the genuine server, closed, and re-opened while the same "
            "address answers with another key (same type / other type), the reverse order, three opens, and known_hosts edited in place between "
            "the opens (entry replaced, removed, added, key roll + file update) — password and key auth, plain / hashed / comma entries; the oracle "
            "is applied to EVERY open with the file content and the presented key of that open. The file over time: every new version reaches the "
            "path in one of four ways — written in place or renamed over the old file, with the modification time moved on or PINNED to the old value "
            "(same-tick edit, cp -p, rsync -t; under a pinned time the versions are generated with the same shape, so that with keys of one type the "
            "size stays too) — for the stub transports (paramiko, ssh2, asyncssh), the real libraries, the stand-in ssh and the real ssh binary, on one "
            "object and with a NEW object per open over the same path. Coq: run_memo models a reader that may reuse what it read earlier "
            "(memo state = version read + entry found; reuse test as a parameter): proved transparent (every open gets the events of the entry its own "
            "content gives, hence the per-open guarantee with the content at that open deciding) whenever reuse implies equal content — in particular "
            "for the code as written, which never reuses (obligation over Gen_HostKey.v: SSHKnownHosts has no class-/module-level state, no cache "
            "decorator, no file-metadata call, reads and parses in __init__ with no early return, and the transports construct it inside every check) — "
            "and refuted by vm_compute witnesses for a memo revalidated by modification time, or by modification time and size. "
            "Host aliases (loopback, observed): the driver is given a NAME of the machine (localhost in two letter cases, further /etc/hosts names) "
            "while known_hosts carries the server's key under the peer address (plain, comma-listed, hashed, [addr]:port, hashed [addr]:port, a * pattern, "
            "a CIDR block), under another alias or an unrelated name, and nothing / another key / the right key under the dialled name; the oracle reads "
            "the entry FOR THE DIALLED NAME (generous: lower-cased too). Listed finding c10-asyncssh-peer-address-entry (replayed on every run): another "
            "key under the name + the server's key under the peer address => asyncssh trusts the union, the credentials go out before scrapli's own "
            "comparison raises; in Coq the unconditional statement for asyncssh is refuted by that witness and the hypothesis `agrees` of the "
            "partial is exactly the complement of that region. "
            "MARKER lines (@revoked, @cert-authority), trailing comments, blank and comment lines (c10_marker.py): the specification (sshd(8)) — a line "
            "with a marker is never a plain trust entry, so in strict mode no credential leaves unless a NON-marker line naming the host carries the "
            "presented key. Coq (HostKey.v khline / reader / lookup_lines): for EVERY reader that does not strip markers, first- or last-match, a key "
            "carried only by marker lines for the host, by lines of other hosts or by nothing is never the lookup result "
            "(C10_marker_lines_never_the_entry), hence nothing is offered and the attempt ends in ScrapliAuthenticationFailed for all three transports "
            "(C10_marker_protects_credentials); refuted by a vm_compute witness ('@revoked host K', the server presents K) for a reader that strips "
            "the marker and files the rest as an entry, with or without tolerating trailing comments (C10_marker_blind_reader_refuted). The code as "
            "written is reader_as_written (three-field lines only), tied by the marker-lookup correspondence: SSHKnownHosts(file).lookup(host) on "
            "every generated marker file equals lookup_lines reader_as_written over the generator's line list. Observed: 19 kinds of file — the "
            "presented key @revoked / @cert-authority for the host (alone, both, with a plain entry of ANOTHER key before / after), revoked under "
            "another host or under *, key rotation seen from the new key (plain right key + @revoked / @cert-authority old key: must open), trailing "
            "comments on plain and marker lines, blank / whitespace / comment / commented-out-entry lines around — in plain, comma-listed, |1| hashed "
            "and [host]:port form, over the stub libraries for paramiko, ssh2 and asyncssh (exact traces; the verdict the stub asyncssh acts out is the "
            "real matcher's for the file) and over the real paramiko and asyncssh clients against the recording servers (ed25519 and RSA host keys, "
            "password / key / both). The oracle's reader (spec_entry_keys) ignores every line that starts with @."
            " WILDCARD and NEGATED patterns (c10_pattern.py): the specification (sshd(8)) — the host field is a comma list of patterns, * and ? are "
            "wildcards, and a host matched by a `!`-negated pattern of a line is NOT matched by that line whatever its other patterns (a line of "
            "negations only matches nobody); so in strict mode nothing leaves for a host whose presented key sits only on lines that exclude it. "
            "Observed: 16 kinds of file around 127.0.0.1 — covered by * / ? patterns only (right / another key; generous oracle: listed, a literal "
            "reader refusing is allowed), wildcard + a negation of ANOTHER host, EXCLUDED by `!host` or by a negated pattern (`!*.0.0.1`, `!12*`) "
            "with the negation first / last / shuffled, among other hosts' names, with negations of both sorts, negation-only lines, excluded + a "
            "plain line of another key before / after, two excluding lines, excluded + plainly listed with the presented key (must open), noise "
            "lines of other hosts' patterns carrying the presented key — over the stub libraries for paramiko, ssh2 and asyncssh (exact traces vs "
            "open_trace, the stub asyncssh acting out the real matcher's verdict) and over the real paramiko and asyncssh clients against the "
            "recording servers; the oracle's reader (spec_entry_keys) implements the negation rule. "
            "RETRIES without close() (c10_hist NOCLOSE_KINDS, stub libraries, all three transports, exact traces): open() is called again on the "
            "SAME object with no close() after an open that failed at the host key verification (another key / host absent, twice, three times, "
            "entry edited away), after one the server rejected, and after one that succeeded while another server answers the retry — every open "
            "must verify the key presented to it; in Coq these are histories with no HClose step, covered by C10_history_* (run_history ignores "
            "HClose, the theorems quantify over every list of steps). The stub paramiko session answers is_active() like the library (true from a "
            "completed negotiation until close()).",
    "note": "Section variables / hypotheses: `lookup` (SSHKnownHosts parsing and lookup, owned by KnownHosts.v / C16) and `lib_verdict` (asyncssh's own "
            "known_hosts matcher) with hypothesis lib_agrees: when scrapli's lookup finds an entry, asyncssh trusts at most that entry's key — "
            "tested on every generated single-entry file, not proved; for two-line entries it is false and the property is then only observed. "
            "Trusted: Coq kernel + vm_compute; the hand model (tied by exact-trace correspondence over stub libraries — for ssh2 over a stand-in "
            "package since ssh2-python is not installed, so ssh2 has no real-library run — and by projection on loopback); OpenSSH's option grammar "
            "as modelled in HostKey.v (cross-checked against Python getopt with ssh.c's option string); the host key exchange, signature "
            "verification and authentication protocol inside paramiko / asyncssh / ssh are outside the model. A destination starting with '-' is "
            "excluded by hypothesis (host_ok; C17's region). Connect timeouts are not modelled. Conventions of the observation: an empty password "
            "reaching the server (asyncssh tries password='' when none is configured) is not counted as a credential; with two lines for the host the "
            "oracle accepts either key (OpenSSH semantics). Side effect of the repair 63ab4f6, observed in the malformed-file stream: asyncssh refuses "
            "known_hosts files with single-word lines, unknown @markers or broken |1| hashes with ValueError (fails closed, no credentials sent; the "
            "malformed stream only demands that nothing is offered, not the exception class); in strict mode KeyExchangeFailed / ConnectionLost from "
            "connect() are now ScrapliAuthenticationFailed (a server with no key of a known type fails the narrowed key exchange, nondeterministically "
            "as either of the two). Histories: the configuration of an object is fixed (arguments are not mutated between opens); what changes is the "
            "world (server key, known_hosts content, what the server accepts). The history model is tied by exact traces over the stubs "
            "(paramiko, ssh2 stand-in, asyncssh), by projection per open on loopback and by argv per open for the stand-in ssh; the real-ssh "
            "histories are oracle-only (ssh's own known_hosts handling is outside the model). After a FAILED open the harness closes the library "
            "session and the socket itself, as in the single-open suite: scrapli's paramiko close() only tears down when a channel exists, and a "
            "re-open over the socket left behind runs into paramiko's banner timeout (15 s, ScrapliConnectionNotOpened, nothing offered) — a "
            "lifecycle matter outside C10, kept out of the histories. The address whose server is exchanged is a TCP forwarder in front of the "
            "recording servers (c10_loopback.Loopback.switch). "
            "File versions: the model inputs of a history (what scrapli's lookup / asyncssh's matcher say about a version) are computed from a copy of "
            "that version under a path of its own, never from the history's path, so they depend on the content only; `inplace` and `rename` set the "
            "modification time 2 s ahead explicitly (no dependence on the clock tick), the pinned modes restore the old value with os.utime. run_memo is "
            "tied to the code by the generated facts only (there is no memo to drive); the real-ssh histories and the alias rows of the real-ssh suite "
            "are oracle-only. Aliases: the model takes scrapli's lookup of the dialled name and asyncssh's verdict for (dialled name, peer address "
            "127.0.0.1) as inputs and is compared by projection; the alias generator keeps away from the listed finding's region (asyncssh, dialled name "
            "listed with another key in a port-less form, peer address listed with the server's key), where lib_agrees is false (counted in "
            "coverage.correspondence_loopback.aliases). Numeric spellings of the address (127.1, 2130706433) are not used as aliases: ssh(1) rewrites "
            "them to the canonical address before the lookup, so they are the address, not another name. Which names exist depends on the machine's "
            "/etc/hosts (at least one is required, else the check reports the alias scenarios as not run). "
            "Marker files: the model's input is the generator's own record of each line (marker, trailing comment, names-the-host, key) — the rendering "
            "of that record to text is trusted, blank / comment lines are not in the record, a `[host]:port` line counts as NOT naming the host for "
            "SSHKnownHosts.lookup(host) (it is another id; the oracle's generous reader does count it), and all lines for the target in one file use one "
            "entry form, so that the pick among several (literal ids: the last line; |1| ids: the first) is uniform; host-name matching itself stays "
            "C16's (KnownHosts.v). A key that is BOTH on a plain line and on an @revoked line for the host (OpenSSH refuses it, scrapli's reader never "
            "sees @revoked lines) is not generated and not covered by the oracle, which only demands the necessary condition above; the histories "
            "(c10_hist) and the real-ssh rows do not use marker files. "
            "Pattern files: host-name matching (wildcards, negation) is NOT in the Coq model — the model takes SSHKnownHosts.lookup's result as its "
            "input, so on which-line-names-the-host these scenarios are oracle-only (spec_entry_keys on the text); the ordering of open() on them is "
            "model-compared. Conventions of the oracle: a negated pattern excludes the line when it matches the bare host or its [host]:port "
            "spelling; the bare * is generated only on lines without a negation (OpenSSH looks a non-default port up as [host]:port, which `*` "
            "matches and `!host` does not — that corner is left out; the malformed stream still has `!host,*` and only demands that nothing is "
            "offered). NOT generated: a line that names the host literally AND excludes it by a negation (`127.0.0.1,!127.0.0.? KEY`): the pinned "
            "reader matches names literally and would take it as an entry although OpenSSH does not — a contradictory line, outside the families; "
            "pattern files are not used with aliases, the histories or the real ssh binary. "
            "Retries without close() run over the stub libraries only: with the real paramiko a second open() over the socket and session a failed "
            "open left behind runs into the 15 s banner timeout (see above), so there is no real-library run of a no-close retry.",
    "technique": "Coq proofs by case analysis over an event-trace model + generated-definition obligations + vm_compute correspondence against stubbed "
                 "and real (loopback) SSH libraries with recording servers",
}
