"""Helpers private to the C17 check (kept out of common.py): an importable stand-in for the optional
third-party `ssh2` package (only so that scrapli's own Ssh2Transport *class* can be constructed — it is
never opened), str -> Coq code-point lists, an independent Python reading of ssh's command line."""
import importlib
import sys
import types


def ensure_ssh2_importable():
    """returns "real" if ssh2-python is installed, "stub" if a stand-in module tree was installed."""
    try:
        importlib.import_module("ssh2.session")
        return "real"
    except Exception:  # noqa
        pass
    root = types.ModuleType("ssh2")
    root.__path__ = []
    ch = types.ModuleType("ssh2.channel")
    ex = types.ModuleType("ssh2.exceptions")
    se = types.ModuleType("ssh2.session")

    class Channel:  # noqa
        pass

    class Session:  # noqa
        pass

    class SSH2Error(Exception):
        pass

    class AuthenticationError(SSH2Error):
        pass

    ch.Channel, se.Session, ex.SSH2Error, ex.AuthenticationError = Channel, Session, SSH2Error, AuthenticationError
    root.channel, root.exceptions, root.session = ch, ex, se
    sys.modules.update({"ssh2": root, "ssh2.channel": ch, "ssh2.exceptions": ex, "ssh2.session": se})
    return "stub"


_PREFIX = {"root": None}


def set_prefix(root):
    """strings starting with the fixture root are emitted as (FX ++ ...) to keep the case files small"""
    _PREFIX["root"] = root


def _plain(s):
    if s and all(32 <= ord(c) <= 126 for c in s):
        return '(lit "%s")' % s.replace('"', '""')
    return "[" + ";".join(str(ord(c)) for c in s) + "]"


def coq_str(s):
    """python str -> Coq list of code points (printable ASCII through the string-literal notation)"""
    root = _PREFIX["root"]
    if root and s.startswith(root):
        rest = s[len(root):]
        return "(FX ++ %s)" % _plain(rest) if rest else "FX"
    return _plain(s)


def coq_opt(x, f):
    return "None" if x is None else "(Some %s)" % f(x)


# ------------------------------------------------------------------------------------------------
# ssh(1) command line as OpenSSH reads it — written from ssh.c, independently of coq/model/SshArgv.v
# ------------------------------------------------------------------------------------------------
SSH_OPTSTRING = "1246ab:c:e:fgi:kl:m:no:p:qstvxAB:CD:E:F:GI:J:KL:MNO:PQ:R:S:TVw:W:XYy"


class SshUsage(Exception):
    pass


def _getopt(av, opts):
    """BSD getopt (no permutation) from av[0]; returns (remaining, terminated_by_dashdash)."""
    i = 0
    while i < len(av):
        a = av[i]
        if len(a) < 2 or a[0] != "-":
            return av[i:], False
        if a == "--":
            return av[i + 1:], True
        j = 1
        i += 1
        while j < len(a):
            c = a[j]
            j += 1
            k = SSH_OPTSTRING.find(c)
            if c in ":-" or k < 0:
                raise SshUsage("unknown option -%s" % c)
            if k + 1 < len(SSH_OPTSTRING) and SSH_OPTSTRING[k + 1] == ":":
                if j < len(a):
                    val = a[j:]
                else:
                    if i >= len(av):
                        raise SshUsage("option -%s requires an argument" % c)
                    val = av[i]
                    i += 1
                opts.append((c, val))
                break
            opts.append((c, None))
    return [], False


def py_ssh_parse(argv):
    """-> dict(dest, port, user, ids, cfgfile, o (list), command) ; raises SshUsage."""
    opts = []
    rest, term = _getopt(list(argv[1:]), opts)
    if not rest:
        raise SshUsage("no destination")
    dest, rest = rest[0], rest[1:]
    command = rest
    if rest and not term:
        command, _ = _getopt(rest, opts)
    out = {"dest": dest, "port": None, "user": None, "ids": [], "cfgfile": None, "o": [], "command": command,
           "flags": [c for c, v in opts if v is None]}
    for c, v in opts:
        if v is None:
            continue
        if c == "p":
            if out["port"] is None:
                out["port"] = v
        elif c == "l":
            if out["user"] is None:
                out["user"] = v
        elif c == "i":
            out["ids"].append(v)
        elif c == "F":
            out["cfgfile"] = v
        elif c == "o":
            out["o"].append(v)
    return out


def o_get(olist, key):
    for x in olist:
        k, eq, v = x.partition("=")
        if eq and k.lower() == key.lower():
            return v
    return None
