"""C01 helpers: the framing device (the Python twin of the device of coq/model/Channel.v), content-aware
chunk policies, and `run_connection`, which drives a REAL scrapli driver (sync or asyncio) through a
history of operations over the scripted transports of harness/simdevice.py and records what it saw.

The device is causal and line oriented: it echoes input bytes, executes a line on the return
character and prints  nl + output + nl + prompt  (nl + prompt for an empty output or a blank line).
A line may start a dialogue: the device prints a text and a question (no newline after the
question) and waits for an answer, echoed or hidden, any number of times, then prints the final
output and the prompt.  What line ran and what it printed is the device's own log: the oracle."""
import asyncio

BLANKS = (32, 9)


def b2s(b):
    return bytes(b).decode("latin-1")


def s2b(s):
    return s.encode("latin-1")


class FramingDevice:
    def __init__(self, prompt, nl=b"\r\n", replies=None):
        self.prompt_b = bytes(prompt)
        self.nl = bytes(nl)
        self.replies = list(replies or [])  # by execution index: ("plain", out) | ("dialog", [(text, question, echo)], final)
        self.line = bytearray()
        self.skip_lf = False
        self.mode = None                    # None: ready; else [echo, remaining stages, final]
        self.count = 0
        self.log = []                       # (raw line, clean text printed in answer to it)
        self.out = bytearray()
        self.rx = bytearray()
        self.closed = False

    def start(self):
        self.out += self.prompt_b

    def body(self, text):
        return (text.replace(b"\n", self.nl) + self.nl) if text else b""

    @staticmethod
    def clean_body(text):
        return (text + b"\n") if text else b""

    def feed(self, data):
        self.rx += data
        for c in data:
            if c == 13:
                self.skip_lf = True
                self._return()
            elif c == 10:
                if self.skip_lf:
                    self.skip_lf = False
                    continue
                self._return()
            else:
                self.skip_lf = False
                self.line.append(c)
                if self.mode is None or self.mode[0]:
                    self.out.append(c)

    def _stage(self, raw, stages, final):
        if stages:
            text, question, echo = stages[0]
            self.mode = [bool(echo), list(stages[1:]), final]
            self.log.append((raw, self.clean_body(text) + question))
            self.out += self.nl + self.body(text) + question
        else:
            self.mode = None
            self.log.append((raw, final))
            self.out += self.nl + self.body(final) + self.prompt_b

    def _return(self):
        raw = bytes(self.line)
        self.line = bytearray()
        if self.mode is not None:
            _, rest, final = self.mode
            self._stage(raw, rest, final)
            return
        key = raw.strip(b" \t\n\r\x0b\x0c")
        if not key:
            self.out += self.nl + self.prompt_b
            return
        rep = self.replies[self.count] if self.count < len(self.replies) else ("plain", b"")
        self.count += 1
        if rep[0] == "plain":
            self._stage(raw, [], rep[1])
        else:
            self._stage(raw, list(rep[1]), rep[2])


class PolicyChunker:
    """policy: ["whole"] | ["bytes", n] | ["takes", [n...]] (cyclic) | ["blank"] (stop before trailing
    blanks) | ["lines"] (through the first newline) | ["cuts", [absolute offsets]] |
    ["tail", k] (all but the last k pending bytes at once, then byte by byte).
    take(k, delivered, pending bytes) -> n   (clamped to 1..len(pending) by the transport)"""

    def __init__(self, policy, device):
        self.policy = list(policy)
        self.device = device
        self.k = 0

    def take(self, delivered, npending):
        pending = bytes(self.device.out[delivered:delivered + npending])
        k = self.k
        self.k += 1
        p = self.policy
        if p[0] == "whole":
            n = npending
        elif p[0] == "bytes":
            n = p[1]
        elif p[0] == "takes":
            n = p[1][k % len(p[1])] if p[1] else 1
        elif p[0] == "blank":
            tb = 0
            while tb < len(pending) and pending[len(pending) - 1 - tb] in BLANKS:
                tb += 1
            n = npending - tb if 0 < tb < npending else npending
        elif p[0] == "lines":
            i = pending.find(b"\n")
            n = i + 1 if i >= 0 else npending
        elif p[0] == "tail":
            n = npending - p[1] if npending > p[1] else 1
        elif p[0] == "cuts":
            n = npending
            for c in sorted(p[1]):
                if delivered < c < delivered + npending:
                    n = c - delivered
                    break
        else:
            raise ValueError(p)
        return max(1, min(npending, n))


class _Shim:
    def __init__(self, host, user="admin", submode="", banner=""):
        self.host, self.user, self.submode, self.banner = host, user, submode, banner


def platform_prompt(kind, host):
    """the prompt a device of that vendor prints at the driver's default level (vendor tables of simdevice)"""
    from .simdevice import PLATFORMS
    plat = "cisco_iosxe" if kind == "network" else kind
    t = PLATFORMS[plat]()
    mode = t["login_modes"][-1]
    return t["prompt"](_Shim(host), mode).encode()


def run_connection(scn, capture=None):
    """scn: kind, stack, prompt (latin-1 str), nl, ret, policy, replies, ops.  Returns
    {"open_exc", "residue0", "ops": [obs...], "log", "written", "residue"}."""
    from .simdevice import Runner, Starved, make_driver

    kind, stack = scn["kind"], scn["stack"]
    replies = []
    for r in scn["replies"]:
        if "stages" in r:
            replies.append(("dialog", [(s2b(t), s2b(q), bool(e)) for t, q, e in r["stages"]], s2b(r["final"])))
        else:
            replies.append(("plain", s2b(r["out"])))
    dev = FramingDevice(s2b(scn["prompt"]), s2b(scn.get("nl", "\r\n")), [])
    dev.start()
    kw = {}
    if scn.get("ret", "\n") != "\n":
        kw["comms_return_char"] = scn["ret"]
    d = make_driver(kind, stack, dev, ("whole",), **kw)
    if scn.get("depth") is not None:
        d.channel._base_channel_args.comms_prompt_search_depth = scn["depth"]
    run = Runner(stack)
    res = {"open_exc": None, "ops": []}
    sent = []   # (raw, processed) as returned by the channel, per channel call

    def wrap(name):
        orig = getattr(d.channel, name)
        if stack == "sync":
            def f(*a, **k):
                r = orig(*a, **k)
                sent.append((name, r))
                return r
        else:
            async def f(*a, **k):
                r = await orig(*a, **k)
                sent.append((name, r))
                return r
        setattr(d.channel, name, f)

    try:
        try:
            run.call(d.open)
        except Starved:
            res["open_exc"] = "Starved"
            return res
        except Exception as e:  # noqa
            res["open_exc"] = type(e).__name__
            return res
        if kind == "network":
            # a bare NetworkDriver has no on_open: do what every platform on_open starts with (reads the login
            # prompt off the channel and establishes the current privilege level)
            run.call(d.acquire_priv, d.default_desired_privilege_level)
        # the history proper starts here: the scenario's device script and chunk policy
        dev.replies = replies
        dev.count = 0
        dev.log = []
        w0 = len(d.transport.writes)
        r0 = len(d.transport.reads)
        d.transport.chunker = PolicyChunker(scn["policy"], dev)
        res["residue0"] = d.transport.residue()
        res["delivered0"] = d.transport.delivered
        wrap("send_input")
        wrap("send_inputs_interact")
        # observer: what the device had printed that was still unread at the moment of every write (black box: the
        # transport's write is wrapped on the instance; the channel code is untouched)
        wlog = []
        t_write = d.transport.write

        def observed_write(channel_input):
            wlog.append((bytes(channel_input), d.transport.residue(), dev.mode is None))
            return t_write(channel_input)

        d.transport.write = observed_write
        for op in scn["ops"]:
            o = {"exc": None}
            del sent[:]
            del wlog[:]
            l0 = len(dev.log)
            try:
                if op["op"] == "cmd":
                    r = run.call(d.send_command, op["cmd"], strip_prompt=op["strip"])
                    o["resp"] = [(r.raw_result, r.result, r.failed, r.channel_input)]
                elif op["op"] == "cmds":
                    r = run.call(d.send_commands, list(op["cmds"]), strip_prompt=op["strip"], eager=bool(op.get("eager")))
                    o["resp"] = [(x.raw_result, x.result, x.failed, x.channel_input) for x in r]
                elif op["op"] == "inter":
                    evs = [tuple(e) if e[2] is not None else (e[0], e[1]) for e in op["events"]]
                    kw2 = {}
                    if op.get("complete") is not None:
                        kw2["interaction_complete_patterns"] = list(op["complete"])
                    r = run.call(d.send_interactive, evs, **kw2)
                    o["resp"] = [(r.raw_result, r.result, r.failed, r.channel_input)]
                elif op["op"] == "prompt":
                    o["prompt"] = run.call(d.get_prompt)
                elif op["op"] == "setpat":
                    # the user changes the prompt pattern of the OPEN connection (no traffic): through the driver attribute,
                    # through the channel's arguments, or by editing privilege levels and calling update_privilege_levels()
                    if op["via"] == "driver":
                        d.comms_prompt_pattern = op["pattern"]
                    elif op["via"] == "args":
                        d.channel._base_channel_args.comms_prompt_pattern = op["pattern"]
                    elif op["via"] == "privs":
                        for lname, lpat in sorted(op["levels"].items()):
                            d.privilege_levels[lname].pattern = lpat
                        d.update_privilege_levels()
                    else:
                        raise ValueError(op)
                    o["pattern"] = [d.comms_prompt_pattern, d.channel._base_channel_args.comms_prompt_pattern]
                else:
                    raise ValueError(op)
            except Starved:
                o["exc"] = "Starved"
            except Exception as e:  # noqa
                o["exc"] = type(e).__name__
            o["chan"] = [(n, bytes(a), bytes(b)) for n, (a, b) in sent]
            o["log"] = list(dev.log[l0:])
            o["writes"] = list(wlog)
            o["residue"] = d.transport.residue()
            o["ready"] = dev.mode is None and not dev.line
            res["ops"].append(o)
            if o["exc"]:
                break
        res["written"] = b"".join(d.transport.writes[w0:])
        res["log"] = list(dev.log)
        res["residue"] = d.transport.residue()
        res["reads"] = len(d.transport.reads)
        res["chunks"] = list(d.transport.reads[r0:])      # what every transport read of the history handed out
        if capture is not None:
            capture["driver"] = d
            capture["device"] = dev
    finally:
        run.close()
    return res
